#!/bin/bash
# dev helper: rebuild and run N cases of an op
export GOFLAGS=-mod=mod GOPROXY=off GOSUMDB=off GOTOOLCHAIN=local GOWORK=off
op=${1:-value}; n=${2:-2000}; seed=${3:-1}
(cd /verif/harness && go build -tags verif -o /verif/bin/harness .) || exit 1
(cd /verif/lean && lake build driver 2>&1 | grep -A12 '^error' | head -60)
/verif/bin/harness gen $op --seed $seed --n $n | /verif/bin/harness run > /tmp/v.jsonl && /verif/lean/.lake/build/bin/driver < /tmp/v.jsonl > /tmp/r.jsonl
python3 - <<'PY'
import json,collections
rs=[json.loads(l) for l in open('/tmp/r.jsonl')]
print(len(rs), 'cases; mismatches:', sum(1 for r in rs if not r['same']))
codes=collections.Counter((f['prop'],f['code']) for r in rs for f in r['fails'])
for k,v in sorted(codes.items()): print(' ',k,v)
n=0
for r in rs:
    if not r['same'] and n<5:
        n+=1; print(r['id'], r['diff'][:700])
PY
