# Runner core: builds, runs harness | driver, classifies, writes evidence, prints verdict lines.
# python3 stdlib only.
import fcntl
import hashlib
import json
import os
import re
import shutil
import subprocess
import sys
import tempfile
import time

VERIF = os.path.dirname(os.path.dirname(os.path.abspath(__file__)))
REPO = os.environ.get("VERIF_REPO", "/repo")
LEAN = os.path.join(VERIF, "lean")
BIN = os.path.join(VERIF, "bin")
SCRATCH = os.path.join(VERIF, ".scratch")
GEN = os.path.join(LEAN, "Carapace", "Gen")

GOENV = dict(os.environ)
GOENV.update({"GOFLAGS": "-mod=mod", "GOPROXY": "off", "GOSUMDB": "off", "GOTOOLCHAIN": "local", "GOWORK": "off"})

ALLOWED_AXIOMS = {"propext", "Classical.choice", "Quot.sound"}
FORBIDDEN = re.compile(r"\b(sorry|admit|native_decide|bv_decide|implemented_by|maxHeartbeats 0)\b|^\s*axiom\s|\bunsafe\s", re.M)


def log(*a):
    print(*a, file=sys.stderr, flush=True)


class Lock:
    """serialises everything that writes Gen/, .lake/ and bin/"""

    def __enter__(self):
        os.makedirs(SCRATCH, exist_ok=True)
        self.f = open(os.path.join(VERIF, ".lock"), "w")
        fcntl.flock(self.f, fcntl.LOCK_EX)
        return self

    def __exit__(self, *a):
        fcntl.flock(self.f, fcntl.LOCK_UN)
        self.f.close()


def run(cmd, cwd=None, env=None, timeout=3600, stdin=None):
    p = subprocess.run(cmd, cwd=cwd, env=env, stdout=subprocess.PIPE, stderr=subprocess.STDOUT,
                       timeout=timeout, input=stdin)
    return p.returncode, p.stdout.decode("utf-8", "replace")


# ------------------------------------------------------------------ builds

def build_tools():
    """extractor binary (does not depend on /repo)"""
    os.makedirs(BIN, exist_ok=True)
    rc, out = run(["go", "build", "-o", os.path.join(BIN, "extract"), "."], cwd=os.path.join(VERIF, "extract"), env=GOENV)
    if rc != 0:
        raise RuntimeError("extractor build failed:\n" + out)


def extract():
    """re-read /repo and rewrite lean/Carapace/Gen (only files whose content changed)"""
    if not os.path.exists(os.path.join(BIN, "extract")):
        build_tools()
    tmp = tempfile.mkdtemp(dir=SCRATCH)
    try:
        outdir = os.path.join(tmp, "lean", "Carapace", "Gen")
        os.makedirs(outdir)
        rc, out = run([os.path.join(BIN, "extract"), REPO, outdir])
        if rc != 0:
            return False, out
        os.makedirs(GEN, exist_ok=True)
        new = set(os.listdir(outdir))
        for f in os.listdir(GEN):
            if f not in new:
                os.remove(os.path.join(GEN, f))
        for f in new:
            src = os.path.join(outdir, f)
            dst = os.path.join(GEN, f)
            if not os.path.exists(dst) or open(src, "rb").read() != open(dst, "rb").read():
                shutil.copyfile(src, dst)
        facts = os.path.join(tmp, "gen", "facts.json")
        os.makedirs(os.path.join(VERIF, "gen"), exist_ok=True)
        if os.path.exists(facts):
            shutil.copyfile(facts, os.path.join(VERIF, "gen", "facts.json"))
        return True, out
    finally:
        shutil.rmtree(tmp, ignore_errors=True)


def lake_build(target):
    rc, out = run(["lake", "build", target], cwd=LEAN, timeout=3600)
    errors = []
    for m in re.finditer(r"^error: ([^\n]*)", out, re.M):
        errors.append(m.group(1))
    return rc == 0, out, errors


def build_driver():
    ok, out, errors = lake_build("driver")
    src = os.path.join(LEAN, ".lake", "build", "bin", "driver")
    dst = os.path.join(BIN, "driver")
    if ok and os.path.exists(src):
        os.makedirs(BIN, exist_ok=True)
        if not os.path.exists(dst) or os.path.getmtime(src) > os.path.getmtime(dst):
            shutil.copyfile(src, dst + ".tmp")
            os.chmod(dst + ".tmp", 0o755)
            os.replace(dst + ".tmp", dst)
        return True, out
    return False, out


def build_harness(race=False):
    os.makedirs(BIN, exist_ok=True)
    gosum = b""
    for p in (os.path.join(REPO, "go.sum"), os.path.join(REPO, "example-nonposix", "go.sum")):
        if os.path.exists(p):
            gosum += open(p, "rb").read()
    lines = sorted(set(gosum.decode().splitlines()))
    hs = os.path.join(VERIF, "harness", "go.sum")
    new = "\n".join(lines) + "\n"
    if not os.path.exists(hs) or open(hs).read() != new:
        open(hs, "w").write(new)
    name = "harness-race" if race else "harness"
    modfile = []
    if os.path.abspath(REPO) != "/repo":
        # another checkout of the repository (VERIF_REPO): same module file with the replace line redirected
        os.makedirs(SCRATCH, exist_ok=True)
        mod = open(os.path.join(VERIF, "harness", "go.mod")).read().replace("=> /repo", "=> " + os.path.abspath(REPO))
        open(os.path.join(SCRATCH, "harness.mod"), "w").write(mod)
        open(os.path.join(SCRATCH, "harness.sum"), "w").write(new)
        modfile = ["-modfile=" + os.path.join(SCRATCH, "harness.mod")]
    cmd = ["go", "build", "-tags", "verif"] + modfile + (["-race"] if race else []) + ["-o", os.path.join(BIN, name + ".new"), "."]
    rc, out = run(cmd, cwd=os.path.join(VERIF, "harness"), env=GOENV, timeout=1200)
    if rc != 0:
        return False, out
    os.replace(os.path.join(BIN, name + ".new"), os.path.join(BIN, name))
    return True, out


# ------------------------------------------------------------------ Lean side: theorems and audit

def theorems_in(path):
    if not os.path.exists(path):
        return []
    src = open(path).read()
    src = re.sub(r"/-.*?-/", "", src, flags=re.S)
    src = re.sub(r"--[^\n]*", "", src)
    return re.findall(r"^\s*(?:private\s+|protected\s+)?theorem\s+([^\s({\[:]+)", src, re.M)


def module_path(mod):
    return os.path.join(LEAN, *mod.split(".")) + ".lean"


def namespace_of(path):
    src = open(path).read()
    m = re.search(r"^namespace\s+([\w.]+)", src, re.M)
    return m.group(1) if m else ""


def grep_forbidden(paths):
    hits = []
    for p in paths:
        if not os.path.exists(p):
            continue
        src = open(p).read()
        src = re.sub(r"/-.*?-/", "", src, flags=re.S)
        src = re.sub(r"--[^\n]*", "", src)
        for m in FORBIDDEN.finditer(src):
            hits.append("%s: %s" % (os.path.relpath(p, LEAN), m.group(0).strip()))
    return hits


def audit(modules):
    """#print axioms for every theorem of the given modules; returns (axioms per theorem, problems)"""
    names = []
    for mod in modules:
        p = module_path(mod)
        ns = namespace_of(p)
        for t in theorems_in(p):
            names.append((ns + "." + t) if ns else t)
    if not names:
        return {}, ["no theorems found"]
    os.makedirs(SCRATCH, exist_ok=True)
    fd, path = tempfile.mkstemp(suffix=".lean", dir=SCRATCH)
    with os.fdopen(fd, "w") as f:
        for mod in modules:
            f.write("import %s\n" % mod)
        for n in names:
            f.write("#print axioms %s\n" % n)
    try:
        rc, out = run(["lake", "env", "lean", path], cwd=LEAN, timeout=1800)
    finally:
        os.remove(path)
    axioms = {}
    problems = []
    # output: "'Name' depends on axioms: [a, b]" or "'Name' does not depend on any axioms"
    for m in re.finditer(r"^'(.+)' depends on axioms: \[([^\]]*)\]", out, re.M):
        ax = [a.strip() for a in m.group(2).replace("\n", " ").split(",") if a.strip()]
        axioms[m.group(1)] = ax
        bad = [a for a in ax if a not in ALLOWED_AXIOMS]
        if bad:
            problems.append("%s depends on %s" % (m.group(1), bad))
    for m in re.finditer(r"^'(.+)' does not depend on any axioms", out, re.M):
        axioms[m.group(1)] = []
    for n in names:
        if n not in axioms:
            problems.append("no axiom report for %s" % n)
    if rc != 0 and not axioms:
        problems.append("audit failed: " + out[-2000:])
    return axioms, problems


# ------------------------------------------------------------------ harness | driver

def harness_gen(op, seed, n, tier, start=0):
    rc = subprocess.run([os.path.join(BIN, "harness"), "gen", op, "--seed", str(seed), "--n", str(n), "--tier", tier,
                         "--start", str(start)], stdout=subprocess.PIPE, stderr=subprocess.PIPE, timeout=3600)
    if rc.returncode != 0:
        raise RuntimeError("harness gen failed: " + rc.stderr.decode()[-2000:])
    return [l for l in rc.stdout.decode("utf-8").split("\n") if l]


def parse_races(stderr_text):
    """race detector reports per case id (the harness prints `CASE <id>` markers when VERIF_MARK is set)"""
    races = {}
    cur = None
    for seg in re.split(r"\nCASE ", "\n" + stderr_text):
        if not seg.strip():
            continue
        head, _, body = seg.partition("\n")
        cur = head.strip()
        n = body.count("WARNING: DATA RACE")
        if n:
            m = re.search(r"WARNING: DATA RACE.*?(?=\n==================|\Z)", body, re.S)
            races[cur] = (n, (m.group(0) if m else body)[:3000])
    return races


PARALLEL_OPS = ("entry", "entrywb")


def run_cases(lines, harness="harness", timeout=7200, race_prop="C09"):
    """lines: JSON strings with op,id,in. Returns list of (case_with_out, verdict)."""
    if not lines:
        return []
    # ops that spend their time in child processes are spread over the cores (order is kept)
    def op_of(l):
        m = re.search(r'"op":\s*"(\w+)"', l[:80])
        return m.group(1) if m else ""
    # large runs (thorough tier) are spread over the cores whatever the op: every case is independent and
    # every harness process has its own scratch directories
    big = len(lines) >= 20000
    par = [k for k, l in enumerate(lines) if big or op_of(l) in PARALLEL_OPS] if harness == "harness" else []
    if len(par) >= 64:
        import concurrent.futures
        seq = [k for k in range(len(lines)) if not big and op_of(lines[k]) not in PARALLEL_OPS]
        n = min(os.cpu_count() or 4, 16, max(1, len(par) // 16))
        step = (len(par) + n - 1) // n
        chunks = [par[i:i + step] for i in range(0, len(par), step)]
        with concurrent.futures.ThreadPoolExecutor(max_workers=n) as ex:
            parts = list(ex.map(lambda c: _run_cases_seq([lines[k] for k in c], harness, timeout, race_prop), chunks))
        res = [None] * len(lines)
        for c, p in zip(chunks, parts):
            for k, r in zip(c, p):
                res[k] = r
        for k, r in zip(seq, _run_cases_seq([lines[k] for k in seq], harness, timeout, race_prop)):
            res[k] = r
        return [r for r in res if r is not None]
    return _run_cases_seq(lines, harness, timeout, race_prop)


def _run_cases_seq(lines, harness="harness", timeout=7200, race_prop="C09"):
    if not lines:
        return []
    data = ("\n".join(lines) + "\n").encode("utf-8")
    env = dict(os.environ)
    if harness.endswith("-race"):
        env["VERIF_MARK"] = "1"
        env["GORACE"] = "halt_on_error=0 exitcode=0"
    h = subprocess.run([os.path.join(BIN, harness), "run"], input=data, stdout=subprocess.PIPE, stderr=subprocess.PIPE,
                       timeout=timeout, cwd=SCRATCH, env=env)
    outs = [l for l in h.stdout.decode("utf-8", "replace").split("\n") if l]
    crashed = None
    if h.returncode != 0 or len(outs) != len(lines):
        # the harness died on a case: the next input is the culprit
        crashed = {"index": len(outs), "stderr": h.stderr.decode("utf-8", "replace")[-4000:], "rc": h.returncode}
    d = subprocess.run([os.path.join(BIN, "driver")], input=("\n".join(outs) + "\n").encode("utf-8"),
                       stdout=subprocess.PIPE, stderr=subprocess.PIPE, timeout=timeout)
    verdicts = [l for l in d.stdout.decode("utf-8", "replace").split("\n") if l]
    if d.returncode != 0 or len(verdicts) != len(outs):
        raise RuntimeError("driver failed (rc=%s, %d verdicts for %d cases): %s" %
                           (d.returncode, len(verdicts), len(outs), d.stderr.decode("utf-8", "replace")[-2000:]))
    res = []
    races = parse_races(h.stderr.decode("utf-8", "replace")) if harness.endswith("-race") else {}
    for o, v in zip(outs, verdicts):
        c, vv = json.loads(o), json.loads(v)
        if c.get("id") in races:
            n, rep = races[c["id"]]
            funcs = sorted(set(re.findall(r"github\.com/carapace-sh/carapace[\w./()*]*", rep)))[:8]
            vv.setdefault("fails", []).append({"prop": race_prop, "code": "data_race", "detail": "%d report(s); %s\n%s" % (n, " ".join(funcs), rep[:1500])})
        res.append((c, vv))
    if crashed is not None:
        bad = json.loads(lines[crashed["index"]]) if crashed["index"] < len(lines) else {}
        res.append((bad, {"id": bad.get("id", "?"), "op": bad.get("op", "?"), "same": False,
                          "diff": "harness crashed: rc=%s %s" % (crashed["rc"], crashed["stderr"][-1500:]),
                          "fails": [{"prop": "C18", "code": "harness_crash", "detail": crashed["stderr"][-1500:]}],
                          "crash": True}))
        # continue after the crashing case
        rest = lines[crashed["index"] + 1:]
        if rest:
            res.extend(_run_cases_seq(rest, harness, timeout, race_prop))
    return res


def case_line(op, cid, inp):
    return json.dumps({"op": op, "id": cid, "in": inp}, ensure_ascii=False)


def digest(obj):
    return hashlib.sha1(json.dumps(obj, sort_keys=True, ensure_ascii=False).encode("utf-8")).hexdigest()[:16]
