# Known-finding classes.  A class is an *input neutraliser*: a predicate on the case input
# and a transformation that removes the feature the finding is about.  A failing case is
# attributed to listed findings only if it no longer fails after all applicable listed
# classes were neutralised; otherwise it is a new violation.  Which classes are listed is
# decided by /verif/KNOWN_FINDINGS.txt (never written at run time).
import copy
import re

TCL = "\t\r\n"


def _map_value_fields(inp, f, fields=("value", "display", "description")):
    out = copy.deepcopy(inp)
    for v in out.get("values") or []:
        for k in fields:
            v[k] = f(v.get(k, ""))
    if "value" in fields:
        out["word"] = f(out.get("word", ""))
    return out


def _has(inp, chars, fields=("value",)):
    # error entries are built from the typed word: it counts as a value when messages exist
    if "value" in fields and (inp.get("meta") or {}).get("messages") and any(c in inp.get("word", "") for c in chars):
        return True
    for v in inp.get("values") or []:
        for k in fields:
            if any(c in v.get(k, "") for c in chars):
                return True
    return False


def _repl(chars, to="x"):
    return lambda s: "".join(to if c in chars else c for c in s)


def _strip(chars):
    return lambda s: "".join(c for c in s if c not in chars)


class Class:
    def __init__(self, cid, props, ops, applies, neutralise, what):
        self.id, self.props, self.ops, self.applies, self.neutralise, self.what = cid, props, ops, applies, neutralise, what


def sh(name):
    return lambda i: i.get("shell") == name


def both(*ps):
    return lambda i: all(p(i) for p in ps)


def _word_ends_e(i):
    # the filler `_` only exists for exactly one message and no candidate that survives the filter
    msgs = (i.get("meta") or {}).get("messages") or []
    if len(set(msgs)) != 1 or re.search(r"E$|ER$|ERR$", i.get("word", "")) is None:
        return False
    w = i.get("word", "")
    env = i.get("env") or {}
    n = 0
    for v in i.get("values") or []:
        val = v.get("value", "")
        if env.get("unfiltered") or val.startswith(w) or (env.get("ci") and val.lower().startswith(w.lower())):
            n += 1
    return n == 0


def _neutral_word_e(i):
    o = copy.deepcopy(i)
    o["word"] = re.sub(r"(ERR|ER|E)$", "", o["word"])
    while re.search(r"E$|ER$|ERR$", o["word"]):
        o["word"] = re.sub(r"(ERR|ER|E)$", "", o["word"])
    return o


def _neutral_ci(i):
    o = copy.deepcopy(i)
    o["env"]["ci"] = False
    o["env"]["unfiltered"] = False
    if o["env"].get("boolVal"):
        # the text the boolean switches are set to overrides the flags: switch it off as well
        o["env"]["boolVal"] = "0"
        o["env"]["nocolor"] = False
    return o


def _all_fields(i, f):
    o = _map_value_fields(i, f)
    m = o.get("meta") or {}
    m["messages"] = [f(x) for x in (m.get("messages") or [])]
    m["usage"] = f(m.get("usage", ""))
    return o


def _has_any_field(i, chars):
    if _has(i, chars, ("value", "display", "description")):
        return True
    m = i.get("meta") or {}
    return any(c in x for x in (m.get("messages") or []) for c in chars)


def _oil_neutral(i):
    # oil performs no quoting at all: neutralise every character its reader treats specially
    special = " \t\n\r\\'\"$`*?[{|&;()<>#="
    o = _map_value_fields(i, _repl(special), ("value",))
    o["word"] = _repl(special)(o.get("word", ""))
    return o


def _clink_neutral(i):
    o = copy.deepcopy(i)
    for v in o.get("values") or []:
        if v.get("description", "").strip(" \t\r\n\v\f\u0085 ") == "" or "\n" in v.get("description", ""):
            v["description"] = "d"
        first = v["description"].split("\n")[0].strip()
        if first == "":
            v["description"] = "d"
    o["meta"]["nospace"] = ""
    o["meta"]["messages"] = []
    o["env"]["nospace"] = ""
    return o


def _xonsh_nospace_neutral(i):
    o = copy.deepcopy(i)
    if o["meta"].get("nospace"):
        o["meta"]["nospace"] = "*"
    if o["env"].get("nospace"):
        o["env"]["nospace"] = "*"
    return o


def _tcsh_wordbreak(i):
    return i.get("shell") == "tcsh" and i["env"].get("wordbreaks") is not None


FMT = ("C02", "C03", "C04", "C05", "C06")

def _err_collision_applies(i):
    msgs = (i.get("meta") or {}).get("messages") or []
    if not msgs:
        return False
    for v in i.get("values") or []:
        val = v.get("value") or ""
        clean = "".join(c for c in val if c not in TCL)
        if clean != val and re.search(r"(ERR\d*|_)$", clean):
            return True
    return False


def _err_collision_neutral(i):
    return _map_value_fields(i, lambda s: "".join(c for c in s if c not in TCL), fields=("value",))


CLASSES = [
    Class("err_name_collides_after_sanitising", ("C06",), ("value",), _err_collision_applies, _err_collision_neutral,
          "the names of the synthetic error entries (`<word>ERR`, `ERR1`, ...) are chosen distinct from the candidates' raw values, but the formatters drop tab / CR / LF afterwards: a candidate `x<CR>ERR` and the entry `xERR` come out identical"),
    Class("filler_typed_E", ("C02", "C06"), ("value",), _word_ends_e, _neutral_word_e,
          "one message and no candidate while the typed word ends in E/ER/ERR: the filler entry `_` is built from the word minus that ending and does not extend what was typed"),
    Class("bash_common_prefix_not_extending", ("C02", "C04", "C06"), ("value",),
          lambda i: i.get("shell") in ("bash", "tcsh") and (i["env"].get("ci") or i["env"].get("unfiltered")),
          _neutral_ci,
          "bash/tcsh replace several candidates by their common value prefix even when it does not extend the typed word (case-insensitive matching or CARAPACE_UNFILTERED): the emitted text is shorter than / different from what was typed, or empty"),
    Class("bash_common_prefix_control", ("C02", "C04"), ("value",),
          lambda i: i.get("shell") in ("bash", "tcsh") and _has(i, TCL, ("value", "display")),
          lambda i: _map_value_fields(i, _strip(TCL), ("value", "display")),
          "bash/tcsh compute the common prefix of several candidates on the unsanitised texts: candidates that share only a leading tab/CR/LF are replaced by that prefix, which is then sanitised to nothing"),
    Class("bash_qmark", ("C03",), ("value",), both(sh("bash"), lambda i: _has(i, "?")),
          lambda i: _map_value_fields(i, _repl("?", "q"), ("value",)),
          "bash: a value containing `?` (glob) and no other special character is emitted unquoted"),
    Class("tcsh_brace", ("C02", "C03", "C04", "C06"), ("value",), both(sh("tcsh"), lambda i: _has(i, "{}")),
          lambda i: _map_value_fields(i, _repl("{}"), ("value",)),
          "tcsh: `{` and `}` are deleted from the value"),
    Class("oil_unquoted", ("C02", "C03", "C05", "C06"), ("value",), sh("oil"), _oil_neutral,
          "oil: the value is emitted without any quoting (blanks, quotes, `$`, globs, operators stay active)"),
    Class("powershell_squote", ("C02", "C03", "C05", "C06"), ("value",), both(sh("powershell"), lambda i: _has(i, "'")),
          lambda i: _map_value_fields(i, _repl("'"), ("value",)),
          "powershell: a single quote in the value is emitted bare, and not doubled inside '...'"),
    Class("xonsh_squote", ("C02", "C03", "C05", "C06"), ("value",), both(sh("xonsh"), lambda i: _has(i, "'")),
          lambda i: _map_value_fields(i, _repl("'"), ("value",)),
          "xonsh: `'` becomes `\\'` and is then wrapped in r'...': reads back with the backslash"),
    Class("xonsh_trailing_backslash", ("C02", "C03", "C05", "C06"), ("value",),
          both(sh("xonsh"), lambda i: any(v["value"].rstrip("\n\t\r").endswith("\\") for v in i.get("values") or [])),
          lambda i: _map_value_fields(i, lambda s: s.rstrip("\n\t\r") + "x" if s.rstrip("\n\t\r").endswith("\\") else s, ("value",)),
          "xonsh: a value ending in a backslash gives r'...\\' which is not a complete literal"),
    Class("xonsh_display_unsanitised", ("C04",), ("value",), both(sh("xonsh"), lambda i: _has(i, "\n\r", ("display",))),
          lambda i: _map_value_fields(i, _strip("\n\r"), ("display",)),
          "xonsh: the display text is emitted unsanitised (line breaks stay)"),
    Class("xonsh_nospace_after_quoting", ("C05",), ("value",),
          both(sh("xonsh"), lambda i: bool(i["meta"].get("nospace") or i["env"].get("nospace"))),
          _xonsh_nospace_neutral,
          "xonsh: the no-space suffix is tested on the quoted text, so a value that needs quoting never keeps its no-space suffix"),
    Class("bashble_unsanitised", ("C02", "C03", "C04", "C05", "C06"), ("value",), both(sh("bash-ble"), lambda i: _has_any_field(i, TCL)),
          lambda i: _all_fields(i, _strip(TCL)),
          "bash-ble: no field is sanitised: a tab shifts fields, a line feed splits the record"),
    Class("oil_unsanitised", ("C02", "C03", "C04", "C05", "C06"), ("value",), both(sh("oil"), lambda i: _has_any_field(i, "\r\n\t")),
          lambda i: _all_fields(i, _strip(TCL)),
          "oil: the multi-candidate branch emits values unsanitised (LF splits the record) and CR is never dropped"),
    Class("bash_listmode_unsanitised", ("C04",), ("value",),
          both(sh("bash"), lambda i: i["env"].get("bashCompType") == "63" and _has(i, TCL, ("display",))),
          lambda i: _map_value_fields(i, _strip(TCL), ("display",)),
          "bash list mode (COMP_TYPE=63) prints the display text unsanitised (a line feed splits the record)"),
    Class("cmdclink_empty_fields", ("C04", "C05", "C06"), ("value",), sh("cmd-clink"), _clink_neutral,
          "cmd-clink: the consumer drops empty fields (`[^\\t]+`), so an empty description or an empty append-char shifts the remaining fields and a no-space candidate still gets clink's default blank"),
]


# ---------------------------------------------------------------- alg engine (ops invoke / history / repeat)

def _map_expr(e, f):
    """bottom-up transformation of an ActionExpr tree"""
    if not isinstance(e, dict):
        return e
    o = dict(e)
    for k in ("e", "a", "bb"):
        if k in o and o[k] is not None:
            o[k] = _map_expr(o[k], f)
    if o.get("es"):
        o["es"] = [_map_expr(x, f) for x in o["es"]]
    return f(o)


def _any_expr(e, p):
    found = []

    def f(x):
        if p(x):
            found.append(1)
        return x
    _map_expr(e, f)
    return bool(found)


def _exprs_of(op, inp):
    if op in ("history", "batchrace"):
        return list(inp.get("table") or [])
    return [inp.get("expr")]


def _with_exprs(op, inp, f):
    o = copy.deepcopy(inp)
    if op in ("history", "batchrace"):
        o["table"] = [_map_expr(x, f) for x in (o.get("table") or [])]
    else:
        o["expr"] = _map_expr(o.get("expr"), f)
    return o


class AlgClass(Class):
    """applies / neutralise receive (op, input)"""

    def __init__(self, cid, props, ops, pred, fix, what):
        self.id, self.props, self.ops, self.what = cid, props, ops, what
        self._pred, self._fix = pred, fix
        self._op = None

    def applies_op(self, op, inp):
        return any(_any_expr(x, self._pred) for x in _exprs_of(op, inp))

    def neutralise_op(self, op, inp):
        return _with_exprs(op, inp, self._fix)


def _makes_meta(y):
    return (y.get("k") in ("message", "usage") or (y.get("k") == "shift" and y.get("n", 0) < 0)
            or (y.get("k") == "multiPartsN" and y.get("n", 0) == 0))


def _drop_meta_nodes(x):
    if x.get("k") == "shift" and x.get("n", 0) < 0:
        x = dict(x)
        x["n"] = 0
        return x
    if x.get("k") == "multiPartsN" and x.get("n", 0) == 0:
        x = dict(x)
        x["n"] = 2
        return x
    if x.get("k") == "message":
        return {"k": "plain", "ps": []}
    if x.get("k") in ("usage",):
        return x["e"]
    return x


def _fix_empty_divider(x):
    if x.get("k") in ("multiParts",):
        x = dict(x)
        x["xs"] = [d if d != "" else "/" for d in (x.get("xs") or [])]
    if x.get("k") in ("list", "uniqueList", "multiPartsN") and x.get("s", "") == "":
        x = dict(x)
        x["s"] = ","
    return x


def _unstore(x):
    if x.get("k") == "stored":
        return x["e"]
    return x


def _many_execute(x):
    return x.get("k") == "batch" and sum(1 for m in (x.get("es") or []) if m.get("k") == "execute") >= 2


def _one_execute(x):
    if x.get("k") != "batch":
        return x
    x = dict(x)
    seen = False
    es = []
    for m in x.get("es") or []:
        if m.get("k") == "execute":
            if seen:
                m = {"k": "plain", "ps": ["ex%da" % m.get("n", 0), "ex%db" % m.get("n", 0)]}
            seen = True
        es.append(m)
    x["es"] = es
    return x


ALG_CLASSES = [
    AlgClass("batch_members_execute_embedded_commands", ("C09",), ("batchrace",), _many_execute, _one_execute,
             "two Batch members that run embedded commands through ActionExecute at the same time: cobra keeps one global list of initializers and runs all of them on every Execute, so the bridge initializer of command A (registerFlagCompletion -> cmd.LocalFlags, the unsynchronised `entry.initialized` test in storage.bridge) runs in B's goroutine while A executes - data races on cobra's and carapace's per-command state (the candidates come out right)"),
    AlgClass("multiparts_drops_meta", ("C12", "C06"), ("invoke",),
             lambda x: x.get("k") == "multiParts" and _any_expr(x.get("e"), _makes_meta),
             _drop_meta_nodes,
             "MultiParts / ToMultiPartsA builds a fresh Action: messages, usage and no-space set of the wrapped action are dropped (an ActionMessage under MultiParts shows nothing)"),
    AlgClass("multiparts_empty_divider_panic", ("C11", "C18"), ("invoke",),
             lambda x: (x.get("k") == "multiParts" and "" in (x.get("xs") or [])) or (x.get("k") == "list" and x.get("s", "") == ""),
             _fix_empty_divider,
             "MultiParts(\"\") with an empty typed text: tokenize returns no token and `splitted[len(splittedCV)-1]` panics with index -1"),
    AlgClass("stored_action_modified_in_place", ("C08",), ("history",),
             lambda x: x.get("k") == "stored",
             _unstore,
             "an Action obtained with Invoke(c).ToA() shares its value slice: Prefix/Suffix/Style applied to it write through, so the second invocation yields `xxa` and the stored action itself changes"),
]

def _ascii_only(s):
    return "".join(c if ord(c) < 128 else "x" for c in s)


def _split_neutral(i):
    o = copy.deepcopy(i)
    o["text"] = _ascii_only(o.get("text", ""))
    return o


def _split_redirect_neutral(i):
    o = copy.deepcopy(i)
    t = o.get("text", "")
    for op in (">>", "2>", ">", "<"):
        t = t.replace(op, " ")
    o["text"] = t
    return o


SPLIT_CLASSES = [
    Class("split_rune_byte_index", ("C17",), ("split",), lambda i: any(ord(c) > 127 for c in i.get("text", "")), _split_neutral,
          "Split: the lexer's token index counts runes but the typed text is sliced by bytes: with non-ASCII text in front of the last word every candidate is built on a wrong prefix (`é a`: no usable candidate)"),
    Class("splitp_redirect_adjoining_last_word", ("C17",), ("split",),
          lambda i: i.get("pipelines") and any(op in i.get("text", "") for op in (">", "<")), _split_redirect_neutral,
          "SplitP: when a redirection adjoins the word being completed the Context is built from the redirect-filtered tokens but the prefix from the unfiltered ones: the redirection is dropped from / duplicated in the candidate"),
]

def _cache_keys(i):
    for o in i.get("ops") or []:
        for fld in ("kb", "ka"):
            for t in o.get(fld) or []:
                for s in t:
                    yield s


def _cache_collision_possible(i):
    return any(s == "" or "\n" in s or "\x01" in s for s in _cache_keys(i))


def _cache_neutral(i):
    o = copy.deepcopy(i)
    names = {}
    for op in o.get("ops") or []:
        for fld in ("kb", "ka"):
            if op.get(fld):
                op[fld] = [[names.setdefault(s, "k%d" % len(names)) for s in t] for t in op[fld]]
    return o


def _cache_loop(i):
    return any(op.get("k") == "corrupt" and op.get("kind") == "loop" for op in i.get("ops") or [])


def _cache_loop_neutral(i):
    o = copy.deepcopy(i)
    for op in o.get("ops") or []:
        if op.get("k") == "corrupt" and op.get("kind") == "loop":
            op["kind"] = "garbage"
    return o


CACHE_CLASSES = [
    Class("cache_key_encoding", ("C14",), ("cache",), _cache_collision_possible, _cache_neutral,
          "the cache file name joins the key values with \\x01 and key.String joins with \\n: different key tuples (`a`,`b` vs `a\\nb`, no key vs one empty key, keys containing \\x01) share one entry"),
    Class("cache_stat_error_nil_deref", ("C14", "C18"), ("cache",), _cache_loop, _cache_loop_neutral,
          "cache.Load: a Stat error other than ENOENT (e.g. a symlink loop in place of the entry, EACCES) leaves the FileInfo nil and `stat.ModTime()` panics with a nil pointer dereference"),
]

def _raw_neutral(i):
    # the finding is about what a later reader is served: that part of the check is switched off, what the writing
    # call itself returns is still checked
    o = copy.deepcopy(i)
    o["skipReader"] = True
    return o


CACHE_CLASSES.append(
    Class("raw_cache_partial_entry", ("C15",), ("crashwrite",), lambda i: i.get("flavour") == "raw", _raw_neutral,
          "raw byte cache (pkg/cache.Cache): the entry is written in place; a write that fails part-way (EFBIG, disk full) or is interrupted leaves the fragment, and the next call returns those bytes with err == nil and no real invocation"))

def _unclean(i):
    t = i.get("typed", "")
    d = t[: t.rfind("/") + 1] if "/" in t else ""
    return "//" in d or "/./" in d or "/../" in d or d.endswith("/../") or (d.find("./", 1) > 0 and "../" not in d)


def _clean_typed(i):
    import posixpath
    o = copy.deepcopy(i)
    t = o.get("typed", "")
    if "/" in t:
        d, seg = t[: t.rfind("/") + 1], t[t.rfind("/") + 1:]
        lead = "./" if d.startswith("./") else ""
        c = posixpath.normpath(d)
        c = "" if c == "." else c + "/"
        if c.startswith("//"):
            c = c[1:]
        o["typed"] = lead + c + seg
    return o


FILES_CLASSES = [
    Class("files_unclean_dir_part", ("C16",), ("files",), _unclean, _clean_typed,
          "ActionFiles / ActionDirectories rebuild the typed directory part with filepath.Dir, i.e. cleaned: for typed `a//b`, `a/./b`, `a/../a/b` the candidates no longer extend what was typed and nothing is offered"),
]

def _sub_names(tree):
    names = set()
    for c in (tree.get("cmds") or [])[1:]:
        names.add(c["name"])
        for a in c.get("aliases") or []:
            names.add(a)
    return names


def _names_sub(tree, w, names):
    """does the word name a sub-command - also in the forms cobra's EnablePrefixMatching / EnableCaseInsensitive permit?"""
    if w in names:
        return True
    if not w or w.startswith("-"):
        return False
    if tree.get("caseInsensitive") and any(n.lower() == w.lower() for n in names):
        return True
    if tree.get("prefixMatching") and any(n.startswith(w) for n in names):
        return True
    return False


def _descent_applies(i):
    tree = i.get("tree") or {}
    names = _sub_names(tree)
    ws = (i.get("words") or [])[:-1]
    seen_other = False
    for w in ws:
        if _names_sub(tree, w, names):
            if seen_other:
                return True
        else:
            seen_other = True
    return False


def _descent_neutral(i):
    # the valid path of sub-command names first (children of the command reached so far), every
    # other word after it; words that merely look like sub-command names are renamed; abbreviated or
    # differently cased names (cobra's prefix / case-insensitive matching) are written out
    o = copy.deepcopy(i)
    tree = o.get("tree") or {}
    cmds = tree.get("cmds") or []
    names = _sub_names(tree)
    ws, last = o["words"][:-1], o["words"][-1]
    cur, path, rest = 0, [], []
    for w in ws:
        child, full = None, w
        kids = [(k, c) for k, c in enumerate(cmds) if c.get("parent") == cur]
        for k, c in kids:
            if c["name"] == w or w in (c.get("aliases") or []):
                child = k
        if child is None and w and not w.startswith("-"):
            if tree.get("caseInsensitive"):
                for k, c in kids:
                    for n in [c["name"]] + (c.get("aliases") or []):
                        if n.lower() == w.lower() and child is None:
                            child, full = k, n
            if child is None and tree.get("prefixMatching"):
                hits = [(k, c["name"]) for k, c in kids if any(n.startswith(w) for n in [c["name"]] + (c.get("aliases") or []))]
                if len(hits) == 1:
                    child, full = hits[0]
        if child is not None:
            path.append(full)
            cur = child
        elif _names_sub(tree, w, names):
            rest.append("w" + w)
        else:
            rest.append(w)
    o["words"] = path + rest + [last]
    return o


def _lone_dash_applies(i):
    ws = (i.get("words") or [])
    return any(w in ("-", "") for w in ws[:-1]) or ws[-1:] == ["-"] and False


def _lone_dash_neutral(i):
    o = copy.deepcopy(i)
    o["words"] = [("p" if w == "-" else ("q" if w == "" else w)) for w in o["words"][:-1]] + o["words"][-1:]
    return o


def _flags_before_applies(i):
    return any(w.startswith("-") and w != "--" for w in (i.get("words") or [])[:-1])


def _flags_before_neutral(i):
    o = copy.deepcopy(i)
    o["words"] = [w for w in o["words"][:-1] if not (w.startswith("-") and w != "--")] + o["words"][-1:]
    return o


def _series_after_dash_applies(i):
    ws = i.get("words") or []
    return "--" in ws[:-1] and len(ws[-1]) >= 2 and ws[-1].startswith("-") and not ws[-1].startswith("--")


def _series_after_dash_neutral(i):
    o = copy.deepcopy(i)
    o["words"][-1] = o["words"][-1].lstrip("-")
    return o


def _short_delim_flags(i):
    out = []
    for c in (i.get("tree") or {}).get("cmds") or []:
        for f in c.get("flags") or []:
            if f.get("short") and f.get("delim") not in (None, "", "="):
                out.append(f)
    return out


def _short_delim_applies(i):
    fl = _short_delim_flags(i)
    return any(w.startswith("-" + f["short"] + f["delim"]) or (len(w) > 2 and w[0] == "-" and w[1] != "-" and (f["short"] + f["delim"]) in w)
               for f in fl for w in (i.get("words") or []))


def _short_delim_neutral(i):
    # the letter's delimiter back to the default (and the words that use it rewritten accordingly)
    o = copy.deepcopy(i)
    for c in (o.get("tree") or {}).get("cmds") or []:
        for f in c.get("flags") or []:
            if f.get("short") and f.get("delim") not in (None, "", "="):
                d = f["delim"]
                o["words"] = [(w.replace(f["short"] + d, f["short"] + "=", 1) if (w.startswith("-") and not w.startswith("--")) else
                               (w.replace("--" + f["name"] + d, "--" + f["name"] + "=", 1) if w.startswith("--" + f["name"] + d) else w)) for w in o["words"]]
                f["delim"] = ""
    return o


def _unknown_flag_words(i):
    cmds = (i.get("tree") or {}).get("cmds") or []
    if not any(c.get("whitelist") for c in cmds):
        return []
    names = set(); shorts = set()
    for c in cmds:
        for f in c.get("flags") or []:
            names.add(f["name"])
            if f.get("short"):
                shorts.add(f["short"])
    out = []
    for k, w in enumerate((i.get("words") or [])[:-1]):
        if w.startswith("--") and len(w) > 2 and "=" not in w and w[2:] not in names and w != "--help":
            out.append(k)
        elif w.startswith("-") and not w.startswith("--") and len(w) > 1 and "=" not in w and any(ch not in shorts for ch in w[1:]):
            out.append(k)
    return out


def _unknown_flag_neutral(i):
    o = copy.deepcopy(i)
    for k in _unknown_flag_words(i):
        w = o["words"][k]
        o["words"][k] = (w if w.startswith("--") else w[:2]) + "=x"
    return o


def _sonly_long_words(i):
    out = []
    flags = [f for c in (i.get("tree") or {}).get("cmds") or [] for f in (c.get("flags") or []) if f.get("mode") == 1]
    for k, w in enumerate((i.get("words") or [])[:-1]):
        for f in flags:
            if w == "--" + f["name"] or w.startswith("--" + f["name"] + "=") or (f.get("delim") and w.startswith("--" + f["name"] + f["delim"])):
                out.append((k, f))
    return out


def _sonly_long_neutral(i):
    o = copy.deepcopy(i)
    for k, f in _sonly_long_words(i):
        o["words"][k] = "-" + f["short"] + o["words"][k][2 + len(f["name"]):]
    return o


def _nargs_any_then_pending(i):
    ws = i.get("words") or []
    if len(ws) < 3:
        return None
    k = len(ws) - 3
    for c in (i.get("tree") or {}).get("cmds") or []:
        for f in c.get("flags") or []:
            if (f.get("nargs") or 0) < 0 and (ws[k] == "--" + f["name"] or (f.get("short") and ws[k] == "-" + f["short"])) and ws[k + 1].startswith("-") and ws[k + 1] != "--":
                return k
    return None


def _nargs_any_then_pending_neutral(i):
    o = copy.deepcopy(i)
    k = _nargs_any_then_pending(i)
    o["words"] = o["words"][: k + 1] + ["a"] + o["words"][k + 1:]
    return o


def _lk_sonly(i):
    for f in i.get("flags") or []:
        if f.get("mode") == 1 and i.get("arg") == "--" + f["name"]:
            return f
    return None


def _lk_sonly_neutral(i):
    o = copy.deepcopy(i)
    o["arg"] = "-" + _lk_sonly(i)["short"]
    return o


def _lk_short_empty(i):
    fl = i.get("flags") or []
    if not any(f.get("mode") or len(f.get("short") or "") > 1 for f in fl):
        return None
    for f in fl:
        d = f.get("delim") or "="
        if f.get("short") and len(f["short"]) == 1 and i.get("arg") == "-" + f["short"] + d:
            return f
    return None


def _lk_short_empty_neutral(i):
    o = copy.deepcopy(i)
    o["arg"] = i["arg"][:-1]
    return o


def _nonposix_short_empty_words(i):
    out = []
    for c in (i.get("tree") or {}).get("cmds") or []:
        fl = c.get("flags") or []
        if not any(f.get("mode") or len(f.get("short") or "") > 1 for f in fl):
            continue
        for f in fl:
            d = f.get("delim") or "="
            if f.get("short") and len(f["short"]) == 1:
                for k, w in enumerate((i.get("words") or [])[:-1]):
                    if w == "-" + f["short"] + d:
                        out.append(k)
    return out


def _nonposix_short_empty_neutral(i):
    o = copy.deepcopy(i)
    for k in _nonposix_short_empty_words(i):
        o["words"][k] = o["words"][k][:-1]
    return o


_NONPOSIX_EMPTY = ("non-POSIX flag set, a one-letter shorthand followed by its delimiter and nothing else (`-o= v`): the fork's parser looks for an attached "
                   "value only in words longer than two characters after the dash, so it gives the *next* word to the flag; LookupArg cuts at the delimiter and takes the (empty) value for attached")

PARSE_CLASSES = [
    Class("nonposix_short_empty_attached", ("C01", "C07"), ("parse",), lambda i: bool(_nonposix_short_empty_words(i)), _nonposix_short_empty_neutral, _NONPOSIX_EMPTY),
    Class("nonposix_short_empty_attached_lookup", ("C01",), ("lookuparg",), lambda i: _lk_short_empty(i) is not None, _lk_short_empty_neutral, _NONPOSIX_EMPTY),
    Class("shorthand_only_flag_in_long_form_lookup", ("C01",), ("lookuparg",), lambda i: _lk_sonly(i) is not None, _lk_sonly_neutral,
          "LookupArg does not know a ShorthandOnly flag in its long form (`--delim`), the fork's parser drops it together with the next word (the finding shorthand_only_flag_in_long_form at the level of the lookup)"),
    Class("nargs_any_flag_before_pending_flag", ("C01", "C07"), ("parse",), lambda i: _nargs_any_then_pending(i) is not None, _nargs_any_then_pending_neutral,
          "`--files --color <TAB>` with Nargs < 0 on --files: the parser accepts `--files` without a value when a flag follows it, but rejects it at the end of the line; traverse hands the line without the pending `--color` to the parser, gets `flag needs an argument: --files` and shows that message instead of completing the value of --color"),
    Class("shorthand_only_flag_in_long_form", ("C01", "C07"), ("parse",), lambda i: bool(_sonly_long_words(i)), _sonly_long_neutral,
          "a ShorthandOnly flag typed in its long form (`--delim v`): the fork's parser drops the word - and the next one as its value - without an error, traverse takes `--delim` for an unknown flag and `v` for a positional, so positional indices and (in a non-interspersed command) the reading of the following words differ"),
    Class("unknown_flag_takes_next_word", ("C01", "C07"), ("parse",), lambda i: bool(_unknown_flag_words(i)), _unknown_flag_neutral,
          "a program that tolerates unknown flags (FParseErrWhitelist.UnknownFlags / CARAPACE_LENIENT): the parser drops the word after an unknown flag as that flag's value, traverse treats it - and the word under the cursor when it comes right after the flag - as a positional: `sub -z <TAB>` offers positional 0, and the accepted candidate disappears"),
    Class("posix_shorthand_custom_delimiter", ("C01",), ("parse",), _short_delim_applies, _short_delim_neutral,
          "a one-letter shorthand of a flag with a custom OptargDelimiter (`-e:<TAB>`): LookupArg cuts the word at the flag's own delimiter and offers `-e:value`, but the fork's POSIX parser knows only `=` there: it stores `:value` (delimiter included) in the flag - and panics on `-e=value`, whose text it cuts at the absent `:`"),
    Class("descent_heuristics", ("C01", "C07"), ("parse",), _descent_applies, _descent_neutral,
          "traverse descends into a sub-command as soon as a word names one, even after a positional, an empty word, a pending shorthand chain or a flag the child resolves differently; cobra's own Find / stripFlags then runs another command or hands the skipped words down (e.g. `mid pos sub <TAB>` completes sub's positional 0, cobra runs mid with [pos sub X]; `--localflag sub <TAB>` offers what cobra rejects)"),
    Class("lone_dash_or_empty_word", ("C01", "C07"), ("parse",), _lone_dash_applies, _lone_dash_neutral,
          "a lone `-` (and an empty word) typed earlier is a positional for pflag - it stops flag parsing in a non-interspersed command and shifts positional indices - while traverse treats `-` as flag-like and does not count it"),
    Class("subcommand_after_parent_flags", ("C07",), ("parse",), _flags_before_applies, _flags_before_neutral,
          "sub-command names are offered after flags of the parent were typed (`root --localflag <TAB>`), but cobra hands those flags to the sub-command, which rejects them (unknown flag) or parses them differently"),
    Class("shorthand_series_after_dash", ("C01",), ("parse",), _series_after_dash_applies, _series_after_dash_neutral,
          "after `--` a current word that looks like a shorthand series (`-- -c`) is still run through the pending-flag fix-up: a phantom `-` is added to the parsed words and the dash positional index is off by one"),
]


def _cc_pos_applies(i):
    # the dash slot is wrongly used for positions *before* a real `--`; after one the two protocols agree
    if i.get("cobraSide"):
        return False
    ws = (i.get("words") or [])[:-1]
    if "--" not in ws:
        return True
    # after a real `--` they agree only when no word before it can be a positional (the bridge counts those too)
    return any(not w.startswith("-") for w in ws[:ws.index("--")])


def _cc_pos_neutral(i):
    o = copy.deepcopy(i)
    for c in (o.get("tree") or {}).get("cmds") or []:
        c["npos"], c["posAny"], c["ndash"], c["dashAny"] = 0, False, 0, False
    return o


PARSE_CLASSES.append(
    Class("complete_protocol_positional_from_dash_slot", ("C20",), ("ccomplete",), _cc_pos_applies, _cc_pos_neutral,
          "through cobra's `__complete` the bridged ValidArgsFunction always serves the completions registered for after `--` (or nothing): cobra 1.9.1 parses the line once with an appended `--`, the flag set keeps ArgsLenAtDash != -1, and storage.hasPositional/getPositional read that as 'after a dash'; carapace's own entry point serves the positional completions for the same position; after a real `--` the bridge still counts the words in front of it, so the two agree only when nothing but flags precedes the dash"))

BY = {c.id: c for c in PARSE_CLASSES}
BY["complete_protocol_positional_from_dash_slot"].codes = ("carapace_registered:positional_slot",)
BY["subcommand_after_parent_flags"].codes = ("subcommand_",)
BY["nargs_any_flag_before_pending_flag"].codes = ("probe_slot_not_served", "acceptable_not_offered")
BY["shorthand_series_after_dash"].codes = ("wrong_slot:dash", "wrong_slot:flag")


# ---- entry engine (C18)
import re as _re

def _entry_shell(i):
    a = i.get("args") or []
    return a[0] if len(a) >= 2 else None


def _has_ctl(s, chars):
    s = _unescape(s)
    return any(c in s for c in chars)


def _unescape(s):
    return _re.sub(r"\\x([0-9a-fA-F]{2})", lambda m: chr(int(m.group(1), 16)), s or "")


def _strip_ctl(s, chars):
    out = s or ""
    for c in chars:
        out = out.replace(c, "").replace("\\x%02x" % ord(c), "").replace("\\x%02X" % ord(c), "")
    return out


def _entry_texts(i):
    return list(i.get("args") or [])[1:] + list((i.get("env") or {}).values()) + [i.get("desc") or ""]


def _entry_neutral(chars):
    def f(i):
        o = copy.deepcopy(i)
        o["args"] = o["args"][:1] + [_strip_ctl(a, chars) for a in o["args"][1:]]
        o["env"] = {k: _strip_ctl(v, chars) for k, v in (o.get("env") or {}).items()}
        o["desc"] = _strip_ctl(o.get("desc"), chars)
        return o
    return f


_ZSH_FRAME = "\x01\x02\x03"
_BLE_FRAME = "\t\x1c\n\r"
ENTRY_CLASSES = [
    Class("zsh_framing_control_chars", ("C18",), ("entry",),
          lambda i: _entry_shell(i) == "zsh" and any(_has_ctl(t, _ZSH_FRAME) for t in _entry_texts(i)), _entry_neutral(_ZSH_FRAME),
          "zsh: the output is framed with \\001 \\002 \\003 but neither the sanitizer nor the message formatter removes these characters: a typed word (echoed in an error message or a `--flag=` prefix) or a description containing one of them yields output the zsh snippet splits into the wrong fields"),
    Class("bashble_unsanitised_entry", ("C18",), ("entry",),
          lambda i: _entry_shell(i) == "bash-ble" and any(_has_ctl(t, _BLE_FRAME) for t in _entry_texts(i)), _entry_neutral(_BLE_FRAME),
          "bash-ble: no field is sanitised (the listed finding bashble_unsanitised of C04): a tab, \\x1c or line break in a description or an echoed word yields records the ble.sh snippet cannot split into its four fields"),
]
for _c in ENTRY_CLASSES:
    _c.codes = ("malformed_output:",)

CLASSES = CLASSES + ENTRY_CLASSES + ALG_CLASSES + SPLIT_CLASSES + CACHE_CLASSES + FILES_CLASSES + PARSE_CLASSES
BY_ID = {c.id: c for c in CLASSES}
