# Per-property configuration of the runner.
import copy
import glob
import os

import core

TRUSTED_BASE = [
    "Lean 4.33.0 kernel; axioms allowed: propext, Classical.choice, Quot.sound (audited by #print axioms on every theorem)",
    "extractor /verif/extract (regenerates lean/Carapace/Gen from /repo on every run)",
    "correspondence: harness (real code, in-process) vs compiled Lean driver on the same generated inputs",
]

FMT_ASSUME = [
    "shell readers (Spec/Reader) and wire decoders (Spec/Decode) are specifications written from the shells' documented grammar and the snippets; only bash and python3 are installed",
    "styles / colours, CARAPACE_EXPERIMENTAL (tabdance) and CARAPACE_TOOLTIP are outside the model",
    "case-insensitive matching is modelled for ASCII letters only; invalid UTF-8 is outside the model",
    "the JSON layer of the JSON formats is encoding/json (decoded by a JSON parser in the driver), not modelled in Lean",
]

FMT_RULE = ("cases are generated from one splitmix64 state (VERIF_SEED, op, index): a shell format, 0-8 (rarely ~500) candidates over an alphabet "
            "over-weighting ASCII punctuation, blanks, tab/CR/LF and non-ASCII text, typed word (empty / prefix of a value / arbitrary / ending in E,ER,ERR), "
            "0-3 messages, a no-space set, environment switches; a case is non-trivial when it has at least one candidate or message; distinct = distinct input digest")

HOOK_COMMITS = ["94169f7", "6cd8fd8", "2937117", "cd2010e", "445b725"]

ENGINES = [
    {"name": "extractor", "path": "extract/", "serves_properties": ["C02", "C03", "C04", "C05", "C06", "C08", "C09", "C10", "C11", "C12", "C01", "C07", "C13", "C14", "C15", "C16", "C17", "C18", "C19", "C20"],
     "kind_free_text": "Go (go/ast): regenerates lean/Carapace/Gen (replacer tables, character sets, format strings, shell lists) from /repo on every run"},
    {"name": "lean", "path": "lean/", "serves_properties": ["C02", "C03", "C04", "C05", "C06", "C08", "C09", "C10", "C11", "C12", "C01", "C07", "C13", "C14", "C15", "C16", "C17", "C18", "C19", "C20"],
     "kind_free_text": "Lean 4 library: Model (transcription of the code), Spec (readers, decoders, oracles), Props (theorems); compiled driver lean/Driver"},
    {"name": "harness", "path": "harness/", "serves_properties": ["C02", "C03", "C04", "C05", "C06", "C08", "C09", "C10", "C11", "C12", "C01", "C07", "C13", "C14", "C15", "C16", "C17", "C18", "C19", "C20"],
     "kind_free_text": "Go module linking the real packages from /repo with -tags verif; generators and in-process execution, one JSON line per case"},
    {"name": "runner", "path": "check", "serves_properties": ["C02", "C03", "C04", "C05", "C06", "C08", "C09", "C10", "C11", "C12", "C01", "C07", "C13", "C14", "C15", "C16", "C17", "C18", "C19", "C20"],
     "kind_free_text": "python3 (stdlib): orchestration, known-finding classification by input neutralisation, shrinking, evidence"},
]

FMT_NOTE = ("Trusted: Lean kernel and the axioms propext / Classical.choice / Quot.sound; the shell reader and decoder specifications (only bash and python3 are installed to cross-check them); "
            "the extractor; the correspondence generators. Modelled, not verified: all Go code (bound by regenerated tables and by exact output comparison on every generated case); "
            "styles, tabdance, tooltip mode, Unicode case folding and invalid UTF-8 are outside the model.")

PROPS = {
    "C02": {"modules": ["Carapace.Props.C02", "Carapace.Props.C02Prefix"], "ops": [("value", {"quick": 6000, "thorough": 300000}), ("entrywb", {"quick": 300, "thorough": 6000})], "rule": FMT_RULE, "assumptions": FMT_ASSUME,
            "claimed": True, "engine": "fmt",
            "level_text": ("Theorems over the model of the pipeline: the prefix filter is sound and complete (`filterPrefix_sound/complete`), the candidates handed to a formatter are exactly the invoked candidates extending the typed word - all of them under CARAPACE_UNFILTERED (`C02_pipeline_exact`, `C02_unfiltered_length`, `C02_nothing_added`), sanitising preserves 'extends the typed word' (`san_prefix`, `C02_fish_sound`); the bash/tcsh common-prefix step is proved harmless when not taken and its violation under case-insensitive matching is a decided counterexample and a listed finding; `goCommonPrefix_eq` (C02Prefix.lean) shows that the Go function - common length of the UTF-8 bytes, cut back while it points at a continuation byte, as it reads since fix 18f19b1 - is the common prefix counted in characters which the formatter models use, and never leaves a partial character (lemmas: distinct characters have encodings that differ inside both, `enc_differ`; the back-off stops at character starts, `backoff_append` / `backoff_inside`); the version before the fix is a decided counterexample (`byte_prefix_splits_character`). The model is bound to the code by exact comparison of the output of all 13 formatters on every generated case; the property oracle (every emitted text extends the typed word, every extending candidate is emitted, nothing else) is evaluated on the real output. The part of the word bash keeps is an input of that model; how the shipped entry point derives it - bash.Patch tokenising COMP_LINE with the user's COMP_WORDBREAKS - is decided on the real program (op `entrywb`: child processes under a bash ancestor that exports the variable like the snippet does; words with `@` `:` `=`, lists with and without those characters): every emitted candidate, put behind the part of the word bash keeps for that list, extends the typed word."),
            "level_note": FMT_NOTE},
    "C03": {"modules": ["Carapace.Props.C03", "Carapace.Props.C03Shells", "Carapace.Props.C03Zsh"], "ops": [("value", {"quick": 6000, "thorough": 300000})], "rule": FMT_RULE, "assumptions": FMT_ASSUME,
            "claimed": True, "engine": "fmt",
            "level_text": ("Per shell a theorem states that the text the formatter model inserts, read by that shell's reader specification, is exactly one word equal to the (sanitised) value, for every value (induction over the string; the per-character obligations are decided by the kernel over all of ASCII against the replacer tables and character sets regenerated from /repo, and lifted to every character): "
                           "`C03_bash` (bare / double-quoted / tilde branches, no hypothesis on the characters), `C03_zsh_dflt`, `C03_zsh_dq` and `C03_zsh_sq` (the `_describe` escaping is inverted by the consumer: `zshUndescribe_describe`; default state incl. `~/` and named directories, both double-quote states, and both single-quote states, where a quote inside the value is written `'\\''` and the per-character lemma carries the mark of the re-opened quote: `run_flatMap_emit`), `C03_powershell`, `C03_xonsh` (bare, `'..'`, `r'..'` with the exact parity condition on backslashes), `C03_nushell` (bare, `\"..\"`, `~\"..\"`), `C03_tcsh`, `C03_oil_partial`, `C03_elvish`, `C03_export`. "
                           "Where the pinned code violates the property the excluded characters are explicit hypotheses - exactly the listed findings (powershell `'`; xonsh `'`, a trailing odd backslash; tcsh braces; oil everything special; powershell / xonsh CR and nushell tab were such hypotheses until they were repaired: `C03_powershell_sanitised`, `C03_nushell_sanitised` state the theorems over the sanitised value without them) - each with a decided counterexample showing the hypothesis is needed. "
                           "The model is bound to the code by exact comparison of the real formatter output with the model's on every generated case, and the reader oracle is evaluated on the real output for all shells."),
            "level_note": FMT_NOTE},
    "C04": {"modules": ["Carapace.Props.C04"], "ops": [("value", {"quick": 6000, "thorough": 300000})], "rule": FMT_RULE, "assumptions": FMT_ASSUME,
            "claimed": True, "engine": "fmt",
            "level_text": ("`C04_fish` and `C04_bash_framing`: decoding the emitted text with the consumer's own parsing yields exactly one record per candidate with that candidate's own fields, for any text in any field (framing lemmas `splitOnChar_joinChar`, `cutChar_append` + the sets of characters each sanitizer strips, decided on the tables regenerated from /repo); no-line-break theorems for bash, elvish, nushell; zsh's three framing levels (`C04_zsh_outer_framing`, `C04_zsh_block_framing`, `C04_zsh_lines` with `C04_zsh_values_no_linebreak`; `C04_zsh_framing_counterexample` for the listed control-character finding); record counts for the JSON formats; decided counterexamples for the listed findings (bash-ble, cmd-clink). All 13 formats are additionally under exact output correspondence and the decode-and-compare oracle on the real output."),
            "level_note": FMT_NOTE},
    "C05": {"modules": ["Carapace.Props.C05"], "ops": [("value", {"quick": 6000, "thorough": 300000}), ("invoke", {"quick": 5000, "thorough": 200000})], "rule": FMT_RULE, "assumptions": FMT_ASSUME,
            "claimed": True, "engine": "fmt",
            "level_text": ("`matches_iff` / `matches_eq_spec` (the matcher is exactly 'ends in a no-space character or the set is *'), `add_star`, `mem_add` (Add is set union with * absorbing), the effective set computed by the pipeline (`C05_export`, `C05_messages_force`, `C05_env_adds`), and per format that the expressed decision is a function of the (sanitised) value taken before quoting (elvish, bash-ble, nushell, powershell, ion, zsh incl. the FULL quoting states, bash single candidate and common-prefix step); xonsh decides on the quoted text: decided counterexample, partial theorem, listed finding. Exact output correspondence and the no-space oracle on the real output for all formats; how the no-space set itself is built by the Actions (MultiParts dividers, ActionMultiPartsN separators, NoSpace, List, messages) is compared with the pure model on every generated expression (op invoke)."),
            "level_note": FMT_NOTE},
    "C06": {"modules": ["Carapace.Props.C06"], "ops": [("value", {"quick": 6000, "thorough": 300000}), ("invoke", {"quick": 5000, "thorough": 200000}), ("parse", {"quick": 3000, "thorough": 100000}), ("entry", {"quick": 1500, "thorough": 40000})], "rule": FMT_RULE, "assumptions": FMT_ASSUME,
            "claimed": True, "engine": "fmt",
            "level_text": ('`integrateLoop_spec`: the numbering loop terminates within its fuel (pigeonhole over injective names, `findFree_spec`, `errName_inj`) and appends exactly one entry per message, in order, with the message as description, values pairwise distinct and distinct from all candidates; `C06_two_entries` (at least two entries), `C06_nospace` (no trailing space), the channel formats (list read from the source) leave candidates alone and carry the messages; the filler `_` fails to extend a typed word ending in E/ER/ERR: decided counterexample, partial theorem, listed finding. Exact output correspondence and the message oracle on the real output for all formats.'),
            "level_note": FMT_NOTE},
}


ALG_ASSUME = [
    "callbacks and function-valued parameters are finite tables (ActionExpr, DESIGN.md appendix E); regular expressions given to Suppress are quoted literals",
    "styles, uid, Cache, Timeout, Chdir, Split are handled by their own properties; case-insensitive matching is modelled for ASCII letters only",
]
ALG_RULE = ("random ActionExpr trees (depth <= 4 over 5 leaf kinds and 22 modifiers incl. Batch, MultiParts, ActionMultiPartsN, List, UniqueList, callbacks that test or edit the Context) "
            "x random Contexts (typed value empty / prefix of a value / arbitrary, args, parts, env, dir), from one splitmix64 state; non-trivial = the real result has at least one value or message; distinct = distinct input digest")
ALG_NOTE = ("Trusted: Lean kernel + propext/Classical.choice/Quot.sound; the harness interpreter from ActionExpr to real carapace.Action values (public API only); the generators. "
            "Modelled, not verified: the Go code of action.go, defaultActions.go, invokedAction.go, batch.go, internal/common (bound by exact comparison of every invoked result with the pure Lean model). "
            "regexp, stripansi, style functions are parameters / outside the model.")

PROPS.update({
    "C11": {"modules": ["Carapace.Props.C11"], "ops": [("invoke", {"quick": 12000, "thorough": 600000})], "rule": ALG_RULE, "assumptions": ALG_ASSUME,
            "claimed": True, "engine": "alg",
            "level_text": ("`C11_tokenize_concat` (tokens concatenate to the text, by induction over the divider list and the string), `C11_sound` (every candidate is the first n segments of an original value that starts with the typed text, hence a prefix of it; never panics), `C11_complete` (every such value is the continuation of an offered candidate), `C11_distinct` (exactly one), `C11_one_segment`, `C11_nospace_single` - for all value sets, all lists of non-empty dividers (multi-character included) and all typed texts; the empty divider is excluded by hypothesis and its failures are decided counterexamples and listed findings. "
                           "Correspondence: exact comparison of the real `MultiParts` result with the model on random expressions; oracle on the real result: set equality with the independent segment specification `Spec.nextSegments`, final-step metadata, intermediate steps end in a divider with no-space."),
            "level_note": ALG_NOTE},
    "C12": {"modules": ["Carapace.Props.C12"], "ops": [("invoke", {"quick": 12000, "thorough": 600000})], "rule": ALG_RULE, "assumptions": ALG_ASSUME,
            "claimed": True, "engine": "alg",
            "level_text": ("One frame theorem per modifier over the pure model `invoke` (Filter, Retain, FilterArgs/Parts, Prefix incl. the law p+x -> p + completion of x and the incompatible case, Suffix, Style, Tag, Usage with outer-overrides-inner, NoSpace, Suppress, Unless, Shift, Context edits, ActionMultiPartsN frame and parts, UniqueList never re-offers a part); MultiParts dropping the inner meta is a decided counterexample and a listed finding. "
                           "The model is bound to the library by exact comparison of every invoked result on random expression trees x Contexts; the frame conditions of the top-level modifier are additionally evaluated on the real result against the real result of the inner expression."),
            "level_note": ALG_NOTE},
    "C08": {"modules": ["Carapace.Props.C08", "Carapace.Props.C08Effects"], "ops": [("history", {"quick": 6000, "thorough": 300000})], "rule": "random tables of 1-3 ActionExpr (later entries built from earlier Go values by Prefix/Batch/NoSpace/MultiParts/Usage, stored actions, messages with format arguments) x 2-6 invocations interleaved over two Contexts; non-trivial = at least two steps; distinct = distinct input digest",
            "assumptions": ALG_ASSUME, "claimed": True, "engine": "alg", "category": "translation_validation",
            "level_text": ("`C08_global_effects_covered` (C08Effects.lean): the statements of the library that change the process (os.Setenv / Unsetenv / Clearenv / Chdir) or assign to a package-level variable, regenerated from /repo on every run, are the nine reviewed ones - all at package initialisation or once on the entry path, none on the invocation path (`C08_no_effect_on_invocation_path`). " + "Translation validation, not a proof of the Go code: in the pure Lean model `invoke` an Action is a value, so repeatability holds by construction (`C08_history`, `C08_repeatable`) and Context edits are local (`C08_ctx_local_sibling`, `C08_ctx_local_later`, `C08_setenv_visible_beneath`). What decides the property is the history run on the real library: the same Go values are kept alive, invoked repeatedly and interleaved with the actions built from them, and every step must equal (i) the same step repeated, (ii) what the same expression yields when built from scratch with fresh Go values, and the caller's Context must be unchanged afterwards; any trace an invocation leaves shows as a differing step. The pure model is compared too, but a difference between model and library alone is not counted against C08. The store model of DESIGN.md C08 layer (b) is not built."),
            "level_note": ALG_NOTE},
    "C10": {"modules": ["Carapace.Props.C10", "Carapace.Props.C10Ranges"], "ops": [("repeat", {"quick": 1500, "thorough": 60000}), ("entry", {"quick": 1500, "thorough": 40000})], "rule": "expressions that produce equal displays / equal values through Batch, MultiParts, Suffix, plus random trees; each formatted 30 times in-process (Go randomises every map iteration) for one of 7 formats; non-trivial = every case; distinct = distinct input digest",
            "assumptions": ALG_ASSUME + ["goroutine scheduling and map iteration seeds are only sampled (30 repetitions per case); fresh-process repetition is not performed in the quick tier"],
            "claimed": True, "engine": "alg",
            "level_text": ("`C10_map_ranges_covered` (C10Ranges.lean): the inventory of all loops over Go maps in the library (regenerated from /repo on every run: file, function, ranged expression, digest of the loop) is the reviewed one - nineteen loops, each with the reason why the iteration order cannot reach the output (DESIGN 13.5); a new loop over a map or a change inside one breaks the obligation. `C10_sorted_unique`: two sorted arrangements of the same candidates are the same list (for every permutation delivered by map iteration or scheduling and every sorting algorithm) because the order - display text, ties broken by value - is total on candidates with distinct (display, value) (`str_eq_of_not_lt`, `le_antisymm_key`), and `C10_unique_key`: after Unique (a map keyed by value) that condition holds. Runtime part searched, not proved: 30 in-process repetitions per generated case must be byte-identical."),
            "level_note": ALG_NOTE + " The Go runtime's map iteration and scheduler are only sampled."},
})


PROPS.update({
    "C13": {"modules": ["Carapace.Props.C13", "Carapace.Props.C13Doc"], "ops": [("exportrt", {"quick": 4000, "thorough": 300000}), ("import", {"quick": 4000, "thorough": 300000})],
            "rule": "exportrt: random completions (0-8, rarely 300 candidates) with quotes, backslashes, C0 controls, DEL, <>&, U+2028/2029, U+FFFD, non-BMP text in every field, equal values with different displays, tags/styles/uids, 0-2 messages, no-space sets, usage, exported through InvokedAction.export or through value(\"export\") and read back with ActionImport; import: such documents mutated (truncated at a random byte, trailing data, wrong types, extra / duplicate / case-variant fields, nulls, other versions, non-JSON); non-trivial = every case; distinct = distinct input digest",
            "assumptions": ["encoding/json is a dependency: its string encoding is modelled (Model/Export.lean) and compared byte for byte with json.Marshal on every case; its decoder is modelled for exactly the shape the encoder writes (Model/ExportDecode.lean: struct field order, omitempty fields absent when empty, no white space) and compared with the real ActionImport on the real bytes of every generated document; what encoding/json accepts beyond that shape (other field orders, white space, unknown fields) is not modelled (Lean's own JSON parser judges validity of the mutated documents of op import)",
                            "ActionExecute and the child-process path (`<program> _carapace export`) reuse the same two functions and are not exercised separately in the quick tier",
                            "invalid UTF-8 is lossy by construction of encoding/json and outside the claim (valid Unicode text)"],
            "claimed": True, "engine": "alg",
            "level_text": ("`C13_document_roundtrip` (C13Doc.lean): for every version string, every Meta (messages, no-space characters, usage) and every list of candidates or none, the model decoder `parseExport` applied to the text `marshalExport` writes yields exactly that document, the candidates in wire order (sorted by value) - by `parseString_encode` (a string literal is read back exactly and the reader stops right behind its closing quote, whatever follows), `parseArray_encode` (induction over the elements), `parseRawValue_encode` (all six fields, the four omitempty ones present or absent), with the regenerated json tags / field order / omitempty marks and the call lists of MarshalJSON and ActionImport pinned by `rawValue_tags`, `meta_tags`, `export_tags`, `export_wire_tags`, `marshal_calls`, `import_calls`. The decoder model is run on the real bytes of every generated document and must hold what the real ActionImport holds. `C13_string_roundtrip`: for every Unicode string s, decoding the JSON string that the model of Go's `appendString` writes for s yields s again (transducer induction; the per-character obligation is decided over all of ASCII and U+2028/2029 and lifted to every other character), plus `json_body_ascii` (an encoded field contains no raw quote / control character, so no text can break out of its field). The model of the export document (`marshalExport`: field order, omitempty, values sorted by value, null for a nil slice) is compared byte for byte with the real document on every generated completion; the oracle requires ActionImport of the real document to yield the same candidates (value, display, description, style, tag, uid) and meta, and any input that is not valid JSON to yield exactly one message and no candidate, never a panic."),
            "level_note": ALG_NOTE + " encoding/json: encoder modelled; decoder modelled on the encoder's image only, otherwise trusted."},
})


PROPS.update({
    "C17": {"modules": ["Carapace.Props.C17"], "ops": [("split", {"quick": 8000, "thorough": 400000})],
            "rule": "random embedded command lines: 0-3 earlier words (plain, double / single quoted, backslash-escaped blanks, 15% with non-ASCII text), blanks and tabs between them, pipeline / redirection operators for SplitP, a partial last word in one of the three quoting styles; 1-4 candidate values of word characters and blanks; no-space sets; non-trivial = the lexer accepts the text; distinct = distinct input digest",
            "assumptions": ["the lexer carapace-shlex v1.0.1 is a dependency: its output for the typed text is an input of the model and the re-reading oracle calls the real lexer",
                            "the redirect branch of SplitP (file completion) is checked for prefix preservation only"],
            "claimed": True, "engine": "alg",
            "level_text": ("`C17_unquoted`, `C17_dquote`, `C17_squote`: for every value of word characters and blanks, the text `split` appends in each of the three quoting styles reads back (POSIX-style reader, transducer induction) as exactly the value; `C17_prefix_preserved` (every candidate is the typed text up to the start of the last word followed by the quoted value), `C17_space`; the rune-index-as-byte-offset defect is a decided counterexample and a listed finding. "
                           "Correspondence: the model of `split` (prefix, Context, quoting, blank) is compared exactly with the real Split/SplitP on generated lines; oracles on the real result: the wrapped action saw exactly the lexer's words, every candidate starts with the typed prefix byte for byte, re-reading every candidate with the real lexer gives the earlier words followed by the value, a blank follows iff no-space does not apply."),
            "level_note": ALG_NOTE + " carapace-shlex is used as is (dependency)."},
})


PROPS.update({
    "C09": {"modules": ["Carapace.Props.C09", "Carapace.Props.C09Go"], "ops": [("invoke", {"quick": 8000, "thorough": 400000})], "race_ops": [("batchrace", {"quick": 1500, "thorough": 60000})],
            "rule": ALG_RULE + "; race scenarios: Batches of 2-5 members that share one captured Action (plain, under NoSpace / Usage / MultiParts / Prefix / Style / nested Batch), members that call Setenv on a Context with spare capacity, edit args / value, members that register completions (Gen, FlagCompletion on a shared command), members that run embedded commands of their own through ActionExecute, members behind the file cache with equal and different keys - each invoked two or three times on a -race build",
            "assumptions": ALG_ASSUME + ["data-race freedom is a property of the Go runtime execution: it is searched with the race detector on generated Batch scenarios (members sharing captured Actions, Setenv, nested batches), never proved; Batches with ActionExecute / Cache members have no Lean model: the harness compares their candidates with those of the members invoked one after the other"],
            "claimed": True, "engine": "alg",
            "level_text": ("`C09_goroutines_covered` (C09Go.lean): the functions of the library that start goroutines, create channels or select, regenerated from /repo on every run with a digest of their bodies, are exactly `parallelize` and `Action.Timeout` - the two the models are about. " + "`C09_schedule_independent` / `C09_any_two_schedules`: for every complete schedule of the member goroutines (any permutation) the result slots hold exactly the members' sequential results (each member writes only its own slot; induction over the schedule); `C09_equals_sequential`, `C09_merge_values` (merged by inserted value, later replaces earlier), `C09_merge_usage` (last non-empty usage), `C09_merge_messages` (union), `C09_batch_small`. The model is bound to batch.go / invokedAction.go by exact comparison of invoked Batch results on random expressions. "
                           "Partial by nature: the absence of data races is searched, not proved - Batch scenarios run on a -race build and any report of the race detector is a violation."),
            "level_note": ALG_NOTE + " The Go scheduler and memory model are outside the model; race freedom is only searched."},
})


CACHE_NOTE = ("Trusted: Lean kernel + propext/Classical.choice/Quot.sound; sha1 treated as injective; the clock (model time = seconds scaled to ticks, one tick per operation); os file semantics; the harness (private XDG_CACHE_HOME, call sites simulated by three Go functions, mtimes back-dated with os.Chtimes). "
              "Modelled, not verified: action.go (Cache), internal/cache, pkg/cache, pkg/cache/key.String - bound by exact comparison of every output of generated histories with the Lean file-cache model.")

PROPS.update({
    "C14": {"modules": ["Carapace.Props.C14"], "ops": [("cache", {"quick": 3000, "thorough": 150000}), ("rawcache", {"quick": 60, "thorough": 600})],
            "rule": "histories of 3-14 operations: invocations of a cached Action at one of three call sites with key tuples (0-2 keys of 1-2 strings; 10% with keys containing the separator characters; 15% with keys that change during the invocation), timeouts 10 s / 100 s / 1000 s / never, results with and without messages; clock advances by 3..1500 s; corruption of an entry (garbage, truncation, empty file, rarely a symlink loop); foreign files dropped into the cache directories; non-trivial = at least two invocations; distinct = distinct input digest",
            "assumptions": ["FileChecksum / FileStats / FolderStats keys are not exercised (key.String and ad-hoc key functions are)", "the exact instant age == timeout is not observable (real time passes between operations)"],
            "claimed": True, "engine": "cache",
            "level_text": ("`C14_refines`: for every history of invocations, elapsed times and corruptions, the outputs of the file-based cache model (hit iff a file exists, is not older than the timeout - never for a negative timeout - and parses; written under the key values after the invocation; not written when the result has messages) equal the outputs of an abstract store keyed by (call site, key tuple), by a simulation proof over the operation list - under `KeyEncodingInjective`, the hypothesis the proof forces; `C14_never_stale`; `C14_key_collision` decides that the encoding is not injective in general (listed finding). "
                           "Correspondence: every output (which real invocation's result is returned, whether a real invocation happened) of generated histories against the real library with a private cache directory; the abstract-store oracle is evaluated on the real outputs."),
            "level_note": CACHE_NOTE},
    "C15": {"modules": ["Carapace.Props.C15", "Carapace.Props.C15Doc"], "ops": [("crashwrite", {"quick": 120, "thorough": 4000}), ("rawcache", {"quick": 60, "thorough": 600})],
            "rule": "for an entry of 1-6 candidates (Action export JSON or raw bytes), with or without an expired complete previous entry of the same or a different shape and length, the real write path is run under RLIMIT_FSIZE = k for EVERY byte offset k from 0 to the entry length + 1 (the write fails part-way with EFBIG, exactly as on a full disk), then a reader goes through the real cache; non-trivial = every case (each enumerates ~150-250 offsets); distinct = distinct input digest",
            "assumptions": ["a kill between syscalls and a reader concurrent with the write leave the same intermediate file states as a write that fails after k bytes (in-place protocol: O_TRUNC, then the bytes in order); kernel-level atomicity of rename(2) is trusted where a rename protocol is used",
                            "a proper prefix of an export document does not decode: proved for the decoder model (`C15_prefix_rejected`); for the real encoding/json decoder it is validated on the real code at every byte offset of generated documents"],
            "claimed": True, "engine": "cache",
            "level_text": ("`C15_action_cache_export` (C15Doc.lean): for every document the encoder model writes, every previous state of the entry and every point at which the single `os.WriteFile` stops, a reader that decodes with the decoder model `parseExport` gets nothing usable, the previous entry as it was, or the complete new document - no hypothesis on the decoder is left: `C15_prefix_rejected` proves that no proper prefix of `marshalExport v m vs` decodes (component by component: `expect_trunc`, `readLit_trunc` / `parseString_trunc`, `parseElems_trunc` / `parseArray_trunc`, `opts_trunc` for the optional fields and the closing brace of a candidate - a cut field name is taken for an absent field and the candidate then fails at its brace -, `seq_parseRawValue`, `valuesText_trunc`), and `C13_document_roundtrip` gives the complete case. The decoder model is tied to the real ActionImport on the real bytes (op exportrt), the real LoadE is run at every byte offset (op crashwrite). " + "`C15_action_cache`: for every previous entry and every point at which the in-place write of a document stops, a reader gets nothing usable, the complete previous entry or the complete new entry - given that a proper prefix of the document does not decode; `write_is_in_place` / `loadE_decodes_whole_file` tie the protocol shape to the source (regenerated call lists of internal/cache.Write and LoadE); `C15_raw_cache_counterexample` decides that the raw byte cache serves a fragment (listed finding), `C15_raw_cache_rename` that a temp-file + rename protocol would not. "
                           "Runtime part, searched exhaustively per case: the real write path is stopped at every byte offset and a reader goes through the real cache."),
            "level_note": CACHE_NOTE},
})


PROPS.update({
    "C19": {"modules": ["Carapace.Props.C19", "Carapace.Props.C09Go"], "ops": [("timeout", {"quick": 150, "thorough": 5000})], "race_ops": [("timeoutrace", {"quick": 80, "thorough": 2000})],
            "rule": "one Timeout-wrapped Action value (d = 20/30/40 ms, optionally nested in Timeout(2d), optionally a Batch member) invoked 1-3 times in a row with wrapped-action durations 0, d/4, 3d, 4d or never-returning, with and without waiting for the abandoned computation to finish before the next invocation; the abandoned computation always goes on to produce its result; the same scenarios on a -race build; non-trivial = every case; distinct = distinct input digest",
            "assumptions": ["durations within a factor 3 of d are not generated: the real scheduling margin is observed with a tolerance of 250 ms, not proved", "the Go memory model's channel rule (a receive happens after the send) is the premise of `C19_hb`"],
            "claimed": True, "engine": "conc",
            "level_text": ("Model-time theorems: `C19_bound` (the caller returns at time <= d however long the wrapped action runs, even if it never returns), `C19_late` (then exactly the alternative), `C19_timely` (a wrapped action that finishes before d yields exactly its result, as a whole), `C19_hb` (write -> send -> receive -> read: the caller never reads the result before the goroutine wrote it), `C19_send_never_blocks` for the channel capacity and go/send/select shape read from the source on every run. "
                           "Partial by nature: wall-clock margin and data races of the abandoned computation are searched (elapsed time per invocation, repeated invocations of the same wrapped value, race detector), not proved."),
            "level_note": "Trusted: Lean kernel + propext/Classical.choice/Quot.sound; the Go memory model's channel rule; the extractor (channel capacity, go/send/select shape of Action.Timeout). Modelled: the logic of Timeout in abstract time. Runtime behaviour (scheduler, timers, races) only searched."},
})


PROPS.update({
    "C16": {"modules": ["Carapace.Props.C16", "Carapace.Props.C16Exact"], "ops": [("files", {"quick": 3000, "thorough": 150000})],
            "rule": "random trees (1-5 directories nested up to 3 deep, 0-7 files, 0-3 symlinks to directories / files / nowhere / `.` / `..` with absolute and relative targets; names with blanks, quotes, non-ASCII text, leading dots and dashes) materialised in a scratch directory; Context directory anywhere in the tree, process working directory elsewhere; typed paths: prefixes of existing paths, `./`, `../`, absolute, `~/`, trailing slash, dot segments, 8% unclean forms; ActionFiles with suffix filters / ActionDirectories; 15% wrapped in Chdir (relative, absolute, non-existent, a file); non-trivial = the denoted directory is readable; distinct = distinct input digest",
            "assumptions": ["the file system is read by the harness with os.ReadDir / Lstat / Stat of the directory the typed path denotes (OS path resolution is not modelled); path/filepath's lexical functions are modelled (dependency)",
                            "unreadable (mode 000) directories cannot be produced as root in this sandbox; non-existent directories are", "`~user` forms and Windows volume prefixes are outside the generator"],
            "claimed": True, "engine": "fs",
            "level_text": ("`C16_exact` (C16Exact.lean): for every clean typed path - any number of directory segments that are non-empty, not `.` / `..`, and a last partial segment free of `/` other than `.` / `..` (the empty path and a trailing `/` included) -, every Context directory, every directory listing, filter and suffix list, the values the model of `actionPath` yields that continue the typed text are exactly the listing specification (the entries whose names continue the typed last segment, each as the typed directory part, unchanged, followed by the name); `C16_values_clean` gives the values entry by entry; through `pathClean_plain` (a clean relative path is its own filepath.Clean), `pathDir_typed`, `displayFolder_typed` (what precedes every name is the typed directory part), `showHidden_typed` (dot-entries are shown iff the typed last segment starts with a dot, whatever the Context directory or the typed directories are called: the base name of `filepath.Abs(dir/typed)` is that segment - `clean_ends`, `base_of_ends`). The typed paths the hypotheses exclude are exactly the listed finding files_unclean_dir_part. Theorems about the listing logic of the model: `C16_entry_shape` (every candidate is the display folder, the entry name and `/` for a directory), `C16_entry_hidden`, `C16_entry_dir` (directories and links to directories with a trailing `/` whatever the filter), `C16_entry_file` (regular files only for ActionFiles and only with an allowed suffix), `C16_spec_hidden`; the cleaning of the typed directory part is a decided counterexample against the independent listing specification and a listed finding; the MultiParts stage is C11. "
                           "Correspondence: the model (lexical path functions + listing + MultiParts) is compared exactly with the real ActionFiles / ActionDirectories / Chdir on generated trees; oracle on the real result: set equality with `Spec.listing` of the directory the typed path denotes relative to the Context directory (never the process directory), no-space for directories, a message and no values for unreadable directories and invalid Chdir targets."),
            "level_note": "Trusted: Lean kernel + propext/Classical.choice/Quot.sound; the OS (the harness reads the denoted directory itself); the harness and generators. Modelled, not verified: internalActions.go actionPath, context.go Abs, path/filepath Clean/Dir/Base, MultiParts - bound by exact comparison on generated trees."},
})


PARSE_RULE = ("random cobra trees (1-4 commands nested arbitrarily, aliases, hidden / deprecated commands, sub-commands in cobra groups, sub-commands added to their parent by the parent's carapace PreRun at completion time, DisableFlagParsing, non-interspersed commands; 0-4 flags per command of kind bool / count / string / stringSlice / optional-argument, shorthands from a pool of six letters so that chains collide, persistent flags, hidden / deprecated / shorthand-deprecated flags, one or two mutually exclusive groups; one case in ten: flags of the carapace-pflag fork - `Nargs` 2 / 3 / -1 on slice flags, a custom `OptargDelimiter` (`:` `/` `%`) on long flags and, rarely, on a flag with a shorthand; 0-2 positional completions + any, 0-1 dash completions + any - every slot registered with a distinct marker value) "
              "x lines of 0-5 earlier words built by a grammar (`--f v`, `--f=v`, `-f v`, `-fv`, shorthand chains, `--`, empty words, lone `-`, positionals, sub-command names and aliases, unknown flags) and a current word (empty, `-`, `--`, partial names, chains, `--f=`, `-f=`, `--f<d>`, `--f<d>partial`; for `Nargs` flags runs of words with `-`, `--`, flags and empty words inside); every offered candidate is appended to the line and the line is executed by the program's own parser on a fresh tree; non-trivial = at least one candidate was offered; distinct = distinct input digest")
PARSE_ASSUME = ["cobra's TraverseChildren is not generated; the fork's Nargs, custom OptargDelimiter, tolerated unknown flags and its non-POSIX mode (a shorthand that is a word, ShorthandOnly / NameAsShorthand flags; one case in 16) are generated and covered by the general models (ForkG / TraverseG / PflagG); the theorems about slots are about POSIX flag sets", "commands accept arbitrary positional arguments (cobra.ArbitraryArgs), so that acceptance depends on flags and dispatch only",
                "the default `completion` command is disabled; the default help command and flag are cobra's"]
PARSE_NOTE = ("Trusted: Lean kernel + propext/Classical.choice/Quot.sound; cobra v1.9.1 and carapace-pflag v1.0.0 are the oracle (the program's own parser is executed, not modelled, for the slot / acceptance checks; `pflagShort` is a specification of parseSingleShortArg used by the stage-1 theorems and checked against the real parser by op `lookuparg`); the harness (tree builder, marker registration) and generators. "
              "Modelled: internal/pflagfork LookupArg / Consumes, the offer rules of actionFlags and IsMutuallyExclusive. traverse itself is not modelled.")

PROPS.update({
    "C01": {"modules": ["Carapace.Props.C01", "Carapace.Props.C01Slots", "Carapace.Props.C01Flag", "Carapace.Props.C01Attached", "Carapace.Props.C01NonInter", "Carapace.Props.C01Descent", "Carapace.Props.C01Fork", "Carapace.Props.C01ForkTraverse", "Carapace.Props.C01NonPosix", "Carapace.Props.C01ShortAttached", "Carapace.Props.C01Cobra"], "ops": [("cobrafind", {"quick": 4000, "thorough": 200000}), ("parse", {"quick": 5000, "thorough": 250000}), ("lookuparg", {"quick": 4000, "thorough": 200000}), ("pflagparse", {"quick": 4000, "thorough": 200000})],
            "rule": PARSE_RULE, "assumptions": PARSE_ASSUME, "claimed": True, "engine": "parse",
            "level_text": ("Partial proof + exact correspondence + decision on the real code. "
                           "Models: `traverseSlot` (Model/Traverse.lean: the classification loop of traverse.go over the earlier words, the fix-up of the words handed to the parser, descent into sub-commands, the final case distinction) and `Pflag.parse` (Spec/Pflag.lean: the program's own parser - parseArgs / parseLongArg / parseShortArg of carapace-pflag, POSIX mode). "
                           "Proved: stage 1 - `C01_short_agrees` (for every POSIX flag set in which no flag uses `=` as its shorthand and every shorthand chain the parser does not reject, carapace's LookupArg + Consumes expects the next word to be the value of flag f exactly when the parser takes it as f's value; the hypothesis was forced by the proof and has a decided counterexample), `C01_long_attached`; "
                           "stages 2-3 for any command of any program as long as no earlier word names one of its sub-commands (hypotheses `Stay`, `NoChild`; a single-command program is the special case `Single.stay`) - `C01_positional_lands` (if the model completes positional argument k for a word not starting with `-`, then any word typed there that does not look like a flag is accepted by the parser, given that it accepts the line so far, and becomes exactly positional argument k) `C01_dash_lands` (likewise for argument k after `--`, for any word; hypothesis: no flag is waiting for its value) and, for interspersed commands, `C01_flag_value_lands` (if the model completes the value of flag f, any word of f's type typed there is accepted and is assigned to f as the last assignment of the line: `long_pending`, `short_pending`, the loop invariant `loop_pend` - a flag that waits for its value is the last word - and `parseArgs_append_inter`), resting on `parseArgs_snoc` (the parser's result on `ws ++ [w]` from its result on `ws`, by induction over the line) and `loop_single`. Not proved: non-interspersed commands for the flag-value slot, attached values (`--flag=<TAB>`), and lines that descend into a sub-command (the listed descent findings live there; the dispatch itself is cobra's `Find`, which is executed, not modelled). "
                           "The fork's features: general models `traverseSlotG` / `lookupArgG` / `consumesG` (Model/TraverseG.lean, ForkG.lean) and the parser specification `PflagG.parseG` with per-flag `OptargDelimiter`, `Nargs`, tolerated unknown flags and the non-POSIX mode (`isPosixG`, `lookupNonPosixG`, `parseNonPosixShortG`: the whole word after `-` is one shorthand, ShorthandOnly / NameAsShorthand flags) - compared with the real code on every generated case; about the non-POSIX branch `C01_nonposix_attached` (C01NonPosix.lean: `-word<d>value` is resolved by carapace to the flag whose shorthand is `word` with prefix `-word<d>` and argument `value`, and the parser assigns `value` to the same flag; the text behind the dash must be longer than two characters, which is the parser's own condition - `nonposix_short_empty_attached_counterexample` decides the excluded case, a listed finding); proved `C01_fork_long_attached` (`--name<d>value`, names free of delimiters: carapace resolves the word to that flag with prefix `--name<d>` and argument `value`, the parser assigns `value` to the same flag and takes no further word), `loopG_any_run` + `consumesG_any_stops` + `takeNargs_any` (`Nargs` < 0: carapace's loop and the parser's parseNargs give the flag the same run of words - true only since fix 8fe9b47), `consumesG_n` + `takeNargs_n` (`Nargs` = n), and the embedding theorems `lookupArgG_posix`, `consumesG_posix`, `parseG_posix` and **`traverseSlotG_posix`** (C01ForkTraverse.lean: on every tree without fork features - and without a flag whose shorthand is `=` - the general traverse model picks exactly the slot of the POSIX model, by a simulation between the two classification loops; so every slot theorem above is a theorem about the model that is compared with the code on every case); the driver still evaluates both models and both specifications on every case without fork features and reports a disagreement as a mismatch. "
                           "`C01_attached_long_lands` (C01Attached.lean): if the model completes a value attached to a long flag (`--name=<TAB>`), the prefix it serves is `--name=` and for any text `v` of the flag's type the word `--name=v` is accepted and assigns `v` to that flag as the last assignment of the line. `C01_attached_short_lands` (C01ShortAttached.lean): the same for a value attached to a shorthand letter, in all three forms `-abn=<TAB>`, `-abnva<TAB>`, `-abn<TAB>`: if the model serves flag `name` behind the prefix `pre` and the parser accepts the earlier words, then for every non-empty `v` of the flag's type the word `pre ++ v` is accepted, the letters before get their defaults and `v` is assigned to that very flag as the last assignment of the line; hypotheses forced by the proof: no flag uses `=` as its shorthand, and in the forms without `=` the candidate does not start with `=` (decided counterexample `short_attached_eq_counterexample`: `-n` + `=x` is read as `-n=x`); word-level core `C01_short_attached_word` / `short_attached` (induction over the chain of letters, against `Pflag.parseShort`). `C01_flag_value_lands_noninterspersed` (C01NonInter.lean): the flag-value slot of a command that stops parsing flags at the first positional, given that the parser has met no positional in front of the flag word (`parseArgs_append_nopos`). `C01_path_same_command` (C01Cobra.lean): cobra's own `Find` is specified in Lean (Spec/Cobra.lean: `stripFlags`, `argsMinusFirstX`, `findNext`, `innerfind`; tied to the real package by op `cobrafind`: `root.Find(words)` on every generated tree and line) and for a line that begins with a path of sub-command names cobra dispatches to the command the path leads to with the remaining words (`find_descend`, `find_path`, `find_stays`) - the command and the words for which the traverse model computes the slot (`traverseSlot_path`). `traverseSlot_descend` / `traverseSlot_path` (C01Descent.lean): the slot of `sub1 sub2 ... words` is the slot of `words` in the command the path of sub-command names leads to, so the slot theorems apply behind such a path (`C01_positional_lands_after_path`); that cobra dispatches the same path is now a theorem over the specification of `Find` (above). "
                           "Ties: `Pflag.parse` = the real parser on every generated line (op `pflagparse`); `traverseSlot` = the slot the real traverse serves, observed through per-slot marker values, on every generated line incl. sub-command descent, parse errors, DisableFlagParsing, non-interspersed commands (op `parse`); LookupArg / Consumes model = internal/pflagfork (op `lookuparg`). "
                           "Decided on the real code, both directions: every offered candidate carries a marker of the slot that produced it; it is appended to the line and the line is executed by the program's own cobra/pflag on a fresh tree: it must land in that slot (command, positional index, index after the dash, flag); and a probe word typed at the cursor is run through the program the same way: the slot it lands in must be the slot whose registered completion is served (this direction needs no model)."),
            "level_note": PARSE_NOTE},
    "C07": {"modules": ["Carapace.Props.C07", "Carapace.Props.C07Parser", "Carapace.Props.C01Cobra"], "ops": [("cobrafind", {"quick": 3000, "thorough": 150000}), ("parse", {"quick": 6000, "thorough": 300000})],
            "rule": PARSE_RULE, "assumptions": PARSE_ASSUME, "claimed": True, "engine": "parse",
            "level_text": ("`C07_subcommand_dispatches` (C01Cobra.lean, over the specification of cobra's `Find`, Spec/Cobra.lean, tied to the real package by op cobrafind): the name or alias of a child of the command a path of sub-command names leads to, typed there, is dispatched by cobra to that very child, the following words handed on unchanged. " + "`C07_offer_rule` (a flag is offered iff visible, not deprecated, not already given unless repeatable, and no member of its mutually-exclusive groups was given) with its corollaries `C07_hidden_never`, `C07_deprecated_never`, `C07_given_only_if_repeatable`, `C07_mutex`; `C07_chain_accepted` (inside a shorthand series whose letters so far take no argument, appending the shorthand of any existing flag gives a word the parser specification does not reject); the mutex scan counting the flag itself is a decided counterexample; at the level of the program's flag parser (`Spec/Pflag.lean`, tied to the real package by op `pflagparse`): `C07_long_noarg_accepted` and `C07_long_value_accepted` - appended to any accepted interspersed line without `--`, the long form of a known flag (with a value of its type if it needs one) is accepted and sets exactly that flag, everything else unchanged. The rule model is compared with the real offer of longhand names on generated trees (changed flags taken from the program's own parse). "
                           "Decided on the real code: every offered flag name, appended (with a value if needed), is accepted by cobra/pflag and sets that very flag; hidden / deprecated flags and sub-commands are never offered; every offered sub-command name dispatches to that very sub-command."),
            "level_note": PARSE_NOTE},
})

BRIDGE_RULE = ("op bridge: (carapace -> cobra) random invoked results (0-4 candidates whose value, display and description differ, values ending in `/ = :` or a non-ASCII letter, descriptions with tabs, colons and padding; no-space sets empty / single / several / `*` / non-ASCII) handed to cobraValuesFor / cobraDirectiveFor; (cobra -> carapace) every directive 0..63 x value lists (none, extensions, a directory to change into - existing, nested, missing -, 1-3 values with and without tab-separated descriptions) handed to compDirective.ToA and invoked in a scratch directory with known content. "
               "op ccomplete: random cobra trees (as for C01/C07) whose slots are registered with distinct markers either through carapace (FlagCompletion, Positional/Dash completion) or through cobra's own API (RegisterFlagCompletionFunc, ValidArgsFunction with tab-separated descriptions and NoSpace on odd positions); value positions (`--f <TAB>`, `--f=<TAB>`, `-f <TAB>`, positionals before and after `--`, after earlier flags, in sub-commands) are completed twice on fresh trees: by the real `__complete` protocol and by carapace's own `_carapace export`; non-trivial = something was served; distinct = distinct input digest")
BRIDGE_NOTE = ("Trusted: Lean kernel + propext/Classical.choice/Quot.sound; cobra v1.9.1 (its `__complete` command is executed, not modelled); the harness and generators; the scratch directory listing expected by the driver. "
               "Modelled: compat.go (cobraValuesFor, cobraDirectiveFor, compDirective.ToA); which action cobra or carapace selects for a position is decided on the real code only.")

PROPS.update({
    "C20": {"modules": ["Carapace.Props.C20"], "ops": [("bridge", {"quick": 6000, "thorough": 300000}), ("ccomplete", {"quick": 4000, "thorough": 150000})],
            "rule": BRIDGE_RULE, "assumptions": ["shell scripts generated by cobra are not executed: the `__complete` output (lines `value<TAB>description` and the final `:directive`) is the observable",
                                                 "values served through cobra contain no tab (cobra's protocol cannot carry one)"],
            "claimed": True, "engine": "parse",
            "level_text": ("Theorems over the model of compat.go: `C20_values` (splitting each served line at the first tab recovers every value with its description, for any description text), `C20_nospace_iff` (NoFileComp always; NoSpace iff some served value ends in a no-space character or the set is `*`), `C20_directive_kind` (for every directive and value list ToA chooses error / directories / extension-filtered files / default files / the described values exactly as the specification read off the property prescribes; `C20_directive_table` is its 64-row instance), `C20_values_from_cobra`, `C20_nospace_honoured_all` (NoSpace is honoured with every non-error directive - true only since fix e3d5247). "
                           "The model is compared exactly with the real functions (op bridge, both directions; the resulting actions are invoked in a scratch directory), and the end-to-end claim - the same candidates through `__complete` as through carapace itself, for completions registered on either side - is decided on the real code for generated trees and value positions (op ccomplete)."),
            "level_note": BRIDGE_NOTE},
})

ENTRY_RULE = ("op entry: the harness binary re-executes itself as a program built on a random cobra tree (as for C01/C07; slots registered from a menu of 12 actions: markers, files, directories, a failing external command, a command that does not exist, a callback reporting an error, MultiParts, ActionMultiPartsN + Chdir, long multi-byte / multi-line / given descriptions, styled values with tag and usage, Batch + Prefix + UniqueList, ActionImport of invalid JSON) "
              "as a child process of a process named like a shell (bash, nu, cmd, zsh, fish, elvish, pwsh, xonsh, tcsh, osh, ion, an unknown name; bash-ble through its environment), so that ps.DetermineShell and the per-shell argument patching run for real; "
              "argv = `_carapace` + [] | [shell] | [shell, program] | [shell, program, words...] with all 13 shell names and unknown ones (empty, upper case, invalid UTF-8, trailing blank), odd program names; words from a plausible line for the tree mixed with empty words, lone dashes, `=` forms, open quotes and backslashes, invalid UTF-8, 200-6000 character words, `~` / `~name` / `~name/` forms, paths, control characters, redirection and pipe tokens, `_` / ERR prefixes; "
              "environment: COMP_LINE / COMP_POINT (consistent, negative, beyond the line, not a number, beyond int64, one without the other, lines ending in a redirect, pipe, open quote or backslash), COMP_TYPE, COMP_WORDBREAKS, CARAPACE_COMPLINE, CARAPACE_MATCH, CARAPACE_ZSH_HASH_DIRS (well and ill formed), NO_COLOR, CARAPACE_HIDDEN / LENIENT / UNFILTERED / COVERDIR / LOG / TOOLTIP / SANDBOX, HOME and XDG_CONFIG_HOME unset-like values. "
              "ops compline / trimdesc / abs: the three modelled functions in-process on generated inputs around their boundaries. every case counts as non-trivial (each is one process run or one boundary input); distinct = distinct input digest")
ENTRY_NOTE = ("Trusted: Lean kernel + propext/Classical.choice/Quot.sound (`C18_sites_covered` uses `decide +kernel`: kernel evaluation, no axiom); the consumer-side decoders of lean/Carapace/Spec/Decode.lean and the JSON parser of Lean's library as the definition of 'well formed'; the harness, the generators, the 20 s limit that defines a hang. "
              "Modelled and proved total: bash.CompLine, RawValue.TrimmedDescription, namedDirectories.match / Replace, expandHome, Context.Abs. Everything else on the entry path (traverse, the lexer, cobra, the formatters' index arithmetic) is NOT modelled: for it the property is searched on the real code by mass generation, and the regenerated site inventory pins the source the search was run against - a theorem about the inventory, not about those sites' safety. Memory exhaustion, signals and OS errors are outside.")

PROPS.update({
    "C18": {"modules": ["Carapace.Props.C18", "Carapace.Props.C18Traverse", "Carapace.Props.C18TraverseG"], "ops": [("entry", {"quick": 4000, "thorough": 200000}), ("compline", {"quick": 3000, "thorough": 100000}), ("trimdesc", {"quick": 3000, "thorough": 100000}), ("abs", {"quick": 3000, "thorough": 100000})],
            "rule": ENTRY_RULE, "assumptions": ["the observable is the one the property names: exit status, stderr and decodability of stdout of a child process", "a hang is no answer within 20 s (the machine may be loaded by 16 parallel children)"],
            "claimed": True, "engine": "total",
            "technique": "machine-checked proof in Lean 4 (explicit-panic models of the slice arithmetic, kernel-decided site inventory regenerated from the source) + differential correspondence; the unmodelled remainder of the entry path is searched by generated child processes (partial)",
            "level_text": ("Partial: proof for the modelled functions, search on the real code for the rest (the runtime behaviour - panics inside unmodelled code, hangs - cannot be exhibited by the model). Proved for every input, in a model where Go's slice and index expressions are operations that can fail (`Except Panic`): `C18_compLine_total` (bash.CompLine never panics whatever COMP_LINE / COMP_POINT hold - true only since fix 3cb8b85) with `C18_compLine_prefix`, `C18_trimmed_total` / `C18_trimmed_source` (TrimmedDescription's `[:maxLength-3]` is in range for the limit read from the source, and the function equals the total one used by the formatter theorems), `C18_ndMatch_total`, `C18_ndReplace_total` (`SplitN(s, \"/\", 2)[1]` is reached only when the string contains `/`), `C18_expandHome_total`, `C18_abs_total`; a decided witness that the failure is expressible (`C18_trimmed_small_limit_panics`); over the traverse model (any command, lines that stay within it), the two slices of traverse.go whose bounds depend on the typed line: `C18_toParse_nonempty` (`toParse[:len-1]` is reached only when a flag waits for its value, and then that flag word is the last word - loop invariant `loop_pend`) and `C18_series_prefix_contains_shorthand` / `C18_series_cut_exists` (`Prefix[LastIndex(Prefix, Shorthand):]`: what lookupPosixShorthandArg returns carries the letter in its prefix); and over the general traverse model (fork features, non-POSIX flag sets, any line incl. descent and `--`): `C18G_toParse_nonempty` (a flag in `inFlag` implies a word in `inArgs`: the invariant of the loop, no hypothesis on the line) and `C18G_series_prefix_contains_shorthand`. "
                           "`C18_sites_covered`: the inventory of every index / slice / panic / Must* expression of 38 files on the entry path, each with the conditions guarding it, regenerated from /repo on every run, equals the inventory the runs below were made for (kernel-decided). The models are compared exactly with the real functions (ops compline, trimdesc, abs). "
                           "Decided on the real code: thousands of child processes per run with generated argv / environment / ancestor shell / command tree; oracle: exit status 0, no goroutine dump, an answer within the limit, stdout decodable by the requested shell's consumer-side decoder, nothing but white space for unknown shells."),
            "level_note": ENTRY_NOTE},
})


def all_lean_sources():
    out = []
    for root in ("Carapace", "Driver"):
        out += glob.glob(os.path.join(core.LEAN, root, "**", "*.lean"), recursive=True)
    return out


def mismatch_relevant(pid, verdict):
    """does a model/implementation disagreement on this case concern this property?"""
    aspects = verdict.get("aspects")
    if isinstance(aspects, dict) and pid in aspects:
        return not aspects[pid]
    return True


def nontrivial(op, inp):
    if op == "history":
        return len(inp.get("steps") or []) >= 2
    if op == "value":
        return bool(inp.get("values")) or bool((inp.get("meta") or {}).get("messages"))
    return True


def _shorten(s):
    out = []
    if len(s) > 1:
        out.append(s[: len(s) // 2])
        out.append(s[len(s) // 2:])
        out.append(s[1:])
        out.append(s[:-1])
    elif len(s) == 1:
        out.append("")
    return out


def shrink_variants(op, inp, limit=400):
    """structurally smaller variants of an input (generic over JSON), at most `limit`;
    big lists are halved first"""
    import itertools, json as _json

    def halves(node, path):
        if isinstance(node, dict):
            for k, v in node.items():
                yield from halves(v, path + [k])
        elif isinstance(node, list):
            if len(node) > 3:
                yield (path, node[: len(node) // 2])
                yield (path, node[len(node) // 2:])
            for i, v in enumerate(node[:8]):
                yield from halves(v, path + [i])

    def setp0(root, path, val):
        for p in path[:-1]:
            root = root[p]
        root[path[-1]] = val

    big = []
    for (path, val) in halves(inp, []):
        if path:
            c = copy.deepcopy(inp)
            setp0(c, path, val)
            big.append(c)
    if big:
        yield from big
        if len(_json.dumps(inp)) > 20000:
            return
    yield from itertools.islice(_shrink_variants_all(op, inp), limit)


def _shrink_variants_all(op, inp):
    def walk(node, path):
        if isinstance(node, dict):
            for k, v in node.items():
                yield from walk(v, path + [k])
        elif isinstance(node, list):
            for i in range(len(node)):
                yield ("dellist", path, i)
            for i, v in enumerate(node):
                yield from walk(v, path + [i])
        elif isinstance(node, str):
            if node:
                yield ("str", path, None)
        elif isinstance(node, bool):
            if node:
                yield ("false", path, None)

    def get(root, path):
        for p in path:
            root = root[p]
        return root

    def setp(root, path, val):
        for p in path[:-1]:
            root = root[p]
        root[path[-1]] = val

    for (kind, path, arg) in walk(inp, []):
        if kind == "dellist":
            c = copy.deepcopy(inp)
            del get(c, path)[arg]
            yield c
        elif kind == "str":
            if path and path[-1] == "shell":
                continue
            for s in _shorten(get(inp, path)):
                c = copy.deepcopy(inp)
                setp(c, path, s)
                yield c
        elif kind == "false":
            c = copy.deepcopy(inp)
            setp(c, path, False)
            yield c
