/- Driver ops `exportrt` and `import` (C13) -/
import Driver.Alg
import Carapace.Model.ExportDecode

namespace Driver
open Lean Carapace Carapace.Model

def parseMetaIn (m : Json) : Meta :=
  { messages := (jstrs m "messages").foldl (fun acc x => insertMsg x acc) [],
    nospace := SuffixMatcher.add [] (jS m "nospace"), usage := jS m "usage" }

def runExportRT (inp out : Json) : Json :=
  let m := parseMetaIn (jget inp "meta")
  let viaShell := jstr (jget inp "via") == "shell"
  let valsIn : Option (List RawValue) :=
    if (jget inp "values").isNull then none
    else some ((jarr inp "values").toList.map (fun j =>
      let v := parseRaw j
      if viaShell then { v with uid := [] } else v))
  let doc := jS out "doc"
  -- the `_carapace export` path sorts by display first (stable for the later sort by value only when values differ)
  let model := marshalExport (jS out "version") m (if viaShell then (match valsIn with | none => some [] | some v => some v) else valsIn)
  let valueTies := match valsIn with
    | some vs => (vs.map (·.value)).eraseDups.length != vs.length
    | none => false
  let same := model == doc || (valueTies && model.length == doc.length)
  let imported := parseResult (jget out "imported")
  -- the model of the reading side (`parseExport`, about which C13_document_roundtrip is proved), run on the REAL bytes:
  -- it must accept them and hold what the real ActionImport holds (skipped for the rare documents beyond 30000 characters)
  let decoded : Option (Option ExportDoc) := if doc.length > 30000 then none else some (parseExport doc)
  let decodeDiff : String :=
    match decoded, imported with
    | some none, _ => "model decoder rejects the real document"
    | some (some d), some r =>
      if d.messages != r.1.messages then s!"model decoder messages differ from ActionImport: got {showInvoked r}"
      else if SuffixMatcher.add [] d.nospace != r.1.nospace then "model decoder nospace differs from ActionImport"
      else if d.usage != r.1.usage then "model decoder usage differs from ActionImport"
      else if canonValuesUid (d.values.getD []) != canonValuesUid r.2 then s!"model decoder values differ from ActionImport: got {showInvoked r}"
      else if d.version != jS out "version" then "model decoder version differs"
      else ""
    | _, _ => ""
  let same := same && decodeDiff == ""
  let fails : List AFail :=
    match imported with
    | none => [{ prop := "C13", code := "import_panics", detail := (jget out "imported").compress }]
    | some r =>
      let want := valsIn.getD []
      (if r.1 == m then [] else [{ prop := "C13", code := "meta_changed", detail := s!"got {showInvoked r}" }]) ++
      (if canonValuesUid r.2 == canonValuesUid want then [] else [{ prop := "C13", code := "values_changed", detail := s!"got {showInvoked r} want {showInvoked (m, want)}" }]) ++
      -- the imported Action is a value: used as the base of a derived action in between, it still holds the document
      (match parseResult (jget out "importedAgain") with
       | some r2 => if (jget out "importedAgain").isNull || (r2.1 == r.1 && canonValuesUid r2.2 == canonValuesUid r.2) then [] else
           [{ prop := "C13", code := "imported_action_not_a_value", detail := s!"first {showInvoked r}, after a derived action was invoked {showInvoked r2}" }]
       | none => if (jget out "importedAgain").isNull then [] else [{ prop := "C13", code := "import_panics", detail := (jget out "importedAgain").compress }])
  Json.mkObj [("same", Json.bool same), ("diff", Json.str (if same then "" else if decodeDiff != "" then decodeDiff ++ s!" real {String.ofList doc}" else s!"model {String.ofList model} real {String.ofList doc}")),
              ("fails", Json.arr (fails.map afailJson).toArray),
              ("feat", Json.mkObj [("via", Json.str (jstr (jget inp "via"))), ("nvalues", Json.num (valsIn.getD []).length),
                                   ("decoded", Json.bool decoded.isSome)])]
where
  -- a total order on all six fields: entries that differ only in uid must not keep their input order
  canonValuesUid (vs : List RawValue) : List RawValue :=
    sortBy (fun a b => rawLt a b || (!rawLt b a && Str.lt a.uid b.uid)) vs

def runImport (inp out : Json) : Json :=
  let bytes := jstr (jget inp "bytes")
  let valid := match Json.parse bytes with | .ok _ => true | .error _ => false
  let res := parseResult (jget out "result")
  let fails : List AFail :=
    match res with
    | none => [{ prop := "C13", code := "import_panics", detail := (jget out "result").compress }]
    | some r =>
      (if !valid && !(r.2.isEmpty && r.1.messages.length == 1) then
        [{ prop := "C13", code := "invalid_json_accepted", detail := s!"{bytes.quote} gives {showInvoked r}" }]
      else []) ++
      -- soundness of the decoder model: a text it accepts is held by the real ActionImport with the same content
      (match (if bytes.length > 30000 then none else parseExport bytes.toList) with
       | some d =>
         if d.messages == r.1.messages && d.usage == r.1.usage && (d.values.getD []).length == r.2.length then []
         else [{ prop := "C13", code := "decoder_model_accepts_more", detail := s!"{bytes.quote}: model holds {(d.values.getD []).length} values, real {showInvoked r}" }]
       | none => [])
  Json.mkObj [("same", Json.bool true), ("diff", Json.str ""), ("fails", Json.arr (fails.map afailJson).toArray),
              ("feat", Json.mkObj [("valid", Json.bool valid), ("goValid", Json.bool (jbool out "goValid"))])]

end Driver
