/- Driver op `cobrafind` (C01 / C07): the specification of cobra's `Find` (Spec/Cobra.lean) vs the real package -/
import Driver.Parse
import Carapace.Spec.Cobra

namespace Driver
open Lean Carapace Carapace.Model Carapace.Spec

def runCobraFindOp (inp out : Json) : Json :=
  let cmds : Array CmdS := (jarr (jget inp "tree") "cmds").map parseCmdS
  let words := (jarr inp "words").toList.map (fun j => (jstr j).toList)
  let nonPosixTree := cmds.any (fun c => c.flags.any FlagS.nonPosix)
  let realCmd := jint out "cmd"
  let realRest := (jarr out "rest").toList.map (fun j => (jstr j).toList)
  let (mc, mrest) := Cobra.find (toTTree cmds) (words.length + 2) 0 words
  -- non-POSIX flag sets (a shorthand that is a word): the look-up by first letter is the fork's, not modelled here
  let same := nonPosixTree || cmds.size == 0 || ((mc : Int) == realCmd && mrest == realRest)
  Json.mkObj [("same", Json.bool same),
              ("diff", Json.str (if same then "" else s!"{words.map String.ofList}: model dispatches to {mc} with {mrest.map String.ofList}, cobra to {realCmd} with {realRest.map String.ofList}")),
              ("fails", Json.arr #[]),
              ("feat", Json.mkObj [("cmd", Json.num mc), ("nwords", Json.num words.length), ("nonposix", Json.bool nonPosixTree)])]

end Driver
