/- Driver op `split` (C17) -/
import Driver.Alg
import Carapace.Model.Split

namespace Driver
open Lean Carapace Carapace.Model

def parseLex (j : Json) : Lex :=
  { words := jstrs j "words", wordsCurIndex := jnat j "wordsCurIndex", curIndex := jnat j "curIndex",
    curValue := jS j "curValue", curState := jstr (jget j "curState"), ntokens := jnat j "ntokens",
    prevRedirect := jbool j "prevRedirect" }

def runSplit (inp out : Json) : Json :=
  let text := jS inp "text"
  let pipelines := jbool inp "pipelines"
  let vals := (jstrs inp "values").filter (fun v => !v.isEmpty)
  let nsIn := jS inp "nospace"
  let ns : SuffixMatcher := if nsIn.isEmpty then [] else SuffixMatcher.add [] nsIn
  let lexJ := jget out "lex"
  let lexErr := jstr (jget lexJ "err")
  let lex := parseLex lexJ
  let real := parseResult (jget out "result")
  let redirect := isRedirectCase pipelines lex
  match real with
  | none =>
    Json.mkObj [("same", Json.bool false), ("diff", Json.str "panic"),
                ("fails", Json.arr #[afailJson { prop := "C17", code := "panic", detail := (jget out "result").compress },
                                       afailJson { prop := "C18", code := "panic:split", detail := (jget out "result").compress }]),
                ("feat", Json.mkObj [])]
  | some r =>
    if lexErr != "" then
      -- the lexer rejects the text: an error message, no candidates
      let ok := r.2.isEmpty && r.1.messages.length == 1
      Json.mkObj [("same", Json.bool ok), ("diff", Json.str (if ok then "" else "lexer error not reported as a message")),
                  ("fails", Json.arr #[]), ("feat", Json.mkObj [("kind", Json.str "lexer-error")])]
    else
      let got := r.2.map (·.value)
      let model := splitModel lex text vals ns
      let same := redirect || (got == model && r.1.nospace == ['*'])
      -- oracles on the real result
      let (wantArgs, wantValue) := splitCtx lex
      let seen := jbool out "seen"
      let f1 : List AFail :=
        if redirect then [] else
        if seen && jstrs out "seenArgs" == wantArgs && jS out "seenValue" == wantValue then []
        else [{ prop := "C17", code := "context", detail := s!"wrapped action saw args {(jstrs out "seenArgs").map String.ofList} value {String.ofList (jS out "seenValue")}, the lexer says {lex.words.map String.ofList}" }]
      -- the typed text up to the start of the last word, as *characters*
      let specPrefix := text.take (if redirect then lex.curIndex else lex.wordsCurIndex)
      let f2 : List AFail := (got.filter (fun g => !Str.hasPrefix g specPrefix)).take 1 |>.map (fun g =>
        { prop := "C17", code := "prefix_rewritten", detail := s!"candidate {(String.ofList g).quote} does not start with {(String.ofList specPrefix).quote}" })
      -- re-reading every candidate yields the earlier words and exactly the value
      let relex := (jarr out "relex").toList
      let f3 : List AFail :=
        if redirect || got.length != vals.length then [] else
        ((got.zip vals).zip relex).filterMap (fun ((g, v), rl) =>
          if !(jget rl "err").isNull && jstr (jget rl "err") != "" then
            some { prop := "C17", code := "relex_error", detail := (String.ofList g).quote }
          else
            let ws := jstrs rl "words"
            let want := wantArgs ++ [v] ++ (if g.getLast? == some ' ' then [[]] else [])
            if ws == want || ws == wantArgs ++ [v] then none
            else some { prop := "C17", code := "relex", detail := s!"candidate {(String.ofList g).quote} re-reads as {ws.map String.ofList}, expected {want.map String.ofList}" })
      -- a blank follows unless no-space applies
      let f4 : List AFail :=
        if redirect || got.length != vals.length then [] else
        (got.zip vals).filterMap (fun (g, v) =>
          let wantsSpace := !(ns.elem '*' || (match v.getLast? with | some ch => ns.elem ch | none => false))
          let unq := g.drop specPrefix.length
          -- the appended text ends in a blank outside quotes iff a space is wanted
          let endsBlank := unq.getLast? == some ' ' && !(unq.length ≥ 2 && unq.getD (unq.length - 2) 'x' == '\\')
          if wantsSpace == endsBlank then none
          else some { prop := "C17", code := if wantsSpace then "space_missing" else "space_not_wanted", detail := (String.ofList g).quote })
      -- SplitP: a word after a redirection operator is completed as a file (of the Context directory,
      -- which the harness fills with file1.txt, out.log and sub/)
      let files : List Str := ["file1.txt".toList, "out.log".toList, "sub/".toList]
      let f5 : List AFail :=
        if !redirect then [] else
        let unquote (n : Str) : Str :=
          let n := Str.trimSuffix n [' ']
          if n.length ≥ 2 && ((n.head? == some '\'' && n.getLast? == some '\'') || (n.head? == some '"' && n.getLast? == some '"'))
          then (n.drop 1).dropLast else n
        let names := got.map (fun g => unquote (g.drop specPrefix.length))
        let expected := files.filter (fun f => Str.hasPrefix f lex.curValue)
        if seen then [{ prop := "C17", code := "redirect_not_files", detail := "the wrapped action was consulted for a redirection target" }]
        else if !(names.all (fun n => files.elem n)) || !(expected.all (fun f => names.elem f)) then
          [{ prop := "C17", code := "redirect_not_files", detail := s!"candidates {names.map String.ofList}, files matching: {expected.map String.ofList}" }]
        else []
      -- the redirect guard applies exactly when the token before the last one is a redirection
      let f6 : List AFail :=
        if pipelines && !redirect && lex.prevRedirect then
          [{ prop := "C17", code := "redirect_missed", detail := "" }] else []
      let fails := f1 ++ f2 ++ f3.take 2 ++ f4.take 2 ++ f5 ++ f6
      Json.mkObj [("same", Json.bool same),
                  ("diff", Json.str (if same then "" else s!"model {model.map String.ofList} real {got.map String.ofList} nospace {String.ofList r.1.nospace}")),
                  ("fails", Json.arr (fails.map afailJson).toArray),
                  ("feat", Json.mkObj [("state", Json.str lex.curState), ("redirect", Json.bool redirect), ("pipelines", Json.bool pipelines),
                                       ("nwords", Json.num lex.words.length)])]

end Driver
