/-
  Driver op `value`: model of the formatting pipeline vs the real output, and the
  C02..C06 oracles on the real output.
-/
import Driver.Json
import Carapace.Model.Shells
import Carapace.Spec.FmtOracle

namespace Driver
open Lean Carapace Carapace.Model Carapace.Spec

def parseValue (j : Json) : RawValue :=
  { value := jS j "value", display := jS j "display", description := jS j "description",
    style := jS j "style", tag := jS j "tag", uid := jS j "uid" }

def parseFmtInput (inp out : Json) : Option FmtInput := do
  let sh ← Sh.ofStr (jstr (jget inp "shell"))
  let e := jget inp "env"
  let nd := match (jget e "namedDirs").getObj? with
    | .ok o => (o.toList.filter (fun (_, v) => jstr v != "")).map (fun (k, _) => k.toList)
    | .error _ => []
  -- `env.getBool`: a switch that is set is on for "true" and "1" only
  let bv := jS e "boolVal"
  let sw (k : String) : Bool := if bv = [] then jbool e k else bv == "true".toList || bv == "1".toList
  let env : Env :=
    { colorDisabled := sw "nocolor", unfiltered := sw "unfiltered", nospaceEnv := jS e "nospace",
      ci := jbool e "ci", wordbreaks := joptS e "wordbreaks", bashPrefix := jS e "bashPrefix",
      bashCompType := jS e "bashCompType", zshRaw := jS out "zshRawToken", namedDirs := nd,
      errStyle := jS out "errStyle", dfltStyle := jS out "dfltStyle" }
  let m := jget inp "meta"
  let msgs := (jstrs m "messages").foldl (fun acc x => insertMsg x acc) []
  pure { sh := sh, env := env, word := jS inp "word", msgs := msgs,
         nospace := SuffixMatcher.add [] (jS m "nospace"), usage := jS m "usage",
         values := (jarr inp "values").toList.map parseValue }

/-! ### decoding the JSON formats (a JSON parser + the field mapping of the snippet) -/

def psT : Str := "`e[21;22;23;24;25;29;39;49m".toList
def psH : Str := "`e[21;22;23;24;25;29m`e[".toList

def dropSgr (s : Str) : Str := s.dropWhile (fun c => c.isDigit || c == ';')

/-- powershell's ListItemText: display and description between the fixed escape framing -/
def psParseItem (item : Str) : Option (Str × Str) :=
  if !Str.hasPrefix item psH then none else
  let s := dropSgr (item.drop psH.length)
  match s with
  | 'm' :: s =>
    let s := Str.trimSuffix s "`e[0m".toList
    match Str.cut s psT with
    | (d, some rest) =>
      if rest.isEmpty then some (d, [])
      else if Str.hasPrefix rest "`e[".toList then
        let r := dropSgr (rest.drop 3)
        if Str.hasPrefix r "m `e[".toList then
          let r := dropSgr (r.drop 5)
          if Str.hasPrefix r "m(".toList && Str.hasSuffix r ([')'] ++ psT) then
            some (d, (r.drop 2).take ((r.drop 2).length - (psT.length + 1)))
          else none
        else none
      else none
    | (_, none) => none
  | _ => none

def decodeJson (sh : Sh) (raw : Str) : Option Decoded :=
  match Json.parse (String.ofList raw) with
  | .error _ => none
  | .ok j =>
    match sh with
    | .nushell =>
      (j.getArr?).toOption.map (fun a => { recs := a.toList.map (fun x =>
        ({ insert := jS x "value", display := jS x "display", description := jS x "description" } : Rec)) })
    | .xonsh =>
      (j.getArr?).toOption.map (fun a => { recs := a.toList.map (fun x =>
        ({ insert := jS x "Value", display := jS x "Display", description := jS x "Description" } : Rec)) })
    | .ion =>
      (j.getArr?).toOption.map (fun a => { recs := a.toList.map (fun x =>
        ({ insert := jS x "Value", display := jS x "Display" } : Rec)) })
    | .powershell =>
      match j.getArr? with
      | .error _ => none
      | .ok a =>
        let recs := a.toList.map (fun x =>
          match psParseItem (jS x "ListItemText") with
          | some (d, desc) => some ({ insert := jS x "CompletionText", display := d, description := desc } : Rec)
          | none => none)
        if recs.all Option.isSome then some { recs := recs.filterMap id } else none
    | .elvish =>
      some { recs := (jarr j "Candidates").toList.map (fun x =>
               ({ insert := jS x "Value", display := jS x "Display", description := jS x "Description",
                  nospace := some ((jS x "CodeSuffix").isEmpty) } : Rec)),
             messages := jstrs j "Messages", usage := jS j "Usage" }
    | .export =>
      some { recs := (jarr j "values").toList.map (fun x =>
               ({ insert := jS x "value", display := jS x "display", description := jS x "description", tag := jS x "tag" } : Rec)),
             messages := jstrs j "messages", usage := jS j "usage",
             globalNospace := none }
    | _ => none

def decodeAny (sh : Sh) (raw : Str) : Option Decoded :=
  match sh with
  | .bash => decodeBash raw
  | .fish => decodeFish raw
  | .bashBle => decodeBashBle raw
  | .cmdClink => decodeCmdClink raw
  | .oil | .tcsh => decodeLines raw
  | .zsh => decodeZsh raw
  | _ => decodeJson sh raw

/-! ### the model's prediction -/

def recLt (a b : Rec) : Bool :=
  Str.lt a.insert b.insert || (a.insert == b.insert && (Str.lt a.display b.display ||
    (a.display == b.display && Str.lt a.description b.description)))

def hasDisplayTies (vs : List RawValue) : Bool :=
  let ds := vs.map (·.display)
  ds.eraseDups.length != ds.length

/-- compare model and real output; returns `none` when they agree -/
def compareFmt (i : FmtInput) (raw : Str) : Option String :=
  let shName := i.sh.name.toList
  let meta0 : Meta := { messages := i.msgs, nospace := i.nospace, usage := i.usage }
  let (m, vs) := pipeline shName i.env i.word meta0 i.values
  let ties := hasDisplayTies vs
  let lineCmp (model real : Str) : Option String :=
    if model == real then none
    else if ties && sortBy Str.lt (Str.splitOnChar '\n' model) == sortBy Str.lt (Str.splitOnChar '\n' real) then none
    else some s!"model {showStr model} real {showStr real}"
  let recCmp (model real : List Rec) : Option String :=
    if model == real then none
    else if ties && sortBy recLt model == sortBy recLt real then none
    else some s!"model {repr model} real {repr real}"
  match i.sh with
  | .bash =>
    -- with ties the flag and the texts are compared separately
    let model := bashFormat i.env i.word m vs
    if model == raw then none
    else if ties then
      match Str.cutChar (Char.ofNat 1) model, Str.cutChar (Char.ofNat 1) raw with
      | (f1, some d1), (f2, some d2) =>
        -- the common-prefix step may prefix a blank to a different first display under ties
        if f1 == f2 && sortBy Str.lt ((Str.splitOnChar '\n' d1).map Str.trimLeft) == sortBy Str.lt ((Str.splitOnChar '\n' d2).map Str.trimLeft) then none
        else some s!"model {showStr model} real {showStr raw}"
      | _, _ => some s!"model {showStr model} real {showStr raw}"
    else some s!"model {showStr model} real {showStr raw}"
  | .tcsh => lineCmp (tcshFormat i.env i.word vs) raw
  | .oil => lineCmp (oilFormat m vs) raw
  | .fish => lineCmp (fishFormat vs) raw
  | .bashBle => lineCmp (bashBleFormat m vs) raw
  | .cmdClink => lineCmp (cmdClinkFormat m vs) raw
  | .zsh =>
    match Str.splitOnChar (Char.ofNat 1) raw with
    | [_, message, data, []] =>
      let modelData := zshData i.env m vs
      let msgs := if message.isEmpty then [] else (Str.splitOnChar '\n' message).map stripSgr
      let dataOk :=
        modelData == data ||
        (ties && sortBy Str.lt (Str.splitOn modelData [Char.ofNat 2]) == sortBy Str.lt (Str.splitOn data [Char.ofNat 2])) ||
        (ties && sortBy Str.lt ((Str.splitOnChar '\n' modelData).flatMap (Str.splitOnChar (Char.ofNat 3))) == sortBy Str.lt ((Str.splitOnChar '\n' data).flatMap (Str.splitOnChar (Char.ofNat 3))))
      if !dataOk then some s!"zsh data: model {showStr modelData} real {showStr data}"
      else if msgs != zshMessages m then some s!"zsh messages: model {(zshMessages m).map showStr} real {msgs.map showStr}"
      else none
    | _ => some "zsh: not three \\x01-terminated fields"
  | .export =>
    match decodeJson .export raw with
    | none => some "export: invalid JSON"
    | some d =>
      let model := (exportRecs vs).map (fun v => ({ insert := v.value, display := v.display, description := v.description, tag := v.tag } : Rec))
      let valueTies := ((vs.map (·.value)).eraseDups.length != vs.length)
      if d.messages != m.messages then some s!"export messages: model {m.messages.map showStr} real {d.messages.map showStr}"
      else if d.usage != m.usage then some "export usage"
      else if model == d.recs then none
      else if valueTies && sortBy recLt model == sortBy recLt d.recs then none
      else some s!"export values: model {repr model} real {repr d.recs}"
  | sh =>
    match decodeJson sh raw with
    | none => some s!"{sh.name}: invalid JSON"
    | some d =>
      match sh with
      | .nushell => recCmp (nushellRecs m vs) d.recs
      | .powershell => recCmp (powershellRecs m vs) d.recs
      | .xonsh => recCmp (xonshRecs m vs) d.recs
      | .ion => recCmp (ionRecs m vs) d.recs
      | .elvish =>
        let usage := if vs.isEmpty then m.usage else []
        if d.messages != m.messages then some s!"elvish messages: model {m.messages.map showStr} real {d.messages.map showStr}"
        else if d.usage != usage then some "elvish usage"
        else recCmp (elvishRecs m vs) d.recs
      | _ => none

/-! ### per-property aspects of a disagreement

When the model's output and the implementation's differ, the disagreement concerns a property
only if the part of the decoded output that property speaks about differs.  Both outputs are
decoded with the consumer-side decoder and projected:
  C02  what each inserted text reads back as (the words the user ends up with)
  C03  the inserted texts themselves (modulo one trailing blank, which is C05's)
  C04  the records: how many, and display / description / tag of each
  C05  per record the no-space expression, and the global flag
  C06  messages, usage, and the synthetic error entries
If either side cannot be decoded the disagreement concerns all of them. -/

def modelDecoded (i : FmtInput) : Option Decoded :=
  let shName := i.sh.name.toList
  let meta0 : Meta := { messages := i.msgs, nospace := i.nospace, usage := i.usage }
  let (m, vs) := pipeline shName i.env i.word meta0 i.values
  match i.sh with
  | .bash => decodeBash (bashFormat i.env i.word m vs)
  | .tcsh => decodeLines (tcshFormat i.env i.word vs)
  | .oil => decodeLines (oilFormat m vs)
  | .fish => decodeFish (fishFormat vs)
  | .bashBle => decodeBashBle (bashBleFormat m vs)
  | .cmdClink => decodeCmdClink (cmdClinkFormat m vs)
  | .zsh => decodeZsh ([Char.ofNat 1] ++ Str.joinChar '\n' (zshMessages m) ++ [Char.ofNat 1] ++ zshData i.env m vs ++ [Char.ofNat 1])
  | .export => some { recs := (exportRecs vs).map (fun v => ({ insert := v.value, display := v.display, description := v.description, tag := v.tag } : Rec)),
                      messages := m.messages, usage := m.usage }
  | .nushell => some { recs := nushellRecs m vs }
  | .powershell => some { recs := powershellRecs m vs }
  | .xonsh => some { recs := xonshRecs m vs }
  | .ion => some { recs := ionRecs m vs }
  | .elvish => some { recs := elvishRecs m vs, messages := m.messages, usage := if vs.isEmpty then m.usage else [] }

def dropBlank (s : Str) : Str := if s.getLast? == some ' ' then s.dropLast else s

def isErrRec (r : Rec) : Bool :=
  let head := r.display.takeWhile (· != ' ')
  isErrDisplay head || head == ['_'] || endsErrLike (dropBlank r.insert)

structure Aspects where
  c02 : List Str
  c03 : List Str
  c04 : List Str
  c05 : List Str
  c06 : List Str
  deriving BEq

def aspectsOf (i : FmtInput) (d : Decoded) : Aspects :=
  let z : Str := [Char.ofNat 0]
  -- the synthetic error entries are C06's (and, as records, C04's); C02 / C03 / C05 speak about candidates
  let cand := (d.recs.filter (fun r => !isErrRec r)).map (observe i)
  let srt (l : List Str) := sortBy Str.lt l
  let wordOf (o : Obs) : Str := match o.word with | some w => dropBlank w | none => z ++ dropBlank o.text
  let spaceOf (o : Obs) : Str :=
    (match o.rc.nospace with | some true => ['n'] | some false => ['s'] | none => ['-']) ++
    (match o.read with | .ok (_, b) => if b then ['S'] else ['N'] | .error _ => ['?']) ++
    -- a blank that ended up inside the word (zsh inside closed quotes)
    (match o.word with | some w => if w.getLast? == some ' ' then ['B'] else [] | none => [])
  -- decoders of the line formats copy the inserted text into `display`: that is C03's, not C04's
  let displayIsInsert := i.sh == .bash || i.sh == .tcsh || i.sh == .oil || i.sh == .fish
  { c02 := srt (cand.map wordOf),
    c03 := srt (cand.map (fun o => dropBlank o.text)),
    c04 := srt (d.recs.map (fun r => (if displayIsInsert then [] else r.display) ++ z ++ r.description ++ z ++ r.tag)),
    c05 := cand.map spaceOf ++ [match d.globalNospace with | some true => ['n'] | some false => ['s'] | none => ['-']],
    c06 := d.messages ++ [z ++ d.usage] ++ srt ((d.recs.filter isErrRec).map (fun r => r.insert ++ z ++ r.display ++ z ++ r.description)) }

def aspectJson (i : FmtInput) (same : Bool) (real : Option Decoded) : Json :=
  let all (b : Bool) := Json.mkObj [("C02", Json.bool b), ("C03", Json.bool b), ("C04", Json.bool b), ("C05", Json.bool b), ("C06", Json.bool b)]
  if same then all true else
  match real, modelDecoded i with
  | some r, some m =>
    let a := aspectsOf i r
    let b := aspectsOf i m
    -- a difference none of the projections sees (order, styles, the zstyle field) stays with C04, the wire format
    let unattributed := a == b
    Json.mkObj [("C02", Json.bool (a.c02 == b.c02)), ("C03", Json.bool (a.c03 == b.c03)), ("C04", Json.bool (a.c04 == b.c04 && !unattributed)),
                ("C05", Json.bool (a.c05 == b.c05)), ("C06", Json.bool (a.c06 == b.c06))]
  | _, _ => all false

def failureJson (f : Failure) : Json :=
  Json.mkObj [("prop", Json.str f.prop), ("code", Json.str f.code), ("detail", Json.str f.detail)]

def runValue (inp out : Json) : Json :=
  match parseFmtInput inp out with
  | none => Json.mkObj [("same", Json.bool false), ("diff", Json.str "unparsable input / unknown shell"), ("fails", Json.arr #[])]
  | some i =>
    match (jget out "raw").getStr? with
    | .error _ =>
      Json.mkObj [("same", Json.bool false), ("diff", Json.str ("no output: " ++ (jget out "panic").compress)),
                  ("fails", Json.arr #[failureJson { prop := "C18", code := "panic", detail := (jget out "panic").compress }])]
    | .ok rawS =>
      let raw := rawS.toList
      let diff := compareFmt i raw
      let dec := decodeAny i.sh raw
      let (fails, soft) := checkAll i dec
      -- export carries the no-space set itself
      let fails := if i.sh == .export then
          match Json.parse rawS with
          | .ok j => if jS j "nospace" == i.nospace then fails else fails ++ [{ prop := "C05", code := "export:nospace_set_changed", detail := showStr (jS j "nospace") }]
          | .error _ => fails
        else fails
      -- elvish carries a style per candidate: its own when the shell can express it, the default otherwise -
      -- never the style of another candidate
      let fails := if i.sh == .elvish then
          match Json.parse rawS with
          | .ok j =>
            let styleOk := jget out "styleOk"
            let bad := (jarr j "Candidates").toList.filter (fun c =>
              let v := jS c "Value"
              let d := jS c "Display"
              let st := jstr (jget c "Style")
              let owners := i.values.filter (fun x => san Gen.elvish_sanitizer x.value == v && san Gen.elvish_sanitizer x.display == d)
              !owners.isEmpty && !owners.any (fun x =>
                let own := String.ofList x.style
                st == "default" || (own != "" && jbool styleOk own && st == own)))
            match bad.head? with
            | some c => fails ++ [{ prop := "C04", code := "elvish:style_of_other_candidate", detail := s!"{jstr (jget c "Value")} carries style {jstr (jget c "Style")}" }]
            | none => fails
          | .error _ => fails
        else fails
      Json.mkObj [("same", Json.bool diff.isNone), ("diff", Json.str (diff.getD "")),
                  ("aspects", aspectJson i diff.isNone dec),
                  ("fails", Json.arr (fails.map failureJson).toArray), ("soft", Json.num soft),
                  ("feat", Json.mkObj [("shell", Json.str i.sh.name), ("nvals", Json.num i.values.length),
                                       ("nrecs", Json.num (match dec with | some d => d.recs.length | none => 0)),
                                       ("msgs", Json.num i.msgs.length)])]

end Driver
