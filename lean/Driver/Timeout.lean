/- Driver op `timeout` (C19) -/
import Driver.Alg
import Carapace.Model.Timeout

namespace Driver
open Lean Carapace Carapace.Model

def runTimeoutOp (inp out : Json) : Json :=
  let d := jnat inp "d"
  let nested := jbool inp "nested"
  let inBatch := jbool inp "inBatch"
  let steps := (jarr inp "steps").toList
  let outs := (jarr out "outs").toList
  let margin := 250        -- scheduling margin in ms (observed, not proved)
  let rows := (List.range steps.length).zip (steps.zip outs)
  let verdicts := rows.map (fun (i, (s, o)) =>
    let durI := jint s "dur"
    let dur : Option Nat := if durI < 0 then none else some durI.toNat
    let res := s!"res{i}"
    let (want, _) := timeoutRun d dur res "alt" false
    let vals := (jarr o "values").toList.map jstr
    let core := vals.filter (fun v => v != "member")
    let elapsed := jnat o "elapsedMs"
    let wantUsage := if want == "alt" then "alternative" else s!"usage{i}"
    let okValue := core == [want] && (!inBatch || vals.contains "member") &&
                   (jstr (jget o "usage") == wantUsage) && (want == "alt" || jstr (jget o "nospace") == "x")
    let okTime := elapsed ≤ (if nested then 2 * d else d) + margin && (match dur with | some t => if t < d then elapsed ≤ t + margin else true | none => true)
    (i, want, vals, elapsed, okValue, okTime))
  let same := verdicts.all (fun (_, _, _, _, okV, _) => okV)
  let fails : List AFail := verdicts.filterMap (fun (i, want, vals, elapsed, okV, okT) =>
    if !okV then some { prop := "C19", code := if want == "alt" then "late_answer_not_alternative" else "timely_answer_altered",
                        detail := s!"step {i}: expected exactly [{want}] with its metadata, got {vals} / usage {(outs.getD i Json.null |> fun o => jstr (jget o "usage"))}" }
    else if !okT then some { prop := "C19", code := "not_within_d_plus_margin", detail := s!"step {i}: {elapsed} ms for d = {d} ms" }
    else none) ++
    -- the abandoned computation must not rewrite the caller's environment
    -- a timely computation under Timeout runs with the caller's Context: same Args, Parts, Value, Dir
    (if !jbool inp "ctxProbe" then [] else
      (rows.filterMap (fun (i, (_, o)) =>
        let saw := jstr (jget o "sawCtx")
        if saw == "args=pos1,pos2|parts=a,b|value=val|dir=/tmp" then none
        else some { prop := "C19", code := "timely_computation_sees_other_context", detail := s!"step {i}: the wrapped action saw {saw}" })).take 1) ++
    (if !jbool inp "envProbe" then [] else
      (rows.filterMap (fun (i, (_, o)) =>
        let saw := jstr (jget o "altSaw")
        let caller := jstr (jget o "callerSees")
        if (saw == "" || saw == "caller") && caller == "caller" then none
        else some { prop := "C19", code := "caller_environment_rewritten", detail := s!"step {i}: the alternative read LANG={saw}, the caller's Context holds LANG={caller}" })).take 1)
  Json.mkObj [("same", Json.bool same), ("diff", Json.str (if same then "" else s!"{verdicts.map (fun (i, w, v, _, _, _) => (i, w, v))}")),
              ("fails", Json.arr (fails.map afailJson).toArray),
              ("feat", Json.mkObj [("nested", Json.bool nested), ("inBatch", Json.bool inBatch), ("steps", Json.num steps.length)])]

end Driver
