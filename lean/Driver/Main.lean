/-
  Driver: reads the harness' lines (one JSON object per line: op, id, in, out), evaluates
  the Lean model of the op on `in`, compares with the real `out`, evaluates the property
  oracles on the real output, and prints one verdict line per case.
  Core-only imports (it links as a `lean_exe`).
-/
import Driver.Fmt
import Driver.Alg
import Driver.Export
import Driver.Split
import Driver.Cache
import Driver.Crash
import Driver.Timeout
import Driver.Files
import Driver.Parse
import Driver.Cobra
import Driver.Bridge
import Driver.Entry
import Driver.Pflag
import Driver.Rawcache

open Lean Driver

def dispatch (op : String) (inp out : Json) : Json :=
  match op with
  | "value" => runValue inp out
  | "invoke" => runInvoke inp out
  | "history" => runHistory inp out
  | "batchrace" => runHistory inp out
  | "repeat" => runRepeat inp out
  | "exportrt" => runExportRT inp out
  | "import" => runImport inp out
  | "split" => runSplit inp out
  | "cache" => runCacheOp inp out
  | "crashwrite" => runCrash inp out
  | "timeout" => runTimeoutOp inp out
  | "files" => runFilesOp inp out
  | "parse" => runParseOp inp out
  | "lookuparg" => runLookupOp inp out
  | "cobrafind" => runCobraFindOp inp out
  | "bridge" => runBridgeOp inp out
  | "ccomplete" => runCCompleteOp inp out
  | "entry" => runEntryOp inp out
  | "entrywb" => runEntryOp inp out
  | "compline" => runComplineOp inp out
  | "trimdesc" => runTrimdescOp inp out
  | "abs" => runAbsOp inp out
  | "pflagparse" => runPflagParseOp inp out
  | "rawcache" => runRawcacheOp inp out
  | "timeoutrace" => runTimeoutOp inp out
  | _ => Json.mkObj [("same", Json.bool false), ("diff", Json.str s!"unknown op {op}"), ("fails", Json.arr #[])]

partial def loop (h : IO.FS.Stream) (o : IO.FS.Stream) : IO Unit := do
  let line ← h.getLine
  if line.isEmpty then return ()
  if line.trimAscii.isEmpty then loop h o else
  match Json.parse line with
  | .error e =>
    o.putStrLn (Json.mkObj [("id", Json.str "?"), ("same", Json.bool false), ("diff", Json.str s!"driver: bad line: {e}"), ("fails", Json.arr #[])]).compress
    loop h o
  | .ok j =>
    let op := jstr (jget j "op")
    let res := dispatch op (jget j "in") (jget j "out")
    let res := res.setObjVal! "id" (jget j "id") |>.setObjVal! "op" (Json.str op)
    o.putStrLn res.compress
    loop h o

def main : IO Unit := do
  let i ← IO.getStdin
  let o ← IO.getStdout
  loop i o
  o.flush
