/- Driver ops `entry`, `compline`, `trimdesc`, `abs` (C18) -/
import Driver.Fmt
import Driver.Alg
import Carapace.Model.Entry

namespace Driver
open Lean Carapace Carapace.Model Carapace.Spec

def hexVal (c : Char) : Nat :=
  if c.isDigit then c.toNat - 48 else if 'a'.toNat ≤ c.toNat && c.toNat ≤ 'f'.toNat then c.toNat - 87 else 0

def hexBytes : List Char → List Nat
  | a :: b :: r => (hexVal a * 16 + hexVal b) :: hexBytes r
  | _ => []

def verdict (same : Bool) (diff : String) (fails : List AFail) (feat : List (String × Json)) : Json :=
  Json.mkObj [("same", Json.bool same), ("diff", Json.str (if same then "" else diff)),
              ("fails", Json.arr (fails.map afailJson).toArray), ("feat", Json.mkObj feat)]

def panicFail (out : Json) (what : String) : List AFail :=
  let p := jstr (jget out "panic")
  if p == "" then [] else [{ prop := "C18", code := "panic:" ++ what, detail := p }]

def runComplineOp (inp out : Json) : Json :=
  let line : Option (List Nat) := if jisNull inp "line" then none else some (hexBytes (jstr (jget out "lineHex")).toList)
  let point := joptS inp "point"
  let realPanic := jstr (jget out "panic") != ""
  let m := compLine line point
  let same := match m with
    | .error _ => realPanic
    | .ok none => !realPanic && !jbool out "ok"
    | .ok (some bs) => !realPanic && jbool out "ok" && hexBytes (jstr (jget out "hex")).toList == bs
  verdict same s!"model {repr m}; real ok={jbool out "ok"} hex={jstr (jget out "hex")} panic={jstr (jget out "panic")}"
    (panicFail out "bash.CompLine")
    [("usable", Json.bool (jbool out "ok")), ("lineSet", Json.bool line.isSome), ("pointSet", Json.bool point.isSome)]

def runTrimdescOp (inp out : Json) : Json :=
  let d := jS inp "description"
  let realPanic := jstr (jget out "panic") != ""
  let m := trimmedDescriptionP Gen.common_maxLength d
  let same := match m with
    | .error _ => realPanic
    | .ok t => !realPanic && jS out "trimmed" == t
  verdict same s!"model {repr m}; real {jstr (jget out "trimmed")} panic={jstr (jget out "panic")}"
    (panicFail out "TrimmedDescription")
    [("runes", Json.num d.length), ("cut", Json.bool (match m with | .ok t => Str.hasSuffix t "...".toList && t.length == Gen.common_maxLength | _ => false))]

def runAbsOp (inp out : Json) : Json :=
  let nd : NamedDirs := (jarr out "named").toList.map (fun p => match p.getArr? with
    | .ok a => ((jstr (a.getD 0 Json.null)).toList, (jstr (a.getD 1 Json.null)).toList)
    | .error _ => ([], []))
  let realPanic := jstr (jget out "panic") != ""
  let m := absP nd (jS inp "home") (jS out "cwd") (jS inp "dir") (jS inp "path")
  let same := match m with
    | .error _ => realPanic
    | .ok r => !realPanic && jstr (jget out "err") == "" && jS out "abs" == r
  verdict same s!"model {repr m}; real {jstr (jget out "abs")} err={jstr (jget out "err")} panic={jstr (jget out "panic")}"
    (panicFail out "Context.Abs")
    [("tilde", Json.bool (Str.hasPrefix (jS inp "path") ['~'])), ("named", Json.bool (match ndMatch nd (jS inp "path") with | .ok m => !m.isEmpty | _ => false))]

/-- does `s` contain `sub` -/
def hasSub (s sub : String) : Bool := (s.splitOn sub).length > 1

/-- the entry point in a child process: no panic, no hang, exit status 0, and - for a completion
    request to a known shell - output that the shell's consumer can decode -/
def runEntryOp (inp out : Json) : Json :=
  let args := (jarr inp "args").toList.map jstr
  let stdout := jstr (jget out "stdout")
  let stderr := jstr (jget out "stderr")
  let exit := jint out "exit"
  let shell := args.headD ""
  let sh := Sh.ofStr shell
  let body := if stdout.endsWith "\n" then String.ofList (stdout.toList.take (stdout.length - 1)) else stdout
  let crashed := hasSub stderr "panic:" || hasSub stderr "fatal error:" || hasSub stderr "goroutine " || hasSub stderr "[signal "
  let decodable : Bool :=
    if args.length < 2 then true
    else match sh with
      | none => true
      | some s => (decodeAny s body.toList).isSome
  let fails : List AFail :=
    if hasSub stderr "INVALID-CASE" then [] else
    (if crashed then [{ prop := "C18", code := "panic", detail := String.ofList (stderr.toList.take 1500) }] else []) ++
    (if jbool out "timedOut" then [{ prop := "C18", code := "hang", detail := "no answer within the time limit" }] else []) ++
    (if !crashed && !jbool out "timedOut" && exit != 0 then [{ prop := "C18", code := "exit_status", detail := s!"exit {exit}; stderr {String.ofList (stderr.toList.take 600)}" }] else []) ++
    (if !crashed && !jbool out "timedOut" && exit == 0 && !jbool out "truncated" && !decodable then
       [{ prop := "C18", code := "malformed_output:" ++ shell, detail := String.ofList (stdout.toList.take 600) }] else []) ++
    (if !crashed && exit == 0 && args.length ≥ 2 && sh.isNone && body.trimAscii.toString != "" then
       [{ prop := "C18", code := "unknown_shell_output", detail := String.ofList (stdout.toList.take 300) }] else [])
  -- a configuration file that cannot be loaded must be reported (C06); colliding keys must not make the output vary (C10)
  let cfg := jstr (jget (jget inp "env") "XDG_CONFIG_HOME")
  let badCfg := ["trailing1", "trailing2", "trailing3", "truncated", "wrongtype"].any (fun v => cfg == "$FIX/cfg/" ++ v)
  -- the load is attempted on the path through traverse only: a bash ancestor completing a redirect target,
  -- or a line the lexer rejects (bash, cmd-clink), answers before the configuration is read
  let envv := jget inp "env"
  let anc := jstr (jget inp "ancestor")
  let risky (line : String) : Bool := line.toList.any (fun c => c == '<' || c == '>' || c == '\'' || c == '"' || c == '\\')
  let earlyAnswer :=
    -- (an ancestor no shell is known by: the search goes on through the processes that run the check itself)
    ((anc == "bash" || anc == "") && !jisNull envv "COMP_LINE" && risky (jstr (jget envv "COMP_LINE"))) ||
    ((anc == "cmd" || anc == "") && !jisNull envv "CARAPACE_COMPLINE" && risky (jstr (jget envv "CARAPACE_COMPLINE")))
  let fails := fails ++
    (if badCfg && !earlyAnswer && args.length ≥ 3 && !crashed && exit == 0 && (shell == "export" || shell == "elvish" || shell == "zsh") && !hasSub stdout "failed to load config" then
       [{ prop := "C06", code := "config_error_not_reported", detail := s!"{cfg}: {String.ofList (stdout.toList.take 300)}" }] else []) ++
    (if jbool out "repeatDiffers" then
       [{ prop := "C10", code := "output_varies", detail := s!"{cfg}: the same call gave different bytes" }] else [])
  -- C02 (bash word breaks, scenario `wb`): bash keeps the typed word up to its last COMP_WORDBREAKS character (the list of
  -- the user's bash, from the environment) and replaces the rest: every emitted candidate, put behind that part, extends
  -- the typed word
  let wb := (jstr (jget inp "wb")).toList
  let wbFails : List AFail :=
    if wb.isEmpty || crashed || exit != 0 || jisNull envv "COMP_WORDBREAKS" then [] else
    let W := (jstr (jget envv "COMP_WORDBREAKS")).toList
    let cutAt := ((List.range wb.length).filter (fun k => match wb[k]? with | some ch => W.elem ch | none => false)).getLast?
    let kept := match cutAt with | some k => wb.take (k + 1) | none => []
    match Spec.decodeBash body.toList with
    | none => []
    | some dec =>
      if jstr (jget envv "COMP_TYPE") == "63" && dec.recs.length != 1 then [] else   -- list-only mode prints display texts
      (dec.recs.filterMap (fun r =>
        match Spec.readInsert .bash .dflt false r.insert with
        | .ok ([v], _) =>
          if Str.hasPrefix (kept ++ v) wb then none
          else some { prop := "C02", code := "bash_wordbreak_prefix", detail := s!"typed {String.ofList wb} with COMP_WORDBREAKS {String.ofList W}: bash keeps {String.ofList kept} and inserts {String.ofList v}" }
        | _ => none)).take 1
  let fails := fails ++ wbFails
  verdict true "" fails
    [("wb", Json.bool (!wb.isEmpty)), ("shell", Json.str (if sh.isSome then shell else "(unknown)")), ("nargs", Json.num args.length), ("ancestor", Json.str (jstr (jget inp "ancestor"))),
     ("empty", Json.bool (body == "")), ("stderr", Json.bool (stderr != ""))]

end Driver
