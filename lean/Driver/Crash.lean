/- Driver op `crashwrite` (C15) -/
import Driver.Alg
import Carapace.Model.WriteProto

namespace Driver
open Lean Carapace Carapace.Model

def runCrash (inp out : Json) : Json :=
  let flavour := jstr (jget inp "flavour")
  let bad := (jarr out "bad").toList
  -- the model: in-place write; the Action flavour re-parses (a proper prefix does not decode), the raw
  -- flavour hands out whatever the file holds
  let modelBad := flavour == "raw" && !jbool inp "skipReader"
  let same := modelBad == !bad.isEmpty
  let fails : List AFail :=
    match bad.head? with
    | some b => [{ prop := "C15", code := s!"partial_entry_served:{flavour}", detail := (if jint b "k" == -2 then "the computation died inside the callback; " else "") ++ s!"write stopped after {jint b "k"} of {jnat out "docLen"} bytes: the next reader was served {(jget b "served").compress} without a real invocation (file holds {jnat b "fileLen"} bytes)" }]
    | none => []
  -- raw flavour: the call that computed the complete bytes must not itself be handed a part of them as if it were the value
  let fails := fails ++ (if jint out "writerHandedPartial" ≥ 0 then
    [{ prop := "C15", code := "writer_handed_partial_bytes", detail := s!"the write stopped after {jint out "writerHandedPartial"} bytes and the writing call returned incomplete bytes without an error" }] else [])
  Json.mkObj [("same", Json.bool same),
              ("diff", Json.str (if same then "" else s!"model expects {if modelBad then "a partial entry to be served" else "no partial entry"}; real: {(jget out "bad").compress}")),
              ("fails", Json.arr (fails.map afailJson).toArray),
              ("feat", Json.mkObj [("flavour", Json.str flavour), ("previous", Json.str (jstr (jget inp "previous"))), ("offsets", Json.num (jnat out "offsets"))])]

end Driver
