/- Driver op `files` (C16) -/
import Driver.Alg
import Carapace.Spec.Listing

namespace Driver
open Lean Carapace Carapace.Model Carapace.Spec

def parseKind (s : String) : EKind :=
  match s with
  | "dir" => .dir | "linkDir" => .linkDir | "linkFile" => .linkFile | "linkBroken" => .linkBroken | _ => .file

def runFilesOp (inp out : Json) : Json :=
  let typed := jS out "typedSub"
  let dirOnly := jbool inp "dirOnly"
  let suffixes := jstrs inp "suffixes"
  let readable := jbool out "readable"
  let chdirOK := jbool out "chdirOK"
  let entries : List DirEntry := (jarr out "entries").toList.map (fun e => { name := jS e "name", kind := parseKind (jstr (jget e "kind")) })
  let got := jstrs out "values"
  let msgs := jstrs out "messages"
  let panic := jstr (jget out "panic")
  let sortS (l : List Str) := sortBy Str.lt l
  if panic != "" then
    Json.mkObj [("same", Json.bool false), ("diff", Json.str ("panic " ++ panic)),
                ("fails", Json.arr #[afailJson { prop := "C16", code := "panic", detail := panic }, afailJson { prop := "C18", code := "panic:files", detail := panic }]),
                ("feat", Json.mkObj [])]
  else
  let tilde := typed.head? == some '~'
  -- model (no `~`, readable directory)
  let modelVals := if tilde || !readable || !chdirOK then none else filesModel (jS out "effDir") typed entries dirOnly suffixes
  let same := match modelVals with
    | some m => sortS m == sortS got
    | none => true
  -- oracle
  let want := listing typed entries dirOnly suffixes
  let fails : List AFail :=
    if !chdirOK then
      (if got.isEmpty && !msgs.isEmpty then [] else [{ prop := "C16", code := "chdir_invalid_target", detail := s!"values {got.map String.ofList}" }])
    else if !readable then
      (if got.isEmpty then [] else [{ prop := "C16", code := "unreadable_directory", detail := s!"values {got.map String.ofList}" }])
    else
      (if sortS want == sortS got then [] else
        [{ prop := "C16", code := "listing", detail := s!"typed {(String.ofList typed).quote}: offered {(sortS got).map String.ofList}, the directory holds {(sortS want).map String.ofList}" }]) ++
      (if got.any (fun v => Str.hasSuffix v ['/']) && !(jS out "nospace").elem '/' && !(jS out "nospace").elem '*' then
        [{ prop := "C16", code := "dir_without_nospace", detail := "" }] else [])
  Json.mkObj [("same", Json.bool same),
              ("diff", Json.str (if same then "" else s!"model {(modelVals.getD []).map String.ofList} real {got.map String.ofList}")),
              ("fails", Json.arr (fails.map afailJson).toArray),
              ("feat", Json.mkObj [("readable", Json.bool readable), ("dirOnly", Json.bool dirOnly), ("chdir", Json.bool (!(jget inp "chdir").isNull)),
                                   ("nvalues", Json.num got.length)])]

end Driver
