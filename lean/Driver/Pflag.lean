/- Driver op `pflagparse`: Spec/Pflag.lean vs the real carapace-pflag (C01) -/
import Driver.Parse
import Carapace.Spec.Pflag
import Carapace.Spec.PflagG

namespace Driver
open Lean Carapace Carapace.Model Carapace.Spec

/-- the final `Value.String()` of every flag that was set, from the assignments in order -/
def finalValues (fs : Pflag.PFlags) (sets : List (Str × Str)) : List (String × String) :=
  let names := (sets.map (·.1)).eraseDups
  let out := names.map (fun n =>
    let vs := (sets.filter (·.1 == n)).map (·.2)
    let kind := ((fs.find? (fun f => f.name == n)).map (·.kind)).getD .string
    let v : String :=
      match kind with
      | .bool =>
        let l := String.ofList (vs.getLast?.getD [])
        if ["1", "t", "T", "TRUE", "true", "True"].contains l then "true" else "false"
      | .count =>
        let n : Int := vs.foldl (fun acc v => if v == "+1".toList then acc + 1 else (String.ofList v).toInt?.getD 0) 0
        toString n
      | .stringArray | .ipNetSlice | .boolSlice => "*"
      | .stringSlice => "[" ++ String.intercalate "," ((vs.filter (fun v => !v.isEmpty)).map String.ofList) ++ "]"   -- an empty value adds no element
      | _ => String.ofList (vs.getLast?.getD [])
    (String.ofList n, v))
  sortBy (fun a b => Str.lt a.1.toList b.1.toList) out

def runPflagParseOp (inp out : Json) : Json :=
  let flagsS := (jarr inp "flags").toList.map parseFlagS
  let fs := flagsS.map toPFlag
  let args := (jarr inp "args").toList.map (fun x => (jstr x).toList)
  -- the general specification (fork features); without them the POSIX specification, which the theorems use, must agree
  let forky := flagsS.any FlagS.fork || flagsS.any FlagS.nonPosix
  let modelP := Pflag.parse fs (jbool inp "interspersed") args
  let wl := jbool inp "whitelist"
  let model := PflagG.parseG (flagsS.map toPFlagG) (jbool inp "interspersed") args wl
  let forky := forky || wl
  let specsAgree := forky || (match model, modelP with
    | .ok a, .ok b => a == b
    | .error a, .error b => a == b
    | _, _ => false)
  let realErr := jstr (jget out "err")
  let realArgs := (jarr out "args").toList.map (fun x => (jstr x).toList)
  let realLad := jint out "lenAtDash"
  let realVals := sortBy (fun (a b : String × String) => Str.lt a.1.toList b.1.toList)
    ((jarr out "values").toList.map (fun p => match p.getArr? with
      | .ok a => (jstr (a.getD 0 Json.null), jstr (a.getD 1 Json.null))
      | .error _ => ("", "")))
  let same := specsAgree &&
    match model with
    | .error _ => realErr != ""
    | .ok p => realErr == "" && p.args == realArgs && (match p.lenAtDash with | some n => (n : Int) == realLad | none => realLad == -1) &&
               finalValues fs p.sets == realVals
  Json.mkObj [("same", Json.bool same),
              ("diff", Json.str (if same then "" else s!"model {repr model} -> {(match model with | .ok p => finalValues fs p.sets | _ => [])}; real err={realErr} args={realArgs.map String.ofList} dash={realLad} values={realVals}")),
              ("fails", Json.arr #[]),
              ("feat", Json.mkObj [("fork", Json.bool forky), ("nargs", Json.num args.length), ("ok", Json.bool (realErr == "")), ("dash", Json.bool (realLad != -1))])]

end Driver
