/- Driver op `cache` (C14): file-cache model vs the real cached Action, and the abstract store oracle -/
import Driver.Alg
import Carapace.Model.Cache

namespace Driver
open Lean Carapace Carapace.Model

def parseKeys (j : Json) (k : String) : Keys :=
  (jarr j k).toList.map (fun t => match t.getArr? with
    | .ok a => a.toList.map (fun x => (jstr x).toList)
    | .error _ => [])

/-- corrupt kinds the model treats as "does not parse" -/
def parseCOp (j : Json) (o : Json := Json.null) : Option COp :=
  let site := (toString (jnat j "site" % 5)).toList
  match jstr (jget j "k") with
  -- model time in milliseconds: every operation of the real run takes a little time (see `tick`)
  | "invoke" => some (.invoke site (parseKeys j "kb") (parseKeys j "ka") (jint j "timeout" * 1000) (jbool j "msg"))
  | "advance" => some (.advance (jnat j "dt" * 1000))
  | "corrupt" =>
    let kind := jstr (jget j "kind")
    -- a directory or a symbolic link onto itself in place of the file (only when the file was there): neither readable nor replaceable
    if kind == "loop" || kind == "dir" then (if jbool o "corrupted" then some (.block site (parseKeys j "kb")) else none)
    else some (.corrupt site (parseKeys j "kb"))
  | _ => none       -- foreign files: no effect on any entry

def outOf (j : Json) : COut × Bool :=
  let r := jint j "r"
  let panic := !(jget j "panic").isNull
  (if r < 0 then none else some (r.toNat, jbool j "real"), panic)

def runCacheOp (inp out : Json) : Json :=
  let opsJ := (jarr inp "ops").toList
  let outsJ := (jarr out "outs").toList
  -- run model and spec step by step over the ops that matter; align outputs with the invoke ops
  let step (acc : CState × SState × List (COut × COut)) (jo : Json × Json) : CState × SState × List (COut × COut) :=
    let (c, s, outs) := acc
    let (j, o) := jo
    match parseCOp j o with
    | none => (c, s, outs ++ [(none, none)])
    | some op =>
      let (c', oc) := cacheStep c op
      let (s', os) := storeStep s op
      -- real time passes between operations: one tick
      ((cacheStep c' (.advance 1)).1, (storeStep s' (.advance 1)).1, outs ++ [(oc, os)])
  let (_, _, mouts) := (opsJ.zip (outsJ ++ List.replicate (opsJ.length - outsJ.length) Json.null)).foldl step ({}, {}, [])
  -- byte-identical results: only "did a real invocation happen" is observable
  let const := jbool inp "const"
  let blur (o : COut) : COut := if const then o.map (fun (_, real) => (0, real)) else o
  let mouts := mouts.map (fun (a, b) => (blur a, blur b))
  let reals := outsJ.map (fun j => let (o, p) := outOf j; (blur o, p))
  let isInvoke (j : Json) : Bool := jstr (jget j "k") == "invoke"
  -- after a panic the real run and the models no longer line up: compare up to it
  let rowsAll := (opsJ.zip (mouts.zip reals))
  let rows := (rowsAll.takeWhile (fun (_, (_, (_, p))) => !p)) ++ (rowsAll.dropWhile (fun (_, (_, (_, p))) => !p)).take 1
  let panics := rows.filter (fun (_, (_, (_, p))) => p)
  -- correspondence: the file model predicts the real outputs
  let diffs := rows.filterMap (fun (j, ((mc, _), (r, p))) =>
    if isInvoke j && !p && mc != r then some s!"op {j.compress}: model {repr mc} real {repr r}" else none)
  -- oracle: the real outputs are those of the abstract store keyed by (call site, key tuple)
  let specFails := rows.filterMap (fun (j, ((_, ms), (r, p))) =>
    if isInvoke j && !p && ms != r then some s!"op {j.compress}: store {repr ms} real {repr r}" else none)
  let fails : List AFail :=
    (if panics.isEmpty then [] else
      [{ prop := "C14", code := "panic", detail := (panics.head?.map (fun (j, _) => j.compress)).getD "" },
       { prop := "C18", code := "panic:cache", detail := "" }]) ++
    (match specFails.head? with
     | some d =>
       -- different key tuples that are encoded into the same file name share one entry
       let tuples := (opsJ.flatMap (fun j => [parseKeys j "kb", parseKeys j "ka"])).eraseDups
       let collide := tuples.any (fun a => tuples.any (fun b => a != b && keysName a == keysName b))
       [{ prop := "C14", code := if collide then "entry_shared_between_key_values" else "differs_from_keyed_store", detail := d }]
     | none => [])
  Json.mkObj [("same", Json.bool diffs.isEmpty), ("diff", Json.str (String.intercalate " | " (diffs.take 2))),
              ("fails", Json.arr (fails.map afailJson).toArray),
              ("feat", Json.mkObj [("ops", Json.num opsJ.length),
                                   ("hits", Json.num (reals.filter (fun (o, _) => match o with | some (_, false) => true | _ => false)).length)])]

end Driver
