/- Driver ops `parse` (C01, C07) and `lookuparg` (C01 stage 1) -/
import Carapace.Spec.Pflag
import Carapace.Model.Traverse
import Carapace.Model.TraverseG
import Driver.Alg
import Carapace.Model.PflagFork
import Carapace.Model.Flags

namespace Driver
open Lean Carapace Carapace.Model

structure FlagS where
  name : String
  short : String
  kind : String
  persistent : Bool
  hidden : Bool
  deprecated : Bool
  shortDeprecated : Bool
  mutex : List Nat
  nargs : Int := 0
  delim : String := ""
  mode : Nat := 0
  deriving Repr, Inhabited

structure CmdS where
  name : String
  aliases : List String
  parent : Int
  hidden : Bool
  deprecated : Bool
  interspersed : Bool
  noFlagParse : Bool
  whitelist : Bool := false
  /-- the command has a `Version`: cobra (and carapace's actionFlags) add a `--version` flag to it, with the shorthand `-v` if that is free -/
  version : Bool := false
  flags : List FlagS
  npos : Nat
  posAny : Bool
  ndash : Nat
  dashAny : Bool
  deriving Repr, Inhabited

def parseFlagS (j : Json) : FlagS :=
  { name := jstr (jget j "name"), short := jstr (jget j "short"), kind := jstr (jget j "kind"), persistent := jbool j "persistent",
    hidden := jbool j "hidden", deprecated := jbool j "deprecated", shortDeprecated := jbool j "shortDeprecated",
    mutex := (jarr j "mutex").toList.map (fun x => (x.getNat?).toOption.getD 0),
    nargs := jint j "nargs", delim := jstr (jget j "delim"), mode := jnat j "mode" }

/-- a flag that makes its flag set non-POSIX (no model: the landing oracles decide) -/
def FlagS.nonPosix (f : FlagS) : Bool := f.mode != 0 || f.short.length > 1

/-- does the tree use features of the pflag fork (several words per flag, custom delimiter)? -/
def FlagS.fork (f : FlagS) : Bool := f.nargs != 0 || (f.delim != "" && f.delim != "=")

def parseCmdS (j : Json) : CmdS :=
  { name := jstr (jget j "name"), aliases := (jarr j "aliases").toList.map jstr, parent := jint j "parent", hidden := jbool j "hidden",
    deprecated := jbool j "deprecated", interspersed := jbool j "interspersed", noFlagParse := jbool j "disableFlagParsing", whitelist := jbool j "whitelist", version := jbool j "version",
    flags := (jarr j "flags").toList.map parseFlagS, npos := jnat j "npos", posAny := jbool j "posAny", ndash := jnat j "ndash",
    dashAny := jbool j "dashAny" }

def toFlagDef (f : FlagS) : FlagDef :=
  { name := f.name.toList, short := f.short.toList.head?,
    noOptDef := f.kind == "bool" || f.kind == "count" || f.kind == "optString",
    takesValue := !(f.kind == "bool" || f.kind == "count") }

def toPFlag (f : FlagS) : Spec.Pflag.PFlag :=
  { name := f.name.toList, short := f.short.toList.head?,
    kind := if f.kind == "bool" then .bool else if f.kind == "count" then .count
            else if f.kind == "stringSlice" then .stringSlice else if f.kind == "optString" then .optString
            else if f.kind == "stringArray" then .stringArray else if f.kind == "ipNetSlice" then .ipNetSlice else if f.kind == "boolSlice" then .boolSlice else .string }

def toTCmd (c : CmdS) : TCmd :=
  let par : Option Nat := if c.parent < 0 then none else some (Int.toNat c.parent)
  let als : List Str := c.aliases.map (fun a => a.toList)
  let fls : List (Spec.Pflag.PFlag × Bool) := c.flags.map (fun f => (toPFlag f, f.persistent))
  { name := c.name.toList, aliases := als, parent := par, interspersed := c.interspersed, noFlagParse := c.noFlagParse, flags := fls }

def toTTree (cmds : Array CmdS) : TTree := cmds.map toTCmd

def toPFlagG (f : FlagS) : Spec.PflagG.PFlagG :=
  { toPFlag f with short := (if f.short.length == 1 then f.short.toList.head? else none),
                   delim := (f.delim.toList.head?).getD '=', nargs := f.nargs, shortW := f.short.toList, mode := f.mode }

def toTCmdG (c : CmdS) : TCmdG :=
  let par : Option Nat := if c.parent < 0 then none else some (Int.toNat c.parent)
  let als : List Str := c.aliases.map (fun a => a.toList)
  let fls : List (Spec.PflagG.PFlagG × Bool) := c.flags.map (fun f => (toPFlagG f, f.persistent))
  { name := c.name.toList, aliases := als, parent := par, interspersed := c.interspersed, noFlagParse := c.noFlagParse, whitelist := c.whitelist, flags := fls }

def toTTreeG (cmds : Array CmdS) : TTreeG := cmds.map toTCmdG

/-- the command in which flag `name` is defined for command `c` (own, or persistent in an ancestor) -/
partial def flagOwner (cmds : Array CmdS) (c : Nat) (name : String) (own : Bool := true) : Option Nat :=
  match cmds[c]? with
  | none => none
  | some cs =>
    if cs.flags.any (fun f => f.name == name && (own || f.persistent)) then some c
    else if cs.parent < 0 then none else flagOwner cmds cs.parent.toNat name false

partial def flagsVisibleSpec (cmds : Array CmdS) (c : Nat) (own : Bool := true) : List FlagS :=
  match cmds[c]? with
  | none => []
  | some cs =>
    let mine := cs.flags.filter (fun f => own || f.persistent)
    if cs.parent < 0 then mine else mine ++ (flagsVisibleSpec cmds cs.parent.toNat false).filter (fun f => !mine.any (fun g => g.name == f.name))

/-- the flags the program accepts on command `c`: the declared ones and, for a command with a `Version`, cobra's
    automatic `--version` (`InitDefaultVersionFlag`: unless a flag of that name exists; shorthand `-v` unless taken) -/
def flagsVisible (cmds : Array CmdS) (c : Nat) : List FlagS :=
  let vis := flagsVisibleSpec cmds c
  match cmds[c]? with
  | some cs =>
    if cs.version && !vis.any (fun f => f.name == "version") then
      vis ++ [{ name := "version", short := if vis.any (fun f => f.short == "v") then "" else "v", kind := "bool", persistent := false,
                hidden := false, deprecated := false, shortDeprecated := false, mutex := [] }]
    else vis
  | none => vis

/-- `M<cmd>_<kind>` inside a candidate -/
def findMarker (v : String) : Option (Nat × String) :=
  match v.splitOn "M" with
  | _ :: rest =>
    rest.findSome? (fun seg =>
      match seg.splitOn "_" with
      | n :: k :: more => if n.isNat && !n.isEmpty then some (n.toNat!, String.intercalate "_" (k :: more)) else none
      | _ => none)
  | [] => none

def runParseOp (inp out : Json) : Json :=
  let cmds : Array CmdS := (jarr (jget inp "tree") "cmds").map parseCmdS
  let words := (jarr inp "words").toList.map jstr
  let cur := words.getLast?.getD ""
  let ex := jget out "export"
  let values := (jarr ex "values").toList
  let runs := (jarr out "runs").toList
  let panic := jstr (jget out "panic")
  let typedRun := jget out "typedRun"
  let typedOk := jstr (jget typedRun "err") == ""
  let hiddenEnv := jbool inp "hiddenEnv"
  -- non-POSIX flag sets (a shorthand that is a word, ShorthandOnly / NameAsShorthand flags): the general models
  -- apply; the offer rules of C07 are compared on POSIX sets only
  let nonPosixTree := cmds.any (fun c => c.flags.any FlagS.nonPosix)
  -- cobra's prefix matching / case-insensitive matching of sub-command names switched on: no model of cobra's name
  -- resolution under these switches - the landing and probe oracles decide on the real code alone
  let lenientNames := jbool (jget inp "tree") "prefixMatching" || jbool (jget inp "tree") "caseInsensitive"
  -- C01: every offered candidate, once accepted, lands in the slot whose completion produced it
  let c01 : List AFail := runs.filterMap (fun r =>
    let v := jstr (jget r "value")
    let tag := jstr (jget r "tag")
    let run := jget r "run"
    let err := jstr (jget run "err")
    if tag == "longhand flags" || tag == "shorthand flags" || tag.endsWith "commands" then none
    else match findMarker v with
      | none => none
      | some (c, kind) =>
        if err != "" || !jbool run "ran" then none      -- the program does not accept the line: outside the claim
        else
          let rc := jnat run "cmd"
          let args := (jarr run "args").toList.map jstr
          let lad := jint run "lenAtDash"
          let m := s!"M{c}_{kind}"
          let idxOf : Option Nat := (args.zipIdx.find? (fun (a, _) => a == m)).map (·.2)
          let ok :=
            if kind.startsWith "flag_" then
              let name := String.ofList (kind.toList.drop 5)
              let fv := jstr (jget (jget run "flags") name)
              (fv == m || fv == s!"[{m}]" || fv.endsWith (m ++ "]") || fv.endsWith (m ++ "\"]")) && flagOwner cmds rc name == some c
            else if kind.startsWith "posAny" then
              rc == c && (match idxOf with | some i => (lad < 0 || (i : Int) < lad) && i ≥ (cmds[c]?.map (·.npos)).getD 0 | none => false)
            else if kind.startsWith "pos" then
              rc == c && (match idxOf with | some i => (lad < 0 || (i : Int) < lad) && s!"pos{i}" == kind | none => false)
            else if kind.startsWith "dashAny" then
              rc == c && lad ≥ 0 && (match idxOf with | some i => (i : Int) ≥ lad + ((cmds[c]?.map (·.ndash)).getD 0 : Nat) | none => false)
            else if kind.startsWith "dash" then
              rc == c && lad ≥ 0 && (match idxOf with | some i => s!"dash{(i : Int) - lad}" == kind | none => false)
            else true
          if ok then none
          else some { prop := "C01", code := "wrong_slot:" ++ (if kind.startsWith "flag_" then "flag" else String.ofList (kind.toList.takeWhile Char.isAlpha)),
                      detail := s!"{words}: candidate {v} comes from the completion of {m}, but the program ran command {rc} with args {args} (dash at {lad}) flags {(jget run "flags").compress}" })
  -- C01, the other direction: the slot into which the program's own parser puts a word typed at the cursor
  -- (a probe word, run on a fresh tree) is the slot whose registered completion is served
  let probe := jget out "probeRun"
  let c01p : List AFail :=
    -- (the line typed so far need not be acceptable by itself: a flag may be waiting for this very word)
    if probe.isNull || panic != "" || jstr (jget probe "err") != "" || !jbool probe "ran" then [] else
    let rc := jnat probe "cmd"
    let args := (jarr probe "args").toList.map jstr
    let lad := jint probe "lenAtDash"
    let flagsJ := jget probe "flags"
    let cs := (cmds[rc]?).getD default
    let inFlag : Option String := (flagsVisible cmds rc).findSome? (fun f =>
      let fv := jstr (jget flagsJ f.name)
      if fv == "PROBE" || fv == "[PROBE]" || fv.endsWith "PROBE]" || fv.endsWith "PROBE\"]" then some f.name else none)
    let expected : Option (List String) :=
      match inFlag with
      | some n =>
        (match flagOwner cmds rc n with
         | some o => (match ((cmds[o]?).getD default).flags.find? (fun f => f.name == n) with
            | some f => if f.kind == "bool" || f.kind == "count" then none else some [s!"M{o}_flag_{n}"]
            | none => none)
         | none => none)
      | none =>
        match (args.zipIdx.find? (fun (a, _) => a == "PROBE")).map (·.2) with
        | none => none
        | some i =>
          if lad ≥ 0 && (i : Int) ≥ lad then
            let k := i - lad.toNat
            some (if k < cs.ndash then [s!"M{rc}_dash{k}"] else if cs.dashAny then [s!"M{rc}_dashAny"] else [])
          else some (if i < cs.npos then [s!"M{rc}_pos{i}"] else if cs.posAny then [s!"M{rc}_posAny"] else [])
    match expected with
    | none => []
    | some e =>
      let realMarkers := (values.filterMap (fun v => (findMarker (jstr (jget v "value"))).map (fun (c, k) => s!"M{c}_{k}"))).eraseDups
      let srt (l : List String) := sortBy (fun a b => Str.lt a.toList b.toList) l
      if srt e == srt realMarkers then []
      else [{ prop := "C01", code := "probe_slot_not_served", detail := s!"{words}: a word typed here is put by the program into the slot of {e} (command {rc}, args {args}, dash at {lad}, flags {flagsJ.compress}); served: {realMarkers}, messages {(jarr ex "messages").toList.map jstr}" }]
  -- the hidden helper command is not offered unless its name is being typed
  let c01b : List AFail :=
    if values.any (fun v => jstr (jget v "value") == "_carapace") && !cur.startsWith "_" && !hiddenEnv then
      [{ prop := "C01", code := "helper_offered", detail := s!"{words}" }] else []
  -- C07: every offered flag name is accepted by the program's parser and sets that very flag
  let c07 : List AFail := runs.filterMap (fun r =>
    let v := jstr (jget r "value")
    let tag := jstr (jget r "tag")
    let run := jget r "run"
    let err := jstr (jget run "err")
    if !(tag == "longhand flags" || tag == "shorthand flags") then none
    else if !typedOk then none                     -- what was typed before is not acceptable itself
    -- a shorthand series in progress whose letters typed so far the program rejects by themselves (e.g. they
    -- complete a mutually exclusive group): the offered continuation cannot repair that, and the property does not ask it to
    else if tag == "shorthand flags" && cur.length ≥ 2 && jstr (jget (jget out "typedCurRun") "err") != "" then none
    else if v.endsWith "." then none              -- a dotted group prefix, completed further (C11)
    else if v == "--help" || v == "-h" || v.endsWith "h" && tag == "shorthand flags" && err == "" && !jbool run "ran" then none
    else if err != "" then
      some { prop := "C07", code := "offered_not_accepted", detail := s!"{words}: offered {v}, the program says: {err}" }
    else
      -- which flag should be set?
      let rc := jnat run "cmd"
      let vis := flagsVisible cmds rc
      let name? : Option String :=
        if v.startsWith "--" then some (String.ofList (v.toList.drop 2))
        else (vis.find? (fun f => f.short != "" && v.endsWith f.short)).map (·.name)
      match name? with
      | some n =>
        if !(jget (jget run "flags") n).isNull || !jbool run "ran" then none
        else some { prop := "C07", code := "offered_sets_other_flag", detail := s!"{words}: offered {v}, flags set: {(jget run "flags").compress}" }
      | none => none)
  -- C07: hidden / deprecated flags are never offered
  let offeredFlags := values.filter (fun v => let t := jstr (jget v "tag"); t == "longhand flags" || t == "shorthand flags")
  let c07b : List AFail :=
    match runs.find? (fun r => jbool (jget r "run") "ran" && (let t := jstr (jget r "tag"); t == "longhand flags" || t == "shorthand flags")) with
    | none => []
    | some r0 =>
      let rc := jnat (jget r0 "run") "cmd"
      let vis := flagsVisible cmds rc
      offeredFlags.filterMap (fun v =>
        let s := jstr (jget v "value")
        if s.startsWith "--" then
          match vis.find? (fun f => f.name == String.ofList (s.toList.drop 2)) with
          | some f => if (f.hidden && !hiddenEnv) || f.deprecated then some { prop := "C07", code := "hidden_or_deprecated_offered", detail := s!"{words}: {s}" } else none
          | none => none
        else none)
  -- C07: sub-command names: exactly the visible, non-deprecated children (names and aliases)
  let subFails : List AFail :=
    let offeredSubs := (values.filter (fun v => (jstr (jget v "tag")).endsWith "commands")).map (fun v => jstr (jget v "value"))
    runs.filterMap (fun r =>
      let v := jstr (jget r "value")
      let tag := jstr (jget r "tag")
      let run := jget r "run"
      if !tag.endsWith "commands" || v == "help" || v == "_carapace" || !typedOk then none
      else
        let rc := jnat run "cmd"
        match cmds[rc]? with
        | some cs =>
          if jstr (jget run "err") != "" then some { prop := "C07", code := "subcommand_not_accepted", detail := s!"{words}: {v}: {jstr (jget run "err")}" }
          else if !(cs.name == v || cs.aliases.contains v) then some { prop := "C07", code := "subcommand_dispatches_elsewhere", detail := s!"{words}: {v} ran {cs.name}" }
          else if (cs.hidden && !hiddenEnv) || cs.deprecated then some { prop := "C07", code := "hidden_or_deprecated_subcommand_offered", detail := s!"{words}: {v}" }
          else none
        | none => none) ++ (if offeredSubs.eraseDups.length != offeredSubs.length then [{ prop := "C07", code := "subcommand_twice", detail := s!"{offeredSubs}" }] else [])
  -- C07 rule model vs the real offer (current word `-` or `--`, the typed line accepted by the program)
  let ruleDiff : Option String :=
    let subNames : List String := (cmds.toList.drop 1).flatMap (fun c => c.name :: c.aliases)
    -- a sub-command name after some other word: carapace and cobra may resolve different commands (listed finding)
    let descentRisk : Bool :=
      (words.dropLast.foldl (fun (acc : Bool × Bool) w =>
        if subNames.contains w then (acc.1, acc.2 || acc.1) else (true, acc.2)) (false, false)).2
    if !(cur == "-" || cur == "--") || !typedOk || !jbool typedRun "ran" || descentRisk then none else
    let rc := jnat typedRun "cmd"
    match cmds[rc]? with
    | none => none
    | some rcs =>
      if rcs.noFlagParse then none else
      let vis := flagsVisible cmds rc
      let changed (n : String) : Bool := !(jget (jget typedRun "flags") n).isNull
      let groupsOf (f : FlagS) : List (List Str) :=
        match flagOwner cmds rc f.name with
        | some o =>
          let ocs := (cmds[o]?).getD default
          f.mutex.filterMap (fun g =>
            let members := ocs.flags.filter (fun x => x.mutex.contains g)
            if members.length > 1 then some (members.map (fun x => x.name.toList)) else none)
        | none => []
      let states : List FlagState := vis.map (fun f =>
        { fdef := toFlagDef f, hidden := f.hidden, deprecated := f.deprecated, shortDeprecated := f.shortDeprecated,
          changed := changed f.name, repeatable := f.kind == "stringSlice" || f.kind == "count" || f.kind == "stringArray" || f.kind == "ipNetSlice" || f.kind == "boolSlice", groups := groupsOf f })
      -- the name is offered as `--name` (mode Default), as `-name` (NameAsShorthand), or not at all (ShorthandOnly)
      let expected := (((vis.zip states).filter (fun (_, st) => offered hiddenEnv states st)).filterMap (fun (f, st) =>
        if f.mode == 1 then none else
        let n := (if f.mode == 2 then "-" else "--") ++ String.ofList st.fdef.name
        some (match n.splitOn "." with
        | a :: _ :: _ => a ++ "."
        | _ => n))).eraseDups.filter (fun n => n.startsWith cur)   -- MultiParts(".") keeps what extends the typed word
      let got := ((values.filter (fun v => jstr (jget v "tag") == "longhand flags")).map (fun v => jstr (jget v "value"))).filter (· != "--help")
      let srt (l : List String) := (sortBy (fun a b => Str.lt a.toList b.toList) l)
      -- only where flag names are being completed at all (not a value slot, not after `--`, ...)
      if !(values.any (fun v => jstr (jget v "tag") == "longhand flags")) then none
      else if srt expected == srt got then none
      else some s!"{words}: rule model offers {srt expected}, real offers {srt got}"
  -- C07 rule model inside a shorthand series (`-ab<TAB>`): the letters offered next
  let chainDiff : Option String :=
    let subNames : List String := (cmds.toList.drop 1).flatMap (fun c => c.name :: c.aliases)
    let descentRisk : Bool :=
      (words.dropLast.foldl (fun (acc : Bool × Bool) w =>
        if subNames.contains w then (acc.1, acc.2 || acc.1) else (true, acc.2)) (false, false)).2
    let tcr := jget out "typedCurRun"
    let letters := cur.toList.drop 1
    if nonPosixTree || !(cur.startsWith "-") || cur.startsWith "--" || letters.isEmpty || !typedOk || descentRisk then none else
    if tcr.isNull || jstr (jget tcr "err") != "" || !jbool tcr "ran" then none else
    -- the program itself took the word for flags (not for a positional after `--` or after a first positional)
    if ((jarr tcr "args").toList.map jstr).contains cur then none else
    let rc := jnat tcr "cmd"
    match cmds[rc]? with
    | none => none
    | some rcs =>
      if rcs.noFlagParse then none else
      let vis := flagsVisible cmds rc
      -- every letter typed so far is a flag without a mandatory argument
      let open_ := letters.all (fun ch => match vis.find? (fun f => f.short == String.singleton ch) with
        | some f => f.kind == "bool" || f.kind == "count" || f.kind == "optString"
        | none => false)
      if !open_ then none else
      let changed (n : String) : Bool := !(jget (jget tcr "flags") n).isNull
      let groupsOf (f : FlagS) : List (List Str) :=
        match flagOwner cmds rc f.name with
        | some o =>
          let ocs := (cmds[o]?).getD default
          f.mutex.filterMap (fun g =>
            let members := ocs.flags.filter (fun x => x.mutex.contains g)
            if members.length > 1 then some (members.map (fun x => x.name.toList)) else none)
        | none => []
      let states : List (FlagS × FlagState) := vis.map (fun f =>
        (f, { fdef := toFlagDef f, hidden := f.hidden, deprecated := f.deprecated, shortDeprecated := f.shortDeprecated,
              changed := changed f.name, repeatable := f.kind == "stringSlice" || f.kind == "count" || f.kind == "stringArray" || f.kind == "ipNetSlice" || f.kind == "boolSlice",
              groups := groupsOf f }))
      let all := states.map (·.2)
      let expected := (states.filter (fun (f, st) => offered hiddenEnv all st && f.short != "" && !f.shortDeprecated)).map (fun (f, _) => cur ++ f.short)
      let hasH := vis.any (fun f => f.short == "h")
      let got := ((values.filter (fun v => jstr (jget v "tag") == "shorthand flags")).map (fun v => jstr (jget v "value"))).filter (fun v => hasH || !v.endsWith "h")
      let srt (l : List String) := (sortBy (fun a b => Str.lt a.toList b.toList) l.eraseDups)
      if !(values.any (fun v => jstr (jget v "tag") == "shorthand flags")) && expected.isEmpty then none
      else if !(values.any (fun v => let t := jstr (jget v "tag"); t == "shorthand flags")) && !(values.isEmpty) then none   -- not a flag-name slot (a value is being completed)
      else if srt expected == srt got then none
      else some s!"{words}: series rule model offers {srt expected}, real offers {srt got}"
  -- C01: the slot the traverse model picks vs the markers the real code serves
  let forkTree := cmds.any (fun c => c.whitelist || c.flags.any FlagS.fork || c.flags.any FlagS.nonPosix)
  -- the general model (fork features); on trees without them the POSIX model, which the theorems are about, must agree with it
  let slotG := traverseSlotG (toTTreeG cmds) (cmds.size + 2) 0 (words.dropLast.map String.toList) cur.toList
  let slotP := traverseSlot (toTTree cmds) (cmds.size + 2) 0 (words.dropLast.map String.toList) cur.toList
  let modelsDiff : Option String :=
    if forkTree || slotG == slotP then none else some s!"{words}: general model {repr slotG}, POSIX model {repr slotP}"
  let slotDiff : Option String :=
    if panic != "" then none else
    if modelsDiff.isSome then modelsDiff else
    let slot := slotG
    let realMarkers := (values.filterMap (fun v => (findMarker (jstr (jget v "value"))).map (fun (c, k) => s!"M{c}_{k}"))).eraseDups
    let flagMarker (c : Nat) (name : Str) : List String :=
      let n := String.ofList name
      match flagOwner cmds c n with
      | some o =>
        (match ((cmds[o]?).getD default).flags.find? (fun f => f.name == n) with
         | some f => if f.kind == "bool" || f.kind == "count" then [] else [s!"M{o}_flag_{n}"]
         | none => [])
      | none => []
    let expect : Option (List String) :=
      match slot with
      | .notFollowed => none
      | .message | .flagNames _ | .boolValues _ _ => some []
      | .positional c k =>
        let cs := (cmds[c]?).getD default
        some (if k < cs.npos then [s!"M{c}_pos{k}"] else if cs.posAny then [s!"M{c}_posAny"] else [])
      | .dash c k =>
        let cs := (cmds[c]?).getD default
        some (if k < cs.ndash then [s!"M{c}_dash{k}"] else if cs.dashAny then [s!"M{c}_dashAny"] else [])
      | .flagValue c name => some (flagMarker c name)
      | .flagValueAttached c name _ => some (flagMarker c name)
    let srt (l : List String) := sortBy (fun a b => Str.lt a.toList b.toList) l
    match expect with
    | none => none
    | some e =>
      let msgOk := match slot with | .message => (jarr ex "messages").size > 0 | _ => true
      if srt e == srt realMarkers && msgOk then none
      else some s!"{words}: traverse model picks {repr slot} (markers {e}), real serves {realMarkers} messages {(jarr ex "messages").toList.map jstr}"
  -- C07: sub-command names are offered exactly at the first positional word (as the program's parser counts) of a
  -- command that has an available sub-command: the names and aliases of its non-deprecated, visible children
  let subsDiff : Option String :=
    if panic != "" || modelsDiff.isSome then none else
    let offeredSubs := ((values.filter (fun v => (jstr (jget v "tag")).endsWith "commands")).map (fun v => jstr (jget v "value"))).filter
      (fun v => v != "help" && v != "_carapace" && v != "completion")
    let srt (l : List String) := sortBy (fun a b => Str.lt a.toList b.toList) l.eraseDups
    match slotG with
    | .positional c k =>
      let kids := cmds.toList.filter (fun x => x.parent == (c : Int))
      let avail := kids.any (fun x => !x.hidden && !x.deprecated)
      let expected := if k == 0 && avail then (kids.filter (fun x => !x.deprecated && (!x.hidden || hiddenEnv))).flatMap (fun x => x.name :: x.aliases) else []
      if srt expected == srt offeredSubs then none
      else some s!"{words}: at positional {k} of command {c} the sub-command names {srt expected} are expected, real offers {srt offeredSubs}"
    | .notFollowed => none
    | _ => if offeredSubs.isEmpty then none else some s!"{words}: sub-command names {offeredSubs} offered in a slot that is not a positional"
  let ruleDiff := match ruleDiff with | some d => some d | none => subsDiff
  let crash : List AFail := if panic != "" && !panic.startsWith "execute:" then
    [{ prop := "C18", code := "panic:traverse", detail := panic }, { prop := "C01", code := "panic", detail := panic }] else []
  -- C07, completeness without a model: a flag name the program itself accepts here as that flag (probe runs of the harness),
  -- visible, not deprecated, not given yet, must be among the offered names
  let c07c : List AFail :=
    if !(cur == "-" || cur == "--") || !typedOk || panic != "" then [] else
    let offeredLong := (values.filter (fun v => jstr (jget v "tag") == "longhand flags")).map (fun v => jstr (jget v "value"))
    let rc := jnat typedRun "cmd"
    let vis := flagsVisible cmds rc
    (jarr out "flagProbes").toList.filterMap (fun pr =>
      let n := jstr (jget pr "name")
      let run := jget pr "run"
      match vis.find? (fun f => f.name == n) with
      | none => none
      | some f =>
        let accepted := jstr (jget run "err") == "" && (!(jget (jget run "flags") n).isNull || (n == "version" && !jbool run "ran"))
        let given := !(jget (jget typedRun "flags") n).isNull
        let covered := offeredLong.any (fun o => o == "--" ++ n || (o.endsWith "." && ("--" ++ n).startsWith o))
        if !accepted || (f.hidden && !hiddenEnv) || f.deprecated || given || covered then none
        else some { prop := "C07", code := "acceptable_not_offered", detail := s!"{words}: the program accepts --{n} here, offered: {offeredLong}" })
  -- the same inside a shorthand series: a letter the program takes next as that flag (not given yet, visible, neither the flag
  -- nor its shorthand deprecated) must be offered as `<series><letter>`
  let c07d : List AFail :=
    let tcr := jget out "typedCurRun"
    if panic != "" || tcr.isNull || jstr (jget tcr "err") != "" then [] else
    let offeredShort := (values.filter (fun v => jstr (jget v "tag") == "shorthand flags")).map (fun v => jstr (jget v "value"))
    let rc := jnat tcr "cmd"
    let vis := flagsVisible cmds rc
    (jarr out "chainProbes").toList.filterMap (fun pr =>
      let n := jstr (jget pr "name")
      let sh := jstr (jget pr "short")
      let run := jget pr "run"
      match vis.find? (fun f => f.name == n) with
      | none => none
      | some f =>
        let accepted := jstr (jget run "err") == "" && (!(jget (jget run "flags") n).isNull || (n == "version" && !jbool run "ran"))
        let given := !(jget (jget tcr "flags") n).isNull
        if !accepted || (f.hidden && !hiddenEnv) || f.deprecated || f.shortDeprecated || given || offeredShort.contains (cur ++ sh) then none
        else some { prop := "C07", code := "acceptable_not_offered", detail := s!"{words}: the program accepts {cur ++ sh} here (flag {n}), offered: {offeredShort}" })
  let fails := crash ++ c01.take 2 ++ c01p ++ c01b ++ c07.take 2 ++ c07b.take 1 ++ subFails.take 1 ++ c07c.take 1 ++ c07d.take 1
  let ruleDiff := match ruleDiff with | some d => some d | none => chainDiff
  let (ruleDiff, slotDiff) := if lenientNames then ((none : Option String), (none : Option String)) else (ruleDiff, slotDiff)
  Json.mkObj [("same", Json.bool (ruleDiff.isNone && slotDiff.isNone)), ("diff", Json.str ((ruleDiff.getD "") ++ (slotDiff.getD ""))),
              -- C06: where the model says the parser's error is shown, the real answer carries a message
              ("aspects", Json.mkObj [("C01", Json.bool slotDiff.isNone), ("C07", Json.bool ruleDiff.isNone),
                                      ("C06", Json.bool (panic != "" ||
                                        (match slotG with
                                         | .message => (jarr ex "messages").size > 0
                                         | _ => true)))]),
              ("fails", Json.arr (fails.map afailJson).toArray),
              ("feat", Json.mkObj [("fork", Json.bool forkTree), ("nonposix", Json.bool nonPosixTree), ("slot", Json.str (match slotG with
                                      | .message => "message" | .dash .. => "dash" | .flagValue .. => "flagValue" | .flagValueAttached .. => "flagValueAttached"
                                      | .boolValues .. => "boolValues" | .flagNames .. => "flagNames" | .positional .. => "positional" | .notFollowed => "notFollowed")),
                                   ("ncmds", Json.num cmds.size), ("nwords", Json.num words.length), ("ncands", Json.num values.length),
                                   ("msgs", Json.num (jarr ex "messages").size), ("typedOk", Json.bool typedOk)])]

/-- `lookuparg`: model of LookupArg / Consumes vs the real functions, and the stage-1 agreement with
    the program's parser on the real results -/
def runLookupOp (inp out : Json) : Json :=
  let flagsS := (jarr inp "flags").toList.map parseFlagS
  -- pflag's VisitAll is sorted by name; ShorthandLookup is a map: first match in any order is the same flag when shorthands are unique
  let sorted := sortBy (fun (a b : FlagS) => Str.lt a.name.toList b.name.toList) flagsS
  let fs : FlagSet := sorted.map toFlagDef
  let fsG : FlagSetG := sorted.map (fun f => (toPFlagG f).toDefG)
  let forky := flagsS.any FlagS.fork || flagsS.any FlagS.nonPosix
  -- the help flag is not defined yet when LookupArg runs
  let arg := jS inp "arg"
  let model := lookupArg fs arg
  let modelG := lookupArgG fsG arg
  let realFound := jbool out "found"
  -- the general model against the real functions; without fork features the POSIX model (the theorems' one) must agree with it
  let modelsAgree := forky || (match model, modelG with
    | none, none => true
    | some a, some b => a.flag == b.flag.toFlagDef && a.prefix_ == b.prefix_ && a.args == b.args && consumes a == consumesG b []
    | _, _ => false)
  let same := modelsAgree &&
    match modelG with
    | none => !realFound
    | some fd => realFound && jS out "name" == fd.flag.name && jS out "prefix" == fd.prefix_ && jstrs out "args" == fd.args &&
                 jbool out "pending" == consumesG fd []
  -- oracle (stage 1 on the real code): carapace waits for a value of flag f iff the parser gave NEXT to f
  let run := jget out "run"
  let err := jstr (jget run "err")
  -- traverse drops a flag whose argument is attached: only a flag found without arguments can wait for the next word
  let pendingReal := realFound && jbool out "pending" && (jstrs out "args").isEmpty
  let took := (jget run "flags")
  let fails : List AFail :=
    if err != "" || !jbool run "ran" then [] else
    let name := jstr (jget out "name")
    let parserGaveNext := realFound && (jstr (jget took name) == "NEXT" || jstr (jget took name) == "[NEXT]") && !(jarr run "args").toList.any (fun a => jstr a == "NEXT")
    let nextIsPositional := (jarr run "args").toList.any (fun a => jstr a == "NEXT")
    if pendingReal && !parserGaveNext then
      [{ prop := "C01", code := "lookup_pending_but_parser_did_not_consume", detail := s!"{String.ofList arg}: carapace expects a value for {name}; the program ran with {(jget run "flags").compress} args {(jget run "args").compress}" }]
    else if !pendingReal && !nextIsPositional && (String.ofList arg).startsWith "-" && (String.ofList arg) != "--" then
      [{ prop := "C01", code := "parser_consumed_but_lookup_not_pending", detail := s!"{String.ofList arg}: the program gave NEXT to a flag ({(jget run "flags").compress}); carapace: found={realFound} pending=false" }]
    else []
  Json.mkObj [("same", Json.bool same),
              ("diff", Json.str (if same then "" else s!"arg {String.ofList arg}: model {repr modelG} (POSIX model {repr model}) real found={realFound} name={jstr (jget out "name")} prefix={jstr (jget out "prefix")} args={(jget out "args").compress} pending={jbool out "pending"}")),
              ("fails", Json.arr (fails.map afailJson).toArray),
              ("feat", Json.mkObj [("found", Json.bool realFound), ("pending", Json.bool pendingReal), ("accepted", Json.bool (err == ""))])]

end Driver
