/- Driver ops `bridge` and `ccomplete` (C20) -/
import Driver.Parse
import Carapace.Model.Bridge

namespace Driver
open Lean Carapace Carapace.Model

def runBridgeOp (inp out : Json) : Json :=
  if jstr (jget inp "dir") == "c2cobra" then
    let m : Meta := { nospace := SuffixMatcher.add [] (jS (jget inp "meta") "nospace") }
    let vs := (jarr inp "values").toList.map parseRaw
    let r : Invoked := (m, vs)
    let lines := jstrs out "lines"
    let d := jnat out "directive"
    let same := cobraValuesFor r == lines && cobraDirectiveFor r == d
    -- oracle: values and descriptions intact (tab framing), NoSpace iff a value has a no-space suffix, no file completion
    let decoded := lines.map (fun l => match Str.cutChar '\t' l with | (a, some b) => (a, b) | (a, none) => (a, []))
    let wantNs := vs.any (fun v => m.nospace.elem '*' || (match v.value.getLast? with | some c => m.nospace.elem c | none => false))
    let fails : List AFail :=
      (if decoded == vs.map (fun v => (v.value, v.description)) then [] else [{ prop := "C20", code := "values_or_descriptions_changed", detail := s!"{lines.map String.ofList}" }]) ++
      (if hasBit d dNoFileComp then [] else [{ prop := "C20", code := "file_completion_not_disabled", detail := s!"{d}" }]) ++
      (if hasBit d dNoSpace == wantNs then [] else [{ prop := "C20", code := "nospace_directive", detail := s!"directive {d}, a value with a no-space suffix: {wantNs}" }])
    Json.mkObj [("same", Json.bool same), ("diff", Json.str (if same then "" else s!"model {(cobraValuesFor r).map String.ofList} {cobraDirectiveFor r} real {lines.map String.ofList} {d}")),
                ("fails", Json.arr (fails.map afailJson).toArray), ("feat", Json.mkObj [("dir", Json.str "c2cobra"), ("n", Json.num vs.length)])]
  else
    let d := jnat inp "directive"
    let cvals := jstrs inp "cvalues"
    let (kind, ns) := directiveToA d cvals
    let got : List (Str × Str) := (jarr out "values").toList.map (fun p => match p.getArr? with
      | .ok a => ((jstr (a.getD 0 Json.null)).toList, (jstr (a.getD 1 Json.null)).toList)
      | .error _ => ([], []))
    let msgs := jstrs out "messages"
    let nospace := jS out "nospace"
    -- through ActionCobra with a word under the cursor: what is served is compared on the candidates that continue that word
    let typed := jS inp "typed"
    let got := got.filter (fun p => Str.hasPrefix p.1 typed)
    let names := (got.map (·.1))
    let srt (l : List Str) := sortBy Str.lt l
    let S (s : String) := s.toList
    -- the scratch directory: a.go b.txt d/ ; d/: x.go y.md sub/
    -- the listing the typed word denotes: the scratch directory itself, or `d/`
    let inD := Str.hasPrefix typed (S "d/")
    let top : List Str := (if inD then [S "d/x.go", S "d/y.md", S "d/sub/"] else [S "a.go", S "b.txt", S "d/"]).filter (fun n => Str.hasPrefix n typed)
    let expectNames : Option (List Str) :=
      match kind with
      | .error => some []
      | .files => some top
      | .fileExt exts => some (top.filter (fun n => Str.hasSuffix n ['/'] || exts.isEmpty || exts.any (fun e => Str.hasSuffix n e)))
      | .dirs none => some (top.filter (fun n => Str.hasSuffix n ['/']))
      | .dirs (some c) =>
        -- the directory named by the completion function is listed, the typed word is relative to it
        if c == S "d" then some ([S "sub/", S "x.go", S "y.md"].filter (fun n => Str.hasSuffix n ['/'] && Str.hasPrefix n typed))
        else if c == S "d/sub" then some [] else none
      | .values vs => some ((vs.map (·.1)).filter (fun n => Str.hasPrefix n typed))
    let kindOk :=
      match kind, expectNames with
      | .error, _ => !msgs.isEmpty && got.isEmpty
      | .dirs (some _), none => !msgs.isEmpty && got.isEmpty          -- not a directory: a message
      | _, some e => srt names == srt e && msgs.isEmpty
      | _, none => true
    let descOk := match kind with
      | .values vs => srt (got.map (fun p => p.1 ++ ['\t'] ++ p.2)) == srt ((vs.filter (fun p => Str.hasPrefix p.1 typed)).map (fun p => p.1 ++ ['\t'] ++ p.2))
      | _ => true
    let nsOk := match kind with
      | .error => true
      | _ => if ns then nospace.elem '*' else !nospace.elem '*'
    let same := kindOk && descOk && nsOk
    -- oracle from the property: NoSpace honoured whatever the kind (but Error)
    let fails : List AFail :=
      (if kindOk && descOk then [] else [{ prop := "C20", code := "directive_not_honoured", detail := s!"directive {d} values {cvals.map String.ofList}: served {names.map String.ofList} messages {msgs.map String.ofList}" }]) ++
      (if hasBit d dError || hasBit d dNoSpace == nospace.elem '*' || (!hasBit d dNoSpace) then [] else
        [{ prop := "C20", code := "nospace_not_honoured", detail := s!"directive {d} values {cvals.map String.ofList}: no-space set {String.ofList nospace}" }])
    Json.mkObj [("same", Json.bool same), ("diff", Json.str (if same then "" else s!"directive {d} values {cvals.map String.ofList}: model {repr kind} nospace {ns}; real {names.map String.ofList} {msgs.map String.ofList} nospace {String.ofList nospace}")),
                ("fails", Json.arr (fails.map afailJson).toArray), ("feat", Json.mkObj [("dir", Json.str "cobra2c"), ("kind", Json.num (match kind with | .error => 0 | .dirs _ => 1 | .fileExt _ => 2 | .files => 3 | .values _ => 4))])]

/-- markers served by carapace itself vs through cobra's `__complete` for the same position -/
def runCCompleteOp (inp out : Json) : Json :=
  let words := (jarr inp "words").toList.map jstr
  let cobraSide := jbool inp "cobraSide"
  let ex := jget out "export"
  let isMarked (v : String) := (findMarker v).isSome
  let own := ((jarr ex "values").toList.filter (fun v => isMarked (jstr (jget v "value")))).map (fun v =>
    let d := jstr (jget v "description")
    -- `--flag=` is part of the word carapace replaces; cobra's scripts add it themselves
    let val := jstr (jget v "value")
    let cur := words.getLast?.getD ""
    let val := if cur.startsWith "-" && cur.endsWith "=" && val.startsWith cur then String.ofList (val.toList.drop cur.length) else val
    val ++ (if d == "" then "" else "\t" ++ d))
  let cobraLines := (jarr out "cobra").toList.map jstr
  let directive := ((cobraLines.filter (fun l => l.startsWith ":")).head?.map (fun l => (String.ofList (l.toList.drop 1)).toNat!)).getD 0
  let viaCobra := cobraLines.filter (fun l => !l.startsWith ":" && !l.startsWith "Completion ended" && isMarked l)
  let srt (l : List String) := sortBy (fun a b => Str.lt a.toList b.toList) l.eraseDups
  let typedOk := jstr (jget (jget out "typedRun") "err") == ""
  let ownNospace := jstr (jget ex "nospace")
  let ownNs := own.any (fun l => ownNospace.toList.elem '*' || (match ((l.splitOn "\t").headD "").toList.getLast? with | some c => ownNospace.toList.elem c | none => false))
  let isFlag := (own ++ viaCobra).any (fun m => (m.splitOn "_flag_").length > 1)
  let side := if cobraSide then "cobra_registered:" else "carapace_registered:"
  let fails : List AFail :=
    if !typedOk || jstr (jget out "panic") != "" then [] else
    (if srt own == srt viaCobra then [] else
      [{ prop := "C20", code := side ++ (if isFlag then "flag_value_differs" else "positional_slot_differs"),
         detail := s!"{words}: carapace serves {srt own}, `__complete` serves {srt viaCobra} (:{directive})" }]) ++
    (if srt own != srt viaCobra || own.isEmpty || ownNs == hasBit directive Carapace.Model.dNoSpace then [] else
      [{ prop := "C20", code := side ++ "nospace_differs",
         detail := s!"{words}: carapace's no-space set {ownNospace} on {srt own}, `__complete` directive :{directive}" }])
  Json.mkObj [("same", Json.bool true), ("diff", Json.str ""), ("fails", Json.arr (fails.map afailJson).toArray),
              ("feat", Json.mkObj [("own", Json.num own.length), ("viaCobra", Json.num viaCobra.length), ("cobraSide", Json.bool cobraSide), ("flag", Json.bool isFlag)])]

end Driver
