/-
  Driver ops `invoke`, `history`, `repeat`: the pure model of the Action algebra vs the real
  library, and the oracles of C08 / C10 / C11 / C12 on the real results.
-/
import Driver.Json
import Carapace.Model.Actions
import Carapace.Spec.NextSegments

namespace Driver
open Lean Carapace Carapace.Model

def parseCtx (j : Json) : Ctx :=
  { value := jS j "value", args := jstrs j "args", parts := jstrs j "parts", env := jstrs j "env",
    dir := jS j "dir", ci := jbool j "ci" }

def parseTest (j : Json) : Test :=
  match jstr (jget j "k") with
  | "partsLen" => .partsLen (jnat j "n")
  | "argsLen" => .argsLen (jnat j "n")
  | "valuePrefix" => .valuePrefix (jS j "p")
  | _ => .always

def parseEdit (j : Json) : Edit :=
  match jstr (jget j "k") with
  | "setValue" => .setValue (jS j "s")
  | "setArgs" => .setArgs (jstrs j "xs")
  | "setParts" => .setParts (jstrs j "xs")
  | "setenv" => .setenv (jS j "s") (jS j "v")
  | _ => .setDir (jS j "s")

/-- decode an expression; `table` resolves `ref`s (history op); `stored` is evaluated on the spot -/
partial def parseExpr (table : Array Expr) (j : Json) : Expr :=
  if j.isNull then .plain [] else
  let inner := parseExpr table (jget j "e")
  match jstr (jget j "k") with
  | "values" =>
    .values ((jarr j "vs").toList.map (fun t =>
      match t.getArr? with
      | .ok a => ((jstr (a.getD 0 Json.null)).toList, (jstr (a.getD 1 Json.null)).toList, (jstr (a.getD 2 Json.null)).toList)
      | .error _ => ([], [], []))) (jS j "tag")
  | "plain" => .plain (jstrs j "ps")
  | "message" =>
    -- ActionMessage(fmt, args...): the harness only uses the format "%v" with one argument
    (match jstrs j "margs" with
     | [a] => .message a
     | _ => .message (jS j "m"))
  | "echo" => .echo
  | "gen" => .plain ["gen".toList]
  | "regflag" => .plain [("reg" ++ toString (jnat j "n")).toList]
  | "regprobe" => .plain ((List.range (jnat j "n")).map (fun i => ("v" ++ toString i).toList))
  | "filter" => .filter (jstrs j "xs") inner
  | "filterArgs" => .filterArgs inner
  | "filterParts" => .filterParts inner
  | "retain" => .retain (jstrs j "xs") inner
  | "pfx" => .pfx (jS j "s") inner
  | "sfx" => .sfx (jS j "s") inner
  | "style" => .style (jS j "s") inner
  -- StyleR: the referenced string as it reads when the Action is invoked
  | "styleR" => .style (jS j "s") inner
  | "tag" => .tag (jS j "s") inner
  | "usage" => .usage (jS j "s") inner
  | "nospace" => .nospace (jS j "s") inner
  | "suppress" => .suppress (jS j "s") inner
  | "suppressN" =>
    -- Suppress(e1, e2, ...) deletes what any expression matches: nested single suppressions; the literals after
    -- `(?i)` are chosen so that case does not matter for them
    (jstrs j "xs").foldl (fun acc p => .suppress (if Str.hasPrefix p "(?i)".toList then p.drop 4 else p) acc) inner
  | "unless" => .unless (jbool j "b") inner
  | "shift" => .shift (jint j "n") inner
  | "list" => .list (jS j "s") inner
  | "uniqueList" => .uniqueList (jS j "s") inner
  | "tagF" => .tagF inner
  | "styleF" => .styleF inner
  | "unlessF" => .unlessF (parseTest (jget j "t")) inner
  | "multiParts" => .multiParts (jstrs j "xs") inner
  | "multiPartsN" => .multiPartsN (jS j "s") (jint j "n") inner
  | "batch" => .batch ((jarr j "es").toList.map (parseExpr table))
  | "cond" => .cond (parseTest (jget j "t")) (parseExpr table (jget j "a")) (parseExpr table (jget j "bb"))
  | "withCtx" => .withCtx ((jarr j "edits").toList.map parseEdit) inner
  | "ref" => table.getD (jnat j "id") (.plain [])
  | "stored" =>
    let r := invoke inner (parseCtx (jget j "ctx"))
    .static r.1 r.2
  | "import" =>
    -- what was exported is what ActionImport yields, on every invocation (C13 covers the transport itself)
    let r := invoke inner (parseCtx (jget j "ctx"))
    .static r.1 r.2
  | _ => .plain []

def parseRaw (j : Json) : RawValue :=
  { value := jS j "value", display := jS j "display", description := jS j "description",
    style := jS j "style", tag := jS j "tag", uid := jS j "uid" }

def parseResult (j : Json) : Option Invoked :=
  if !(jget j "panic").isNull && jstr (jget j "panic") != "" then none
  else some ({ messages := jstrs j "messages", nospace := jS j "nospace", usage := jS j "usage" },
             (jarr j "values").toList.map parseRaw)

def rawLt (a b : RawValue) : Bool :=
  Str.lt a.value b.value || (a.value == b.value && (Str.lt a.display b.display ||
    (a.display == b.display && (Str.lt a.description b.description ||
      (a.description == b.description && (Str.lt a.style b.style || (a.style == b.style && Str.lt a.tag b.tag)))))))

def canonValues (vs : List RawValue) : List RawValue := sortBy rawLt (vs.map (fun v => { v with uid := [] }))

def showInvoked (r : Invoked) : String :=
  s!"msgs={r.1.messages.map String.ofList} nospace={String.ofList r.1.nospace} usage={String.ofList r.1.usage} values={(canonValues r.2).map (fun v => (String.ofList v.value, String.ofList v.display, String.ofList v.description, String.ofList v.style, String.ofList v.tag))}"

/-- a model result stands for a panic when it carries the marker message -/
def isPanicModel (r : Invoked) : Bool := r.1.messages == ["PANIC".toList]

def sameInvoked (model : Invoked) (real : Option Invoked) : Bool :=
  match real with
  | none => isPanicModel model
  | some r => !isPanicModel model && model.1 == r.1 && canonValues model.2 == canonValues r.2

/-! ### oracles evaluated on the real result -/

structure AFail where
  prop : String
  code : String
  detail : String := ""

def afailJson (f : AFail) : Json :=
  Json.mkObj [("prop", Json.str f.prop), ("code", Json.str f.code), ("detail", Json.str f.detail)]

def exprKind : Expr → String
  | .values .. => "values" | .static .. => "static" | .plain .. => "plain" | .message .. => "message" | .echo => "echo"
  | .filter .. => "filter" | .filterArgs .. => "filterArgs" | .filterParts .. => "filterParts"
  | .retain .. => "retain" | .pfx .. => "pfx" | .sfx .. => "sfx" | .style .. => "style" | .tag .. => "tag"
  | .usage .. => "usage" | .nospace .. => "nospace" | .suppress .. => "suppress" | .unless .. => "unless"
  | .shift .. => "shift" | .list .. => "list" | .uniqueList .. => "uniqueList" | .tagF .. => "tagF" | .styleF .. => "styleF" | .unlessF .. => "unlessF" | .multiParts .. => "multiParts"
  | .multiPartsN .. => "multiPartsN" | .batch .. => "batch" | .cond .. => "cond" | .withCtx .. => "withCtx"

/-- the text of `w` up to and including the last occurrence of `div` (the completed parts) -/
def completedPrefix (w div : Str) : Str :=
  if div.isEmpty then [] else
  let ps := Str.splitOn w div
  if ps.length ≤ 1 then [] else Str.join div ps.dropLast ++ div

/-- SPEC: frame conditions of the top-level modifier, evaluated on the real result and the real
    result of the inner expression (same Context) -/
def checkFrame (e : Expr) (c : Ctx) (real inner : Invoked) : List AFail :=
  let cv := canonValues
  let metaSame := real.1 == inner.1
  let valuesAre (f : List RawValue → List RawValue) : Bool := cv real.2 == cv (f inner.2)
  let fail (code : String) (cond : Bool) (detail : String := "") : List AFail :=
    if cond then [] else [{ prop := "C12", code := code, detail := detail }]
  match e with
  | .filter xs _ => fail "filter" (metaSame && valuesAre (fun vs => vs.filter (fun v => !xs.elem v.value)))
  | .filterArgs _ => fail "filterArgs" (metaSame && valuesAre (fun vs => vs.filter (fun v => !c.args.elem v.value)))
  | .filterParts _ => fail "filterParts" (metaSame && valuesAre (fun vs => vs.filter (fun v => !c.parts.elem v.value)))
  | .retain xs _ => fail "retain" (metaSame && valuesAre (fun vs => vs.filter (fun v => xs.elem v.value)))
  | .sfx s _ => fail "suffix" (metaSame && valuesAre (fun vs => vs.map (fun v => { v with value := v.value ++ s })))
  | .pfx p _ =>
    if c.value.isEmpty then fail "prefix" (metaSame && valuesAre (fun vs => vs.map (fun v => { v with value := p ++ v.value })))
    else if !(matchHasPrefix c.ci c.value p || matchHasPrefix c.ci p c.value) then fail "prefix_incompatible" real.2.isEmpty
    else fail "prefix_values" (real.2.all (fun v => Str.hasPrefix v.value p))
  | .style s _ => fail "style" (metaSame && valuesAre (fun vs => vs.map (fun v => { v with style := s })))
  | .tag t _ => fail "tag" (metaSame && valuesAre (fun vs => vs.map (fun v => { v with tag := t })))
  | .usage u _ =>
    fail "usage" (valuesAre id && real.1.messages == inner.1.messages && real.1.nospace == inner.1.nospace &&
      real.1.usage == (if u.isEmpty then inner.1.usage else u))
  | .nospace chars _ =>
    let want (ch : Char) : Bool := inner.1.nospace.elem ch || (if chars.isEmpty then ch == '*' else chars.elem ch)
    let star := inner.1.nospace.elem '*' || chars.isEmpty || chars.elem '*'
    fail "nospace" (valuesAre id && real.1.messages == inner.1.messages && real.1.usage == inner.1.usage &&
      (if star then real.1.nospace == ['*']
       else real.1.nospace.all want && (inner.1.nospace ++ chars).all (fun ch => real.1.nospace.elem ch))) ++
    -- C05: a declared no-space character is never lost (NoSpace only adds to the set)
    (if star || (inner.1.nospace ++ chars).all (fun ch => real.1.nospace.elem ch) then [] else
      [{ prop := "C05", code := "declared_nospace_lost", detail := s!"NoSpace({String.ofList chars}) over {String.ofList inner.1.nospace} gives {String.ofList real.1.nospace}" }])
  | .suppress lit _ =>
    fail "suppress" (valuesAre id && real.1.nospace == inner.1.nospace && real.1.usage == inner.1.usage &&
      real.1.messages == inner.1.messages.filter (fun m => !Str.contains m lit))
  | .unless b _ => if b then fail "unless" (real.2.isEmpty && real.1 == {}) else fail "unless" (metaSame && valuesAre id)
  | .shift n _ => if n == 0 then fail "shift0" (metaSame && valuesAre id) else []
  | .list div _ | .uniqueList div _ =>
    if div.isEmpty then [] else
    let pre := completedPrefix c.value div
    let parts := if pre.isEmpty then [] else Str.splitOn (pre.take (pre.length - div.length)) div
    let f1 := fail "list_rebuild" (real.2.all (fun v => Str.hasPrefix v.value pre)) s!"completed parts {String.ofList pre}"
    let f2 := match e with
      | .uniqueList .. => fail "uniqueList_reoffers" (real.2.all (fun v => !parts.elem (v.value.drop pre.length)))
      | _ => []
    f1 ++ f2
  | .multiParts divs _ =>
    if divs.any List.isEmpty then [] else
    let texts := inner.2.map (·.value)
    let want := Spec.nextSegments c.ci divs texts c.value
    let got := (real.2.map (·.value))
    let setEq := want.all (fun x => got.elem x) && got.all (fun x => want.elem x) && got.eraseDups.length == got.length
    let f1 : List AFail := if setEq then [] else
      [{ prop := "C11", code := "candidates", detail := s!"want {want.map String.ofList} got {got.map String.ofList}" }]
    -- final steps carry the value's own description, style and tag (the last such value wins)
    let n := (Spec.segments divs c.value).length
    let f2 : List AFail := real.2.filterMap (fun cand =>
      let finals := inner.2.filter (fun v => v.value == cand.value && (Spec.segments divs v.value).length == n && matchHasPrefix c.ci v.value c.value)
      let longer := inner.2.filter (fun v => matchHasPrefix c.ci v.value c.value && (Spec.segments divs v.value).length > n &&
                                             ((Spec.segments divs v.value).take n).flatten == cand.value)
      -- the record is that of the last contributing value
      let lastIsFinal := match (inner.2.filter (fun v => matchHasPrefix c.ci v.value c.value && (Spec.segments divs v.value).length ≥ n &&
                                             ((Spec.segments divs v.value).take n).flatten == cand.value)).getLast? with
        | some v => (Spec.segments divs v.value).length == n
        | none => false
      match finals.getLast? with
      | some v =>
        if lastIsFinal || longer.isEmpty then
          (if cand.description == v.description && cand.style == v.style && cand.tag == v.tag then none
           else some { prop := "C11", code := "final_meta", detail := String.ofList cand.value })
        else none
      | none => none)
    -- intermediate steps end in a divider and suppress the trailing space
    let f3 : List AFail := real.2.filterMap (fun cand =>
      let isFinal := inner.2.any (fun v => v.value == cand.value)
      if isFinal then none
      else if divs.any (fun d => Str.hasSuffix cand.value d) &&
              (real.1.nospace.elem '*' || (match cand.value.getLast? with | some ch => real.1.nospace.elem ch | none => false)) then none
      else some { prop := "C11", code := "intermediate", detail := String.ofList cand.value })
    -- the inner action's messages / usage must survive (C06 upward, C12)
    let f4 : List AFail :=
      if inner.1.messages.all (fun m => real.1.messages.elem m) && (inner.1.usage.isEmpty || real.1.usage == inner.1.usage) then []
      else [{ prop := "C12", code := "multiParts_meta_dropped" }, { prop := "C06", code := "multiParts_messages_dropped" }]
    f1 ++ f2 ++ f3 ++ f4
  | _ => []

partial def hasMultiParts : Expr → Bool
  | .multiParts .. => true
  | .filter _ e | .filterArgs e | .filterParts e | .retain _ e | .pfx _ e | .sfx _ e | .style _ e | .tag _ e
  | .usage _ e | .nospace _ e | .suppress _ e | .unless _ e | .shift _ e | .list _ e | .uniqueList _ e | .tagF e | .styleF e | .unlessF _ e
  | .multiPartsN _ _ e | .withCtx _ e => hasMultiParts e
  | .batch es => es.any hasMultiParts
  | .cond _ a b => hasMultiParts a || hasMultiParts b
  | _ => false

def runInvoke (inp out : Json) : Json :=
  let e := parseExpr #[] (jget inp "expr")
  let c := parseCtx (jget inp "ctx")
  let model := invoke e c
  let real := parseResult out
  let same := sameInvoked model real
  let inner := if (jget out "inner").isNull then none else parseResult (jget out "inner")
  let fails : List AFail :=
    match real with
    | none => [{ prop := "C18", code := "panic:" ++ exprKind e, detail := jstr (jget out "panic") },
               { prop := "C11", code := "panic:" ++ exprKind e, detail := jstr (jget out "panic") }]
    | some r =>
      let law : List AFail :=
        match e, (if (jget out "pfxInner").isNull then none else parseResult (jget out "pfxInner")) with
        | .pfx p _, some pi =>
          if r.1 == pi.1 && canonValues r.2 == canonValues (pi.2.map (fun v => { v with value := p ++ v.value })) then []
          else [{ prop := "C12", code := "prefix_law", detail := s!"typed {String.ofList c.value} prefix {String.ofList p}: got {showInvoked r}, completion of the rest is {showInvoked pi}" }]
        | _, _ => []
      -- C09: a Batch yields the union of what its members yield one after the other
      let membersJ := jarr out "members"
      let batchFails : List AFail :=
        match e with
        | .batch es =>
          if es.length < 2 || membersJ.size != es.length then [] else
          let ms := membersJ.toList.filterMap parseResult
          if ms.length != es.length then [] else
          let allVals := ms.flatMap (·.2)
          -- merged by inserted value, a later member's entry replacing an earlier one
          let lastWins := allVals.reverse.foldl (fun acc v => if acc.any (fun x => x.value == v.value) then acc else v :: acc) []
          let msgs := (ms.flatMap (·.1.messages)).eraseDups
          let usage := ((ms.map (·.1.usage)).filter (fun u => !u.isEmpty)).getLast?.getD []
          let nsAll := ms.flatMap (·.1.nospace)
          let nsOk := if nsAll.elem '*' then r.1.nospace == ['*'] else nsAll.all (fun ch => r.1.nospace.elem ch) && r.1.nospace.all (fun ch => nsAll.elem ch)
          if canonValues r.2 == canonValues lastWins && msgs.all (fun m => r.1.messages.elem m) && r.1.messages.all (fun m => msgs.elem m)
             && r.1.usage == usage && nsOk then []
          else [{ prop := "C09", code := "batch_differs_from_sequential", detail := s!"batch yields {showInvoked r}; members one after the other: {ms.map showInvoked}" }]
        | _ => []
      batchFails ++ law ++ (match inner with
      | some i => checkFrame e c r i
      | none => [])
  Json.mkObj [("same", Json.bool same),
              ("diff", Json.str (if same then "" else s!"model {showInvoked model} real {match real with | some r => showInvoked r | none => "PANIC " ++ jstr (jget out "panic")}")),
              -- the disagreement is about Batch itself (C09) when every member on its own agrees with the model
              ("aspects",
                let batchOnly : Bool := match e with
                  | .batch es =>
                    let ms := (jarr out "members").toList.map parseResult
                    ms.length == es.length && (es.zip ms).all (fun (ei, mi) => sameInvoked (invoke ei c) mi)
                  | _ => false
                Json.mkObj [("C05", Json.bool (same || (match real with | some r => r.1.nospace == model.1.nospace | none => false))),
                            ("C06", Json.bool (same || (match real with | some r => r.1.messages == model.1.messages | none => false))),
                            ("C09", Json.bool (same || !batchOnly)),
                            ("C11", Json.bool (same || !hasMultiParts e || batchOnly)),
                            ("C12", Json.bool (same || batchOnly || (match e with | .multiParts .. => true | _ => false)))]),
              ("fails", Json.arr (fails.map afailJson).toArray),
              ("feat", Json.mkObj [("top", Json.str (exprKind e)), ("nvalues", Json.num (match real with | some r => r.2.length | none => 0))])]

def runHistory (inp out : Json) : Json := Id.run do
  let mut table : Array Expr := #[]
  for x in jarr inp "table" do
    table := table.push (parseExpr table x)
  let steps := (jarr inp "steps").toList
  let results := (jarr out "results").toList
  let mut diffs : List String := []
  let mut fails : List AFail := []
  let mut k := 0
  -- every step must equal the pure invocation: no trace of earlier invocations
  for (s, r) in steps.zip results do
    let e := table.getD (jnat s "e") (.plain [])
    let c := parseCtx (jget s "ctx")
    let model := invoke e c
    let real := parseResult r
    let noModel := jbool ((jarr inp "table").getD (jnat s "e") Json.null) "opaque"
    if !noModel && !sameInvoked model real then
      diffs := diffs ++ [s!"step {k}: model {showInvoked model} real {match real with | some x => showInvoked x | none => "PANIC"}"]
    k := k + 1
  -- C08 oracle on the real results alone: the same (expression, Context) gives the same result every time
  let idx := List.range steps.length
  for i in idx do
    for j in idx do
      if i < j then
        let si := steps.getD i Json.null
        let sj := steps.getD j Json.null
        if jnat si "e" == jnat sj "e" && (jget si "ctx").compress == (jget sj "ctx").compress then
          let ri := parseResult (results.getD i Json.null)
          let rj := parseResult (results.getD j Json.null)
          let eq := match ri, rj with
            | some a, some b => a.1 == b.1 && canonValues a.2 == canonValues b.2
            | none, none => true
            | _, _ => false
          if !eq && fails.isEmpty then
            fails := fails ++ [{ prop := "C08", code := "not_repeatable", detail := s!"steps {i} and {j} invoke the same action with the same Context and differ" }]
  -- C08 oracle: every step equals what the same expression, built from scratch, yields for that Context
  let freshs := (jarr out "fresh").toList
  let mut kk := 0
  for (r, f) in results.zip freshs do
    let rr := parseResult r
    let ff := parseResult f
    let eq := match rr, ff with
      | some a, some b => a.1 == b.1 && canonValues a.2 == canonValues b.2
      | none, none => true
      | _, _ => false
    if !eq && fails.length < 3 then
      fails := fails ++ [{ prop := "C08", code := "trace_of_earlier_invocation", detail := s!"step {kk}: reused value yields {match rr with | some x => showInvoked x | none => "PANIC"} fresh value yields {match ff with | some x => showInvoked x | none => "PANIC"}" }]
      -- a Batch whose merged result is not that of its members (an earlier or a sibling Batch wrote into a shared member): C09
      let ek := exprKind (table.getD (jnat (steps.getD kk Json.null) "e") (.plain []))
      if ek == "batch" then
        fails := fails ++ [{ prop := "C09", code := "batch_result_carries_foreign_state", detail := s!"step {kk}: the Batch yields {match rr with | some x => showInvoked x | none => "PANIC"}, built from fresh members it yields {match ff with | some x => showInvoked x | none => "PANIC"}" }]
    kk := kk + 1
  if !(jarr out "ctxChanged").isEmpty then
    fails := fails ++ [{ prop := "C08", code := "caller_context_changed", detail := (jget out "ctxChanged").compress }]
  -- C09 for members without a model: the Batch yields what the members yield one after the other
  if jstr (jget out "batchUnion") != "" then
    fails := fails ++ [{ prop := "C09", code := "batch_differs_from_sequential", detail := jstr (jget out "batchUnion") }]
  return Json.mkObj [("same", Json.bool diffs.isEmpty), ("diff", Json.str (String.intercalate " | " (diffs.take 3))),
                     ("aspects", Json.mkObj [("C08", Json.bool true)]),
                     ("fails", Json.arr (fails.map afailJson).toArray),
                     ("feat", Json.mkObj [("steps", Json.num steps.length), ("table", Json.num table.size)])]

def runRepeat (inp out : Json) : Json :=
  let d := jnat out "distinct"
  let fails : List AFail :=
    if d == 1 then [] else [{ prop := "C10", code := "nondeterministic", detail := s!"{d} different outputs in {jnat inp "n"} runs: {(jarr out "outputs").toList.map (fun x => (jstr x).quote)}" }]
  Json.mkObj [("same", Json.bool true), ("diff", Json.str ""), ("fails", Json.arr (fails.map afailJson).toArray),
              ("feat", Json.mkObj [("shell", Json.str (jstr (jget inp "shell"))), ("distinct", Json.num d)])]

end Driver
