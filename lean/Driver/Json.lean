import Lean.Data.Json
import Carapace.Basic.Str

namespace Driver
open Lean Carapace

def jget (j : Json) (k : String) : Json := (j.getObjVal? k).toOption.getD Json.null
def jstr (j : Json) : String := (j.getStr?).toOption.getD ""
def jS (j : Json) (k : String) : Str := (jstr (jget j k)).toList
def jbool (j : Json) (k : String) : Bool := ((jget j k).getBool?).toOption.getD false
def jarr (j : Json) (k : String) : Array Json := ((jget j k).getArr?).toOption.getD #[]
def jnat (j : Json) (k : String) : Nat := ((jget j k).getNat?).toOption.getD 0
def jint (j : Json) (k : String) : Int := ((jget j k).getInt?).toOption.getD 0
def jstrs (j : Json) (k : String) : List Str := (jarr j k).toList.map (fun x => (jstr x).toList)
def joptS (j : Json) (k : String) : Option Str :=
  match (jget j k).getStr? with
  | .ok s => some s.toList
  | .error _ => none
def jisNull (j : Json) (k : String) : Bool := (jget j k).isNull

def S (s : Str) : Json := Json.str (String.ofList s)

end Driver
