/- Driver op `rawcache` (C14, C15): model-free oracles on the byte cache and on file-derived keys -/
import Driver.Alg

namespace Driver
open Lean

def runRawcacheOp (inp out : Json) : Json :=
  let kind := jstr (jget inp "kind")
  let fails : List AFail :=
    if kind == "big" then
      let n := jnat inp "n"
      (if jnat out "len1" == n && jbool out "same1" then [] else
        [{ prop := "C15", code := "entry_not_served_whole:first", detail := s!"{jnat out "len1"} of {n} bytes" }]) ++
      (if jnat out "len2" == n && jbool out "same2" then [] else
        [{ prop := "C15", code := "entry_not_served_whole", detail := s!"a complete entry of {n} bytes was read back as {jnat out "len2"} bytes (the function ran {jnat out "calls"} times)" }])
    else if kind == "reuse" then
      if jstr (jget out "users") == "alice\nbob" && jstr (jget out "groups") == "wheel\nstaff" && jstr (jget out "users2") == "alice\nbob" then [] else
        [{ prop := "C14", code := "entry_shared_between_call_sites", detail := s!"users {(jget out "users").compress} groups {(jget out "groups").compress} users again {(jget out "users2").compress}" }]
    else
      let first := (jarr out "first").toList.map jstr
      let second := (jarr out "second").toList.map jstr
      if first == ["alpha"] && second == ["omega"] then [] else
        [{ prop := "C14", code := "stale_for_changed_file", detail := s!"file rewritten {jnat out "offsetMs"} ms later with content of the same length: first {first}, then {second}" }]
  Json.mkObj [("same", Json.bool true), ("diff", Json.str ""), ("fails", Json.arr (fails.map afailJson).toArray),
              ("feat", Json.mkObj [("kind", Json.str kind)])]

end Driver
