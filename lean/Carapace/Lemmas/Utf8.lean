import Carapace.Basic.Utf8
namespace Carapace.Utf8

theorem encodeChar_length_pos (c : Char) : 0 < (encodeChar c).length := by
  unfold encodeChar
  simp only
  split
  · simp
  · split
    · simp
    · split <;> simp

theorem byteLen_cons (c : Char) (s : Str) : byteLen (c :: s) = (encodeChar c).length + byteLen s := by
  simp [byteLen, encode, List.flatMap_cons]

/-- dropping exactly the bytes of a prefix leaves the rest, with no partial character -/
theorem byteDrop_append (p x : Str) : byteDrop (byteLen p) (p ++ x) = (x, 0) := by
  induction p with
  | nil => simp [byteLen, encode, byteDrop]
  | cons d p ih =>
    have hpos := encodeChar_length_pos d
    rw [byteLen_cons, List.cons_append]
    have hne : (encodeChar d).length + byteLen p ≠ 0 := by omega
    cases hk : (encodeChar d).length + byteLen p with
    | zero => exact absurd hk hne
    | succ k =>
      have h1 : (encodeChar d).length ≤ k + 1 := by omega
      have h2 : k + 1 - (encodeChar d).length = byteLen p := by omega
      rw [byteDrop]
      · rw [if_pos h1, h2]; exact ih
      · intro h; omega

theorem dropBytesLossy_append (p x : Str) : dropBytesLossy (byteLen p) (p ++ x) = x := by
  simp [dropBytesLossy, byteDrop_append]

end Carapace.Utf8
