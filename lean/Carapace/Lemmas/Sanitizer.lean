/-
  Lemmas about sanitizers (replacers whose `new` strings are empty) and escape tables.
-/
import Carapace.Basic.Replacer
import Carapace.Basic.Transducer

namespace Carapace
namespace Replacer

/-- every entry deletes one character -/
def isSanitizer (t : Replacer) : Bool := t.all (fun p => p.1.length == 1 && p.2.isEmpty)

theorem lookup_sanitizer {t : Replacer} (h : isSanitizer t = true) {c : Char} {new : Str}
    (hl : lookup t c = some new) : new = [] := by
  induction t with
  | nil => simp [lookup] at hl
  | cons p t ih =>
    obtain ⟨old, nw⟩ := p
    simp only [isSanitizer, List.all_cons, Bool.and_eq_true] at h
    simp only [lookup] at hl
    split at hl
    · have : nw = new := by simpa using hl
      subst this
      simpa using h.1.2
    · exact ih (by simpa [isSanitizer] using h.2) hl

/-- a sanitizer's output contains none of the characters it deletes -/
theorem mem_applyChars_sanitizer {t : Replacer} (h : isSanitizer t = true) {v : Str} {c : Char}
    (hc : c ∈ applyChars t v) : c ∈ v ∧ lookup t c = none := by
  simp only [applyChars, List.mem_flatMap] at hc
  obtain ⟨d, hd, hcd⟩ := hc
  simp only [escChar] at hcd
  cases hl : lookup t d with
  | none =>
    simp [hl] at hcd
    subst hcd
    exact ⟨hd, hl⟩
  | some new =>
    have := lookup_sanitizer h hl
    subst this
    simp [hl] at hcd

end Replacer
end Carapace
