/-
  Framing lemmas: splitting a delimiter-joined list of delimiter-free pieces recovers the pieces.
-/
import Carapace.Basic.Str
import Carapace.Basic.Replacer

namespace Carapace
namespace Str

theorem splitOnChar_ne_nil (d : Char) (s : Str) : splitOnChar d s ≠ [] := by
  induction s with
  | nil => simp [splitOnChar]
  | cons c s ih =>
    simp only [splitOnChar]
    split
    · simp
    · split <;> simp

theorem splitOnChar_no (d : Char) (x : Str) (h : d ∉ x) : splitOnChar d x = [x] := by
  induction x with
  | nil => rfl
  | cons c x ih =>
    have hc : c ≠ d := fun e => h (e ▸ List.mem_cons_self ..)
    have hx : d ∉ x := fun e => h (List.mem_cons_of_mem _ e)
    simp [splitOnChar, hc, ih hx]

theorem splitOnChar_append (d : Char) (x rest : Str) (h : d ∉ x) :
    splitOnChar d (x ++ d :: rest) = x :: splitOnChar d rest := by
  induction x with
  | nil => simp [splitOnChar]
  | cons c x ih =>
    have hc : c ≠ d := fun e => h (e ▸ List.mem_cons_self ..)
    have hx : d ∉ x := fun e => h (List.mem_cons_of_mem _ e)
    simp [splitOnChar, hc, ih hx]

theorem join_singleton (d : Char) (xs : List Str) : join [d] xs = joinChar d xs := by
  induction xs with
  | nil => rfl
  | cons x xs ih =>
    cases xs with
    | nil => rfl
    | cons y r => simp [join, joinChar, ih]

/-- the framing lemma for line formats -/
theorem splitOnChar_joinChar (d : Char) (xs : List Str) (hne : xs ≠ []) (h : ∀ x ∈ xs, d ∉ x) :
    splitOnChar d (joinChar d xs) = xs := by
  induction xs with
  | nil => exact absurd rfl hne
  | cons x xs ih =>
    cases xs with
    | nil => simp [joinChar, splitOnChar_no d x (h x (List.mem_cons_self ..))]
    | cons y r =>
      simp only [joinChar]
      rw [splitOnChar_append d x _ (h x (List.mem_cons_self ..))]
      rw [ih (by simp) (fun z hz => h z (List.mem_cons_of_mem _ hz))]

theorem cutChar_append (d : Char) (a b : Str) (h : d ∉ a) : cutChar d (a ++ d :: b) = (a, some b) := by
  induction a with
  | nil => simp [cutChar]
  | cons c a ih =>
    have hc : c ≠ d := fun e => h (e ▸ List.mem_cons_self ..)
    have ha : d ∉ a := fun e => h (List.mem_cons_of_mem _ e)
    simp [cutChar, hc, ih ha]

theorem cutChar_no (d : Char) (a : Str) (h : d ∉ a) : cutChar d a = (a, none) := by
  induction a with
  | nil => rfl
  | cons c a ih =>
    have hc : c ≠ d := fun e => h (e ▸ List.mem_cons_self ..)
    have ha : d ∉ a := fun e => h (List.mem_cons_of_mem _ e)
    simp [cutChar, hc, ih ha]

/-- `cutChar` finds the delimiter whenever it occurs -/
theorem cutChar_some_of_mem (d : Char) (s : Str) (h : d ∈ s) : ∃ a b, cutChar d s = (a, some b) := by
  induction s with
  | nil => simp at h
  | cons c s ih =>
    by_cases hc : c = d
    · exact ⟨[], s, by simp [cutChar, hc]⟩
    · have hm : d ∈ s := by
        rcases List.mem_cons.mp h with e | e
        · exact absurd e.symm hc
        · exact e
      obtain ⟨a, b, hab⟩ := ih hm
      exact ⟨c :: a, b, by simp [cutChar, hc, hab]⟩

theorem cutChar_cons_ne (d c : Char) (s : Str) (h : c ≠ d) :
    cutChar d (c :: s) = (c :: (cutChar d s).1, (cutChar d s).2) := by
  simp [cutChar, h]

/-- every piece of a split is free of the delimiter -/
theorem not_mem_of_mem_splitOnChar (d : Char) (s : Str) : ∀ x ∈ splitOnChar d s, d ∉ x := by
  induction s with
  | nil => simp [splitOnChar]
  | cons c s ih =>
    intro x hx
    simp only [splitOnChar] at hx
    split at hx
    · rcases List.mem_cons.mp hx with rfl | hx
      · simp
      · exact ih x hx
    · rename_i hc
      split at hx
      · rename_i heq; exact absurd heq (splitOnChar_ne_nil d s)
      · rename_i w ws heq
        rcases List.mem_cons.mp hx with rfl | hx
        · intro hm
          rcases List.mem_cons.mp hm with e | hm
          · exact hc e.symm
          · exact ih w (heq ▸ List.mem_cons_self ..) hm
        · exact ih x (heq ▸ List.mem_cons_of_mem _ hx)

theorem joinChar_eq_nil (d : Char) (xs : List Str) (h : joinChar d xs = []) : xs = [] ∨ xs = [[]] := by
  cases xs with
  | nil => exact Or.inl rfl
  | cons x xs =>
    cases xs with
    | nil => simp [joinChar] at h; exact Or.inr (by rw [h])
    | cons y r => simp [joinChar] at h

end Str

namespace Replacer

/-- characters of a replaced string come from the input or from the table's right-hand sides -/
theorem mem_applyChars {t : Replacer} {s : Str} {c : Char} (h : c ∈ applyChars t s) :
    c ∈ s ∨ ∃ p ∈ t, c ∈ p.2 := by
  simp only [applyChars, List.mem_flatMap] at h
  obtain ⟨d, hd, hcd⟩ := h
  simp only [escChar] at hcd
  cases hl : lookup t d with
  | none => simp [hl] at hcd; exact Or.inl (hcd ▸ hd)
  | some new =>
    simp [hl] at hcd
    right
    clear hd
    induction t with
    | nil => simp [lookup] at hl
    | cons p t ih =>
      obtain ⟨old, nw⟩ := p
      simp only [lookup] at hl
      split at hl
      · have : nw = new := by simpa using hl
        exact ⟨(old, nw), List.mem_cons_self .., this ▸ hcd⟩
      · obtain ⟨q, hq, hc⟩ := ih hl
        exact ⟨q, List.mem_cons_of_mem _ hq, hc⟩

end Replacer
end Carapace
