/- membership and length facts about the models' `insertSorted` / `sortBy` -/
import Carapace.Basic.Str

namespace Carapace

theorem mem_insertSorted {α} (lt : α → α → Bool) (x y : α) (xs : List α) :
    y ∈ insertSorted lt x xs ↔ y = x ∨ y ∈ xs := by
  induction xs with
  | nil => simp [insertSorted]
  | cons z zs ih =>
    simp only [insertSorted]
    split
    · simp
    · simp only [List.mem_cons, ih]
      constructor
      · rintro (h | h | h)
        · exact Or.inr (Or.inl h)
        · exact Or.inl h
        · exact Or.inr (Or.inr h)
      · rintro (h | h | h)
        · exact Or.inr (Or.inl h)
        · exact Or.inl h
        · exact Or.inr (Or.inr h)

theorem mem_foldl_insertSorted {α} (lt : α → α → Bool) (xs acc : List α) (y : α) :
    y ∈ xs.foldl (fun acc x => insertSorted lt x acc) acc ↔ y ∈ acc ∨ y ∈ xs := by
  induction xs generalizing acc with
  | nil => simp
  | cons x xs ih =>
    simp only [List.foldl_cons, ih, mem_insertSorted, List.mem_cons]
    constructor
    · rintro ((h | h) | h)
      · exact Or.inr (Or.inl h)
      · exact Or.inl h
      · exact Or.inr (Or.inr h)
    · rintro (h | h | h)
      · exact Or.inl (Or.inr h)
      · exact Or.inl (Or.inl h)
      · exact Or.inr h

theorem mem_sortBy {α} (lt : α → α → Bool) (xs : List α) (y : α) : y ∈ sortBy lt xs ↔ y ∈ xs := by
  simp [sortBy, mem_foldl_insertSorted]

theorem length_insertSorted {α} (lt : α → α → Bool) (x : α) (xs : List α) :
    (insertSorted lt x xs).length = xs.length + 1 := by
  induction xs with
  | nil => simp [insertSorted]
  | cons z zs ih =>
    simp only [insertSorted]
    split <;> simp [ih]

theorem length_foldl_insertSorted {α} (lt : α → α → Bool) (xs acc : List α) :
    (xs.foldl (fun acc x => insertSorted lt x acc) acc).length = acc.length + xs.length := by
  induction xs generalizing acc with
  | nil => simp
  | cons x xs ih => simp [ih, length_insertSorted]; omega

theorem length_sortBy {α} (lt : α → α → Bool) (xs : List α) : (sortBy lt xs).length = xs.length := by
  simp [sortBy, length_foldl_insertSorted]

end Carapace

namespace Carapace

theorem insertSorted_perm {α} (lt : α → α → Bool) (x : α) (xs : List α) :
    (insertSorted lt x xs).Perm (x :: xs) := by
  induction xs with
  | nil => exact List.Perm.refl _
  | cons y ys ih =>
    simp only [insertSorted]
    split
    · exact List.Perm.refl _
    · exact (List.Perm.cons y ih).trans (List.Perm.swap x y ys)

theorem foldl_insertSorted_perm {α} (lt : α → α → Bool) (xs acc : List α) :
    (xs.foldl (fun acc x => insertSorted lt x acc) acc).Perm (xs ++ acc) := by
  induction xs generalizing acc with
  | nil => exact List.Perm.refl _
  | cons x xs ih =>
    simp only [List.foldl_cons, List.cons_append]
    refine (ih _).trans ?_
    refine (List.perm_append_left_iff xs).mpr (insertSorted_perm lt x acc) |>.trans ?_
    exact List.perm_middle

/-- sorting rearranges and neither drops nor duplicates -/
theorem sortBy_perm {α} (lt : α → α → Bool) (xs : List α) : (sortBy lt xs).Perm xs := by
  have := foldl_insertSorted_perm lt xs []
  simpa [sortBy] using this

end Carapace
