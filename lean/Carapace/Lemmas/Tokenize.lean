/- lemmas about `splitAfter`, `tokenize`, `uniqueByValue` (Model/Actions.lean) -/
import Carapace.Model.Actions

namespace Carapace.Model
open Carapace

theorem hasPrefix_iff' (s p : Str) : Str.hasPrefix s p = true ↔ ∃ t, s = p ++ t := by
  induction p generalizing s with
  | nil => simp [Str.hasPrefix]
  | cons d p ih =>
    cases s with
    | nil => simp [Str.hasPrefix]
    | cons c s =>
      simp only [Str.hasPrefix, Bool.and_eq_true, beq_iff_eq, ih, List.cons_append, List.cons.injEq]
      constructor
      · rintro ⟨rfl, t, rfl⟩; exact ⟨t, rfl, rfl⟩
      · rintro ⟨t, rfl, rfl⟩; exact ⟨rfl, t, rfl⟩

theorem splitAfterNE_flatten (sep : Str) : ∀ (n : Nat) (s cur : Str),
    (splitAfterNE sep n s cur).flatten = cur.reverse ++ s := by
  intro n
  induction n with
  | zero => intro s cur; simp [splitAfterNE]
  | succ n ih =>
    intro s cur
    cases s with
    | nil => simp [splitAfterNE]
    | cons c s =>
      simp only [splitAfterNE]
      split
      · rename_i h
        obtain ⟨t, ht⟩ := (hasPrefix_iff' _ _).mp h
        simp only [List.flatten_cons, ih, List.reverse_nil, List.nil_append]
        rw [ht]
        simp [List.append_assoc]
      · rw [ih]; simp

theorem splitAfterNE_ne_nil (sep : Str) : ∀ (n : Nat) (s cur : Str), splitAfterNE sep n s cur ≠ [] := by
  intro n
  induction n with
  | zero => intro s cur; simp [splitAfterNE]
  | succ n ih =>
    intro s cur
    cases s with
    | nil => simp [splitAfterNE]
    | cons c s =>
      simp only [splitAfterNE]
      split
      · simp
      · exact ih _ _

theorem splitAfter_flatten (s sep : Str) : (splitAfter s sep).flatten = s := by
  unfold splitAfter
  split
  · induction s with
    | nil => rfl
    | cons c s ih => simp [ih]
  · simp [splitAfterNE_flatten]

theorem splitAfter_ne_nil (s sep : Str) (h : sep ≠ []) : splitAfter s sep ≠ [] := by
  unfold splitAfter
  have : sep.isEmpty = false := by cases sep with | nil => exact absurd rfl h | cons _ _ => rfl
  simp only [this, Bool.false_eq_true, if_false]
  exact splitAfterNE_ne_nil _ _ _ _

theorem trimSuffix_append (w d : Str) (h : Str.hasSuffix w d = true) : Str.trimSuffix w d ++ d = w := by
  unfold Str.trimSuffix
  rw [if_pos h]
  unfold Str.hasSuffix at h
  obtain ⟨t, ht⟩ := (hasPrefix_iff' _ _).mp h
  have hw : w = t.reverse ++ d := by
    have := congrArg List.reverse ht
    simpa using this
  rw [hw]
  simp

theorem trimSuffix_of_not (w d : Str) (h : Str.hasSuffix w d = false) : Str.trimSuffix w d = w := by
  unfold Str.trimSuffix
  simp [h]

theorem appendLast_flatten (xs : List Str) (d : Str) (h : xs ≠ []) :
    (appendLast xs d).flatten = xs.flatten ++ d := by
  unfold appendLast
  cases hr : xs.reverse with
  | nil => simp at hr; exact absurd hr h
  | cons l r =>
    have hx : xs = r.reverse ++ [l] := by
      have := congrArg List.reverse hr
      simpa using this
    simp [hx, List.append_assoc]

theorem appendLast_ne_nil (xs : List Str) (d : Str) (h : xs ≠ []) : appendLast xs d ≠ [] := by
  unfold appendLast
  cases hr : xs.reverse with
  | nil => simp at hr; exact absurd hr h
  | cons l r => simp

/-- **tokenize loses nothing**: the tokens concatenate to the text (non-empty dividers) -/
theorem tokenize_flatten : ∀ (ds : List Str), (∀ d ∈ ds, d ≠ []) → ∀ s : Str,
    (tokenize s ds).flatten = s ∧ tokenize s ds ≠ [] := by
  intro ds
  induction ds with
  | nil => intro _ s; simp [tokenize]
  | cons d ds ih =>
    intro hds s
    have hd : d ≠ [] := hds d (List.mem_cons_self ..)
    have ih' := ih (fun x hx => hds x (List.mem_cons_of_mem _ hx))
    -- each piece tokenizes to something non-empty that concatenates to the piece
    have hpiece : ∀ w : Str,
        let tokens := tokenize (Str.trimSuffix w d) ds
        ((if (!tokens.isEmpty && Str.hasSuffix w d) = true then appendLast tokens d else tokens).flatten = w) ∧
        (if (!tokens.isEmpty && Str.hasSuffix w d) = true then appendLast tokens d else tokens) ≠ [] := by
      intro w
      have ⟨hf, hne⟩ := ih' (Str.trimSuffix w d)
      have hnE : (tokenize (Str.trimSuffix w d) ds).isEmpty = false := by
        cases ht : tokenize (Str.trimSuffix w d) ds with
        | nil => exact absurd ht hne
        | cons _ _ => rfl
      by_cases hs : Str.hasSuffix w d = true
      · simp only [hnE, hs, Bool.not_false, Bool.and_self, if_true]
        exact ⟨by rw [appendLast_flatten _ _ hne, hf, trimSuffix_append w d hs], appendLast_ne_nil _ _ hne⟩
      · have hs' : Str.hasSuffix w d = false := by simpa using hs
        simp only [hs', Bool.and_false, Bool.false_eq_true, if_false]
        exact ⟨by rw [hf, trimSuffix_of_not w d hs'], hne⟩
    constructor
    · simp only [tokenize]
      have : ∀ ws : List Str, (ws.flatMap (fun word =>
          if (!(tokenize (Str.trimSuffix word d) ds).isEmpty && Str.hasSuffix word d) = true
          then appendLast (tokenize (Str.trimSuffix word d) ds) d else tokenize (Str.trimSuffix word d) ds)).flatten = ws.flatten := by
        intro ws
        induction ws with
        | nil => rfl
        | cons w ws ihw =>
          simp only [List.flatMap_cons, List.flatten_append, ihw, List.flatten_cons]
          rw [(hpiece w).1]
      rw [this, splitAfter_flatten]
    · simp only [tokenize]
      have hsa := splitAfter_ne_nil s d hd
      cases hw : splitAfter s d with
      | nil => exact absurd hw hsa
      | cons w ws =>
        simp only [List.flatMap_cons]
        intro h
        have := (hpiece w).2
        simp only [List.append_eq_nil_iff] at h
        exact this h.1

/-! ### uniqueByValue -/

theorem uniqueByValue_go_sub (xs : List RawValue) : ∀ y ∈ uniqueByValue.go xs, y ∈ xs := by
  induction xs with
  | nil => simp [uniqueByValue.go]
  | cons v r ih =>
    intro y hy
    simp only [uniqueByValue.go] at hy
    split at hy
    · exact List.mem_cons_of_mem _ (ih y hy)
    · rcases List.mem_cons.mp hy with rfl | hy
      · exact List.mem_cons_self ..
      · exact List.mem_cons_of_mem _ (ih y hy)

theorem uniqueByValue_sub (xs : List RawValue) : ∀ y ∈ uniqueByValue xs, y ∈ xs :=
  uniqueByValue_go_sub xs

theorem uniqueByValue_go_cover (xs : List RawValue) : ∀ x ∈ xs, ∃ y ∈ uniqueByValue.go xs, y.value = x.value := by
  induction xs with
  | nil => simp
  | cons v r ih =>
    intro x hx
    simp only [uniqueByValue.go]
    rcases List.mem_cons.mp hx with rfl | hx
    · split
      · rename_i h
        obtain ⟨z, hz, hzv⟩ := List.any_eq_true.mp h
        obtain ⟨y, hy, hyv⟩ := ih z hz
        exact ⟨y, hy, by rw [hyv]; simpa using hzv⟩
      · exact ⟨x, List.mem_cons_self .., rfl⟩
    · obtain ⟨y, hy, hyv⟩ := ih x hx
      split
      · exact ⟨y, hy, hyv⟩
      · exact ⟨y, List.mem_cons_of_mem _ hy, hyv⟩

theorem uniqueByValue_cover (xs : List RawValue) : ∀ x ∈ xs, ∃ y ∈ uniqueByValue xs, y.value = x.value :=
  uniqueByValue_go_cover xs

theorem uniqueByValue_go_nodup (xs : List RawValue) : ((uniqueByValue.go xs).map (·.value)).Nodup := by
  induction xs with
  | nil => simp [uniqueByValue.go]
  | cons v r ih =>
    simp only [uniqueByValue.go]
    split
    · exact ih
    · rename_i h
      simp only [List.map_cons, List.nodup_cons]
      refine ⟨?_, ih⟩
      intro hm
      obtain ⟨y, hy, hyv⟩ := List.mem_map.mp hm
      have hyr := uniqueByValue_go_sub r y hy
      apply h
      exact List.any_eq_true.mpr ⟨y, hyr, by simpa using hyv⟩

theorem uniqueByValue_nodup (xs : List RawValue) : ((uniqueByValue xs).map (·.value)).Nodup :=
  uniqueByValue_go_nodup xs

end Carapace.Model
