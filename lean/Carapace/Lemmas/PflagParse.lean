/- facts about the parser specification Spec/Pflag.lean -/
import Carapace.Spec.Pflag

namespace Carapace.Spec.Pflag
open Carapace

/-- a word the parser takes for a flag or for the `--` terminator -/
def flagLike : Str → Bool
  | '-' :: _ :: _ => true
  | _ => false

/-- a long flag word that parses without a following word does not look at the following word -/
theorem parseLong_none {fs : PFlags} {body : Str} {a : Str × Str} {took : Bool}
    (h : parseLong fs body none = .ok (a, took)) :
    took = false ∧ ∀ nx, parseLong fs body nx = .ok (a, false) := by
  unfold parseLong at h ⊢
  cases body with
  | nil => simp at h
  | cons c r =>
    simp only at h ⊢
    split at h
    · simp at h
    · rename_i hc
      simp only [hc, if_false]
      cases hcut : Str.cutChar '=' (c :: r) with
      | mk n v? =>
        simp only [hcut] at h ⊢
        cases hf : findLong fs n with
        | none => simp [hf] at h; split at h <;> simp at h
        | some f =>
          simp only [hf] at h ⊢
          cases v? with
          | some v =>
            simp only at h ⊢
            split at h
            · rename_i hv
              simp only [Except.ok.injEq, Prod.mk.injEq] at h
              refine ⟨h.2.symm, fun nx => ?_⟩
              simp [hv, h.1]
            · simp at h
          | none =>
            simp only at h ⊢
            cases hd : f.noOptDefVal with
            | some d =>
              simp only [hd, Except.ok.injEq, Prod.mk.injEq] at h
              refine ⟨h.2.symm, fun nx => ?_⟩
              simp [hd, h.1]
            | none => simp [hd] at h

/-- if a long flag word takes the following word, there is one -/
theorem parseLong_took {fs : PFlags} {body : Str} {nx : Option Str} {a : Str × Str}
    (h : parseLong fs body nx = .ok (a, true)) : nx.isSome = true := by
  cases nx with
  | some _ => rfl
  | none => have := (parseLong_none h).1; simp at this

theorem parseShort_none {fs : PFlags} : ∀ {cs : Str} {as : List (Str × Str)} {took : Bool},
    parseShort fs cs none = .ok (as, took) →
    took = false ∧ ∀ nx, parseShort fs cs nx = .ok (as, false) := by
  intro cs
  induction cs with
  | nil =>
    intro as took h
    simp only [parseShort, Except.ok.injEq, Prod.mk.injEq] at h
    exact ⟨h.2.symm, fun nx => by simp [parseShort, h.1]⟩
  | cons c rest ih =>
    intro as took h
    rw [parseShort] at h
    cases hf : findShort fs c with
    | none =>
      simp only [hf] at h
      split at h <;> simp at h
    | some f =>
      simp only [hf] at h
      cases he : eqValue rest with
      | some v =>
        simp only [he] at h
        split at h
        · rename_i hv
          simp only [Except.ok.injEq, Prod.mk.injEq] at h
          refine ⟨h.2.symm, fun nx => ?_⟩
          rw [parseShort]
          simp [hf, he, hv, h.1]
        · simp at h
      | none =>
        simp only [he] at h
        cases hd : f.noOptDefVal with
        | some dv =>
          simp only [hd] at h
          cases hr : parseShort fs rest none with
          | error e => simp [hr] at h
          | ok pr =>
            obtain ⟨more, tk⟩ := pr
            simp only [hr, Except.ok.injEq, Prod.mk.injEq] at h
            obtain ⟨htk, hall⟩ := ih hr
            refine ⟨by rw [← h.2, htk], fun nx => ?_⟩
            rw [parseShort]
            simp only [hf, he, hd, hall nx]
            rw [← h.1]
        | none =>
          simp only [hd] at h
          cases rest with
          | nil => simp at h
          | cons d r2 =>
            simp only at h
            split at h
            · rename_i hv
              simp only [Except.ok.injEq, Prod.mk.injEq] at h
              refine ⟨h.2.symm, fun nx => ?_⟩
              rw [parseShort]
              simp [hf, he, hd, hv, h.1]
            · simp at h

theorem parseShort_took {fs : PFlags} {cs : Str} {nx : Option Str} {as : List (Str × Str)}
    (h : parseShort fs cs nx = .ok (as, true)) : nx.isSome = true := by
  cases nx with
  | some _ => rfl
  | none => have := (parseShort_none h).1; simp at this

end Carapace.Spec.Pflag

namespace Carapace.Spec.Pflag
open Carapace

theorem wordKind_pos {w : Str} (hw : flagLike w = false) : wordKind w = .pos := by
  cases w with
  | nil => rfl
  | cons c r =>
    cases r with
    | nil => simp [wordKind]
    | cons d r2 =>
      have hc : c ≠ '-' := by
        intro e; subst e; simp [flagLike] at hw
      rw [wordKind]
      · intro e; exact hc (by cases e; rfl)
      · intro b e; exact hc (by cases e; rfl)
      · intro c' m e; exact hc (by cases e; rfl)

/-- a word that does not look like a flag is appended to the positional arguments -/
theorem parseArgs_single {fs : PFlags} {inter : Bool} {w : Str} (hw : flagLike w = false) (p : Parsed) :
    parseArgs fs inter [w] false p = .ok { p with args := p.args ++ [w] } := by
  cases inter <;> simp [parseArgs, wordKind_pos hw]

/-- **appending a word at the end of an accepted line**: if the parser accepts `ws`, it accepts
    `ws ++ [w]` with `w` as one more positional argument and everything else unchanged - provided
    `w` does not look like a flag, or a `--` has been seen (then any word is a positional) -/
theorem parseArgs_snoc {fs : PFlags} {inter : Bool} (w : Str) :
    ∀ (ws : List Str) (skip : Bool) (p q : Parsed),
      p.lenAtDash = none → (skip = true → ws ≠ []) →
      parseArgs fs inter ws skip p = .ok q →
      (flagLike w = false ∨ q.lenAtDash.isSome = true) →
      parseArgs fs inter (ws ++ [w]) skip p = .ok { q with args := q.args ++ [w] } := by
  intro ws
  induction ws with
  | nil =>
    intro skip p q hp hskip h hw
    cases skip with
    | true => exact absurd rfl (hskip rfl)
    | false =>
      simp only [parseArgs, Except.ok.injEq] at h
      subst h
      rcases hw with hw | hw
      · simpa using parseArgs_single hw p
      · simp [hp] at hw
  | cons s rest ih =>
    intro skip p q hp hskip h hw
    cases skip with
    | true =>
      simp only [List.cons_append, parseArgs] at h ⊢
      exact ih false p q hp (by simp) h hw
    | false =>
      simp only [List.cons_append]
      cases hk : wordKind s with
      | dash =>
        simp only [parseArgs, hk, Except.ok.injEq] at h ⊢
        subst h
        simp [List.append_assoc]
      | long body =>
        simp only [parseArgs, hk] at h ⊢
        cases rest with
        | nil =>
          simp only [List.head?_nil, List.nil_append, List.head?_cons] at h ⊢
          cases hl : parseLong fs body none with
          | error e => simp [hl] at h
          | ok r =>
            obtain ⟨a, took⟩ := r
            obtain ⟨htk, hall⟩ := parseLong_none hl
            subst htk
            simp only [hl] at h
            simp only [hall (some w)]
            have := ih false { p with sets := p.sets ++ [a] } q hp (by simp) h hw
            simpa using this
        | cons r0 r1 =>
          simp only [List.head?_cons, List.cons_append] at h ⊢
          cases hl : parseLong fs body (some r0) with
          | error e => simp [hl] at h
          | ok r =>
            obtain ⟨a, took⟩ := r
            simp only [hl] at h ⊢
            exact ih took { p with sets := p.sets ++ [a] } q hp (by simp) h hw
      | short cs =>
        simp only [parseArgs, hk] at h ⊢
        cases rest with
        | nil =>
          simp only [List.head?_nil, List.nil_append, List.head?_cons] at h ⊢
          cases hl : parseShort fs cs none with
          | error e => simp [hl] at h
          | ok r =>
            obtain ⟨as, took⟩ := r
            obtain ⟨htk, hall⟩ := parseShort_none hl
            subst htk
            simp only [hl] at h
            simp only [hall (some w)]
            have := ih false { p with sets := p.sets ++ as } q hp (by simp) h hw
            simpa using this
        | cons r0 r1 =>
          simp only [List.head?_cons, List.cons_append] at h ⊢
          cases hl : parseShort fs cs (some r0) with
          | error e => simp [hl] at h
          | ok r =>
            obtain ⟨as, took⟩ := r
            simp only [hl] at h ⊢
            exact ih took { p with sets := p.sets ++ as } q hp (by simp) h hw
      | pos =>
        simp only [parseArgs, hk] at h ⊢
        cases inter with
        | true =>
          simp only [if_true] at h ⊢
          exact ih false { p with args := p.args ++ [s] } q hp (by simp) h hw
        | false =>
          simp only [Bool.false_eq_true, if_false, Except.ok.injEq] at h ⊢
          subst h
          simp [List.append_assoc]

/-- the position of `--` never lies beyond the positional arguments -/
theorem parseArgs_lenAtDash_le {fs : PFlags} {inter : Bool} :
    ∀ (ws : List Str) (skip : Bool) (p q : Parsed),
      p.lenAtDash = none → parseArgs fs inter ws skip p = .ok q →
      ∀ n, q.lenAtDash = some n → n ≤ q.args.length := by
  intro ws
  induction ws with
  | nil =>
    intro skip p q hp h n hn
    cases skip <;> (simp only [parseArgs, Except.ok.injEq] at h; subst h; simp [hp] at hn)
  | cons s rest ih =>
    intro skip p q hp h n hn
    cases skip with
    | true => simp only [parseArgs] at h; exact ih false p q hp h n hn
    | false =>
      cases hk : wordKind s with
      | dash =>
        simp only [parseArgs, hk, Except.ok.injEq] at h; subst h
        simp only [Option.some.injEq] at hn; subst hn; simp
      | long body =>
        simp only [parseArgs, hk] at h
        cases hl : parseLong fs body rest.head? with
        | error e => simp [hl] at h
        | ok r => obtain ⟨a, took⟩ := r; simp only [hl] at h; exact ih took { p with sets := p.sets ++ [a] } q hp h n hn
      | short cs =>
        simp only [parseArgs, hk] at h
        cases hl : parseShort fs cs rest.head? with
        | error e => simp [hl] at h
        | ok r => obtain ⟨as, took⟩ := r; simp only [hl] at h; exact ih took { p with sets := p.sets ++ as } q hp h n hn
      | pos =>
        simp only [parseArgs, hk] at h
        cases inter with
        | true => simp only [if_true] at h; exact ih false { p with args := p.args ++ [s] } q hp h n hn
        | false =>
          simp only [Bool.false_eq_true, if_false, Except.ok.injEq] at h; subst h; simp [hp] at hn

end Carapace.Spec.Pflag
