/-
  SPEC (trusted): what the generated snippet of each line-framed format does with
  carapace's output, written from the consumer side (`internal/shell/*/snippet.go`).
  JSON formats are decoded by a JSON parser in the driver and mapped field by field.
-/
import Carapace.Basic.Str
import Carapace.Model.Shells

namespace Carapace.Spec
open Carapace Carapace.Model

structure Decoded where
  recs : List Rec
  messages : List Str := []
  usage : Str := []
  globalNospace : Option Bool := none
  deriving Repr, Inhabited

def lines (s : Str) : List Str := if s.isEmpty then [] else Str.splitOnChar '\n' s

/-- bash: `IFS=$'\001' read -r -d '' nospace data`, `mapfile -t`, drop the trailing element -/
def decodeBash (raw : Str) : Option Decoded :=
  match Str.cutChar (Char.ofNat 1) raw with
  | (flag, some data) =>
    if flag == "true".toList || flag == "false".toList then
      some { recs := (lines data).map (fun l => { insert := l, display := l }),
             globalNospace := some (flag == "true".toList) }
    else none
  | _ => none

/-- fish: one candidate per line, description after the first tab -/
def decodeFish (raw : Str) : Option Decoded :=
  some { recs := (lines raw).map (fun l =>
    match Str.cutChar '\t' l with
    | (v, some d) => { insert := v, display := v, description := d }
    | (v, none) => { insert := v, display := v }) }

/-- text after the last occurrence of the character (`${cand##*c}`) -/
def afterLast (d : Char) (s : Str) : Str := ((Str.splitOnChar d s).getLast?).getD s

/-- bash-ble: `${cand%%$'\t'*}` (before the first tab) and `${cand##*$'\t'}` (after the last),
    the latter split on \x1c into display / _ / suffix / description; empty lines skipped -/
def decodeBashBle (raw : Str) : Option Decoded :=
  let ls := (lines raw).filter (fun l => !l.isEmpty)
  let recs := ls.map (fun l =>
    let ins := (Str.cutChar '\t' l).1
    let fields := Str.splitOnChar (Char.ofNat 0x1C) (afterLast '\t' l)
    match fields with
    | [d, _, sfx, desc] => some ({ insert := ins, display := d, description := desc, nospace := some sfx.isEmpty } : Rec)
    | _ => none)
  if recs.all Option.isSome then some { recs := recs.filterMap id } else none

/-- non-empty runs of characters not in `seps` (Lua `gmatch(s, '[^seps]+')`) -/
def runs (seps : Str) (s : Str) : List Str :=
  let rec go : Str → Str → List Str
    | [], cur => if cur.isEmpty then [] else [cur.reverse]
    | c :: r, cur =>
      if seps.elem c then (if cur.isEmpty then go r [] else cur.reverse :: go r [])
      else go r (c :: cur)
  go s []

/-- cmd-clink: lines `[^\r\n]+`, fields `[^\t]+` mapped by position to
    match / display / description / appendchar (absent = clink's default: a blank is appended) -/
def decodeCmdClink (raw : Str) : Option Decoded :=
  some { recs := (runs ['\r', '\n'] raw).map (fun l =>
    let f := runs ['\t'] l
    { insert := f.getD 0 [], display := f.getD 1 (f.getD 0 []), description := f.getD 2 [],
      nospace := some (match f[3]? with | some a => a.isEmpty | none => false) }) }

/-- oil / tcsh: one candidate per line (oil: a trailing \x01 marks no-space) -/
def decodeLines (raw : Str) : Option Decoded :=
  some { recs := (lines raw).map (fun l => { insert := l, display := l }) }

/-- split at the first `:` not preceded by a backslash (what zsh's `_describe` does), then
    `\:` → `:` and `\\` → `\` -/
def zshSplitDisplay : Str → Str → Str × Option Str
  | [], acc => (acc.reverse, none)
  | '\\' :: c :: r, acc => zshSplitDisplay r (c :: acc)    -- an escaped character is taken literally
  | ':' :: r, acc => (acc.reverse, some r)
  | c :: r, acc => zshSplitDisplay r (c :: acc)

/-- un-escape of the values array: `\\` → `\`, `\:` → `:` (other backslashes stay) -/
def zshUndescribe : Str → Str
  | [] => []
  | '\\' :: '\\' :: r => '\\' :: zshUndescribe r
  | '\\' :: ':' :: r => ':' :: zshUndescribe r
  | c :: r => c :: zshUndescribe r

/-- strip the SGR framing `ESC [ params m` ... `ESC [ params m` that zsh's message field puts
    around each message (only the outermost pair; the message text itself is kept) -/
def stripSgr (s : Str) : Str :=
  let isParam (c : Char) : Bool := c.isDigit || c == ';'
  let s1 :=
    match s with
    | e :: '[' :: r => if e.toNat = 0x1B then (match r.dropWhile isParam with | 'm' :: r' => r' | _ => s) else s
    | _ => s
  -- trailing: reversed text starts with `m`, params, `[`, ESC
  match s1.reverse with
  | 'm' :: r =>
    (match r.dropWhile isParam with
     | '[' :: e :: r' => if e.toNat = 0x1B then r'.reverse else s1
     | _ => s1)
  | _ => s1

/-- zsh: `IFS=$'\001' read` into zstyle / message / data; data: blocks on \x02, block on
    \x03 into tag / displays / values, those on line feeds -/
def decodeZsh (raw : Str) : Option Decoded :=
  match Str.splitOnChar (Char.ofNat 1) raw with
  | [_zstyle, message, data, []] =>
    let blocks := (Str.splitOnChar (Char.ofNat 2) data).filter (fun b => !b.isEmpty)
    let recs := blocks.map (fun b =>
      match Str.splitOnChar (Char.ofNat 3) b with
      | [tag, displays, values] =>
        let ds := Str.splitOnChar '\n' displays
        let vs := Str.splitOnChar '\n' values
        if ds.length == vs.length then
          some ((ds.zip vs).map (fun (d, v) =>
            let (disp, desc) := zshSplitDisplay d []
            ({ insert := zshUndescribe v, display := disp, description := desc.getD [], tag := tag } : Rec)))
        else none
      | _ => none)
    if recs.all Option.isSome then
      some { recs := (recs.filterMap id).flatten,
             messages := if message.isEmpty then [] else (Str.splitOnChar '\n' message).map stripSgr }
    else none
  | _ => none

end Carapace.Spec
