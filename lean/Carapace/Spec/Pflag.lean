/-
  SPEC (trusted, tied to the real package by op `pflagparse`): how the program's own flag parser
  (carapace-pflag v1.0.0 `FlagSet.Parse` -> parseArgs / parseLongArg / parseShortArg /
  parseSingleShortArg, POSIX mode, nargs 0/1, default `=` delimiter, unknown flags not whitelisted)
  reads a list of words: which words become positional arguments, where the `--` was, and which
  flag receives which value.
-/
import Carapace.Model.PflagFork

namespace Carapace.Spec.Pflag
open Carapace Carapace.Model

inductive Kind where
  | bool | count | string | stringSlice | optString | stringArray | ipNetSlice | boolSlice
  deriving DecidableEq, Repr, Inhabited

structure PFlag where
  name : Str
  short : Option Char := none
  kind : Kind := .string
  deriving DecidableEq, Repr, Inhabited

/-- NoOptDefVal: bool "true", count "+1", optional argument: its own default -/
def PFlag.noOptDefVal (f : PFlag) : Option Str :=
  match f.kind with
  | .bool => some "true".toList
  | .count => some "+1".toList
  | .optString => some "dflt".toList
  | _ => none

def PFlag.toDef (f : PFlag) : FlagDef :=
  { name := f.name, short := f.short, noOptDef := f.noOptDefVal.isSome,
    takesValue := f.kind != .bool && f.kind != .count }

abbrev PFlags := List PFlag

def findLong (fs : PFlags) (n : Str) : Option PFlag := fs.find? (fun f => f.name == n)
def findShort (fs : PFlags) (c : Char) : Option PFlag := fs.find? (fun f => f.short == some c)

/-- `strconv.ParseBool` -/
def parseBoolOk (v : Str) : Bool :=
  ["1", "t", "T", "TRUE", "true", "True", "0", "f", "F", "FALSE", "false", "False"].any (fun s => s.toList == v)

/-- decimal integers only (what the generators use); `+1` is the count flag's increment -/
def intOk (v : Str) : Bool :=
  let ds := match v with | '-' :: r => r | '+' :: r => r | r => r
  !ds.isEmpty && ds.all Char.isDigit

/-- does the flag's `Set` accept the value? (string kinds accept anything free of CSV quoting) -/
def valueOk (f : PFlag) (v : Str) : Bool :=
  match f.kind with
  | .bool => parseBoolOk v
  | .count => v == "+1".toList || intOk v
  | .stringSlice => !v.elem '"'
  -- the two networks the generators use; any other text they produce is not a CIDR
  | .ipNetSlice => v.isEmpty || v == "10.0.0.0/8".toList || v == "10.1.0.0/16".toList
  -- a CSV record of booleans (the empty text is no record at all: accepted, adds nothing)
  | .boolSlice => v.isEmpty || (!v.elem '"' && (Str.splitOnChar ',' v).all parseBoolOk)
  | _ => true

structure Parsed where
  args : List Str := []
  lenAtDash : Option Nat := none
  /-- assignments in the order they were made: (flag name, value) -/
  sets : List (Str × Str) := []
  deriving DecidableEq, Repr, Inhabited

inductive Err where
  | badSyntax | unknownLong | unknownShort | needsArg | badValue | help
  /-- the parser itself panics (Spec/PflagG.lean: `-f=x` for a letter whose delimiter is not `=`) -/
  | parserPanic
  deriving DecidableEq, Repr, Inhabited

/-- `parseLongArg` on the text after `--`; returns the assignment and whether the next word was taken -/
def parseLong (fs : PFlags) (body : Str) (next : Option Str) : Except Err ((Str × Str) × Bool) :=
  match body with
  | [] => .error .badSyntax
  | c :: _ =>
    if c = '-' ∨ c = '=' then .error .badSyntax else
    let (n, v?) := Str.cutChar '=' body
    match findLong fs n with
    | none => if body == "help".toList then .error .help else .error .unknownLong
    | some f =>
      match v? with
      | some v => if valueOk f v then .ok ((f.name, v), false) else .error .badValue
      | none =>
        match f.noOptDefVal with
        | some d => .ok ((f.name, d), false)
        | none =>
          match next with
          | some a => if valueOk f a then .ok ((f.name, a), true) else .error .badValue
          | none => .error .needsArg

/-- the value attached with `=` to a shorthand letter (`-f=arg`, at least one character) -/
def eqValue : Str → Option Str
  | '=' :: d :: r2 => some (d :: r2)
  | _ => none

/-- `parseShortArg`: the letters after `-`; only the last letter can take the next word -/
def parseShort (fs : PFlags) : Str → Option Str → Except Err (List (Str × Str) × Bool)
  | [], _ => .ok ([], false)
  | c :: rest, next =>
    match findShort fs c with
    | none => if c = 'h' then .error .help else .error .unknownShort
    | some f =>
      match eqValue rest with
      | some v =>                                 -- -f=arg
        if valueOk f v then .ok ([(f.name, v)], false) else .error .badValue
      | none =>
        match f.noOptDefVal with
        | some dv =>                              -- -f (no / optional argument): go on with the next letter
          match parseShort fs rest next with
          | .ok (more, took) => .ok ((f.name, dv) :: more, took)
          | .error e => .error e
        | none =>
          match rest with
          | d :: r2 =>                            -- -farg
            if valueOk f (d :: r2) then .ok ([(f.name, d :: r2)], false) else .error .badValue
          | [] =>
            match next with
            | some a => if valueOk f a then .ok ([(f.name, a)], true) else .error .badValue
            | none => .error .needsArg

/-- how `parseArgs` takes a word: the terminator, a long flag (text after `--`), a group of
    shorthand letters (text after `-`), or a positional argument (also `-` and the empty word) -/
inductive WordKind where
  | dash | long (body : Str) | short (cs : Str) | pos
  deriving DecidableEq, Repr

def wordKind : Str → WordKind
  | ['-', '-'] => .dash
  | '-' :: '-' :: body => .long body
  | '-' :: c :: more => .short (c :: more)
  | _ => .pos

/-- `parseArgs`; `skip` = the word at the head was taken as the value of the flag before it -/
def parseArgs (fs : PFlags) (interspersed : Bool) : List Str → Bool → Parsed → Except Err Parsed
  | [], _, p => .ok p
  | _ :: rest, true, p => parseArgs fs interspersed rest false p
  | s :: rest, false, p =>
    match wordKind s with
    | .dash => .ok { p with lenAtDash := some p.args.length, args := p.args ++ rest }
    | .long body =>
      match parseLong fs body rest.head? with
      | .error e => .error e
      | .ok (a, took) => parseArgs fs interspersed rest took { p with sets := p.sets ++ [a] }
    | .short cs =>
      match parseShort fs cs rest.head? with
      | .error e => .error e
      | .ok (as, took) => parseArgs fs interspersed rest took { p with sets := p.sets ++ as }
    | .pos =>
      if interspersed then parseArgs fs interspersed rest false { p with args := p.args ++ [s] }
      else .ok { p with args := p.args ++ s :: rest }

def parse (fs : PFlags) (interspersed : Bool) (args : List Str) : Except Err Parsed :=
  parseArgs fs interspersed args false {}

end Carapace.Spec.Pflag
