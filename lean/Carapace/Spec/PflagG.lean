/-
  SPEC (trusted, tied to the real package by op `pflagparse`): carapace-pflag v1.0.0 `FlagSet.Parse` for
  POSIX flag sets whose flags use the fork's `OptargDelimiter` and `Nargs` (parseLongArg / findLongFlag /
  parseSingleShortArg / parseNargs).  Generalises Spec/Pflag.lean (equal on flag sets without these
  features: `parseG_posix`, checked on every generated case by the driver).
-/
import Carapace.Spec.Pflag
import Carapace.Model.ForkG

namespace Carapace.Spec.PflagG
open Carapace Carapace.Model Carapace.Spec.Pflag

structure PFlagG extends PFlag where
  delim : Char := '='
  nargs : Int := 0
  /-- the shorthand as a text (a word in non-POSIX flag sets) and the flag's mode (Model/ForkG.lean) -/
  shortW : Str := []
  mode : Nat := 0
  deriving DecidableEq, Repr, Inhabited

def PFlagG.toDefG (f : PFlagG) : FlagDefG :=
  { f.toPFlag.toDef with delim := f.delim, nargs := f.nargs, shortW := f.shortW, mode := f.mode }

abbrev PFlagsG := List PFlagG

def findShortG (fs : PFlagsG) (c : Char) : Option PFlagG := fs.find? (fun f => f.short == some c)

/-- `findLongFlag`: a flag whose name is the text in front of the first occurrence of its own delimiter
    (the real function walks a map: the answer is determined when no name contains a delimiter) -/
def findLongG (fs : PFlagsG) (body : Str) : Option PFlagG :=
  fs.find? (fun f => (Str.cutChar f.delim body).1 == f.name)

/-- `FlagSet.IsPosix` (the same predicate as `isPosixG`) -/
def isPosixP (fs : PFlagsG) : Bool :=
  fs.all (fun f => decide (f.shortW.length ≤ 1) && (f.mode != 2 || f.shortW.isEmpty || decide (f.name.length ≤ 1)))

/-- the shorthand keys a flag is registered under: its shorthand, and its name when it is NameAsShorthand -/
def PFlagG.shortKeys (f : PFlagG) : List Str :=
  if f.shortW.isEmpty then [] else if f.mode == 2 then [f.shortW, f.name] else [f.shortW]

/-- `findShortFlag` (non-POSIX): a flag one of whose shorthand keys is the text in front of the first
    occurrence of its own delimiter (the real function walks a map: determined when no key contains a delimiter) -/
def findShortWordG (fs : PFlagsG) (word : Str) : Option PFlagG :=
  fs.find? (fun f => f.shortKeys.any (fun k => (Str.cutChar f.delim word).1 == k))

/-- `parseNargs`: how many of the following words (at least one is there) the flag takes -/
def takeNargs (nargs : Int) (rest : List Str) : Nat :=
  if nargs == 0 || nargs == 1 then 1
  else
    let limit := if nargs > 1 && decide (nargs < (rest.length : Int)) then nargs.toNat else rest.length
    if nargs < 0 then ((rest.take limit).takeWhile (fun w => !Str.hasPrefix w ['-'])).length else limit

/-- the text handed to the flag's `Set`: the word, or the words as one CSV record (exact for words
    free of `,`, quotes and line breaks, which is what the generators use) -/
def nargsValue (nargs : Int) (rest : List Str) : Str :=
  if nargs == 0 || nargs == 1 then rest.headD [] else Str.join [','] (rest.take (takeNargs nargs rest))

/-- does `Set` accept the text? several words arrive as a CSV record, which the slice kinds read back -/
def valueOkG (f : PFlagG) (v : Str) : Bool :=
  if f.nargs == 0 || f.nargs == 1 then valueOk f.toPFlag v
  else match f.kind with
    | .stringSlice | .stringArray | .string | .optString => true
    | _ => valueOk f.toPFlag v

/-- `stripUnknownFlagValue`: a whitelisted unknown flag takes the next word along unless that word starts with `-` -/
def stripUnknown (rest : List Str) : Nat :=
  match rest with
  | [] => 0
  | w :: _ => if Str.hasPrefix w ['-'] then 0 else 1

/-- `wl` = `ParseErrorsWhitelist.UnknownFlags` (cobra's `FParseErrWhitelist`); an assignment is `none`
    for a tolerated unknown flag -/
def parseLongG (fs : PFlagsG) (wl : Bool) (body : Str) (rest : List Str) : Except Err (Option (Str × Str) × Nat) :=
  match body with
  | [] => .error .badSyntax
  | c :: _ =>
    if c = '-' ∨ c = '=' then .error .badSyntax else
    match findLongG fs body with
    | none =>
      if body == "help".toList then .error .help
      else if wl then .ok (none, if body.elem '=' then 0 else stripUnknown rest)
      else .error .unknownLong
    | some f =>
      -- a ShorthandOnly flag in its long form is dropped like a tolerated unknown flag, with the next word
      -- unless a value is attached
      if f.mode == 1 then .ok (none, if (Str.cutChar f.delim body).2.isSome then 0 else stripUnknown rest) else
      match (Str.cutChar f.delim body).2 with
      | some v => if valueOkG f v then .ok (some (f.name, v), 0) else .error .badValue
      | none =>
        match f.noOptDefVal with
        | some d => .ok (some (f.name, d), 0)
        | none =>
          if rest.isEmpty then .error .needsArg
          else
            let v := nargsValue f.nargs rest
            if valueOkG f v then .ok (some (f.name, v), takeNargs f.nargs rest) else .error .badValue

/-- `parseShortArg` (POSIX): `-f=arg` is recognised by a literal `=`, but the value is then cut at the
    letter's own delimiter - `SplitN(..)[1]` panics when that character does not occur -/
def parseShortG (fs : PFlagsG) (wl : Bool) : Str → List Str → Except Err (List (Str × Str) × Nat)
  | [], _ => .ok ([], 0)
  | c :: more, rest =>
    match findShortG fs c with
    | none =>
      if c = 'h' then .error .help
      else if wl then
        -- `-x=...`: the rest of the word is dropped; otherwise the letters go on, and only the last
        -- letter of the word decides about the next word
        (if Str.hasPrefix more ['='] then .ok ([], 0)
         else if more.isEmpty then .ok ([], stripUnknown rest)
         else parseShortG fs wl more rest)
      else .error .unknownShort
    | some f =>
      match eqValue more with
      | some _ =>
        match (Str.cutChar f.delim (c :: more)).2 with
        | some v => if valueOkG f v then .ok ([(f.name, v)], 0) else .error .badValue
        | none => .error .parserPanic
      | none =>
        match f.noOptDefVal with
        | some dv =>
          match parseShortG fs wl more rest with
          | .ok (ms, took) => .ok ((f.name, dv) :: ms, took)
          | .error e => .error e
        | none =>
          match more with
          | d :: r2 => if valueOkG f (d :: r2) then .ok ([(f.name, d :: r2)], 0) else .error .badValue
          | [] =>
            if rest.isEmpty then .error .needsArg
            else
              let v := nargsValue f.nargs rest
              if valueOkG f v then .ok ([(f.name, v)], takeNargs f.nargs rest) else .error .badValue

/-- `parseSingleShortArg` in a non-POSIX flag set: the whole text after `-` is one shorthand, possibly with
    a value attached by the flag's delimiter (only when the text is longer than two characters) -/
def parseNonPosixShortG (fs : PFlagsG) (wl : Bool) (word : Str) (rest : List Str) : Except Err (List (Str × Str) × Nat) :=
  match findShortWordG fs word with
  | none =>
    if word == ['h'] then .error .help
    else if wl then .ok ([], stripUnknown rest)
    else .error .unknownShort
  | some f =>
    if decide (word.length > 2) && word.elem f.delim then
      let v := ((Str.cutChar f.delim word).2).getD []
      if valueOkG f v then .ok ([(f.name, v)], 0) else .error .badValue
    else match f.noOptDefVal with
      | some dv => .ok ([(f.name, dv)], 0)
      | none =>
        if rest.isEmpty then .error .needsArg
        else
          let v := nargsValue f.nargs rest
          if valueOkG f v then .ok ([(f.name, v)], takeNargs f.nargs rest) else .error .badValue

/-- `parseArgs`; `skip` = how many words at the head were taken by the flag before them -/
def parseArgsG (fs : PFlagsG) (wl interspersed : Bool) : List Str → Nat → Parsed → Except Err Parsed
  | [], _, p => .ok p
  | _ :: rest, k + 1, p => parseArgsG fs wl interspersed rest k p
  | s :: rest, 0, p =>
    match wordKind s with
    | .dash => .ok { p with lenAtDash := some p.args.length, args := p.args ++ rest }
    | .long body =>
      match parseLongG fs wl body rest with
      | .error e => .error e
      | .ok (a, took) => parseArgsG fs wl interspersed rest took { p with sets := p.sets ++ a.toList }
    | .short cs =>
      match (if isPosixP fs then parseShortG fs wl cs rest else parseNonPosixShortG fs wl cs rest) with
      | .error e => .error e
      | .ok (as, took) => parseArgsG fs wl interspersed rest took { p with sets := p.sets ++ as }
    | .pos =>
      if interspersed then parseArgsG fs wl interspersed rest 0 { p with args := p.args ++ [s] }
      else .ok { p with args := p.args ++ s :: rest }

def parseG (fs : PFlagsG) (interspersed : Bool) (args : List Str) (wl : Bool := false) : Except Err Parsed :=
  parseArgsG fs wl interspersed args 0 {}

end Carapace.Spec.PflagG
