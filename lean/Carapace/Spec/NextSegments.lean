/-
  SPEC (trusted): what MultiParts must offer, stated over segments.
  `segments ds s` cuts `s` right after every (leftmost, non-overlapping) occurrence of the
  first divider and then, inside each piece, after the occurrences of the remaining ones.
  It is written with `Str.splitOn` (remove the divider, re-attach it), independently of the
  model's transcription of the Go `tokenize` (`strings.SplitAfter` + `TrimSuffix`).
-/
import Carapace.Model.Common

namespace Carapace.Spec
open Carapace Carapace.Model

def attachLast (xs : List Str) (d : Str) : List Str :=
  match xs.getLast? with
  | none => []
  | some l => xs.dropLast ++ [l ++ d]

/-- pieces between occurrences of `d`, with a flag "an occurrence of `d` follows this piece" -/
def piecesOf (s d : Str) : List (Str × Bool) :=
  if d.isEmpty then s.map (fun c => ([c], false))
  else
    let ps := Str.splitOn s d
    ps.zipIdx.map (fun (p, i) => (p, i + 1 < ps.length))

def segments : List Str → Str → List Str
  | [], s => [s]
  | d :: ds, s =>
    (piecesOf s d).flatMap (fun (p, followed) =>
      let sub := segments ds p
      if followed then attachLast sub d else sub)

/-- the next-segment extensions of the typed text `w` over the value texts `vs` -/
def nextSegments (ci : Bool) (ds : List Str) (vs : List Str) (w : Str) : List Str :=
  let n := (segments ds w).length
  ((vs.filter (fun v => matchHasPrefix ci v w)).filterMap (fun v =>
    let t := segments ds v
    if t.length ≥ n then some (t.take n).flatten else none)).eraseDups

end Carapace.Spec
