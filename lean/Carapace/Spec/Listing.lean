/-
  SPEC (trusted): what file completion must offer, from the property text: the entries of the
  directory the typed path denotes whose names continue the typed last segment - directories (and
  links to directories) with a trailing `/`, regular files only for ActionFiles and only with an
  allowed suffix, dot-entries only when the typed segment starts with a dot - each as the typed
  directory part, unchanged, followed by the entry name.
-/
import Carapace.Model.Files

namespace Carapace.Spec
open Carapace Carapace.Model

/-- the typed directory part (up to and including the last `/`) and the last segment -/
def splitTyped (typed : Str) : Str × Str :=
  let segs := Str.splitOnChar '/' typed
  match segs.reverse with
  | [] => ([], [])
  | [s] => ([], s)
  | s :: r => (Str.join ['/'] r.reverse ++ ['/'], s)

def listing (typed : Str) (entries : List DirEntry) (dirOnly : Bool) (suffixes : List Str) : List Str :=
  let (dirPart, seg) := splitTyped typed
  let hiddenOk := Str.hasPrefix seg ['.']
  entries.filterMap (fun e =>
    if !Str.hasPrefix e.name seg then none
    else if Str.hasPrefix e.name ['.'] && !hiddenOk then none
    else match e.kind with
      | .dir | .linkDir => some (dirPart ++ e.name ++ ['/'])
      | _ => if dirOnly then none
             else if suffixes.isEmpty || suffixes.any (fun s => Str.hasSuffix e.name s) then some (dirPart ++ e.name) else none)

end Carapace.Spec
