/-
  SPEC (trusted): readers for tcsh, nushell, powershell and xonsh (Python literals),
  written from the documented grammar of those shells (none of them is installed in the
  sandbox; the Python literal rules are cross-checked against python3 by the check).
  `strict = true` additionally enforces the rules graded "soft" in DESIGN.md appendix B.
-/
import Carapace.Basic.Transducer

namespace Carapace.Spec

/-- membership in a small ASCII set given by code points -/
def inSet (c : Char) (xs : List Nat) : Bool := c.toNat < 128 && xs.elem c.toNat

/-! ### tcsh -/
namespace Tcsh

inductive Mode where
  | start | mid | esc | sq | dq
  deriving DecidableEq, Repr, Inhabited

def stepUnq (c : Char) : Option (Mode × List Out) :=
  if inSet c [0x20, 0x09] then some (.start, [.brk])
  else if inSet c [0x0A] then none
  else if inSet c [0x5C] then some (.esc, [])
  else if inSet c [0x27] then some (.sq, [.mark])
  else if inSet c [0x22] then some (.dq, [.mark])
  else if inSet c [0x24, 0x60] then none                                   -- $ `
  else if inSet c [0x2A, 0x3F, 0x5B, 0x5D] then none                       -- * ? [ ]
  else if inSet c [0x7B, 0x7D] then none                                   -- { }
  else if inSet c [0x3B, 0x26, 0x7C, 0x3C, 0x3E, 0x28, 0x29] then none     -- ; & | < > ( )
  else some (.mid, [.lit c])

def step : Mode → Char → Option (Mode × List Out)
  | .start, c => stepUnq c
  | .mid, c => stepUnq c
  | .esc, c => if inSet c [0x0A] then some (.start, [.brk]) else some (.mid, [.lit c])
  | .sq, c => if inSet c [0x27] then some (.mid, []) else if inSet c [0x0A] then none else some (.sq, [.lit c])
  | .dq, c =>
    if inSet c [0x22] then some (.mid, [])
    else if inSet c [0x24, 0x60, 0x0A] then none
    else some (.dq, [.lit c])

def reader : Reader Mode := ⟨step⟩
def final : Mode → Bool | .start | .mid => true | _ => false
def readBack (text : Str) : Option (List Str) := readWords reader .start final text

end Tcsh

/-! ### nushell -/
namespace Nushell

inductive Mode where
  | start | tilde | mid | dq | dqesc | sq | bt | afterq
  deriving DecidableEq, Repr, Inhabited

def stepBare (strict : Bool) (atStart : Bool) (c : Char) : Option (Mode × List Out) :=
  if inSet c [0x20, 0x09] then some (.start, [.brk])
  else if inSet c [0x0A, 0x0D] then none
  else if inSet c [0x7C, 0x3B] then none                                   -- | ;
  else if inSet c [0x28, 0x29, 0x5B, 0x5D, 0x7B, 0x7D] then none           -- ( ) [ ] { }
  else if inSet c [0x3C, 0x3E, 0x26] then none                             -- < > & (redirection / background in recent versions)
  else if inSet c [0x24] then none                                         -- $
  else if inSet c [0x27, 0x22, 0x60] then
    (if atStart then
       (if c.toNat = 0x22 then some (.dq, [.mark]) else if c.toNat = 0x27 then some (.sq, [.mark]) else some (.bt, [.mark]))
     else none)
  else if inSet c [0x23] then (if atStart then none else some (.mid, [.lit c]))   -- #
  else if inSet c [0x2A, 0x3F] then (if strict then none else some (.mid, [.lit c]))   -- * ? (soft)
  else if inSet c [0x7E] && atStart then some (.tilde, [.lit c])
  else some (.mid, [.lit c])

def unescape (c : Char) : Option Char :=
  if c = '"' then some '"' else if c = '\'' then some '\'' else if c = '\\' then some '\\'
  else if c = '/' then some '/' else if c = 'b' then some (Char.ofNat 8) else if c = 'f' then some (Char.ofNat 12)
  else if c = 'n' then some '\n' else if c = 'r' then some '\r' else if c = 't' then some '\t' else none

def step (strict : Bool) : Mode → Char → Option (Mode × List Out)
  | .start, c => stepBare strict true c
  | .tilde, c => if c = '"' then some (.dq, []) else stepBare strict false c
  | .mid, c => stepBare strict false c
  | .dq, c => if c = '"' then some (.afterq, []) else if c = '\\' then some (.dqesc, []) else some (.dq, [.lit c])
  | .dqesc, c => match unescape c with | some d => some (.dq, [.lit d]) | none => none
  | .sq, c => if c = '\'' then some (.afterq, []) else some (.sq, [.lit c])
  | .bt, c => if c = '`' then some (.afterq, []) else some (.bt, [.lit c])
  | .afterq, c => if inSet c [0x20, 0x09] then some (.start, [.brk]) else none

def reader (strict : Bool) : Reader Mode := ⟨step strict⟩
def final : Mode → Bool | .start | .tilde | .mid | .afterq => true | _ => false
def readBack (strict : Bool) (text : Str) : Option (List Str) := readWords (reader strict) .start final text

end Nushell

/-! ### powershell -/
namespace Powershell

inductive Mode where
  | start | mid | esc | sq | sqq | afterq
  deriving DecidableEq, Repr, Inhabited

def stepBare (strict : Bool) (atStart : Bool) (c : Char) : Option (Mode × List Out) :=
  if inSet c [0x20, 0x09] then some (.start, [.brk])
  else if inSet c [0x0A, 0x0D] then none
  else if inSet c [0x27] then (if atStart then some (.sq, [.mark]) else none)
  else if inSet c [0x22] then none
  else if inSet c [0x60] then some (.esc, [])
  else if inSet c [0x24] then none
  else if inSet c [0x28, 0x29, 0x7B, 0x7D] then none
  else if inSet c [0x3B, 0x7C, 0x26, 0x3C, 0x3E] then none
  else if inSet c [0x2C] then none
  else if inSet c [0x23] then (if atStart then none else some (.mid, [.lit c]))
  else if inSet c [0x40] then (if atStart && strict then none else some (.mid, [.lit c]))
  else if inSet c [0x2A, 0x3F, 0x5B, 0x5D] then (if strict then none else some (.mid, [.lit c]))
  else some (.mid, [.lit c])

def step (strict : Bool) : Mode → Char → Option (Mode × List Out)
  | .start, c => stepBare strict true c
  | .mid, c => stepBare strict false c
  | .esc, c => some (.mid, [.lit c])
  | .sq, c => if c = '\'' then some (.sqq, []) else some (.sq, [.lit c])
  | .sqq, c =>
    if c = '\'' then some (.sq, [.lit '\''])
    else if inSet c [0x20, 0x09] then some (.start, [.brk])
    else none
  | .afterq, c => if inSet c [0x20, 0x09] then some (.start, [.brk]) else none

def reader (strict : Bool) : Reader Mode := ⟨step strict⟩
def final : Mode → Bool | .start | .mid | .sqq | .afterq => true | _ => false
def readBack (strict : Bool) (text : Str) : Option (List Str) := readWords (reader strict) .start final text

end Powershell

/-! ### xonsh: bare words and Python string literals -/
namespace Xonsh

inductive Mode where
  | start | startR | mid | sq | sqesc | raw | rawesc | afterq
  deriving DecidableEq, Repr, Inhabited

def stepBare (strict : Bool) (atStart : Bool) (c : Char) : Option (Mode × List Out) :=
  if inSet c [0x20, 0x09] then some (.start, [.brk])
  else if inSet c [0x0A, 0x0D] then none
  else if inSet c [0x27] then (if atStart then some (.sq, [.mark]) else none)
  else if inSet c [0x22, 0x60] then none
  else if inSet c [0x24] then (if strict then none else some (.mid, [.lit c]))
  else if inSet c [0x28, 0x29, 0x5B, 0x5D, 0x7B, 0x7D] then none
  else if inSet c [0x2A, 0x3F] then none
  else if inSet c [0x7C, 0x26, 0x3B, 0x3C, 0x3E] then none
  else if inSet c [0x5C] then none                                          -- a bare backslash
  else if inSet c [0x23] then (if atStart then none else some (.mid, [.lit c]))
  else if c = 'r' && atStart then some (.startR, [])
  else some (.mid, [.lit c])

/-- Python escapes in a non-raw literal (the subset that yields one character) -/
def pyEscape (c : Char) : Option (List Out) :=
  if c = '\\' then some [.lit '\\'] else if c = '\'' then some [.lit '\''] else if c = '"' then some [.lit '"']
  else if c = 'n' then some [.lit '\n'] else if c = 't' then some [.lit '\t'] else if c = 'r' then some [.lit '\r']
  else if c = 'a' then some [.lit (Char.ofNat 7)] else if c = 'b' then some [.lit (Char.ofNat 8)]
  else if c = 'f' then some [.lit (Char.ofNat 12)] else if c = 'v' then some [.lit (Char.ofNat 11)]
  else if c = '\n' then some []
  else if c = 'x' || c = 'u' || c = 'U' || c = 'N' || c.isDigit then none
  else some [.lit '\\', .lit c]

def step (strict : Bool) : Mode → Char → Option (Mode × List Out)
  | .start, c => stepBare strict true c
  | .startR, c =>
    if c = '\'' then some (.raw, [.mark])
    else match stepBare strict false c with
      | some (m, o) => some (m, Out.lit 'r' :: o)
      | none => none
  | .mid, c => stepBare strict false c
  | .sq, c =>
    if c = '\'' then some (.afterq, []) else if c = '\\' then some (.sqesc, [])
    else if c = '\n' then none else some (.sq, [.lit c])
  | .sqesc, c => match pyEscape c with | some o => some (.sq, o) | none => none
  | .raw, c =>
    if c = '\'' then some (.afterq, []) else if c = '\\' then some (.rawesc, [.lit '\\'])
    else if c = '\n' then none else some (.raw, [.lit c])
  | .rawesc, c => some (.raw, [.lit c])
  | .afterq, c => if inSet c [0x20, 0x09] then some (.start, [.brk]) else none

def reader (strict : Bool) : Reader Mode := ⟨step strict⟩
def final : Mode → Bool | .start | .mid | .afterq => true | _ => false
/-- `startR` at the end of input is the one-character word `r` -/
def readBack (strict : Bool) (text : Str) : Option (List Str) :=
  match (reader strict).run .start text with
  | none => none
  | some (m, o) =>
    if m = .startR then some (collect (o ++ [.lit 'r']) none)
    else if final m then some (collect o none) else none

end Xonsh

end Carapace.Spec
