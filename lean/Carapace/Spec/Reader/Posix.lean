/-
  SPEC (trusted): how a POSIX-style shell (bash, osh/oil, zsh) reads a piece of command
  line text back into words.  Written from the shells' documented quoting rules,
  independently of carapace's code.  `none` = the text is not just literal text and
  quoting (an operator, expansion, glob, comment ... was met).
  bash is cross-checked against the installed bash by the check (see DESIGN.md 5.1).
-/
import Carapace.Basic.Transducer

namespace Carapace.Spec.Posix

inductive Mode where
  | start   -- unquoted, at the start of a word
  | mid     -- unquoted, inside a word
  | esc     -- unquoted, after a backslash
  | sq      -- inside '...'
  | dq      -- inside "..."
  | dqesc   -- inside "...", after a backslash
  deriving DecidableEq, Repr, Inhabited

/-- character classes of the unquoted state -/
inductive Cls where
  | plain | blank | bslash | squote | dquote | expand | glob | brace | oper | hash | eq | newline
  deriving DecidableEq, Repr

/-- classes of the ASCII characters; everything else is plain text -/
def clsNat (n : Nat) : Cls :=
  if n = 0x20 ∨ n = 0x09 then .blank
  else if n = 0x0A then .newline
  else if n = 0x5C then .bslash         -- \
  else if n = 0x27 then .squote         -- '
  else if n = 0x22 then .dquote         -- "
  else if n = 0x24 ∨ n = 0x60 then .expand     -- $ `
  else if n = 0x2A ∨ n = 0x3F ∨ n = 0x5B then .glob   -- * ? [
  else if n = 0x7B then .brace          -- {
  else if n = 0x7C ∨ n = 0x26 ∨ n = 0x3B ∨ n = 0x28 ∨ n = 0x29 ∨ n = 0x3C ∨ n = 0x3E then .oper -- | & ; ( ) < >
  else if n = 0x23 then .hash           -- #
  else if n = 0x3D then .eq             -- =
  else .plain

def cls (c : Char) : Cls := if c.toNat < 128 then clsNat c.toNat else .plain

/-- per-shell switches -/
structure Flavor where
  /-- zsh: a leading `=` is an expansion (EQUALS option, on by default) -/
  leadingEq : Bool := false
  deriving DecidableEq, Repr

def bash : Flavor := {}
def zsh : Flavor := { leadingEq := true }

def stepUnq (fl : Flavor) (atStart : Bool) (c : Char) : Option (Mode × List Out) :=
  match cls c with
  | .plain => some (.mid, [.lit c])
  | .blank => some (.start, [.brk])
  | .newline => none                           -- command separator
  | .bslash => some (.esc, [])
  | .squote => some (.sq, [.mark])
  | .dquote => some (.dq, [.mark])
  | .expand => none
  | .glob => none
  | .brace => none
  | .oper => none
  | .hash => if atStart then none else some (.mid, [.lit c])
  | .eq => if atStart && fl.leadingEq then none else some (.mid, [.lit c])

def step (fl : Flavor) : Mode → Char → Option (Mode × List Out)
  | .start, c => stepUnq fl true c
  | .mid, c => stepUnq fl false c
  | .esc, c => if c.toNat = 0x0A then some (.mid, []) else some (.mid, [.lit c])
  | .sq, c => if cls c = .squote then some (.mid, []) else some (.sq, [.lit c])
  | .dq, c =>
    match cls c with
    | .dquote => some (.mid, [])
    | .bslash => some (.dqesc, [])
    | .expand => none
    | _ => some (.dq, [.lit c])
  | .dqesc, c =>
    match cls c with
    | .expand | .dquote | .bslash => some (.dq, [.lit c])
    | .newline => some (.dq, [])
    | _ => some (.dq, [.lit '\\', .lit c])

def reader (fl : Flavor) : Reader Mode := ⟨step fl⟩

def final : Mode → Bool
  | .start | .mid => true
  | _ => false

/-- the words the shell obtains from `text` typed at the start of a word -/
def readBack (fl : Flavor) (text : Str) : Option (List Str) :=
  readWords (reader fl) .start final text

end Carapace.Spec.Posix
