/-
  SPEC (trusted): the properties C02..C06 as executable predicates over
  (input of the formatting pipeline, decoded output of the real formatter).
  Written from the property statements, not from the code: the candidates that must be
  emitted are "those that extend the typed word", the inserted text must read back as the
  value, the no-space decision is `value ends in a no-space character`, messages must show.
  The driver evaluates these predicates on the *implementation's* output for every case.
-/
import Carapace.Spec.Decode
import Carapace.Spec.Reader.Posix
import Carapace.Spec.Reader.Others

namespace Carapace.Spec
open Carapace Carapace.Model

structure Failure where
  prop : String
  code : String
  detail : String := ""
  deriving Repr, Inhabited

/-- tab, CR and LF are dropped by design: values are compared modulo these -/
def dropTCL (s : Str) : Str := s.filter (fun c => c != '\t' && c != '\r' && c != '\n')

/-- the property's notion of the shown description: first line, trimmed, at most `maxLen` runes -/
def shownDescription (maxLen : Nat) (d : Str) : Str :=
  let first := (Str.cutChar '\n' d).1
  let t := Str.trimSpace first
  if t.length > maxLen then t.take (maxLen - 3) ++ "...".toList else t

/-- words and "ends with an unquoted blank" of a text under a reader -/
def readInfo {M : Type} (r : Reader M) (start : M) (final : M → Bool) (text : Str) : Option (List Str × Bool) :=
  match r.run start text with
  | none => none
  | some (m, o) => if final m then some (collect o none, o.getLast? == some Out.brk) else none

/-- first character at which a reader gives up (for failure codes) -/
def failChar {M : Type} (r : Reader M) : M → Str → Option Char
  | _, [] => none
  | m, c :: s => match r.step m c with
    | none => some c
    | some (m', _) => failChar r m' s

inductive Sh where
  | bash | bashBle | cmdClink | elvish | export | fish | ion | nushell | oil | powershell | tcsh | xonsh | zsh
  deriving DecidableEq, Repr, Inhabited

def Sh.ofStr (s : String) : Option Sh :=
  match s with
  | "bash" => some .bash | "bash-ble" => some .bashBle | "cmd-clink" => some .cmdClink
  | "elvish" => some .elvish | "export" => some .export | "fish" => some .fish | "ion" => some .ion
  | "nushell" => some .nushell | "oil" => some .oil | "powershell" => some .powershell
  | "tcsh" => some .tcsh | "xonsh" => some .xonsh | "zsh" => some .zsh | _ => none

def Sh.name : Sh → String
  | .bash => "bash" | .bashBle => "bash-ble" | .cmdClink => "cmd-clink" | .elvish => "elvish"
  | .export => "export" | .fish => "fish" | .ion => "ion" | .nushell => "nushell" | .oil => "oil"
  | .powershell => "powershell" | .tcsh => "tcsh" | .xonsh => "xonsh" | .zsh => "zsh"

/-- formats that show messages through a channel of their own -/
def Sh.hasMessageChannel : Sh → Bool
  | .zsh | .elvish | .export => true
  | _ => false

/-- formats whose quoting carapace performs itself -/
def Sh.selfQuoting : Sh → Bool
  | .bash | .zsh | .nushell | .powershell | .xonsh | .oil | .tcsh => true
  | _ => false

/-- text of the typed word that the quote state of zsh puts in front of the inserted match -/
def zshOpen : ZshState → Str
  | .dflt => []
  | .quotingEscaping | .fullQuotingEscaping => ['"']
  | .quoting | .fullQuoting => ['\'']

def zshClose : ZshState → Str
  | .fullQuotingEscaping => ['"']
  | .fullQuoting => ['\'']
  | _ => []

/-- what reading the inserted text back gives: (words, trailing unquoted blank), hard rules only
    unless `strict`; `none` with the offending character when reading fails -/
def readInsert (sh : Sh) (st : ZshState) (strict : Bool) (text : Str) : Except (Option Char) (List Str × Bool) :=
  let pos (fl : Posix.Flavor) (t : Str) : Except (Option Char) (List Str × Bool) :=
    match readInfo (Posix.reader fl) .start Posix.final t with
    | some r => .ok r
    | none => .error (failChar (Posix.reader fl) .start t)
  match sh with
  | .bash | .oil => pos Posix.bash text
  | .zsh =>
    let fl : Posix.Flavor := if strict then Posix.zsh else Posix.bash
    -- a trailing blank belongs after the closing quote of the FULL states (never emitted there)
    pos fl (zshOpen st ++ text ++ zshClose st)
  | .tcsh =>
    match readInfo Tcsh.reader .start Tcsh.final text with
    | some r => .ok r
    | none => .error (failChar Tcsh.reader .start text)
  | .nushell =>
    match readInfo (Nushell.reader strict) .start Nushell.final text with
    | some r => .ok r
    | none => .error (failChar (Nushell.reader strict) .start text)
  | .powershell =>
    match readInfo (Powershell.reader strict) .start Powershell.final text with
    | some r => .ok r
    | none => .error (failChar (Powershell.reader strict) .start text)
  | .xonsh =>
    match Xonsh.readBack strict text with
    | some ws =>
      let brk := match (Xonsh.reader strict).run .start text with
        | some (_, o) => o.getLast? == some Out.brk
        | none => false
      .ok (ws, brk)
    | none => .error (failChar (Xonsh.reader strict) .start text)
  | _ => .ok ([text], false)

structure FmtInput where
  sh : Sh
  env : Env
  word : Str
  msgs : List Str
  nospace : SuffixMatcher     -- the completion's own no-space set
  usage : Str
  values : List RawValue
  deriving Repr, Inhabited

/-- the property's effective no-space set -/
def effNospace (i : FmtInput) : SuffixMatcher :=
  if i.sh == .export then i.nospace
  else if !i.msgs.isEmpty then ['*']
  else SuffixMatcher.add i.nospace i.env.nospaceEnv

/-- the property's no-space decision for a value -/
def wantsNospace (ns : SuffixMatcher) (v : Str) : Bool :=
  ns.elem '*' || (match v.getLast? with | some c => ns.elem c | none => false)

/-- tab, CR and LF are dropped by design: for a value ending in one of them either reading of
    "the value ends with a no-space character" is accepted -/
def nospaceOk (ns : SuffixMatcher) (v : Str) (expressed : Bool) : Bool :=
  wantsNospace ns v == expressed || wantsNospace ns (dropTCL v) == expressed

/-- the candidates that must be shown: those extending the typed word (all when unfiltered) -/
def specShown (i : FmtInput) : List RawValue :=
  if i.env.unfiltered then i.values else i.values.filter (fun v => matchHasPrefix i.env.ci v.value i.word)

/-- bash: a candidate equal to the part of the word bash keeps leaves nothing to insert: its record is
    an empty line, which the snippet keeps only beside other records (outside the claim) -/
def emptyResidual (i : FmtInput) (v : RawValue) : Bool :=
  i.sh == .bash && (dropTCL (Str.trimPrefix v.value i.env.bashPrefix)).isEmpty

def specCands (i : FmtInput) : List RawValue :=
  (specShown i).filter (fun v => !emptyResidual i v)

/-- drop up to `n` records whose insert text is empty -/
def dropEmptyRecs : Nat → List Rec → List Rec
  | 0, rs => rs
  | _, [] => []
  | n + 1, r :: rs => if r.insert.isEmpty then dropEmptyRecs n rs else r :: dropEmptyRecs (n + 1) rs

def isErrDisplay (d : Str) : Bool :=
  Str.hasPrefix d errS && (d.drop 3).all Char.isDigit

def zshSt (i : FmtInput) : ZshState := if i.sh == .zsh then zshStateOf i.env.zshRaw else .dflt

/-- part of the typed word the shell keeps in front of what is inserted -/
def keptPrefix (i : FmtInput) : Str := if i.sh == .bash then i.env.bashPrefix else []

def typedSegment (i : FmtInput) : Str := Str.trimPrefix i.word (keptPrefix i)

/-- value as it has to be inserted (bash: without the part bash keeps) -/
def insertValue (i : FmtInput) (v : Str) : Str := Str.trimPrefix v (keptPrefix i)

def bashListMode (i : FmtInput) (n : Nat) : Bool :=
  i.sh == .bash && i.env.bashCompType == "63".toList && n != 1

/-- an observed record: the decoded one plus what its insert text reads back as -/
structure Obs where
  rc : Rec
  /-- insert text without the markers the format appends (oil's \x01) -/
  text : Str
  read : Except (Option Char) (List Str × Bool)
  readStrict : Except (Option Char) (List Str × Bool)
  deriving Inhabited

def observe (i : FmtInput) (r : Rec) : Obs :=
  let text := if i.sh == .oil then Str.trimSuffix r.insert [Char.ofNat 1] else r.insert
  { rc := r, text := text, read := readInsert i.sh (zshSt i) false text,
    readStrict := readInsert i.sh (zshSt i) true text }

def Obs.word (o : Obs) : Option Str :=
  match o.read with
  | .ok ([w], _) => some w
  | _ => none

/-- `ERR`, `ERR<n>` or the filler `_`, possibly after a prefix -/
def endsErrLike (w : Str) : Bool :=
  let r := w.reverse.dropWhile Char.isDigit
  Str.hasPrefix r errS.reverse || w.getLast? == some '_'

/-- an observed record that is one of the synthetic error entries (not a real candidate) -/
def isErrObs (i : FmtInput) (cands : List RawValue) (o : Obs) : Bool :=
  !i.msgs.isEmpty && !i.sh.hasMessageChannel &&
  (let d := o.rc.display
   let head := if i.sh == .ion then d.takeWhile (· != ' ') else d
   isErrDisplay head || head == ['_'] || (match o.word with | some w => endsErrLike w | none => false)) &&
  !(match o.word with
    | some w => cands.any (fun c => dropTCL (insertValue i c.value) == dropTCL (if i.sh == .ion then Str.trimSuffix w [' '] else w))
    | none => false)

/-- a shown description is acceptable when it is the trimmed first line, or the trimmed text
    with its line breaks dropped (tab, CR, LF are dropped by design), both modulo tab/CR/LF -/
def descOk (shown : Str) (d : Str) : Bool :=
  let s := dropTCL shown
  s == dropTCL (shownDescription 80 d) || s == shownDescription 80 (dropTCL d) ||
  s == dropTCL (shownDescription 80 (d.filter (· != '\n'))) ||
  s == dropTCL (shownDescription 80 (d.filter (fun c => c != '\n' && c != '\r')))

/-- first token of a display-trick line `value (description)` / `value_(description)` -/
def headToken (t : Str) : Str :=
  Str.trimSuffix (Str.cut (Str.cut t " (".toList).1 "_(".toList).1 [Char.ofNat 1]

/-- every text that may be the value part of a display-trick line: the line cut at any ` (` / `_(`
    (the value itself may contain such a sequence, e.g. a typed word echoed in an error entry) -/
def headTokens (t : Str) : List Str :=
  let cuts := (List.range t.length).filter (fun k =>
    let r := t.drop k
    Str.hasPrefix r " (".toList || Str.hasPrefix r "_(".toList)
  (t :: cuts.map (fun k => t.take k)).map (fun h => Str.trimSuffix h [Char.ofNat 1])

def showStr (s : Str) : String := (String.ofList s).quote

def charCode (c : Option Char) : String :=
  match c with
  | some c => if c.toNat < 0x20 || c.toNat ≥ 0x7F then s!"U+{c.toNat}" else String.singleton c
  | none => "end"

/-- is the text inserted as a complete candidate (so that quoting and the space matter)? -/
def insertsWhole (i : FmtInput) (n : Nat) : Bool :=
  match i.sh with
  | .oil | .tcsh => n == 1
  | .bash => !bashListMode i n
  | _ => true

/-- for formats that carry the separating blank inside the insert text: the text without it -/
def carriesSpaceInText : Sh → Bool
  | .ion | .nushell | .powershell | .xonsh | .zsh => true
  | _ => false

/-- value of an observed record for native formats -/
def nativeValue (i : FmtInput) (o : Obs) (expectSpace : Bool) : Str :=
  if i.sh == .ion && expectSpace then Str.trimSuffix o.text [' '] else o.text

/-- C03 per record: the insert text reads back as exactly one word, equal (modulo tab/CR/LF)
    to the value of one of the candidates. -/
def checkC03 (i : FmtInput) (cands : List RawValue) (obs : List Obs) (commonStep : Bool) : List Failure :=
  if !insertsWhole i obs.length || commonStep then []
  else if !i.sh.selfQuoting then
    -- native quoting: verbatim transmission
    obs.filterMap (fun o =>
      if isErrObs i cands o then none
      else
        let ok := cands.any (fun c =>
          let exp := dropTCL (insertValue i c.value)
          dropTCL o.text == exp || (i.sh == .ion && dropTCL o.text == exp ++ [' ']))
        if ok then none else some { prop := "C03", code := s!"{i.sh.name}:not_verbatim", detail := showStr o.text })
  else
    obs.filterMap (fun o =>
      match o.read with
      | .error c => some { prop := "C03", code := s!"{i.sh.name}:active:{charCode c}", detail := showStr o.text }
      | .ok (ws, _) =>
        match ws with
        | [w] =>
          if isErrObs i cands o then none
          else if cands.any (fun c => dropTCL (insertValue i c.value) == dropTCL w) then
            (if w.any (fun c => c == '\n') then
               some { prop := "C03", code := s!"{i.sh.name}:linebreak", detail := showStr o.text } else none)
          else some { prop := "C03", code := s!"{i.sh.name}:changed", detail := showStr o.text ++ " reads " ++ showStr w }
        | _ => some { prop := "C03", code := s!"{i.sh.name}:words:{ws.length}", detail := showStr o.text })

/-- soft (disputable) reader rules: counted, never a verdict -/
def softC03 (i : FmtInput) (obs : List Obs) : Nat :=
  if !i.sh.selfQuoting || !insertsWhole i obs.length then 0
  else (obs.filter (fun o => match o.read, o.readStrict with
    | .ok _, .error _ => true
    | _, _ => false)).length

/-- C02: every emitted candidate extends the typed word; every candidate extending it is emitted -/
def checkC02 (i : FmtInput) (cands : List RawValue) (obs : List Obs) (commonStep : Bool) : List Failure :=
  let seg := typedSegment i
  let ci := i.env.ci
  let sound : List Failure :=
    if i.env.unfiltered || bashListMode i obs.length || !insertsWhole i obs.length then []
    else obs.filterMap (fun o =>
      match o.word with
      | some w =>
        if matchHasPrefix ci w (dropTCL seg) || (i.sh == .ion && matchHasPrefix ci (Str.trimSuffix w [' ']) (dropTCL seg)) then none
        else some { prop := "C02", code := s!"{i.sh.name}:not_extending", detail := showStr w ++ " typed " ++ showStr seg }
      | none => none)
  let complete : List Failure :=
    if commonStep || bashListMode i obs.length || !insertsWhole i obs.length then []
    else cands.filterMap (fun c =>
      let exp := dropTCL (insertValue i c.value)
      if i.sh == .powershell && c.value.isEmpty then none   -- powershell cannot carry an empty candidate (documented in the code)
      else if obs.any (fun o => match o.word with
          | some w => dropTCL w == exp || (i.sh == .ion && dropTCL w == exp ++ [' '])
          | none => true) then none     -- unreadable texts are C03's business
      else some { prop := "C02", code := s!"{i.sh.name}:dropped", detail := showStr c.value })
  sound ++ complete

/-- C04: one intact record per candidate, fields in place, no line breaks -/
def checkC04 (i : FmtInput) (cands : List RawValue) (errCount : Nat) (dec : Decoded) (obs : List Obs) (commonStep : Bool) : List Failure :=
  let expected := (if i.sh == .powershell then (cands.filter (fun c => !c.value.isEmpty)).length else cands.length) + errCount
  let count : List Failure :=
    if commonStep then (if dec.recs.length == 1 then [] else [{ prop := "C04", code := s!"{i.sh.name}:count", detail := s!"common prefix step with {dec.recs.length} records" }])
    else if dec.recs.length == expected then []
    else [{ prop := "C04", code := s!"{i.sh.name}:count", detail := s!"{dec.recs.length} records for {expected} candidates" }]
  let breaks : List Failure := if i.sh == .export then [] else obs.filterMap (fun o =>
    if o.rc.insert.any (fun c => c == '\n' || c == '\r') || o.rc.display.any (fun c => c == '\n' || c == '\r') then
      some { prop := "C04", code := s!"{i.sh.name}:linebreak", detail := showStr o.rc.insert ++ " / " ++ showStr o.rc.display }
    else none)
  -- fields: every candidate has a record carrying its display and description
  let fields : List Failure :=
    if commonStep || !count.isEmpty then []
    else cands.filterMap (fun c =>
      if i.sh == .powershell && c.value.isEmpty then none else
      let disp := dropTCL c.display
      let desc := dropTCL (shownDescription 80 c.description)
      let ok := obs.any (fun o =>
        let r := o.rc
        match i.sh with
        | .bash =>
          if bashListMode i obs.length then true   -- list mode shows display texts only (checked by `breaks`)
          else true
        | .oil | .tcsh => true                      -- display tricks, no separate fields
        | .fish => dropTCL r.insert == dropTCL c.value && descOk r.description c.description
        | .ion => (dropTCL r.display == disp && desc.isEmpty) ||
                  (Str.hasPrefix (dropTCL r.display) (disp ++ " (".toList) && Str.hasSuffix r.display [')'] &&
                   descOk (((dropTCL r.display).drop (disp.length + 2)).dropLast) c.description)
        | .export => r.insert == c.value && r.display == c.display && r.description == c.description && r.tag == c.tag
        | .zsh => dropTCL r.display == disp && r.tag == zshTag c.tag &&
                  (dropTCL r.description == dropTCL c.description || (Str.trimSpace (dropTCL c.description)).isEmpty && r.description.isEmpty)
        | _ => dropTCL r.display == disp && descOk r.description c.description)
      if ok then none else some { prop := "C04", code := s!"{i.sh.name}:fields", detail := showStr c.value ++ " / " ++ showStr c.display ++ " / " ++ showStr c.description })
  count ++ breaks ++ fields

/-- C05: the space decision -/
def checkC05 (i : FmtInput) (cands : List RawValue) (dec : Decoded) (obs : List Obs) (commonStep : Bool) (emitted : Nat) : List Failure :=
  let ns := effNospace i
  match i.sh with
  | .export => []    -- carried as the set itself; compared by the driver against the input set
  | .fish | .tcsh => []  -- no per-candidate or global channel in these formats
  | .bash =>
    match dec.globalNospace with
    | none => [{ prop := "C05", code := "bash:noflag" }]
    | some g =>
      if commonStep then (if g then [] else [{ prop := "C05", code := "bash:common_prefix_space" }])
      else if obs.length == 1 && emitted == 1 then   -- `emitted`: records on the wire, empty ones included
        match obs.head? with
        | some o =>
          -- find the candidate this record stands for
          let isErr := isErrObs i cands o
          let want := isErr || cands.any (fun c => (match o.word with | some w => dropTCL w == dropTCL (insertValue i c.value) | none => false)
                                                      && wantsNospace ns (insertValue i c.value) && wantsNospace ns (dropTCL (insertValue i c.value)))
          let wantNot := !isErr && cands.all (fun c => !(match o.word with | some w => dropTCL w == dropTCL (insertValue i c.value) | none => false)
                                                      || (!wantsNospace ns (insertValue i c.value) && !wantsNospace ns (dropTCL (insertValue i c.value))))
          if g && wantNot then [{ prop := "C05", code := "bash:nospace_not_wanted", detail := showStr o.text }]
          else if !g && want then [{ prop := "C05", code := "bash:space_not_wanted", detail := showStr o.text }]
          else []
        | none => []
      else []
  | sh =>
    if !insertsWhole i obs.length then [] else
    obs.filterMap (fun o =>
      let isErr := isErrObs i cands o
      -- the decision the format expresses for this record
      let expressed : Option Bool :=   -- some true = no space
        match o.rc.nospace with
        | some b => some b
        | none =>
          if sh == .oil then some (Str.hasSuffix o.rc.insert [Char.ofNat 1])
          else if sh == .ion then none
          else match o.read with
            | .ok (_, brk) => some (!brk)
            | .error _ => none
      match expressed with
      | none =>
        if sh == .ion then
          -- verbatim format: text = value ++ blank iff a space is wanted
          let ok := isErr || cands.any (fun c =>
            dropTCL o.text == dropTCL c.value ++ (if wantsNospace ns c.value then [] else [' ']) ||
            dropTCL o.text == dropTCL c.value ++ (if wantsNospace ns (dropTCL c.value) then [] else [' ']))
          if ok then none else some { prop := "C05", code := "ion:space", detail := showStr o.text }
        else none
      | some nsp =>
        match o.word with
        | none => none
        | some w =>
          let full := sh == .zsh && (zshSt i == .fullQuoting || zshSt i == .fullQuotingEscaping)
          let matching := cands.filter (fun c => dropTCL c.value == dropTCL w)
          if isErr then (if nsp then none else some { prop := "C05", code := s!"{sh.name}:err_entry_space", detail := showStr o.text })
          -- a blank *inside* the quotes the typed word closes: the space ends up in the word, not after it
          else if full && matching.isEmpty && cands.any (fun c => dropTCL c.value ++ [' '] == dropTCL w) then
            some { prop := "C05", code := "zsh:full_quote_space", detail := showStr o.text }
          else if matching.isEmpty then none
          else if full then (if nsp then none else some { prop := "C05", code := "zsh:full_quote_space", detail := showStr o.text })
          else if matching.any (fun c => nospaceOk ns c.value nsp) then none
          else some { prop := "C05", code := s!"{sh.name}:{if nsp then "nospace_not_wanted" else "space_not_wanted"}", detail := showStr o.text })

/-- C06: messages reach the user; error entries cannot be inserted by accident -/
def checkC06 (i : FmtInput) (cands : List RawValue) (dec : Decoded) (obs : List Obs) (commonStep : Bool) (emitted : Nat) : List Failure :=
  if i.msgs.isEmpty || commonStep then
    []
  else if i.sh.hasMessageChannel then
    let got := dec.messages.map dropTCL
    let want := i.msgs.map dropTCL
    let usageOk := true
    if want.all (fun m => got.any (fun g => g == m || (i.sh == .zsh && dropTCL (g.filter (fun c => c.toNat != 0x0B && c.toNat != 0x0C && c.toNat != 0x08)) == dropTCL (m.filter (fun c => c.toNat != 0x0B && c.toNat != 0x0C && c.toNat != 0x08))))) && usageOk then []
    else [{ prop := "C06", code := s!"{i.sh.name}:message_lost", detail := s!"{got.map showStr} vs {want.map showStr}" }]
  else
    let whole := insertsWhole i obs.length
    let errs := if whole then obs.filter (isErrObs i cands)
                else obs.filter (fun o => (headTokens o.text).any (fun h => endsErrLike h && !cands.any (fun c => c.display == h)))
    let hasDescr := i.sh != .bash && i.sh != .oil && i.sh != .tcsh && i.sh != .ion
    let f1 : List Failure :=
      if errs.length < i.msgs.length then [{ prop := "C06", code := s!"{i.sh.name}:err_entries_missing", detail := s!"{errs.length} entries for {i.msgs.length} messages" }] else []
    let f2 : List Failure :=
      if !hasDescr || !whole then [] else
      i.msgs.filterMap (fun m =>
        if errs.any (fun o => descOk o.rc.description m) then none
        else some { prop := "C06", code := s!"{i.sh.name}:message_not_shown", detail := showStr m })
    let words := errs.filterMap (·.word)
    let f3 : List Failure :=
      if insertsWhole i obs.length && words.eraseDups.length != words.length then [{ prop := "C06", code := s!"{i.sh.name}:err_values_collide" }] else []
    let f4 : List Failure :=
      if insertsWhole i obs.length && words.any (fun w => cands.any (fun c => insertValue i c.value == w)) then [{ prop := "C06", code := s!"{i.sh.name}:err_value_is_candidate" }] else []
    let f5 : List Failure :=
      if max obs.length emitted < 2 then [{ prop := "C06", code := s!"{i.sh.name}:single_entry", detail := s!"{obs.length}" }] else []
    let f6 : List Failure :=
      if !insertsWhole i obs.length then [] else
      (obs.filter (isErrObs i cands)).filterMap (fun o =>
        match o.word with
        | some w =>
          if matchHasPrefix i.env.ci w (dropTCL (typedSegment i)) || (i.sh == .ion && matchHasPrefix i.env.ci (Str.trimSuffix w [' ']) (dropTCL (typedSegment i))) then none
          else some { prop := "C06", code := s!"{i.sh.name}:err_entry_not_extending", detail := showStr w ++ " typed " ++ showStr (typedSegment i) }
        | none => none)
    f1 ++ f2 ++ f3 ++ f4 ++ f5 ++ f6

/-- bash / tcsh may emit the candidates' longest common prefix as one partial step -/
def isCommonStep (i : FmtInput) (cands : List RawValue) (errCount : Nat) (obs : List Obs) : Bool :=
  (i.sh == .bash || i.sh == .tcsh) && cands.length + errCount > 1 && obs.length == 1 &&
    match obs.head? with
    | some o =>
      match o.word with
      | some w => cands.all (fun c => Str.hasPrefix (dropTCL (insertValue i c.value)) (dropTCL w))
      | none => false
    | none => false

def checkAll (i : FmtInput) (dec : Option Decoded) : List Failure × Nat :=
  match dec with
  | none => ([{ prop := "C04", code := s!"{i.sh.name}:undecodable" }], 0)
  | some dec =>
    let shown := specShown i
    -- list-only mode prints display texts: every candidate has its line there
    let listMode := i.sh == .bash && i.env.bashCompType == "63".toList && dec.recs.length != 1 &&
      !(shown.length == 1 && i.msgs.isEmpty)   -- a single value is always formatted for insertion
    let cands := if listMode then shown else specCands i
    -- the filler entry is decided on what the code counts: every candidate to be shown
    let errCount :=
      if i.msgs.isEmpty || i.sh.hasMessageChannel then 0
      else i.msgs.length + (if shown.length + i.msgs.length == 1 then 1 else 0)
    let emitted := dec.recs.length
    let dec := if listMode then dec else { dec with recs := dropEmptyRecs (shown.length - cands.length) dec.recs }
    let obs := dec.recs.map (observe i)
    let cs := isCommonStep i cands errCount obs
    (checkC02 i cands obs cs ++ checkC03 i cands obs cs ++ checkC04 i cands errCount dec obs cs
      ++ checkC05 i cands dec obs cs emitted ++ checkC06 i cands dec obs cs emitted, softC03 i obs)

end Carapace.Spec
