/-
  SPEC (trusted, tied to the real package by op `cobrafind`): how cobra v1.9.1 picks the command a line belongs to -
  `Command.Find` with its helpers `stripFlags`, `argsMinusFirstX`, `findNext` (command.go; `TraverseChildren` off,
  `EnablePrefixMatching` / `EnableCaseInsensitive` off).  cobra is a dependency: this is a model of it, compared with
  `root.Find(words)` of the real package on every generated tree and line.
-/
import Carapace.Model.Traverse

namespace Carapace.Spec.Cobra
open Carapace Carapace.Model Carapace.Spec

/-- `hasNoOptDefVal(name, flags)`: the flag exists and has a default for the bare form -/
def longHasNoOptDef (fs : Pflag.PFlags) (n : Str) : Bool :=
  match Pflag.findLong fs n with
  | some f => f.noOptDefVal.isSome
  | none => false

/-- `shortHasNoOptDefVal(name, flags)`: looked up by the first letter -/
def shortHasNoOptDef (fs : Pflag.PFlags) (n : Str) : Bool :=
  match n with
  | [] => false
  | c :: _ =>
    match Pflag.findShort fs c with
    | some f => f.noOptDefVal.isSome
    | none => false

/-- the two `case`s of `stripFlags` / `argsMinusFirstX` that make cobra skip the following word: `--flag` or `-f`
    (exactly two characters), no `=`, and the flag - if it exists at all - has no default for the bare form -/
def takesNext (fs : Pflag.PFlags) (s : Str) : Bool :=
  (Str.hasPrefix s ['-', '-'] && !s.elem '=' && !longHasNoOptDef fs (s.drop 2)) ||
  (Str.hasPrefix s ['-'] && !s.elem '=' && s.length == 2 && !shortHasNoOptDef fs (s.drop 1))

/-- `stripFlags`: the words cobra takes for command names / positional arguments (`skip`: the word at the head is the
    value of the flag before it) -/
def stripFlagsAux (fs : Pflag.PFlags) : List Str → Bool → List Str
  | [], _ => []
  | _ :: rest, true => stripFlagsAux fs rest false
  | s :: rest, false =>
    if s = ['-', '-'] then []
    else if takesNext fs s then
      (if rest.length ≤ 1 then [] else stripFlagsAux fs rest true)      -- `len(args) <= 1`: the loop ends
    else if s ≠ [] ∧ Str.hasPrefix s ['-'] = false then s :: stripFlagsAux fs rest false
    else stripFlagsAux fs rest false

def stripFlags (fs : Pflag.PFlags) (args : List Str) : List Str := stripFlagsAux fs args false

/-- `argsMinusFirstX`: the line without the first word that is `x` and not a flag or a flag's value -/
def argsMinusFirstXAux (fs : Pflag.PFlags) (x : Str) : List Str → Bool → List Str
  | [], _ => []
  | a :: rest, true => a :: argsMinusFirstXAux fs x rest false
  | s :: rest, false =>
    if s = ['-', '-'] then s :: rest
    else if takesNext fs s then s :: argsMinusFirstXAux fs x rest true
    else if Str.hasPrefix s ['-'] = false then (if s = x then rest else s :: argsMinusFirstXAux fs x rest false)
    else s :: argsMinusFirstXAux fs x rest false

def argsMinusFirstX (fs : Pflag.PFlags) (x : Str) (args : List Str) : List Str := argsMinusFirstXAux fs x args false

/-- `Find` / `innerfind`: the command the line is dispatched to and the words handed to it (flags included) -/
def find (t : TTree) : Nat → Nat → List Str → Nat × List Str
  | 0, c, args => (c, args)
  | fuel + 1, c, args =>
    let fs := flagsAt t (t.size + 1) c
    match stripFlags fs args with
    | [] => (c, args)
    | next :: _ =>
      match childNamed t c next with
      | some k => find t fuel k (argsMinusFirstX fs next args)
      | none => (c, args)

end Carapace.Spec.Cobra
