/-
  MODEL of traverse.go: which completion slot carapace picks for the word under the cursor.
  The classification loop over the earlier words (flag argument / dash / flag / sub-command /
  positional), the fix-up of the words handed to the program's parser (`toParse`), that parse
  (Spec/Pflag.lean - the parser is a dependency), and the final case distinction.
  POSIX flag sets, nargs 0/1; `help` and `_carapace` are not followed.
-/
import Carapace.Model.PflagFork
import Carapace.Spec.Pflag

namespace Carapace.Model
open Carapace Carapace.Spec

structure TCmd where
  name : Str
  aliases : List Str := []
  parent : Option Nat := none
  interspersed : Bool := true
  noFlagParse : Bool := false
  /-- flags defined on this command; `true` = persistent -/
  flags : List (Pflag.PFlag × Bool) := []
  deriving Repr, Inhabited

abbrev TTree := Array TCmd

/-- the flag set `cmd.Flags()` sees: own flags, then the persistent flags of the ancestors (nearest
    first), a name already present shadowing the inherited one -/
def flagsAt (t : TTree) : Nat → Nat → Pflag.PFlags
  | 0, _ => []
  | fuel + 1, c =>
    match t[c]? with
    | none => []
    | some cs =>
      let mine := cs.flags.map (·.1)
      let rec inherit (fuel : Nat) (p : Option Nat) (acc : Pflag.PFlags) : Pflag.PFlags :=
        match fuel, p with
        | 0, _ => acc
        | _, none => acc
        | f + 1, some q =>
          match t[q]? with
          | none => acc
          | some qs =>
            let add := (qs.flags.filter (·.2)).map (·.1) |>.filter (fun g => !acc.any (fun h => h.name == g.name))
            inherit f qs.parent (acc ++ add)
      inherit fuel cs.parent mine

inductive Slot where
  /-- the parser rejected the words: an error message is shown -/
  | message
  | dash (cmd idx : Nat)
  | flagValue (cmd : Nat) (name : Str)
  /-- `--flag=<TAB>`, `-f=<TAB>`, `-f<TAB>` with the value attached: the flag's completion, prefixed -/
  | flagValueAttached (cmd : Nat) (name : Str) (pre : Str)
  | boolValues (cmd : Nat) (pre : Str)
  | flagNames (cmd : Nat)
  | positional (cmd idx : Nat)
  /-- a command the model does not follow (`help`, `_carapace`) -/
  | notFollowed
  deriving DecidableEq, Repr, Inhabited

structure LoopState where
  inArgs : List Str := []
  nPos : Nat := 0
  inFlag : Option Found := none
  deriving Repr, Inhabited

/-- the child of `c` that the word names (cobra `Find` on a single word: flag-like words name nothing) -/
def childNamed (t : TTree) (c : Nat) (w : Str) : Option Nat :=
  if Str.hasPrefix w ['-'] then none
  else (List.range t.size).find? (fun k => match t[k]? with
    | some cs => cs.parent == some c && (cs.name == w || cs.aliases.elem w)
    | none => false)

def isShorthandSeries (v : Str) : Bool :=
  match v with
  | '-' :: c :: _ => c != '-'
  | _ => false

/-- index of the last occurrence of the character -/
def lastIndexOfChar (s : Str) (c : Char) : Option Nat :=
  ((List.range s.length).filter (fun i => s[i]? == some c)).getLast?

inductive LoopOut where
  | done (st : LoopState) (afterDash : Bool)
  | descend (child : Nat) (rest : List Str) (inArgs : List Str)

/-- what one earlier word is taken for -/
inductive WordClass where
  | next (st : LoopState)       -- flag argument, flag, or positional: go on
  | dash
  | child (k : Nat)

def classify (t : TTree) (c : Nat) (cs : TCmd) (fs : FlagSet) (arg : Str) (st : LoopState) : WordClass :=
  let noFlag : WordClass :=
    if arg == "--".toList then .dash
    else if !cs.noFlagParse && Str.hasPrefix arg ['-'] && (cs.interspersed || st.nPos == 0) then
      .next { st with inArgs := st.inArgs ++ [arg], inFlag := lookupArg fs arg }
    else match childNamed t c arg with
      | some k => .child k
      | none => .next { st with inArgs := st.inArgs ++ [arg], nPos := st.nPos + 1, inFlag := st.inFlag }
  match st.inFlag with
  | some fd =>
    if consumes fd then
      let fd' : Found := { fd with args := fd.args ++ [arg] }
      .next { st with inArgs := st.inArgs ++ [arg], inFlag := if consumes fd' then some fd' else none }
    else noFlag
  | none => noFlag

/-- the classification loop of `traverse` over the earlier words -/
def loop (t : TTree) (c : Nat) (cs : TCmd) (fs : FlagSet) : List Str → LoopState → LoopOut
  | [], st => .done st false
  | arg :: rest, st =>
    match classify t c cs fs arg st with
    | .next st' => loop t c cs fs rest st'
    | .dash => .done { st with inArgs := st.inArgs ++ arg :: rest } true
    | .child k => .descend k rest st.inArgs

/-- the slot for the word under the cursor, from command `c` on -/
def traverseSlot (t : TTree) : Nat → Nat → List Str → Str → Slot
  | 0, _, _, _ => .notFollowed
  | fuel + 1, c, args, value =>
    match t[c]? with
    | none => .notFollowed
    | some cs =>
      if cs.name == "help".toList || cs.name == "_carapace".toList then .notFollowed else
      let pfs := flagsAt t (t.size + 1) c
      let fs : FlagSet := pfs.map (·.toDef)
      match loop t c cs fs args {} with
      | .descend k rest inArgs =>
        if cs.noFlagParse then traverseSlot t fuel k rest value
        else match Pflag.parse pfs cs.interspersed inArgs with
          | .error _ => .message
          | .ok _ => traverseSlot t fuel k rest value
      | .done st _ =>
        let flagOk := cs.interspersed || st.nPos == 0
        -- the words handed to the program's parser
        let toParse : List Str :=
          match st.inFlag with
          | some fd =>
            if fd.args.isEmpty && consumes fd then st.inArgs.dropLast
            else seriesFix fs flagOk st.inArgs value
          | none => seriesFix fs flagOk st.inArgs value
        let parsed : Except Pflag.Err Pflag.Parsed :=
          if cs.noFlagParse then .ok { args := st.inArgs } else Pflag.parse pfs cs.interspersed toParse
        match parsed with
        | .error _ => .message
        | .ok p =>
          match p.lenAtDash with
          | some n => .dash c (p.args.length - n)
          | none =>
            match st.inFlag with
            | some fd => if consumes fd then .flagValue c fd.flag.name else flagOrPositional cs fs c flagOk p value
            | none => flagOrPositional cs fs c flagOk p value
where
  seriesFix (fs : FlagSet) (flagOk : Bool) (inArgs : List Str) (value : Str) : List Str :=
    if flagOk && isShorthandSeries value then
      match lookupArg fs value with
      | some lf =>
        if (lf.args.isEmpty || lf.args.head? == some []) && (!lf.flag.noOptDef || lf.prefix_.getLast? == some '=') then
          -- the last flag of the series misses its argument: drop it from what is parsed
          let cut := match lf.flag.short with
            | some sc => (lastIndexOfChar lf.prefix_ sc).getD lf.prefix_.length
            | none => 0
          inArgs ++ [lf.prefix_.take cut]
        else inArgs ++ [value]
      | none => inArgs ++ [value]
    else inArgs
  flagOrPositional (cs : TCmd) (fs : FlagSet) (c : Nat) (flagOk : Bool) (p : Pflag.Parsed) (value : Str) : Slot :=
    if !cs.noFlagParse && Str.hasPrefix value ['-'] && flagOk then
      match lookupArg fs value with
      | some f =>
        if !f.args.isEmpty then
          (if !f.flag.takesValue && f.flag.noOptDef && f.flag.name != [] then .boolValues c f.prefix_ else .flagValueAttached c f.flag.name f.prefix_)
        else if !Str.hasPrefix value ['-', '-'] && !f.flag.noOptDef && f.prefix_ == value then .flagValueAttached c f.flag.name f.prefix_
        else .flagNames c
      | none => .flagNames c
    else .positional c p.args.length

end Carapace.Model
