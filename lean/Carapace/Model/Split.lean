/-
  MODEL of `Action.split` (action.go:284-332).  The lexer (carapace-shlex) is a dependency: what
  it reports for the typed text (`Lex`) is an input of the model, taken from the real lexer.
-/
import Carapace.Model.Actions

namespace Carapace.Model
open Carapace

structure Lex where
  words : List Str            -- tokens...Words().Strings() (redirect-filtered for SplitP)
  wordsCurIndex : Nat         -- tokens.Words().CurrentToken().Index  (counts runes)
  curIndex : Nat              -- tokens.CurrentToken().Index
  curValue : Str
  curState : String           -- tokens.CurrentToken().State
  ntokens : Nat
  prevRedirect : Bool
  deriving Repr, Inhabited

def replaceChar (c : Char) (by_ : Str) (s : Str) : Str := s.flatMap (fun x => if x = c then by_ else [x])

/-- the quoting step of `split` for one value -/
def splitQuote (state : String) (ns : SuffixMatcher) (v : Str) : Str :=
  let q :=
    if !SuffixMatcher.matchesStr ns v || v.elem ' ' then
      (if state == "QUOTING_ESCAPING_STATE" then ['"'] ++ replaceChar '"' ['\\', '"'] v ++ ['"']
       else if state == "QUOTING_STATE" then ['\''] ++ replaceChar '\'' "'\"'\"'".toList v ++ ['\'']
       else replaceChar ' ' ['\\', ' '] v)
    else v
  if !SuffixMatcher.matchesStr ns v then q ++ [' '] else q

/-- Context the wrapped action is invoked with -/
def splitCtx (lex : Lex) : List Str × Str :=
  match lex.words.reverse with
  | [] => ([], [])
  | l :: r => (r.reverse, l)

/-- `split(pipelines)` when the wrapped action yields `vals` with no-space set `ns`
    (not the redirect case); the prefix slices *bytes* at a *rune* index, as the code does -/
def splitModel (lex : Lex) (text : Str) (vals : List Str) (ns : SuffixMatcher) : List Str :=
  let prefix_ := Utf8.takeBytesLossy lex.wordsCurIndex text
  vals.map (fun v => prefix_ ++ splitQuote lex.curState ns v)

def isRedirectCase (pipelines : Bool) (lex : Lex) : Bool := pipelines && lex.ntokens > 1 && lex.prevRedirect

end Carapace.Model
