/-
  MODEL of `Action.Timeout(d, alternative)` (action.go:395-412): a goroutine computes the wrapped
  action's result and sends on a buffered channel; the caller selects between that channel and a
  timer.  Abstract time; `dur = none`: the wrapped action never returns.
-/
import Carapace.Basic.Str

namespace Carapace.Model

/-- what the caller returns and when: `tie` resolves the `select` when both branches are ready -/
def timeoutRun {α} (d : Nat) (dur : Option Nat) (result alt : α) (tie : Bool) : α × Nat :=
  match dur with
  | none => (alt, d)
  | some t => if t < d then (result, t) else if d < t then (alt, d) else (if tie then result else alt, d)

/-- events of one invocation, with the time at which each happens -/
structure TTrace where
  gWrite : Nat      -- the goroutine assigns `result`
  gSend : Nat       -- ... then sends on the channel
  mRecv : Nat       -- the caller receives
  mRead : Nat       -- ... then reads `result`
  deriving Repr

/-- the orders the Go memory model guarantees: program order in each goroutine, and a receive
    from a channel happens after the corresponding send -/
def TTrace.Valid (t : TTrace) : Prop := t.gWrite < t.gSend ∧ t.gSend < t.mRecv ∧ t.mRecv < t.mRead

/-- a send on a channel with `cap` buffer slots and `buffered` pending elements blocks iff full -/
def sendBlocks (cap buffered : Nat) : Bool := buffered ≥ cap

end Carapace.Model
