/-
  MODEL of path handling and `actionPath` (internalActions.go:17-85, context.go:131-159) followed
  by `MultiParts("/")`: lexical path functions of path/filepath (Clean, Dir, Base - a dependency,
  modelled) over `/`-separated paths, and the listing logic over a directory listing that the
  harness reads from the file system (the OS is not modelled).
-/
import Carapace.Model.Actions

namespace Carapace.Model
open Carapace

/-! ### path/filepath (unix) -/

def pathSegs (p : Str) : List Str := Str.splitOnChar '/' p

/-- `filepath.Clean` -/
def pathClean (p : Str) : Str :=
  if p.isEmpty then ['.'] else
  let rooted := p.head? == some '/'
  let step (acc : List Str) (s : Str) : List Str :=
    if s.isEmpty || s == ['.'] then acc
    else if s == ['.', '.'] then
      match acc.getLast? with
      | some l => if l == ['.', '.'] then acc ++ [s] else acc.dropLast
      | none => if rooted then acc else acc ++ [s]
    else acc ++ [s]
  let segs := (pathSegs p).foldl step []
  let body := Str.join ['/'] segs
  if rooted then '/' :: body else if body.isEmpty then ['.'] else body

/-- `filepath.Dir` -/
def pathDir (p : Str) : Str :=
  -- everything up to the last separator, cleaned
  let segs := pathSegs p
  if segs.length ≤ 1 then ['.'] else
  let d := Str.join ['/'] segs.dropLast
  pathClean (if d.isEmpty then ['/'] else d)

/-- `filepath.Base` -/
def pathBase (p : Str) : Str :=
  if p.isEmpty then ['.'] else
  let t := (p.reverse.dropWhile (· == '/')).reverse
  if t.isEmpty then ['/'] else (pathSegs t).getLast?.getD []

/-- `Context.Abs` for a relative or absolute path (no `~`): absolute, cleaned, a trailing `/` or `/.` kept -/
def ctxAbs (dir path : Str) : Str :=
  let p := if path.head? == some '/' then path else (if dir.isEmpty then "./".toList ++ path else dir ++ ['/'] ++ path)
  let r := pathClean p
  if Str.hasSuffix p ['/'] && !Str.hasSuffix r ['/'] then r ++ ['/']
  else if Str.hasSuffix p ['/', '.'] && !Str.hasSuffix r ['/', '.'] then r ++ ['/', '.']
  else r

/-! ### the listing -/

inductive EKind where
  | dir | file | linkDir | linkFile | linkBroken
  deriving DecidableEq, Repr, Inhabited

structure DirEntry where
  name : Str
  kind : EKind
  deriving Repr, Inhabited

/-- what one directory entry contributes -/
def entryValue (showHidden dirOnly : Bool) (suffixes : List Str) (df : Str) (e : DirEntry) : Option Str :=
  if !showHidden && Str.hasPrefix e.name ['.'] then none
  else match e.kind with
    | .dir | .linkDir => some (df ++ e.name ++ ['/'])
    | _ => if dirOnly then none
           else if suffixes.any (fun s => Str.hasSuffix e.name s) then some (df ++ e.name) else none

/-- the values `actionPath(fileSuffixes, dirOnly)` yields for typed text `typed`, Context directory
    `dir`, and the listing `entries` of the folder it reads -/
def actionPathValues (dir typed : Str) (entries : List DirEntry) (dirOnly : Bool) (suffixes : List Str) : List Str :=
  let abs := ctxAbs dir typed
  let df := pathDir typed
  let displayFolder := if df == ['.'] then [] else if Str.hasSuffix df ['/'] then df else df ++ ['/']
  let showHidden := !Str.hasSuffix abs ['/'] && Str.hasPrefix (pathBase abs) ['.']
  let suffixes := if suffixes.isEmpty then [[]] else suffixes
  let vals := entries.filterMap (entryValue showHidden dirOnly suffixes displayFolder)
  if Str.hasPrefix typed ['.', '/'] then vals.map (fun v => "./".toList ++ v) else vals

/-- `ActionFiles` / `ActionDirectories`: `actionPath(...).MultiParts("/")` (values only) -/
def filesModel (dir typed : Str) (entries : List DirEntry) (dirOnly : Bool) (suffixes : List Str) : Option (List Str) :=
  let vs := (actionPathValues dir typed entries dirOnly suffixes).map mkValue
  (toMultiPartsValues false [['/']] vs typed).map (·.map (·.value))

end Carapace.Model
