/-
  MODEL of the Action cache: `Action.Cache` (action.go:36-60), internal/cache (File, LoadE,
  WriteE, Load) and pkg/cache/key.String, over an abstract file system and clock.
  SPEC: an abstract store keyed by (call site, key tuple).
-/
import Carapace.Model.Actions

namespace Carapace.Model
open Carapace

/-- a key tuple: `key.String(s...)` per key -/
abbrev Keys := List (List Str)

/-- `key.String(s...)` = Join(s, "\n") -/
def keyId (k : List Str) : Str := Str.join ['\n'] k

/-- `uidKeys(ids...)` hashes Join(ids, "\x01"); sha1 is treated as injective, so the joined text is the name -/
def keysName (ks : Keys) : Str := Str.join [Char.ofNat 1] (ks.map keyId)

/-- the cache file: directory named after the call site, file named after the keys -/
def cachePath (site : Str) (ks : Keys) : Str × Str := (site, keysName ks)

/-- file content: a readable export document with this result, or something that does not parse -/
structure CFile where
  content : Option Nat      -- `some r`: the stored result (identified by the number of the real invocation); `none`: corrupt
  mtime : Int
  deriving Repr, DecidableEq, Inhabited

structure CState where
  files : List ((Str × Str) × CFile) := []
  now : Int := 0
  counter : Nat := 0          -- number of real invocations so far
  /-- paths that can neither be read nor replaced (a directory, a symbolic link onto itself) -/
  blocked : List (Str × Str) := []
  deriving Repr, Inhabited

inductive COp where
  /-- invoke the cached action registered at `site`; keys evaluate to `kb` before and `ka` after the
      real invocation; `msg`: the fresh result carries an error message -/
  | invoke (site : Str) (kb ka : Keys) (timeout : Int) (msg : Bool)
  | advance (dt : Nat)
  | corrupt (site : Str) (ks : Keys)
  /-- the entry's path is replaced by something `ReadFile` and `WriteFile` both fail on -/
  | block (site : Str) (ks : Keys)
  deriving Repr, Inhabited

def lookupF {α β} [DecidableEq α] (l : List (α × β)) (k : α) : Option β :=
  match l with
  | [] => none
  | (k', v) :: r => if k' = k then some v else lookupF r k

def updateF {α β} [DecidableEq α] (l : List (α × β)) (k : α) (v : β) : List (α × β) :=
  match l with
  | [] => [(k, v)]
  | (k', v') :: r => if k' = k then (k, v) :: r else (k', v') :: updateF r k v

def eraseF {α β} [DecidableEq α] (l : List (α × β)) (k : α) : List (α × β) := l.filter (fun p => p.1 ≠ k)

/-- output of an invocation: which real invocation's result is returned, and whether a real
    invocation happened now -/
abbrev COut := Option (Nat × Bool)

/-- `Load` + `LoadE`: a hit needs an existing file, young enough (or timeout < 0), that parses -/
def cacheLoad (s : CState) (p : Str × Str) (timeout : Int) : Option Nat :=
  match lookupF s.files p with
  | none => none
  | some f => if timeout ≥ 0 ∧ f.mtime + timeout < s.now then none else f.content

def cacheStep (s : CState) : COp → CState × COut
  | .invoke site kb ka timeout msg =>
    match cacheLoad s (cachePath site kb) timeout with
    | some r => (s, some (r, false))
    | none =>
      let r := s.counter + 1
      let s' := { s with counter := r }
      -- results that carry messages are not stored; the file name is computed again after the invocation
      if msg then (s', some (r, true))
      -- `WriteE` fails on a blocked path (the error is dropped): nothing is stored
      else if cachePath site ka ∈ s.blocked then (s', some (r, true))
      else ({ s' with files := updateF s'.files (cachePath site ka) { content := some r, mtime := s.now } }, some (r, true))
  | .advance dt => ({ s with now := s.now + dt }, none)
  | .corrupt site ks =>
    match lookupF s.files (cachePath site ks) with
    | none => (s, none)
    | some f => ({ s with files := updateF s.files (cachePath site ks) { f with content := none } }, none)
  | .block site ks =>
    ({ s with files := eraseF s.files (cachePath site ks), blocked := cachePath site ks :: s.blocked }, none)

/-! ### the abstract store -/

structure SEntry where
  result : Nat
  time : Int
  deriving Repr, DecidableEq, Inhabited

structure SState where
  store : List ((Str × Keys) × SEntry) := []
  now : Int := 0
  counter : Nat := 0
  /-- entries that cannot be stored (their file can be neither read nor replaced) -/
  blocked : List (Str × Keys) := []
  deriving Repr, Inhabited

/-- a usable entry: present and not older than the timeout (never expires for a negative timeout) -/
def storeHit (s : SState) (site : Str) (kb : Keys) (timeout : Int) : Option Nat :=
  match lookupF s.store (site, kb) with
  | none => none
  | some e => if timeout ≥ 0 ∧ e.time + timeout < s.now then none else some e.result

def storeStep (s : SState) : COp → SState × COut
  | .invoke site kb ka timeout msg =>
    match storeHit s site kb timeout with
    | some r => (s, some (r, false))
    | none =>
      let r := s.counter + 1
      let s' := { s with counter := r }
      if msg then (s', some (r, true))
      else if (site, ka) ∈ s.blocked then (s', some (r, true))
      else ({ s' with store := updateF s'.store (site, ka) { result := r, time := s.now } }, some (r, true))
  | .advance dt => ({ s with now := s.now + dt }, none)
  | .corrupt site ks => ({ s with store := eraseF s.store (site, ks) }, none)
  | .block site ks => ({ s with store := eraseF s.store (site, ks), blocked := (site, ks) :: s.blocked }, none)

def runCache (ops : List COp) : List COut :=
  (ops.foldl (fun (acc : CState × List COut) op => let (s', o) := cacheStep acc.1 op; (s', acc.2 ++ [o])) ({}, [])).2

def runStore (ops : List COp) : List COut :=
  (ops.foldl (fun (acc : SState × List COut) op => let (s', o) := storeStep acc.1 op; (s', acc.2 ++ [o])) ({}, [])).2

end Carapace.Model
