/-
  MODEL of internal/common: RawValue, SuffixMatcher, Messages, Meta, TrimmedDescription,
  FilterPrefix, Integrate.  Transcribed from the Go code (value.go, suffix.go, message.go,
  meta.go, pkg/match/match.go); tied to it by the `value` correspondence op.
-/
import Carapace.Basic.Str
import Carapace.Gen.Shells

namespace Carapace.Model
open Carapace

structure RawValue where
  value : Str
  display : Str
  description : Str := []
  style : Str := []
  tag : Str := []
  uid : Str := []
  deriving DecidableEq, Repr, Inhabited

/-- `RawValue.TrimmedDescription` (value.go) -/
def trimmedDescription (maxLength : Nat) (d : Str) : Str :=
  let first := (Str.splitOnChar '\n' d).headD []
  let t := Str.trimSpace first
  if t.length > maxLength then t.take (maxLength - 3) ++ ['.', '.', '.'] else t

def RawValue.trimmed (r : RawValue) : Str := trimmedDescription Gen.common_maxLength r.description

/-! ### SuffixMatcher (suffix.go): a sorted duplicate-free string, `*` absorbing -/

abbrev SuffixMatcher := Str

namespace SuffixMatcher

def insertRune (s : Str) (r : Char) : Str := insertSorted (fun a b => a.toNat < b.toNat) r s

/-- `Add(suffixes...)` -/
def add (sm : SuffixMatcher) (suffixes : Str) : SuffixMatcher :=
  if sm.elem '*' || suffixes.elem '*' then ['*']
  else
    -- runes not contained in the *old* string are appended (duplicates within `suffixes` are kept), then sorted
    let extra := suffixes.filter (fun r => !sm.elem r)
    sortBy (fun a b => a.toNat < b.toNat) (sm ++ extra)

/-- `Merge(other)`: one `Add` per rune -/
def merge (sm other : SuffixMatcher) : SuffixMatcher := other.foldl (fun acc r => add acc [r]) sm

/-- `Matches(s)` -/
def matchesStr (sm : SuffixMatcher) (s : Str) : Bool :=
  sm.any (fun r => r == '*' || s.getLast? == some r)

end SuffixMatcher

structure Meta where
  messages : List Str := []     -- sorted, duplicate free (a Go map[string]bool read through Get())
  nospace : SuffixMatcher := []
  usage : Str := []
  deriving DecidableEq, Repr, Inhabited

/-- insert into a sorted duplicate-free list of strings -/
def insertMsg (m : Str) : List Str → List Str
  | [] => [m]
  | x :: xs => if m = x then x :: xs else if Str.lt m x then m :: x :: xs else x :: insertMsg m xs

def mergeMsgs (a b : List Str) : List Str := b.foldl (fun acc m => insertMsg m acc) a

/-- `Meta.Merge(other)` (meta.go) -/
def Meta.merge (m other : Meta) : Meta :=
  { usage := if other.usage.isEmpty then m.usage else other.usage
    nospace := SuffixMatcher.merge m.nospace other.nospace
    messages := mergeMsgs m.messages other.messages }

/-! ### pkg/match -/

/-- `match.HasPrefix(s, prefix)`; `ci` = CARAPACE_MATCH case-insensitive (ASCII letters only in the model) -/
def matchHasPrefix (ci : Bool) (s p : Str) : Bool :=
  if ci then Str.hasPrefix (Str.lower s) (Str.lower p) else Str.hasPrefix s p

/-- `RawValues.FilterPrefix` -/
def filterPrefix (ci : Bool) (vs : List RawValue) (p : Str) : List RawValue :=
  vs.filter (fun v => matchHasPrefix ci v.value p)

/-- `ByDisplay.Less`: by display text, ties broken by value -/
def byDisplayLt (a b : RawValue) : Bool :=
  Str.lt a.display b.display || (a.display == b.display && Str.lt a.value b.value)

/-! ### Messages.Integrate (message.go) -/

def errS : Str := ['E', 'R', 'R']

/-- the prefix with a trailing `ERR` / `ER` / `E` cut off -/
def errPrefix (p : Str) : Str :=
  if Str.hasSuffix p errS then Str.trimSuffix p errS
  else if Str.hasSuffix p ['E', 'R'] then Str.trimSuffix p ['E', 'R']
  else if Str.hasSuffix p ['E'] then Str.trimSuffix p ['E']
  else p

def containsValue (vs : List RawValue) (s : Str) : Bool := vs.any (fun v => v.value == s)

def errName (p : Str) (i : Nat) : Str × Str :=
  if i = 0 then (p ++ errS, errS) else (p ++ errS ++ Str.natToStr i, errS ++ Str.natToStr i)

/-- the inner `for` loop: the first counter `≥ i` whose name is free; returns (value, display, next counter) -/
def findFree (vs : List RawValue) (p : Str) : Nat → Nat → Str × Str × Nat
  | 0, i => let (v, d) := errName p i; (v, d, i + 1)          -- fuel exhausted (cannot happen, see lemma)
  | fuel + 1, i =>
    let (v, d) := errName p i
    if containsValue vs v then findFree vs p fuel (i + 1) else (v, d, i + 1)

/-- the outer loop over the sorted messages; the counter never resets -/
def integrateLoop (errStyle : Str) (p : Str) : List Str → List RawValue → Nat → List RawValue
  | [], vs, _ => vs
  | m :: ms, vs, i =>
    let (v, d, i') := findFree vs p (vs.length + 1) i
    integrateLoop errStyle p ms (vs ++ [{ value := v, display := d, description := m, style := errStyle }]) i'

/-- `Messages.Integrate(values, prefix)`; result *before* the final sort -/
def integrateUnsorted (errStyle dfltStyle : Str) (msgs : List Str) (vs : List RawValue) (prefix_ : Str) : List RawValue :=
  if msgs.isEmpty then vs
  else
    let p := errPrefix prefix_
    let vs' := integrateLoop errStyle p msgs vs 0
    if vs'.length = 1 then vs' ++ [{ value := p ++ ['_'], display := ['_'], description := [], style := dfltStyle }] else vs'

def integrate (errStyle dfltStyle : Str) (msgs : List Str) (vs : List RawValue) (prefix_ : Str) : List RawValue :=
  if msgs.isEmpty then vs else sortBy byDisplayLt (integrateUnsorted errStyle dfltStyle msgs vs prefix_)

end Carapace.Model
