/-
  MODEL of the slice / index arithmetic on user text reachable from the completion entry point
  (C18).  Go's slice and index expressions panic outside their bounds; here they are operations in
  `Except Panic`, so "does not panic" is a statement about the model rather than an artefact of
  total list functions.
    bash.CompLine                internal/shell/bash/patch.go
    RawValue.TrimmedDescription  internal/common/value.go
    namedDirectories.match / Replace, expandHome, Context.Abs   internal/shell/zsh/namedDirectory.go, context.go
-/
import Carapace.Basic.Str
import Carapace.Model.Common
import Carapace.Model.Files

namespace Carapace.Model

inductive Panic where
  | sliceBounds | indexRange
  deriving DecidableEq, Repr

abbrev P := Except Panic

deriving instance DecidableEq for Except

/-- `l[:n]` -/
def sliceTo {α} (l : List α) (n : Int) : P (List α) :=
  if 0 ≤ n ∧ n ≤ (l.length : Int) then .ok (l.take n.toNat) else .error .sliceBounds

/-- `l[n:]` -/
def sliceFrom {α} (l : List α) (n : Int) : P (List α) :=
  if 0 ≤ n ∧ n ≤ (l.length : Int) then .ok (l.drop n.toNat) else .error .sliceBounds

/-- `l[i]` -/
def indexP {α} (l : List α) (i : Nat) : P α :=
  match l[i]? with
  | some a => .ok a
  | none => .error .indexRange

/-- `strconv.Atoi`: optional sign, ASCII digits, within int64 -/
def atoi (s : Str) : Option Int :=
  let (neg, ds) := match s with
    | '-' :: r => (true, r)
    | '+' :: r => (false, r)
    | r => (false, r)
  if ds.isEmpty || !ds.all Char.isDigit then none
  else
    let n : Nat := ds.foldl (fun a c => a * 10 + (c.toNat - 48)) 0
    let v : Int := if neg then -(n : Int) else (n : Int)
    if v < -(9223372036854775808 : Int) || v > (9223372036854775807 : Int) then none else some v

/-- `bash.CompLine`: the line up to the cursor, over bytes; `none` = "not usable" (`"", false`) -/
def compLine (line : Option (List Nat)) (point : Option Str) : P (Option (List Nat)) :=
  match line, point with
  | some l, some p =>
    match atoi p with
    | none => .ok none
    | some i =>
      if i < 0 || (l.length : Int) < i then .ok none
      else (sliceTo l i).map some
  | _, _ => .ok none

/-- `RawValue.TrimmedDescription` with the slice expression made explicit -/
def trimmedDescriptionP (maxLength : Nat) (d : Str) : P Str :=
  let first := (Str.splitOnChar '\n' d).headD []
  let t := Str.trimSpace first
  if t.length > maxLength then do
    let cut ← sliceTo t ((maxLength : Int) - 3)
    .ok (cut ++ ['.', '.', '.'])
  else .ok t

/-- `strings.SplitN(s, "/", 2)` -/
def splitN2 (c : Char) (s : Str) : List Str :=
  match Str.cutChar c s with
  | (a, some b) => [a, b]
  | (a, none) => [a]

abbrev NamedDirs := List (Str × Str)

/-- `namedDirectories.match` -/
def ndMatch (nd : NamedDirs) (s : Str) : P Str :=
  if Str.hasPrefix s ['~'] && !Str.hasPrefix s ['~', '/'] && s.elem '/' then do
    let h ← indexP (splitN2 '/' s) 0
    let name ← sliceFrom h 1
    .ok ((nd.lookup name).getD [])
  else .ok []

/-- `namedDirectories.Replace` -/
def ndReplace (nd : NamedDirs) (s : Str) : P Str := do
  let m ← ndMatch nd s
  if !m.isEmpty then
    let m' := if Str.hasSuffix m ['/'] then m else m ++ ['/']
    let t ← indexP (splitN2 '/' s) 1
    .ok (m' ++ t)
  else .ok s

/-- `strings.Replace(s, old, new, 1)` for a non-empty `old` -/
def replaceFirst (old new : Str) : Str → Str
  | [] => []
  | c :: r => if Str.hasPrefix (c :: r) old then new ++ (c :: r).drop old.length else c :: replaceFirst old new r

/-- `expandHome` (HOME is set and not empty) -/
def expandHome (nd : NamedDirs) (home : Str) (s : Str) : P Str :=
  if Str.hasPrefix s ['~'] then do
    let m ← ndMatch nd s
    if !m.isEmpty then ndReplace nd s
    else if s == ['~'] then .ok home
    else .ok (replaceFirst ['~', '/'] (home ++ ['/']) s)
  else .ok s

/-- `Context.Abs` (no volume prefixes; `cwd` absolute) -/
def absP (nd : NamedDirs) (home cwd dir path : Str) : P Str := do
  let p1 := if !Str.hasPrefix path ['/'] && !Str.hasPrefix path ['~'] then
              (if dir.isEmpty then "./".toList ++ path else dir ++ ['/'] ++ path) else path
  let p ← expandHome nd home p1
  let r := if Str.hasPrefix p ['/'] then pathClean p else pathClean (cwd ++ ['/'] ++ p)
  if Str.hasSuffix p ['/'] && !Str.hasSuffix r ['/'] then .ok (r ++ ['/'])
  else if Str.hasSuffix p ['/', '.'] && !Str.hasSuffix r ['/', '.'] then .ok (r ++ ['/', '.'])
  else .ok r

end Carapace.Model
