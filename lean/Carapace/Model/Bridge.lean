/-
  MODEL of the cobra bridge (compat.go): carapace -> cobra (`cobraValuesFor`, `cobraDirectiveFor`)
  and cobra -> carapace (`compDirective.ToA`).
-/
import Carapace.Model.Actions

namespace Carapace.Model
open Carapace

/-- `cobraValuesFor`: `value<TAB>description`, or the bare value -/
def cobraValuesFor (r : Invoked) : List Str :=
  r.2.map (fun v => if v.description.isEmpty then v.value else v.value ++ ['\t'] ++ v.description)

/-- cobra's directive bits -/
def dError : Nat := 1
def dNoSpace : Nat := 2
def dNoFileComp : Nat := 4
def dFilterFileExt : Nat := 8
def dFilterDirs : Nat := 16
def dKeepOrder : Nat := 32

def hasBit (d b : Nat) : Bool := (d / b) % 2 == 1

/-- `cobraDirectiveFor`: NoFileComp always, NoSpace iff some served value has a no-space suffix -/
def cobraDirectiveFor (r : Invoked) : Nat :=
  dNoFileComp + (if r.2.any (fun v => SuffixMatcher.matchesStr r.1.nospace v.value) then dNoSpace else 0)

/-- what `compDirective(d).ToA(values...)` completes -/
inductive BridgeKind where
  | error                         -- a message
  | dirs (chdir : Option Str)     -- ActionDirectories, optionally within a directory
  | fileExt (exts : List Str)     -- ActionFiles(".ext"...)
  | files                         -- default file completion
  | values (vs : List (Str × Str))
  deriving DecidableEq, Repr

/-- `strings.SplitN(v, "\t", 2)` -/
def splitTab (v : Str) : Str × Str :=
  match Str.cutChar '\t' v with | (a, some b) => (a, b) | (a, none) => (a, [])

/-- the case distinction of `ToA`, and whether `.NoSpace()` is applied to the result -/
def directiveToA (d : Nat) (values : List Str) : BridgeKind × Bool :=
  if hasBit d dError then (.error, false)
  else if hasBit d dFilterDirs then (.dirs values.head?, hasBit d dNoSpace)
  else if hasBit d dFilterFileExt then (.fileExt (values.map (fun v => '.' :: v)), hasBit d dNoSpace)
  else if values.isEmpty && !hasBit d dNoFileComp then (.files, hasBit d dNoSpace)
  else (.values (values.map splitTab), hasBit d dNoSpace)

end Carapace.Model
