/-
  MODEL of the thirteen formatters `internal/shell/<sh>/action.go`, parametrised by the
  generated replacer tables and character sets.  Line formats produce the exact output
  string; JSON formats produce the records that are then marshalled (the JSON layer is
  `encoding/json`, outside the model).  Styles are outside the model.
-/
import Carapace.Basic.Replacer
import Carapace.Basic.Utf8
import Carapace.Model.Pipeline
import Carapace.Gen.Replacers
import Carapace.Gen.CharSets

namespace Carapace.Model
open Carapace

/-- a decoded / to-be-encoded record -/
structure Rec where
  insert : Str
  display : Str := []
  description : Str := []
  /-- the per-record no-space flag where the format has one apart from the insert text -/
  nospace : Option Bool := none
  tag : Str := []
  deriving DecidableEq, Repr, Inhabited

def san (t : Replacer) (s : Str) : Str := Replacer.applyChars t s

def nlS : Str := ['\n']

/-! ### bash -/

def bashRequiresQuoting (env : Env) (s : Str) : Bool :=
  Str.containsAny s (Gen.bash_requiresQuoting_chars ++ env.wordbreaks.getD [])

/-- the per-value text of `bash.ActionRawValues` (normal mode) -/
def bashInsert (env : Env) (v : Str) : Str :=
  let s := san Gen.bash_sanitizer v
  if Str.hasPrefix s ['~'] then Replacer.applyChars Gen.bash_escapingReplacer s
  else if bashRequiresQuoting env s then ['"'] ++ Replacer.applyChars Gen.bash_escapingQuotedReplacer s ++ ['"']
  else s

/-- `commonPrefix` of bash / tcsh: the longest common prefix of the two byte strings, cut back to a
    character boundary - on well-formed UTF-8 the longest common prefix counted in characters
    (`Utf8.commonPrefix` is the byte-wise variant the code had before the fix `commonPrefix: rune boundary`) -/
def commonPrefix : Str → Str → Str
  | a :: s, b :: t => if a = b then a :: commonPrefix s t else []
  | _, _ => []

def commonPrefixAll (f : RawValue → Str) : List RawValue → Str
  | [] => []
  | v :: vs => vs.foldl (fun p x => commonPrefix p (f x)) (f v)

def mapHead {α} (f : α → α) : List α → List α
  | [] => []
  | x :: xs => f x :: xs

/-- the common-prefix step shared by bash and tcsh: (values', forcedNospace) -/
def commonStep (lastSegment dflt : Str) (vs : List RawValue) : List RawValue × Bool :=
  if vs.length > 1 && !(commonPrefixAll (·.display) vs).isEmpty then
    let vp := commonPrefixAll (·.value) vs
    if lastSegment != vp then ([{ value := vp, display := vp, style := dflt }], true)
    else (mapHead (fun v => { v with display := ' ' :: v.display }) vs, true)
  else (vs, false)

def boolStr (b : Bool) : Str := if b then "true".toList else "false".toList

def bashFormat (env : Env) (w : Str) (m : Meta) (vs : List RawValue) : Str :=
  let vs := vs.map (fun v => { v with value := Str.trimPrefix v.value env.bashPrefix })
  let lastSegment := Str.trimPrefix w env.bashPrefix
  let (vs, forced) := commonStep lastSegment env.dfltStyle vs
  let ns := if forced then SuffixMatcher.add m.nospace ['*'] else m.nospace
  let normal := vs.length == 1 || env.bashCompType != "63".toList
  let nospace := if normal then vs.any (fun v => SuffixMatcher.matchesStr ns v.value) else !vs.isEmpty
  let texts := vs.map (fun v =>
    if normal then bashInsert env v.value
    else
      let display := Replacer.apply Gen.bash_displayReplacer v.display
      let desc := Replacer.apply Gen.bash_displayReplacer v.description
      if !desc.isEmpty then
        display ++ " (".toList ++ san Gen.bash_sanitizer (trimmedDescription Gen.common_maxLength desc) ++ [')']
      else display)
  boolStr nospace ++ [Char.ofNat 1] ++ Str.join nlS texts

/-! ### tcsh -/

def lastIndexAny (s chars : Str) : Option Nat :=
  let idx := (List.range s.length).filter (fun i => match s[i]? with | some c => chars.elem c | none => false)
  idx.getLast?

def tcshQuote (s : Str) : Str := Replacer.applyChars Gen.tcsh_quoter (san Gen.tcsh_sanitizer s)

def tcshFormat (env : Env) (w : Str) (vs : List RawValue) : Str :=
  let lastSegment :=
    match vs, env.wordbreaks with
    | _ :: _, some wb =>
      match lastIndexAny w (wb.filter (· != ' ')) with
      | some i => w.drop (i + 1)
      | none => w
    | _, _ => w
  let (vs, _) := commonStep lastSegment env.dfltStyle vs
  let texts := vs.map (fun v =>
    if vs.length == 1 then tcshQuote v.value
    else if !v.description.isEmpty then
      tcshQuote v.value ++ "_(".toList
        ++ Replacer.applyChars Gen.tcsh_quoter ((san Gen.tcsh_sanitizer v.trimmed).map (fun c => if c = ' ' then '_' else c)) ++ [')']
    else tcshQuote v.value)
  Str.join nlS texts

/-! ### oil -/

def oilFormat (m : Meta) (vs : List RawValue) : Str :=
  let texts := vs.map (fun v =>
    let value := if SuffixMatcher.matchesStr m.nospace v.value then v.value ++ Gen.oil_nospaceIndicator else v.value
    if vs.length == 1 then san Gen.oil_sanitizer value
    else if !v.description.isEmpty then value ++ " (".toList ++ san Gen.oil_sanitizer v.trimmed ++ [')']
    else value)
  Str.join nlS texts

/-! ### fish, bash-ble, cmd-clink -/

def fishFormat (vs : List RawValue) : Str :=
  Str.join nlS (vs.map (fun v => san Gen.fish_sanitizer v.value ++ ['\t'] ++ san Gen.fish_sanitizer v.trimmed))

def fsS : Str := [Char.ofNat 0x1C]

def bashBleFormat (m : Meta) (vs : List RawValue) : Str :=
  Str.join nlS (vs.map (fun v =>
    let suffix : Str := if SuffixMatcher.matchesStr m.nospace v.value then [] else [' ']
    v.value ++ ['\t'] ++ v.display ++ fsS ++ fsS ++ suffix ++ fsS ++ v.trimmed))

def cmdClinkFormat (m : Meta) (vs : List RawValue) : Str :=
  Str.join nlS (vs.map (fun v =>
    let appendChar : Str := if SuffixMatcher.matchesStr m.nospace v.value then [] else [' ']
    Str.join ['\t'] [san Gen.cmd_clink_sanitizer v.value, san Gen.cmd_clink_sanitizer v.display,
                     san Gen.cmd_clink_sanitizer v.trimmed, appendChar]))

/-! ### zsh -/

inductive ZshState where
  | dflt | quotingEscaping | quoting | fullQuotingEscaping | fullQuoting
  deriving DecidableEq, Repr, Inhabited

/-- the four regular expressions of zsh/action.go applied to the raw current token
    (`.` does not match a line feed) -/
def zshStateOf (raw : Str) : ZshState :=
  let noNl := !raw.elem '\n'
  let q := '\''
  let d := '"'
  if raw == [q] || (raw.head? == some q && raw.length ≥ 2 && raw.getLast? != some q && noNl) then .quoting
  else if raw == [d] || (raw.head? == some d && raw.length ≥ 2 && raw.getLast? != some d && noNl) then .quotingEscaping
  else if raw.head? == some d && raw.length ≥ 2 && raw.getLast? == some d && noNl then .fullQuotingEscaping
  else if raw.head? == some q && raw.length ≥ 2 && raw.getLast? == some q && noNl then .fullQuoting
  else .dflt

/-- `namedDirectories.Matches` with the set of names that have a non-empty target -/
def zshNamedMatches (names : List Str) (s : Str) : Bool :=
  Str.hasPrefix s ['~'] && !Str.hasPrefix s ['~', '/'] && s.elem '/' &&
    names.elem ((Str.cutChar '/' s).1.drop 1)

def zshQuoteValue (env : Env) (s : Str) : Str :=
  if Str.hasPrefix s ['~', '/'] || zshNamedMatches env.namedDirs s then
    '~' :: Replacer.applyChars Gen.zsh_defaultReplacer (Str.trimPrefix s ['~'])
  else Replacer.applyChars Gen.zsh_defaultReplacer s

def zshDescribe (s : Str) : Str := Replacer.applyChars Gen.zsh_describeReplacer s

/-- the per-value text (without the trailing blank) -/
def zshInsert (env : Env) (st : ZshState) (v : Str) : Str :=
  let value := san Gen.zsh_sanitizer v
  match st with
  | .quotingEscaping => zshDescribe (Replacer.applyChars Gen.zsh_quotingEscapingReplacer value) ++ ['"']
  | .quoting => zshDescribe (Replacer.applyChars Gen.zsh_quotingReplacer value) ++ ['\'']
  | .fullQuotingEscaping => zshDescribe (Replacer.applyChars Gen.zsh_quotingEscapingReplacer value)
  | .fullQuoting => zshDescribe (Replacer.applyChars Gen.zsh_quotingReplacer value)
  | .dflt => zshDescribe (zshQuoteValue env value)

def zshTag (t : Str) : Str :=
  if t == "shorthand flags".toList || t == "longhand flags".toList then "flags".toList else t

/-- `RawValues.EachTag`: groups by tag, tags sorted -/
def eachTag (vs : List RawValue) : List (Str × List RawValue) :=
  let tags := sortBy Str.lt (vs.map (·.tag)).eraseDups
  tags.map (fun t => (t, vs.filter (·.tag == t)))

/-- the text of the values array for one candidate: the quoted value, and a blank unless the
    value matches the no-space set or the typed word is fully quoted -/
def zshValueText (env : Env) (st : ZshState) (ns : SuffixMatcher) (v : Str) : Str :=
  let value := zshInsert env st v
  if !SuffixMatcher.matchesStr ns v then
    match st with
    | .fullQuotingEscaping | .fullQuoting => value
    | _ => value ++ [' ']
  else value

/-- the third (`data`) field of zsh's output -/
def zshData (env : Env) (m : Meta) (vs : List RawValue) : Str :=
  let st := zshStateOf env.zshRaw
  let vs := vs.map (fun v => { v with tag := zshTag v.tag })
  let groups := (eachTag vs).map (fun (tag, gvs) =>
    let vals := gvs.map (fun v => zshValueText env st m.nospace v.value)
    let displays := gvs.map (fun v =>
      let display := zshDescribe (san Gen.zsh_sanitizer v.display)
      let description := san Gen.zsh_sanitizer v.description
      if (Str.trimSpace description).isEmpty then display else display ++ [':'] ++ description)
    Str.join [Char.ofNat 3] [tag, Str.join nlS displays, Str.join nlS vals])
  Str.join [Char.ofNat 2] groups ++ [Char.ofNat 2]

/-- the messages and usage carried in zsh's second field, sanitised as `formatMessage` does -/
def zshMessages (m : Meta) : List Str :=
  (m.messages ++ (if m.usage.isEmpty then [] else [m.usage])).map (san Gen.zsh_message_formatMessage_msg)

/-! ### JSON formats: the records handed to `json.Marshal` -/

/-- the quoting step of nushell/action.go on a sanitised value -/
def nushellQuote (value : Str) : Str :=
  if Str.containsAny value Gen.nushell_ActionRawValues_containsAny then
    if Str.hasPrefix value ['~'] then "~\"".toList ++ Replacer.applyChars Gen.nushell_escaper (value.drop 1) ++ ['"']
    else ['"'] ++ Replacer.applyChars Gen.nushell_escaper value ++ ['"']
  else value

def nushellRecs (m : Meta) (vs : List RawValue) : List Rec :=
  vs.map (fun v =>
    let value := san Gen.nushell_sanitizer v.value
    let display := san Gen.nushell_sanitizer v.display
    let description := san Gen.nushell_sanitizer v.description
    let nospace := SuffixMatcher.matchesStr m.nospace value
    let value := nushellQuote value
    let value := if nospace then value else value ++ [' ']
    { insert := value, display := display, description := trimmedDescription Gen.common_maxLength description })

/-- the quoting step of powershell/action.go on a sanitised value -/
def powershellQuote (value : Str) : Str :=
  if Str.containsAny value Gen.powershell_ActionRawValues_containsAny then ['\''] ++ value ++ ['\''] else value

def powershellRecs (m : Meta) (vs : List RawValue) : List Rec :=
  (vs.filter (fun v => !v.value.isEmpty)).map (fun v =>
    let value := san Gen.powershell_sanitizer v.value
    let nospace := SuffixMatcher.matchesStr m.nospace value
    let value := powershellQuote value
    let value := if nospace then value else value ++ [' ']
    { insert := value, display := san Gen.powershell_sanitizer v.display,
      description := san Gen.powershell_sanitizer v.trimmed })

/-- the quoting step of xonsh/action.go on a sanitised value -/
def xonshQuote (value : Str) : Str :=
  if Str.containsAny value Gen.xonsh_ActionRawValues_containsAny then
    if value.elem '\\' then "r'".toList ++ value ++ ['\''] else ['\''] ++ value ++ ['\'']
  else value

def xonshRecs (m : Meta) (vs : List RawValue) : List Rec :=
  vs.map (fun v =>
    let value := san Gen.xonsh_sanitizer v.value
    let value := xonshQuote value
    let value := if SuffixMatcher.matchesStr m.nospace value then value else value ++ [' ']
    { insert := value, display := v.display, description := v.trimmed })

def elvishRecs (m : Meta) (vs : List RawValue) : List Rec :=
  vs.map (fun v =>
    let value := san Gen.elvish_sanitizer v.value
    { insert := value, display := san Gen.elvish_sanitizer v.display,
      description := san Gen.elvish_sanitizer v.trimmed,
      nospace := some (SuffixMatcher.matchesStr m.nospace value) })

def ionRecs (m : Meta) (vs : List RawValue) : List Rec :=
  vs.map (fun v =>
    let value := san Gen.ion_sanitizer v.value
    let display := san Gen.ion_sanitizer v.display
    let description := san Gen.ion_sanitizer v.description
    let value := if SuffixMatcher.matchesStr m.nospace value then value else value ++ [' ']
    if description.isEmpty then { insert := value, display := display }
    else { insert := value,
           display := display ++ " (".toList ++ trimmedDescription Gen.common_maxLength description ++ [')'] })

/-- export: values sorted by value, everything verbatim -/
def exportRecs (vs : List RawValue) : List RawValue :=
  sortBy (fun a b => Str.lt a.value b.value) vs

end Carapace.Model
