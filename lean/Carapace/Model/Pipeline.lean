/-
  MODEL of internal/shell.Value (shell.go:61-117): the pipeline in front of the formatters.
-/
import Carapace.Model.Common
import Carapace.Gen.Shells
import Carapace.Gen.CharSets

namespace Carapace.Model
open Carapace

/-- everything the formatting pipeline reads from its environment -/
structure Env where
  colorDisabled : Bool := false          -- NO_COLOR / CLICOLOR=0
  unfiltered : Bool := false             -- CARAPACE_UNFILTERED
  nospaceEnv : Str := []                 -- CARAPACE_NOSPACE
  ci : Bool := false                     -- CARAPACE_MATCH (case insensitive)
  wordbreaks : Option Str := none        -- COMP_WORDBREAKS as the formatter sees it
  bashPrefix : Str := []                 -- bash.wordbreakPrefix (left behind by bash.Patch)
  bashCompType : Str := []               -- bash.compType
  zshRaw : Str := []                     -- raw text of the current token of CARAPACE_COMPLINE
  namedDirs : List Str := []             -- names in zsh.NamedDirectories (with non-empty target)
  errStyle : Str := []                   -- style.Carapace.Error
  dfltStyle : Str := []                  -- style.Default
  deriving Repr, Inhabited

/-- `shell.Value` up to the call of the formatter: (meta', values') -/
def pipeline (sh : Str) (env : Env) (w : Str) (m : Meta) (vs : List RawValue) : Meta × List RawValue :=
  let vs := if env.colorDisabled then vs.map (fun v => { v with style := [] }) else vs
  let vs := if env.unfiltered then vs else filterPrefix env.ci vs w
  let vs := if Gen.messageShells.elem sh then vs else integrate env.errStyle env.dfltStyle m.messages vs w
  let m :=
    if Gen.nospaceForcingExcept.elem sh then m
    else if !m.messages.isEmpty then { m with nospace := SuffixMatcher.add m.nospace ['*'] }
    else if !env.nospaceEnv.isEmpty then { m with nospace := SuffixMatcher.add m.nospace env.nospaceEnv }
    else m
  let vs := sortBy byDisplayLt vs
  let vs := vs.map (fun v => { v with uid := [] })
  (m, vs)

end Carapace.Model
