/-
  MODEL of internal/pflagfork (flagset.go LookupArg / lookupPosixShorthandArg /
  lookupPosixLonghandArg, flag.go Consumes / TakesValue / IsOptarg / IsRepeatable) for POSIX flag
  sets, and SPEC of how the program's own parser (carapace-pflag v1.0.0 parseSingleShortArg /
  parseLongArg, a dependency) treats the same word.
-/
import Carapace.Basic.Str

namespace Carapace.Model
open Carapace

structure FlagDef where
  name : Str
  short : Option Char := none
  /-- NoOptDefVal ≠ "" (bool, count and optional-argument flags) -/
  noOptDef : Bool := false
  /-- the value type is not bool / boolSlice / count -/
  takesValue : Bool := true
  deriving DecidableEq, Repr, Inhabited

abbrev FlagSet := List FlagDef

def lookupShort (fs : FlagSet) (c : Char) : Option FlagDef := fs.find? (fun f => f.short == some c)
def lookupLong (fs : FlagSet) (n : Str) : Option FlagDef := fs.find? (fun f => f.name == n)

structure Found where
  flag : FlagDef
  prefix_ : Str
  args : List Str
  deriving Repr, DecidableEq

/-- `lookupPosixShorthandArg` on the characters after the leading `-`; `pre` = what was read so far -/
def lookupPosixShort (fs : FlagSet) : Str → Str → Option Found
  | _, [] => none
  | pre, c :: rest =>
    match lookupShort fs c with
    | none => none
    | some f =>
      match rest with
      | [] => some ⟨f, pre ++ [c], []⟩
      | d :: r2 =>
        if d = '=' then
          (if r2 ≠ [] then some ⟨f, pre ++ [c, '='], [r2]⟩ else some ⟨f, pre ++ [c, '='], [[]]⟩)
        else if !f.noOptDef then some ⟨f, pre ++ [c], [d :: r2]⟩
        else lookupPosixShort fs (pre ++ [c]) (d :: r2)

/-- `lookupPosixLonghandArg` on the text after `--` -/
def lookupPosixLong (fs : FlagSet) (body : Str) : Option Found :=
  match Str.cutChar '=' body with
  | (n, none) => (lookupLong fs n).map (fun f => ⟨f, "--".toList ++ n, []⟩)
  | (n, some v) => (lookupLong fs n).map (fun f => ⟨f, "--".toList ++ n ++ ['='], [v]⟩)

/-- `FlagSet.LookupArg` (POSIX) -/
def lookupArg (fs : FlagSet) (arg : Str) : Option Found :=
  match arg with
  | '-' :: '-' :: body => lookupPosixLong fs body
  | '-' :: c :: rest => lookupPosixShort fs ['-'] (c :: rest)
  | _ => none

/-- `Flag.Consumes("")` for nargs 0: the flag still waits for its value -/
def consumes (fd : Found) : Bool := fd.flag.takesValue && !fd.flag.noOptDef && fd.args.isEmpty

/-! ### the program's own parser on a shorthand word (spec) -/

inductive Outcome where
  | err | done | pending (f : FlagDef)
  deriving DecidableEq, Repr

/-- `parseShortArg` / `parseSingleShortArg` (POSIX) on the characters after `-`, when a further word
    follows: either the word is complete (`done`), or its last flag takes the next word (`pending`),
    or the parser rejects it -/
def pflagShort (fs : FlagSet) : Str → Outcome
  | [] => .done
  | c :: rest =>
    match lookupShort fs c with
    | none => .err
    | some f =>
      match rest with
      | [] => if f.noOptDef then .done else .pending f
      | d :: r2 =>
        if d = '=' ∧ r2 ≠ [] then .done                -- -f=arg
        else if f.noOptDef then pflagShort fs (d :: r2) -- optional / no argument: go on with the next letter
        else .done                                      -- -farg

end Carapace.Model
