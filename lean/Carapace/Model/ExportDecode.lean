/-
  MODEL of the *reading* side of the `export` wire document: what `json.Unmarshal` into
  `export.Export` (internal/export/export.go; `ActionImport`, defaultActions.go) obtains from
  the text that `Export.MarshalJSON` wrote.  It is a decoder for exactly the shape the
  encoder writes (fields in struct order, `omitempty` fields absent when empty, no white
  space) - what `encoding/json` accepts beyond that (other field orders, white space,
  unknown fields) is not modelled; the driver runs this decoder on the *real* bytes of every
  generated document and compares with what the real `ActionImport` obtained (op `exportrt`).
  Core only.
-/
import Carapace.Model.Export

namespace Carapace.Model
open Carapace

/-- read one JSON string literal from the front of the text with the string reader of
    `Model/Export.lean`; the emitted characters and the text behind the closing quote -/
def readLit : JMode → Str → List Out → Option (List Out × Str)
  | m, [], acc => if m = .done then some (acc, []) else none
  | m, c :: s, acc =>
    if m = .done then some (acc, c :: s)
    else match jsonStep m c with
      | none => none
      | some (m', o) => readLit m' s (acc ++ o)

def parseString (s : Str) : Option (Str × Str) :=
  match readLit .start s [] with
  | none => none
  | some (o, rest) => some (litsOf o, rest)

/-- the text must go on with `lit` -/
def expect (lit s : Str) : Option Str := if Str.hasPrefix s lit then some (s.drop lit.length) else none

/-- elements separated by `,` up to the closing `]` (fuel: at most that many elements) -/
def parseElems {α : Type} (elem : Str → Option (α × Str)) : Nat → Str → Option (List α × Str)
  | 0, _ => none
  | n + 1, s =>
    match elem s with
    | none => none
    | some (x, rest) =>
      match rest with
      | ',' :: rest' =>
        (match parseElems elem n rest' with
         | none => none
         | some (xs, r) => some (x :: xs, r))
      | ']' :: rest' => some ([x], rest')
      | _ => none

def parseArray {α : Type} (elem : Str → Option (α × Str)) (s : Str) : Option (List α × Str) :=
  match s with
  | '[' :: ']' :: rest => some ([], rest)
  | '[' :: rest => parseElems elem s.length rest
  | _ => none

/-- `,"name":` -/
def optPre (name : Str) : Str := [','] ++ jsonEncodeString name ++ [':']

/-- `{"name":` -/
def objPre (name : Str) : Str := ['{'] ++ jsonEncodeString name ++ [':']

/-- an `omitempty` string field: absent means empty -/
def parseOptField (name : Str) (s : Str) : Option (Str × Str) :=
  match expect (optPre name) s with
  | none => some ([], s)
  | some r => parseString r

def parseRawValue (s : Str) : Option (RawValue × Str) :=
  match expect (objPre "value".toList) s with
  | none => none
  | some r =>
  match parseString r with
  | none => none
  | some (value, r) =>
  match expect (optPre "display".toList) r with
  | none => none
  | some r =>
  match parseString r with
  | none => none
  | some (display, r) =>
  match parseOptField "description".toList r with
  | none => none
  | some (description, r) =>
  match parseOptField "style".toList r with
  | none => none
  | some (style, r) =>
  match parseOptField "tag".toList r with
  | none => none
  | some (tag, r) =>
  match parseOptField "uid".toList r with
  | none => none
  | some (uid, r) =>
  match r with
  | '}' :: r => some ({ value, display, description, style, tag, uid }, r)
  | _ => none

/-- what the importing side holds after decoding -/
structure ExportDoc where
  version : Str
  messages : List Str
  nospace : Str
  usage : Str
  values : Option (List RawValue)
  deriving DecidableEq, Repr, Inhabited

def parseValues (s : Str) : Option (Option (List RawValue) × Str) :=
  match expect "null".toList s with
  | some r => some (none, r)
  | none =>
    match parseArray parseRawValue s with
    | none => none
    | some (vs, r) => some (some vs, r)

/-- the whole document; nothing may follow it -/
def parseExport (s : Str) : Option ExportDoc :=
  match expect (objPre "version".toList) s with
  | none => none
  | some r =>
  match parseString r with
  | none => none
  | some (version, r) =>
  match expect (optPre "messages".toList) r with
  | none => none
  | some r =>
  match parseArray parseString r with
  | none => none
  | some (messages, r) =>
  match expect (optPre "nospace".toList) r with
  | none => none
  | some r =>
  match parseString r with
  | none => none
  | some (nospace, r) =>
  match expect (optPre "usage".toList) r with
  | none => none
  | some r =>
  match parseString r with
  | none => none
  | some (usage, r) =>
  match expect (optPre "values".toList) r with
  | none => none
  | some r =>
  match parseValues r with
  | none => none
  | some (values, r) =>
  match r with
  | ['}'] => some { version, messages, nospace, usage, values }
  | _ => none

end Carapace.Model
