/-
  MODEL of the Action algebra (action.go, defaultActions.go, invokedAction.go, batch.go,
  internal/common/value.go): a deep embedding `Expr` of the public constructors and
  modifiers and a pure `invoke : Expr → Ctx → Invoked`.
  Transcribed from the Go code - including what it does wrong (e.g. `ToMultiPartsA` drops the
  inner meta).  Tied to the code by the `invoke` / `history` / `batch` correspondence ops.
-/
import Carapace.Model.Common
import Carapace.Basic.Utf8

namespace Carapace.Model
open Carapace

structure Ctx where
  value : Str := []
  args : List Str := []
  parts : List Str := []
  env : List Str := []      -- "KEY=value" entries, later ones win
  dir : Str := []
  ci : Bool := false        -- CARAPACE_MATCH (process wide)
  deriving Repr, Inhabited, DecidableEq

abbrev Invoked := Meta × List RawValue

/-! ### strings.SplitAfter and tokenize (invokedAction.go) -/

/-- `strings.SplitAfter s sep` for a non-empty separator: leftmost, non-overlapping, the
    separator stays attached to the piece in front of it (fuel = length) -/
def splitAfterNE (sep : Str) : Nat → Str → Str → List Str
  | 0, s, cur => [cur.reverse ++ s]
  | _ + 1, [], cur => [cur.reverse]
  | n + 1, c :: s, cur =>
    if Str.hasPrefix (c :: s) sep then
      (cur.reverse ++ sep) :: splitAfterNE sep n ((c :: s).drop sep.length) []
    else splitAfterNE sep n s (c :: cur)

/-- `strings.SplitAfter`; the empty separator explodes into characters (`[]` for the empty string) -/
def splitAfter (s sep : Str) : List Str :=
  if sep.isEmpty then s.map (fun c => [c]) else splitAfterNE sep (s.length + 1) s []

/-- attach `d` to the last element -/
def appendLast (xs : List Str) (d : Str) : List Str :=
  match xs.reverse with
  | [] => []
  | l :: r => (r.reverse) ++ [l ++ d]

/-- `tokenize(s, dividers...)` -/
def tokenize (s : Str) : List Str → List Str
  | [] => [s]
  | d :: ds =>
    (splitAfter s d).flatMap (fun word =>
      let tokens := tokenize (Str.trimSuffix word d) ds
      if !tokens.isEmpty && Str.hasSuffix word d then appendLast tokens d else tokens)

/-! ### match.TrimPrefix -/

/-- `match.TrimPrefix(s, prefix)`: bytes are cut, not runes -/
def matchTrimPrefix (ci : Bool) (s p : Str) : Str :=
  if matchHasPrefix ci s p then Utf8.dropBytesLossy (Utf8.byteLen p) s else s

/-! ### RawValues -/

def uniqueByValue (vs : List RawValue) : List RawValue :=
  -- a Go map keyed by value, written in order: the last entry for a value wins;
  -- canonical order here: position of the last occurrence
  let rec go : List RawValue → List RawValue
    | [] => []
    | v :: r => if r.any (fun x => x.value == v.value) then go r else v :: go r
  go vs

/-- `RawValues.Unique()`: last wins by value, then sorted by display -/
def unique (vs : List RawValue) : List RawValue := sortBy byDisplayLt (uniqueByValue vs)

def filterValues (vs : List RawValue) (xs : List Str) : List RawValue := vs.filter (fun v => !xs.elem v.value)
def retainValues (vs : List RawValue) (xs : List Str) : List RawValue := vs.filter (fun v => xs.elem v.value)

/-- `InvokedAction.Merge` over a whole batch (first element included): values concatenated,
    metas merged left to right, then `Unique` -/
def mergeAll (rs : List Invoked) : Invoked :=
  let m := rs.foldl (fun acc r => Meta.merge acc r.1) ({} : Meta)
  (m, unique (rs.flatMap (·.2)))

/-- `invokedBatch.Merge()` -/
def batchMerge : List Invoked → Invoked
  | [] => ({}, [])
  | [r] => r
  | r :: rs => mergeAll (r :: rs)

/-! ### ToMultiPartsA (invokedAction.go) -/

/-- the candidates of `ToMultiPartsA(dividers...)` for typed text `cv`, in order of first insertion
    into the map (later writes replace the record, as in Go) -/
def toMultiPartsValues (ci : Bool) (dividers : List Str) (vs : List RawValue) (cv : Str) : Option (List RawValue) :=
  let splittedCV := tokenize cv dividers
  if splittedCV.isEmpty then
    -- Go: `splitted[len(splittedCV)-1]` with index -1 panics (only the empty divider with an empty
    -- typed text gets here) - as soon as one value passes the prefix test
    (if vs.any (fun val => matchHasPrefix ci val.value cv) then none else some [])
  else
    let n := splittedCV.length
    let cands := vs.filterMap (fun val =>
      if matchHasPrefix ci val.value cv then
        let splitted := tokenize val.value dividers
        if splitted.length ≥ n then
          let v := (splitted.take n).flatten
          let d := splitted.getD (n - 1) []
          if splitted.length == n then
            some ({ value := v, display := d, description := val.description, style := val.style, tag := val.tag, uid := val.uid } : RawValue)
          else
            some ({ value := v, display := d, description := [], style := [], tag := val.tag, uid := val.uid } : RawValue)
        else none
      else none)
    some (uniqueByValue cands)

def multiPartsNospace (dividers : List Str) : SuffixMatcher :=
  -- for each divider: empty -> `*` and stop; else its last rune
  let rec go : List Str → SuffixMatcher → SuffixMatcher
    | [], acc => acc
    | d :: ds, acc =>
      match d.getLast? with
      | none => SuffixMatcher.add acc ['*']
      | some c => go ds (SuffixMatcher.add acc [c])
  go dividers []

/-! ### the deep embedding -/

inductive Test where
  | partsLen (n : Nat) | argsLen (n : Nat) | valuePrefix (p : Str) | always
  deriving Repr, Inhabited

def Test.eval (t : Test) (c : Ctx) : Bool :=
  match t with
  | .partsLen n => c.parts.length == n
  | .argsLen n => c.args.length == n
  | .valuePrefix p => Str.hasPrefix c.value p
  | .always => true

inductive Edit where
  | setValue (s : Str) | setArgs (xs : List Str) | setParts (xs : List Str) | setenv (k v : Str) | setDir (d : Str)
  deriving Repr, Inhabited

def Edit.apply (c : Ctx) : Edit → Ctx
  | .setValue s => { c with value := s }
  | .setArgs xs => { c with args := xs }
  | .setParts xs => { c with parts := xs }
  | .setenv k v => { c with env := c.env ++ [k ++ ['='] ++ v] }
  | .setDir d => { c with dir := d }

inductive Expr where
  /-- `ActionStyledValuesDescribed(value, description, style, ...)` [`.Tag(tag)` when non-empty] -/
  | values (vs : List (Str × Str × Str)) (tag : Str)
  /-- a static Action (`x.Invoke(c).ToA()`): yields its stored result whatever the Context -/
  | static (m : Meta) (vs : List RawValue)
  /-- `ActionValues(values...)` (empty strings are skipped) -/
  | plain (vs : List Str)
  /-- `ActionMessage(msg)` (no format arguments) -/
  | message (m : Str)
  /-- a callback rendering the Context it received as candidates -/
  | echo
  | filter (xs : List Str) (e : Expr)
  | filterArgs (e : Expr)
  | filterParts (e : Expr)
  | retain (xs : List Str) (e : Expr)
  | pfx (p : Str) (e : Expr)
  | sfx (s : Str) (e : Expr)
  | style (s : Str) (e : Expr)
  | tag (t : Str) (e : Expr)
  | usage (u : Str) (e : Expr)
  | nospace (chars : Str) (e : Expr)
  | suppress (lit : Str) (e : Expr)
  | unless (b : Bool) (e : Expr)
  /-- `TagF(f)`, `StyleF(f)` with functions that look at the value (the harness' `tagOfValue`, `styleOfValue`) -/
  | tagF (e : Expr)
  | styleF (e : Expr)
  /-- `UnlessF(func(c) bool { return test(c) })` -/
  | unlessF (t : Test) (e : Expr)
  | shift (n : Int) (e : Expr)
  | list (div : Str) (e : Expr)
  | uniqueList (div : Str) (e : Expr)
  | multiParts (divs : List Str) (e : Expr)
  /-- `ActionMultiPartsN(sep, n, func(c) { return e })` -/
  | multiPartsN (sep : Str) (n : Int) (e : Expr)
  | batch (es : List Expr)
  /-- `ActionCallback(func(c) { if test(c) { return a }; return b })` -/
  | cond (t : Test) (a b : Expr)
  /-- `ActionCallback(func(c) { edits...; return e.Invoke(c).ToA() })` -/
  | withCtx (edits : List Edit) (e : Expr)
  deriving Repr, Inhabited

def lookupEnv (env : List Str) (k : Str) : Str :=
  match (env.reverse.find? (fun e => Str.hasPrefix e (k ++ ['=']))) with
  | some e => e.drop (k.length + 1)
  | none => []

def envKey : Str := "VERIF_X".toList

/-- what `echo` renders -/
def renderCtx (c : Ctx) : List Str :=
  [ "v=".toList ++ c.value, "a=".toList ++ Str.join [','] c.args, "p=".toList ++ Str.join [','] c.parts,
    "e=".toList ++ lookupEnv c.env envKey, "d=".toList ++ c.dir ]

def mkValue (v : Str) : RawValue := { value := v, display := v }

/-- the function handed to `TagF` by the harness: the first character of the value decides -/
def tagOfValue (v : Str) : Str :=
  match v with
  | [] => "empty".toList
  | c :: _ => "t-".toList ++ [c]

/-- the function handed to `StyleF` by the harness -/
def styleOfValue (v : Str) : Str := if Str.hasPrefix v ['a'] then "red".toList else "blue".toList

def mapValues (f : RawValue → RawValue) (r : Invoked) : Invoked := (r.1, r.2.map f)

def shiftMsg (n : Int) : Str := ("invalid argument [ActionShift]: " ++ toString n).toList

/-- `strings.SplitN(s, sep, n)` for a non-empty separator; `n < 0` = all -/
def splitN (s sep : Str) (n : Int) : List Str :=
  let all := Str.splitOn s sep
  if n < 0 then all
  else
    let k := n.toNat
    if all.length ≤ k then all
    else all.take (k - 1) ++ [Str.join sep (all.drop (k - 1))]

/-- the Context and prefix `ActionMultiPartsN(sep, n, ..)` derives (defaultActions.go:247-290);
    `none`: n = 0 (message) -/
def multiPartsNCtx (sep : Str) (n : Int) (c : Ctx) : Str × Ctx :=
  if sep.isEmpty then
    if n < 0 then
      (c.value, { c with value := [], parts := c.value.map (fun ch => [ch]) })
    else
      -- Go: `if n-1 < len(prefix) { prefix = c.Value[:n-1]; c.Value = c.Value[n-1:] }` (bytes); parts = Split(prefix, "") (runes)
      let k := (n - 1).toNat
      if k < Utf8.byteLen c.value then
        let p := Utf8.takeBytesLossy k c.value
        (p, { c with value := Utf8.dropBytesLossy k c.value, parts := p.map (fun ch => [ch]) })
      else (c.value, { c with value := [], parts := c.value.map (fun ch => [ch]) })
  else
    let splitted := splitN c.value sep n
    if splitted.length > 1 then
      let parts := splitted.dropLast
      (Str.join sep parts ++ sep, { c with value := splitted.getLast?.getD [], parts := parts })
    else ([], { c with parts := [] })

/-- the tail of `ActionMultiPartsN`: invoke the callback's action with the derived Context,
    prefix the values, add the separator's last rune to the no-space set -/
def multiPartsNWith (sep : Str) (n : Int) (c : Ctx) (k : Ctx → Invoked) : Invoked :=
  let (prefix_, c') := multiPartsNCtx sep n c
  let r := k c'
  let ns : Str := match sep.getLast? with | some ch => [ch] | none => ['*']
  (Meta.merge r.1 { nospace := SuffixMatcher.add [] ns }, r.2.map (fun v => { v with value := prefix_ ++ v.value }))

mutual
/-- the pure semantics of `Action.Invoke` -/
def invoke : Expr → Ctx → Invoked
  | .values vs tag, _ =>
    ({}, vs.map (fun (v, d, s) => { value := v, display := v, description := d, style := s, tag := tag }))
  | .static m vs, _ => (m, vs)
  | .plain vs, _ => ({}, (vs.filter (fun v => !v.isEmpty)).map mkValue)
  | .message m, _ => ({ messages := [m] }, [])
  | .echo, c => ({}, (renderCtx c).map mkValue)
  | .filter xs e, c => let r := invoke e c; (r.1, filterValues r.2 xs)
  | .filterArgs e, c => let r := invoke e c; (r.1, filterValues r.2 c.args)
  | .filterParts e, c => let r := invoke e c; (r.1, filterValues r.2 c.parts)
  | .retain xs e, c => let r := invoke e c; (r.1, retainValues r.2 xs)
  | .pfx p e, c =>
    if matchHasPrefix c.ci c.value p then
      mapValues (fun v => { v with value := p ++ v.value }) (invoke e { c with value := matchTrimPrefix c.ci c.value p })
    else if matchHasPrefix c.ci p c.value then
      mapValues (fun v => { v with value := p ++ v.value }) (invoke e { c with value := [] })
    else ({}, [])
  | .sfx s e, c => mapValues (fun v => { v with value := v.value ++ s }) (invoke e c)
  | .style s e, c => mapValues (fun v => { v with style := s }) (invoke e c)
  | .tag t e, c => mapValues (fun v => { v with tag := t }) (invoke e c)
  | .usage u e, c => let r := invoke e c; (Meta.merge r.1 { usage := u }, r.2)
  | .nospace chars e, c =>
    let r := invoke e c
    (Meta.merge r.1 { nospace := SuffixMatcher.add [] (if chars.isEmpty then ['*'] else chars) }, r.2)
  | .suppress lit e, c =>
    let r := invoke e c
    ({ r.1 with messages := r.1.messages.filter (fun m => !Str.contains m lit) }, r.2)
  | .unless b e, c => if b then ({}, []) else invoke e c
  | .tagF e, c => mapValues (fun v => { v with tag := tagOfValue v.value }) (invoke e c)
  | .styleF e, c => mapValues (fun v => { v with style := styleOfValue v.value }) (invoke e c)
  | .unlessF t e, c => if t.eval c then ({}, []) else invoke e c
  | .shift n e, c =>
    if n < 0 then ({ messages := [shiftMsg n] }, [])
    else invoke e { c with args := c.args.drop n.toNat }
  | .list div e, c =>
    -- ActionMultiParts(div, func(c) { return a.Invoke(c).ToA().NoSpace() })
    multiPartsNWith div (-1) c (fun c' => let r := invoke e c'; (Meta.merge r.1 { nospace := ['*'] }, r.2))
  | .uniqueList div e, c =>
    -- ActionMultiParts(div, func(c) { return a.FilterParts().NoSpace() })
    multiPartsNWith div (-1) c (fun c' => let r := invoke e c'; (Meta.merge r.1 { nospace := ['*'] }, filterValues r.2 c'.parts))
  | .multiParts divs e, c =>
    let r := invoke e c
    match toMultiPartsValues c.ci divs r.2 c.value with
    | some vs => ({ nospace := multiPartsNospace divs }, vs)     -- a fresh Action: the inner meta is dropped
    | none => ({ messages := ["PANIC".toList] }, [])
  | .multiPartsN sep n e, c =>
    if n = 0 then ({ messages := ["invalid value for n [ActionValuesDescribed]: 0".toList] }, [])
    else if n = 1 then invoke e c
    else multiPartsNWith sep n c (fun c' => invoke e c')
  | .batch es, c => batchMerge (invokeList es c)
  | .cond t a b, c => if t.eval c then invoke a c else invoke b c
  | .withCtx edits e, c => invoke e (edits.foldl Edit.apply c)

def invokeList : List Expr → Ctx → List Invoked
  | [], _ => []
  | e :: es, c => invoke e c :: invokeList es c
end

end Carapace.Model
