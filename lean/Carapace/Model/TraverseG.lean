/-
  MODEL of traverse.go over flag sets that use the fork's `Nargs` / `OptargDelimiter` (POSIX flag sets):
  the same classification loop, `toParse` fix-up, parse and final case distinction as
  Model/Traverse.lean, over Model/ForkG.lean and Spec/PflagG.lean.  On trees without these features it
  picks the slot of Model/Traverse.lean (checked by the driver on every generated case).
-/
import Carapace.Model.Traverse
import Carapace.Model.ForkG
import Carapace.Spec.PflagG

namespace Carapace.Model
open Carapace Carapace.Spec

structure TCmdG where
  name : Str
  aliases : List Str := []
  parent : Option Nat := none
  interspersed : Bool := true
  noFlagParse : Bool := false
  /-- `FParseErrWhitelist.UnknownFlags`: the program tolerates unknown flags -/
  whitelist : Bool := false
  /-- flags defined on this command; `true` = persistent -/
  flags : List (PflagG.PFlagG × Bool) := []
  deriving Repr, Inhabited

abbrev TTreeG := Array TCmdG

/-- the flag set `cmd.Flags()` sees: own flags, then the persistent flags of the ancestors (nearest
    first), a name already present shadowing the inherited one -/
def flagsAtG (t : TTreeG) : Nat → Nat → PflagG.PFlagsG
  | 0, _ => []
  | fuel + 1, c =>
    match t[c]? with
    | none => []
    | some cs =>
      let mine := cs.flags.map (·.1)
      let rec inherit (fuel : Nat) (p : Option Nat) (acc : PflagG.PFlagsG) : PflagG.PFlagsG :=
        match fuel, p with
        | 0, _ => acc
        | _, none => acc
        | f + 1, some q =>
          match t[q]? with
          | none => acc
          | some qs =>
            let add := (qs.flags.filter (·.2)).map (·.1) |>.filter (fun g => !acc.any (fun h => h.name == g.name))
            inherit f qs.parent (acc ++ add)
      inherit fuel cs.parent mine

structure LoopStateG where
  inArgs : List Str := []
  nPos : Nat := 0
  inFlag : Option FoundG := none
  deriving Repr, Inhabited

/-- the child of `c` that the word names (cobra `Find` on a single word: flag-like words name nothing) -/
def childNamedG (t : TTreeG) (c : Nat) (w : Str) : Option Nat :=
  if Str.hasPrefix w ['-'] then none
  else (List.range t.size).find? (fun k => match t[k]? with
    | some cs => cs.parent == some c && (cs.name == w || cs.aliases.elem w)
    | none => false)

inductive LoopOutG where
  | done (st : LoopStateG) (afterDash : Bool)
  | descend (child : Nat) (rest : List Str) (inArgs : List Str)

/-- what one earlier word is taken for -/
inductive WordClassG where
  | next (st : LoopStateG)       -- flag argument, flag, or positional: go on
  | dash
  | child (k : Nat)

def classifyG (t : TTreeG) (c : Nat) (cs : TCmdG) (fs : FlagSetG) (arg : Str) (st : LoopStateG) : WordClassG :=
  let noFlag : WordClassG :=
    if arg == "--".toList then .dash
    else if !cs.noFlagParse && Str.hasPrefix arg ['-'] && (cs.interspersed || st.nPos == 0) then
      -- an attached argument (`--flag=arg`, `-farg`) completes the flag: no further word belongs to it
      .next { st with inArgs := st.inArgs ++ [arg],
                      inFlag := (lookupArgG fs arg).bind (fun fd => if fd.args.isEmpty then some fd else none) }
    else match childNamedG t c arg with
      | some k => .child k
      | none => .next { st with inArgs := st.inArgs ++ [arg], nPos := st.nPos + 1, inFlag := st.inFlag }
  match st.inFlag with
  | some fd =>
    if consumesG fd arg then
      let fd' : FoundG := { fd with args := fd.args ++ [arg] }
      .next { st with inArgs := st.inArgs ++ [arg], inFlag := if consumesG fd' [] then some fd' else none }
    else noFlag
  | none => noFlag

/-- the classification loop of `traverse` over the earlier words -/
def loopG (t : TTreeG) (c : Nat) (cs : TCmdG) (fs : FlagSetG) : List Str → LoopStateG → LoopOutG
  | [], st => .done st false
  | arg :: rest, st =>
    match classifyG t c cs fs arg st with
    | .next st' => loopG t c cs fs rest st'
    | .dash => .done { st with inArgs := st.inArgs ++ arg :: rest, inFlag := none } true
    | .child k => .descend k rest st.inArgs

/-- the slot for the word under the cursor, from command `c` on -/
def traverseSlotG (t : TTreeG) : Nat → Nat → List Str → Str → Slot
  | 0, _, _, _ => .notFollowed
  | fuel + 1, c, args, value =>
    match t[c]? with
    | none => .notFollowed
    | some cs =>
      if cs.name == "help".toList || cs.name == "_carapace".toList then .notFollowed else
      let pfs := flagsAtG t (t.size + 1) c
      let fs : FlagSetG := pfs.map (·.toDefG)
      match loopG t c cs fs args {} with
      | .descend k rest inArgs =>
        if cs.noFlagParse then traverseSlotG t fuel k rest value
        else match PflagG.parseG pfs cs.interspersed inArgs cs.whitelist with
          | .error _ => .message
          | .ok _ => traverseSlotG t fuel k rest value
      | .done st _ =>
        let flagOk := cs.interspersed || st.nPos == 0
        -- the words handed to the program's parser
        let toParse : List Str :=
          match st.inFlag with
          | some fd =>
            if fd.args.isEmpty && consumesG fd [] then st.inArgs.dropLast
            else seriesFix fs flagOk st.inArgs value
          | none => seriesFix fs flagOk st.inArgs value
        let parsed : Except Pflag.Err Pflag.Parsed :=
          if cs.noFlagParse then .ok { args := st.inArgs } else PflagG.parseG pfs cs.interspersed toParse cs.whitelist
        match parsed with
        | .error _ => .message
        | .ok p =>
          match p.lenAtDash with
          | some n => .dash c (p.args.length - n)
          | none =>
            match st.inFlag with
            | some fd => if consumesG fd value then .flagValue c fd.flag.name else flagOrPositional cs fs c flagOk p value
            | none => flagOrPositional cs fs c flagOk p value
where
  seriesFix (fs : FlagSetG) (flagOk : Bool) (inArgs : List Str) (value : Str) : List Str :=
    if flagOk && isShorthandSeries value && isPosixG fs then
      match lookupArgG fs value with
      | some lf =>
        if (lf.args.isEmpty || lf.args.head? == some []) && (!lf.flag.noOptDef || lf.prefix_.getLast? == some lf.flag.delim) then
          -- the last flag of the series misses its argument: drop it from what is parsed
          let cut := match lf.flag.short with
            | some sc => (lastIndexOfChar lf.prefix_ sc).getD lf.prefix_.length
            | none => 0
          inArgs ++ [lf.prefix_.take cut]
        else inArgs ++ [value]
      | none => inArgs ++ [value]
    else inArgs
  flagOrPositional (cs : TCmdG) (fs : FlagSetG) (c : Nat) (flagOk : Bool) (p : Pflag.Parsed) (value : Str) : Slot :=
    if !cs.noFlagParse && Str.hasPrefix value ['-'] && flagOk then
      match lookupArgG fs value with
      | some f =>
        if !f.args.isEmpty then
          (if !f.flag.takesValue && f.flag.noOptDef && f.flag.name != [] then .boolValues c f.prefix_ else .flagValueAttached c f.flag.name f.prefix_)
        else if isPosixG fs && !Str.hasPrefix value ['-', '-'] && !f.flag.noOptDef && f.prefix_ == value then .flagValueAttached c f.flag.name f.prefix_
        else .flagNames c
      | none => .flagNames c
    else .positional c p.args.length

end Carapace.Model
