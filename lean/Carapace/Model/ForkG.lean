/-
  MODEL of internal/pflagfork for flag sets that use the features of the carapace-pflag fork (still
  POSIX: every shorthand is one letter): a per-flag character that attaches the argument
  (`OptargDelimiter`) and flags that take several words (`Nargs` n > 1: n words; < 0: every word up to
  the next one that starts with `-`).  Generalises Model/PflagFork.lean, whose functions it equals on
  flag sets without these features (`lookupArgG_posix`, `consumesG_posix` in Props/C01Fork.lean).
-/
import Carapace.Model.PflagFork

namespace Carapace.Model
open Carapace

structure FlagDefG extends FlagDef where
  delim : Char := '='
  nargs : Int := 0
  deriving DecidableEq, Repr, Inhabited

abbrev FlagSetG := List FlagDefG

def lookupShortG (fs : FlagSetG) (c : Char) : Option FlagDefG := fs.find? (fun f => f.short == some c)

structure FoundG where
  flag : FlagDefG
  prefix_ : Str
  args : List Str
  deriving Repr, DecidableEq

/-- `lookupPosixShorthandArg`: the letter's own delimiter attaches a value -/
def lookupPosixShortG (fs : FlagSetG) : Str → Str → Option FoundG
  | _, [] => none
  | pre, c :: rest =>
    match lookupShortG fs c with
    | none => none
    | some f =>
      match rest with
      | [] => some ⟨f, pre ++ [c], []⟩
      | d :: r2 =>
        if d = f.delim then
          (if r2 ≠ [] then some ⟨f, pre ++ [c, d], [r2]⟩ else some ⟨f, pre ++ [c, d], [[]]⟩)
        else if !f.noOptDef then some ⟨f, pre ++ [c], [d :: r2]⟩
        else lookupPosixShortG fs (pre ++ [c]) (d :: r2)

/-- `lookupPosixLonghandArg` on the text after `--`: the first flag (VisitAll order) whose name is the
    text in front of the first occurrence of that flag's own delimiter -/
def lookupPosixLongG (fs : FlagSetG) (body : Str) : Option FoundG :=
  (fs.find? (fun f => (Str.cutChar f.delim body).1 == f.name)).map (fun f =>
    match Str.cutChar f.delim body with
    | (n, none) => ⟨f, "--".toList ++ n, []⟩
    | (n, some v) => ⟨f, "--".toList ++ n ++ [f.delim], [v]⟩)

/-- `FlagSet.LookupArg` (POSIX flag set) -/
def lookupArgG (fs : FlagSetG) (arg : Str) : Option FoundG :=
  match arg with
  | '-' :: '-' :: body => lookupPosixLongG fs body
  | '-' :: c :: rest => lookupPosixShortG fs ['-'] (c :: rest)
  | _ => none

/-- `Flag.Consumes(arg)` -/
def consumesG (fd : FoundG) (arg : Str) : Bool :=
  fd.flag.takesValue && !fd.flag.noOptDef &&
    (if fd.flag.nargs < 0 then !Str.hasPrefix arg ['-']
     else fd.args.isEmpty || (fd.flag.nargs > 1 && decide ((fd.args.length : Int) < fd.flag.nargs)))

end Carapace.Model
