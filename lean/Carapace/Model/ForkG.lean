/-
  MODEL of internal/pflagfork for flag sets that use the features of the carapace-pflag fork (still
  POSIX: every shorthand is one letter): a per-flag character that attaches the argument
  (`OptargDelimiter`) and flags that take several words (`Nargs` n > 1: n words; < 0: every word up to
  the next one that starts with `-`).  Generalises Model/PflagFork.lean, whose functions it equals on
  flag sets without these features (`lookupArgG_posix`, `consumesG_posix` in Props/C01Fork.lean).
-/
import Carapace.Model.PflagFork

namespace Carapace.Model
open Carapace

structure FlagDefG extends FlagDef where
  delim : Char := '='
  nargs : Int := 0
  /-- the shorthand as a text: a word in non-POSIX flag sets (`-bool-short`); `short` is its letter when it is one -/
  shortW : Str := []
  /-- 0 Default, 1 ShorthandOnly (`-short` only), 2 NameAsShorthand (`-short`, `-name`, `--name`) -/
  mode : Nat := 0
  deriving DecidableEq, Repr, Inhabited

abbrev FlagSetG := List FlagDefG

def lookupShortG (fs : FlagSetG) (c : Char) : Option FlagDefG := fs.find? (fun f => f.short == some c)

structure FoundG where
  flag : FlagDefG
  prefix_ : Str
  args : List Str
  deriving Repr, DecidableEq

/-- `lookupPosixShorthandArg`: the letter's own delimiter attaches a value -/
def lookupPosixShortG (fs : FlagSetG) : Str → Str → Option FoundG
  | _, [] => none
  | pre, c :: rest =>
    match lookupShortG fs c with
    | none => none
    | some f =>
      match rest with
      | [] => some ⟨f, pre ++ [c], []⟩
      | d :: r2 =>
        if d = f.delim then
          (if r2 ≠ [] then some ⟨f, pre ++ [c, d], [r2]⟩ else some ⟨f, pre ++ [c, d], [[]]⟩)
        else if !f.noOptDef then some ⟨f, pre ++ [c], [d :: r2]⟩
        else lookupPosixShortG fs (pre ++ [c]) (d :: r2)

/-- `FlagSet.IsPosix`: no shorthand is longer than one letter - where a NameAsShorthand flag that has a
    shorthand also registers its name as one -/
def isPosixG (fs : FlagSetG) : Bool :=
  fs.all (fun f => decide (f.shortW.length ≤ 1) && (f.mode != 2 || f.shortW.isEmpty || decide (f.name.length ≤ 1)))

/-- `lookupPosixLonghandArg` on the text after `--`: the first flag of mode Default (VisitAll order) whose
    name is the text in front of the first occurrence of that flag's own delimiter -/
def lookupPosixLongG (fs : FlagSetG) (body : Str) : Option FoundG :=
  (fs.find? (fun f => f.mode == 0 && (Str.cutChar f.delim body).1 == f.name)).map (fun f =>
    match Str.cutChar f.delim body with
    | (n, none) => ⟨f, "--".toList ++ n, []⟩
    | (n, some v) => ⟨f, "--".toList ++ n ++ [f.delim], [v]⟩)

/-- `lookupNonPosixShorthandArg` on a word that starts with `-`: the first flag, in the order of the names
    (VisitAll), whose shorthand is the text between the `-` and the first occurrence of the flag's own
    delimiter - a flag without shorthand answers to a lone `-` -/
def lookupNonPosixG (fs : FlagSetG) (arg : Str) : Option FoundG :=
  ((sortBy (fun (a b : FlagDefG) => Str.lt a.name b.name) fs).find? (fun f => (Str.cutChar f.delim arg).1 == '-' :: f.shortW)).map (fun f =>
    match Str.cutChar f.delim arg with
    | (n, none) => ⟨f, n, []⟩
    | (n, some v) => ⟨f, n ++ [f.delim], [v]⟩)

/-- `FlagSet.LookupArg` -/
def lookupArgG (fs : FlagSetG) (arg : Str) : Option FoundG :=
  match arg with
  | '-' :: '-' :: body => lookupPosixLongG fs body
  | '-' :: c :: rest => if isPosixG fs then lookupPosixShortG fs ['-'] (c :: rest) else lookupNonPosixG fs ('-' :: c :: rest)
  | ['-'] => if isPosixG fs then none else lookupNonPosixG fs ['-']
  | _ => none

/-- `Flag.Consumes(arg)` -/
def consumesG (fd : FoundG) (arg : Str) : Bool :=
  fd.flag.takesValue && !fd.flag.noOptDef &&
    (if fd.flag.nargs < 0 then !Str.hasPrefix arg ['-']
     else fd.args.isEmpty || (fd.flag.nargs > 1 && decide ((fd.args.length : Int) < fd.flag.nargs)))

end Carapace.Model
