/-
  MODEL of writing a cache entry (internal/cache.Write = one `os.WriteFile`: open with O_TRUNC,
  write, close) with a crash / failure at any point, and of a reader at any point.
  The protocol shape is tied to the source by the generated call list `Gen.cache_Write_calls`.
-/
import Carapace.Basic.Str
import Carapace.Gen.CharSets

namespace Carapace.Model
open Carapace

/-- the file as a later or concurrent reader finds it -/
abbrev FileState := Option Str       -- `none`: no file

/-- in-place protocol `[openTrunc, write..., close]` stopped after `k` bytes were written;
    `k = none`: stopped before the open -/
def inPlaceWrite (old : FileState) (content : Str) (stop : Option Nat) : FileState :=
  match stop with
  | none => old
  | some k => some (content.take k)

/-- temp-file protocol `[openTemp, write..., close, rename]`: the entry changes only at the rename -/
def renameWrite (old : FileState) (content : Str) (renamed : Bool) : FileState :=
  if renamed then some content else old

/-- the Action cache reads through a decoder; the raw cache hands the bytes out as they are -/
def readAction {R} (decode : Str → Option R) (f : FileState) : Option R := f.bind decode
def readRaw (f : FileState) : Option Str := f

end Carapace.Model
