/-
  MODEL of the `export` wire document (internal/export/export.go, internal/common: the json
  tags of RawValue / Meta / Messages / SuffixMatcher) and of the string encoding of Go's
  `encoding/json` (`appendString` with HTML escaping, which `json.Marshal` uses).
  `encoding/json` is a dependency: modelled here, bound by byte-for-byte comparison with
  `json.Marshal` on every generated completion (op `exportrt`).
-/
import Carapace.Model.Common
import Carapace.Basic.Transducer

namespace Carapace.Model
open Carapace

def hexDigit (n : Nat) : Char := "0123456789abcdef".toList.getD n '0'

/-- `appendString`: what one character of a Go string becomes inside a JSON string -/
def jsonEncodeChar (c : Char) : Str :=
  let n := c.toNat
  if n = 0x22 ∨ n = 0x5C then ['\\', c]
  else if n = 0x08 then ['\\', 'b']
  else if n = 0x0C then ['\\', 'f']
  else if n = 0x0A then ['\\', 'n']
  else if n = 0x0D then ['\\', 'r']
  else if n = 0x09 then ['\\', 't']
  else if n < 0x20 ∨ n = 0x3C ∨ n = 0x3E ∨ n = 0x26 then ['\\', 'u', '0', '0', hexDigit (n / 16), hexDigit (n % 16)]
  else if n = 0x2028 ∨ n = 0x2029 then ['\\', 'u', '2', '0', '2', hexDigit (n % 16)]
  else [c]

def jsonEncodeBody (s : Str) : Str := s.flatMap jsonEncodeChar
def jsonEncodeString (s : Str) : Str := ['"'] ++ jsonEncodeBody s ++ ['"']

/-! ### reading a JSON string back (RFC 8259 string grammar; surrogate escapes are not needed
    for what `appendString` writes and are rejected here) -/

inductive JMode where
  | start | normal | esc | hex (k : Nat) (acc : Nat) | done
  deriving DecidableEq, Repr, Inhabited

def hexVal (c : Char) : Option Nat :=
  let n := c.toNat
  if 0x30 ≤ n ∧ n ≤ 0x39 then some (n - 0x30)
  else if 0x61 ≤ n ∧ n ≤ 0x66 then some (n - 0x61 + 10)
  else if 0x41 ≤ n ∧ n ≤ 0x46 then some (n - 0x41 + 10)
  else none

def jsonStep : JMode → Char → Option (JMode × List Out)
  | .start, c => if c = '"' then some (.normal, []) else none
  | .normal, c =>
    if c = '"' then some (.done, [])
    else if c = '\\' then some (.esc, [])
    else if c.toNat < 0x20 then none
    else some (.normal, [.lit c])
  | .esc, c =>
    if c = '"' then some (.normal, [.lit '"']) else if c = '\\' then some (.normal, [.lit '\\'])
    else if c = '/' then some (.normal, [.lit '/']) else if c = 'b' then some (.normal, [.lit (Char.ofNat 8)])
    else if c = 'f' then some (.normal, [.lit (Char.ofNat 12)]) else if c = 'n' then some (.normal, [.lit '\n'])
    else if c = 'r' then some (.normal, [.lit '\r']) else if c = 't' then some (.normal, [.lit '\t'])
    else if c = 'u' then some (.hex 0 0) |>.map (fun m => (m, [])) else none
  | .hex k acc, c =>
    match hexVal c with
    | none => none
    | some d =>
      let v := acc * 16 + d
      if k ≥ 3 then
        (if 0xD800 ≤ v ∧ v ≤ 0xDFFF then none else some (.normal, [.lit (Char.ofNat v)]))
      else some (.hex (k + 1) v, [])
  | .done, _ => none

def jsonReader : Reader JMode := ⟨jsonStep⟩

def litsOf (o : List Out) : Str := o.filterMap (fun x => match x with | .lit c => some c | _ => none)

/-- decode one JSON string literal -/
def jsonDecodeString (text : Str) : Option Str :=
  match jsonReader.run .start text with
  | some (.done, o) => some (litsOf o)
  | _ => none

/-! ### the export document -/

def jsonField (name : Str) (value : Str) : Str := jsonEncodeString name ++ [':'] ++ value

def jsonArray (xs : List Str) : Str := ['['] ++ Str.join [','] xs ++ [']']
def jsonObject (fields : List Str) : Str := ['{'] ++ Str.join [','] fields ++ ['}']

/-- `RawValue` with its json tags: value, display always; the rest `omitempty` -/
def marshalRawValue (v : RawValue) : Str :=
  let opt (name : String) (s : Str) : List Str := if s.isEmpty then [] else [jsonField name.toList (jsonEncodeString s)]
  jsonObject ([jsonField "value".toList (jsonEncodeString v.value), jsonField "display".toList (jsonEncodeString v.display)]
    ++ opt "description" v.description ++ opt "style" v.style ++ opt "tag" v.tag ++ opt "uid" v.uid)

/-- `Export.MarshalJSON`: version, the embedded Meta (messages, nospace, usage), values sorted by value;
    a nil value slice is written as `null` -/
def marshalExport (version : Str) (m : Meta) (vs : Option (List RawValue)) : Str :=
  jsonObject [ jsonField "version".toList (jsonEncodeString version),
               jsonField "messages".toList (jsonArray (m.messages.map jsonEncodeString)),
               jsonField "nospace".toList (jsonEncodeString m.nospace),
               jsonField "usage".toList (jsonEncodeString m.usage),
               jsonField "values".toList (match vs with
                 | none => "null".toList
                 | some vs => jsonArray ((sortBy (fun a b => Str.lt a.value b.value) vs).map marshalRawValue)) ]

end Carapace.Model
