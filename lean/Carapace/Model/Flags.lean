/-
  MODEL of the offer rules of `actionFlags` (internalActions.go:88-145) and of
  `pflagfork.FlagSet.IsMutuallyExclusive` (flagset.go:38-50).
-/
import Carapace.Model.PflagFork

namespace Carapace.Model
open Carapace

structure FlagState where
  fdef : FlagDef
  hidden : Bool := false
  deprecated : Bool := false
  shortDeprecated : Bool := false
  changed : Bool := false
  repeatable : Bool := false
  /-- the mutually exclusive groups the flag belongs to, each a list of member names -/
  groups : List (List Str) := []
  deriving Repr, Inhabited

/-- `IsMutuallyExclusive`: some member of one of the flag's groups was given - the flag itself counts; a flag of
    that name counts only if it belongs to that very group (a local flag can shadow an inherited member by name;
    since fix 39ab3c2, as cobra's own validation) -/
def mutexBlocked (all : List FlagState) (f : FlagState) : Bool :=
  f.groups.any (fun g => g.any (fun n => all.any (fun o => o.fdef.name == n && o.changed && o.groups.contains g)))

/-- the four skip rules of `actionFlags` -/
def offered (showHidden : Bool) (all : List FlagState) (f : FlagState) : Bool :=
  !(f.hidden && !showHidden) && !f.deprecated && !(f.changed && !f.repeatable) && !mutexBlocked all f

/-- inside a shorthand series: every letter typed so far belongs to a flag that takes no argument
    (bool, count, optional argument) -/
def seriesOpen (fs : FlagSet) (typed : Str) : Bool :=
  typed.all (fun c => match lookupShort fs c with | some f => f.noOptDef | none => true)

end Carapace.Model
