/-
  C18 over the general traverse model (fork features, non-POSIX flag sets, descent included): the two slice
  expressions of traverse.go whose bounds depend on the typed line.

  * `toParse[:len(toParse)-1]`: `C18G_toParse_nonempty` - whenever the loop ends with a flag in `inFlag`, at
    least that flag's word is in `inArgs` (every word the loop takes is appended; `inFlag` is only ever set
    together with an append).  No hypothesis on the line: sub-command names, `--`, fork features are all
    covered, which the POSIX version `C18_toParse_nonempty` (with its `NoChild` hypothesis) was not.
  * `Prefix[strings.LastIndex(Prefix, Shorthand):]`: reached only for a shorthand series, i.e. in a POSIX flag
    set, through `lookupPosixShorthandArg`: `C18G_series_prefix_contains_shorthand`.
-/
import Carapace.Props.C01ForkTraverse

namespace Carapace.Props.C18
open Carapace Carapace.Model Carapace.Spec Carapace.Props.C01Fork

/-- every word the classification takes for the current command is appended to `inArgs` -/
theorem classifyG_next_nonempty (t : TTreeG) (c : Nat) (cs : TCmdG) (fs : FlagSetG) (arg : Str) (st st' : LoopStateG)
    (h : classifyG t c cs fs arg st = .next st') : st'.inArgs ≠ [] := by
  rw [classifyG_eq] at h
  have key : ∀ x : WordClassG, noFlagGP t c cs fs arg st = x → x = .next st' → st'.inArgs ≠ [] := by
    intro x hx hn
    unfold noFlagGP at hx
    subst hn
    split at hx
    · cases hx
    · split at hx
      · cases hx; simp
      · split at hx
        · cases hx
        · cases hx; simp
  cases hf : st.inFlag with
  | none => rw [hf] at h; exact key _ rfl h
  | some fd =>
    rw [hf] at h
    simp only at h
    split at h
    · cases h; simp
    · exact key _ rfl h

/-- **`toParse[:len(toParse)-1]` is never taken of an empty list** (general model, any line) -/
theorem C18G_toParse_nonempty (t : TTreeG) (c : Nat) (cs : TCmdG) (fs : FlagSetG) (ws : List Str)
    (st : LoopStateG) (b : Bool) (hl : loopG t c cs fs ws {} = .done st b)
    (fd : FoundG) (hfd : st.inFlag = some fd) : st.inArgs ≠ [] := by
  -- invariant: a flag in `inFlag` implies a word in `inArgs`
  suffices hgen : ∀ (ws : List Str) (s0 : LoopStateG), (s0.inFlag.isSome → s0.inArgs ≠ []) →
      loopG t c cs fs ws s0 = .done st b → (st.inFlag.isSome → st.inArgs ≠ []) by
    exact hgen ws {} (by intro h; cases h) hl (by rw [hfd]; rfl)
  intro ws
  induction ws with
  | nil =>
    intro s0 h0 hl
    simp only [loopG] at hl
    cases hl
    exact h0
  | cons arg rest ih =>
    intro s0 h0 hl
    simp only [loopG] at hl
    cases hc : classifyG t c cs fs arg s0 with
    | next s1 =>
      rw [hc] at hl
      exact ih s1 (fun _ => classifyG_next_nonempty t c cs fs arg s0 s1 hc) hl
    | dash =>
      rw [hc] at hl
      cases hl
      intro h; cases h
    | child k =>
      rw [hc] at hl
      cases hl

/-- what `lookupPosixShorthandArg` returns carries the flag's shorthand letter inside its prefix (with a
    per-flag delimiter), so `strings.LastIndex(Prefix, Shorthand)` is never -1 -/
theorem C18G_series_prefix_contains_shorthand (fs : FlagSetG) :
    ∀ (cs pre : Str) (fd : FoundG), lookupPosixShortG fs pre cs = some fd →
      ∃ c, fd.flag.short = some c ∧ c ∈ fd.prefix_ := by
  intro cs
  induction cs with
  | nil => intro pre fd h; simp [lookupPosixShortG] at h
  | cons c rest ih =>
    intro pre fd h
    rw [lookupPosixShortG] at h
    cases hl : lookupShortG fs c with
    | none => simp [hl] at h
    | some f =>
      have hs : f.short = some c := by
        unfold lookupShortG at hl
        have := List.find?_some hl
        simpa using this
      simp only [hl] at h
      cases rest with
      | nil =>
        simp only [Option.some.injEq] at h
        subst h
        exact ⟨c, hs, by simp⟩
      | cons d r2 =>
        simp only at h
        split at h
        · split at h <;> (simp only [Option.some.injEq] at h; subst h; exact ⟨c, hs, by simp⟩)
        · split at h
          · simp only [Option.some.injEq] at h; subst h; exact ⟨c, hs, by simp⟩
          · exact ih (pre ++ [c]) fd h

end Carapace.Props.C18
