/-
  C20 — the cobra bridge serves the same completions in both directions.
  Theorems about the model of compat.go; which command-line position cobra asks for is decided on
  the real code (op `ccomplete`: the real `__complete` protocol against carapace's own serving).
-/
import Carapace.Model.Bridge
import Carapace.Lemmas.Framing
import Carapace.Props.C05

namespace Carapace.Props.C20
open Carapace Carapace.Model

/-- **values and descriptions intact** (carapace -> cobra -> any reader of cobra's protocol): splitting
    each served line at the first tab recovers the value and its description, for any text in the
    description and any value without a tab -/
theorem C20_values (r : Invoked) (h : ∀ v ∈ r.2, '\t' ∉ v.value) :
    (cobraValuesFor r).map splitTab =
      r.2.map (fun v => (v.value, v.description)) := by
  simp only [cobraValuesFor, List.map_map]
  apply List.map_congr_left
  intro v hv
  simp only [Function.comp, splitTab]
  by_cases hd : v.description.isEmpty = true
  · have : v.description = [] := by simpa using hd
    simp [hd, Str.cutChar_no '\t' v.value (h v hv), this]
  · simp only [hd, Bool.false_eq_true, if_false]
    rw [List.append_assoc]
    simp [Str.cutChar_append '\t' v.value v.description (h v hv)]

/-- **NoSpace iff a served value has a no-space suffix; file completion always disabled** -/
theorem C20_nospace_iff (r : Invoked) :
    hasBit (cobraDirectiveFor r) dNoFileComp = true ∧
    (hasBit (cobraDirectiveFor r) dNoSpace = true ↔ ∃ v ∈ r.2, SuffixMatcher.matchesStr r.1.nospace v.value = true) := by
  unfold cobraDirectiveFor
  by_cases h : r.2.any (fun v => SuffixMatcher.matchesStr r.1.nospace v.value) = true
  · simp only [h, if_true]
    refine ⟨by decide, ?_⟩
    constructor
    · intro _; simpa [List.any_eq_true] using h
    · intro _; decide
  · simp only [h, Bool.false_eq_true, if_false]
    refine ⟨by decide, ?_⟩
    constructor
    · intro hc; exact absurd hc (by decide)
    · intro he; exact absurd (by simpa [List.any_eq_true] using he) h

/-- the specification of how the directives are honoured, read off the property -/
def specKind (d : Nat) (noValues : Bool) : Nat :=
  -- 0 error, 1 dirs, 2 fileExt, 3 files, 4 values
  if hasBit d dError then 0
  else if hasBit d dFilterDirs then 1
  else if hasBit d dFilterFileExt then 2
  else if noValues && !hasBit d dNoFileComp then 3
  else 4

def kindCode : BridgeKind → Nat
  | .error => 0 | .dirs _ => 1 | .fileExt _ => 2 | .files => 3 | .values _ => 4

/-- **the directive table**: for all 64 combinations of cobra's directives, with and without values,
    the model of `ToA` chooses the kind of completion the specification prescribes -/
theorem C20_directive_table :
    (List.range 64).all (fun d =>
      kindCode (directiveToA d []).1 == specKind d true &&
      kindCode (directiveToA d ["v".toList]).1 == specKind d false) = true := by decide

/-- ... for every directive value and every list of values -/
theorem C20_directive_kind (d : Nat) (vs : List Str) :
    kindCode (directiveToA d vs).1 = specKind d vs.isEmpty := by
  unfold directiveToA specKind
  split
  · rfl
  · split
    · rfl
    · split
      · rfl
      · split <;> rfl

/-- values served by a cobra function reach carapace with value and description intact -/
theorem C20_values_from_cobra (d : Nat) (vs : List Str)
    (h : hasBit d dError = false ∧ hasBit d dFilterDirs = false ∧ hasBit d dFilterFileExt = false)
    (hv : vs ≠ []) :
    (directiveToA d vs).1 = .values (vs.map splitTab) := by
  unfold directiveToA
  have : vs.isEmpty = false := by cases vs <;> simp_all
  simp [h.1, h.2.1, h.2.2, this]

/-- NoSpace is honoured whatever else the directive says, unless it signals an error
    (before the repair e3d5247 the FilterFileExt case returned early and lost it) -/
theorem C20_nospace_honoured :
    (List.range 64).all (fun d =>
      hasBit d dError ||
      ((directiveToA d ["v".toList]).2 == hasBit d dNoSpace && (directiveToA d []).2 == hasBit d dNoSpace)) = true := by decide

/-- ... and for every value list, not only the two samples above -/
theorem C20_nospace_honoured_all (d : Nat) (vs : List Str) (h : hasBit d dError = false) :
    (directiveToA d vs).2 = hasBit d dNoSpace := by
  unfold directiveToA
  simp only [h]
  split
  · simp at *
  · split
    · rfl
    · split
      · rfl
      · split <;> rfl

end Carapace.Props.C20
