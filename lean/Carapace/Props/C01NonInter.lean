/-
  C01 for the flag-value slot of a non-interspersed command (flags are parsed up to the first positional
  only).  `parseArgs_append_nopos`: while the parser has met no positional and no `--`, appending words to
  the line continues the parse where it stood - the counterpart of `parseArgs_append_inter`.
-/
import Carapace.Props.C01Flag

namespace Carapace.Props.C01
open Carapace Carapace.Model Carapace.Spec

theorem parseArgs_append_nopos {fs : Pflag.PFlags} (tail : List Str) (ht : tail ≠ []) :
    ∀ (ws : List Str) (skip : Bool) (p q : Pflag.Parsed),
      (skip = true → ws ≠ []) →
      Pflag.parseArgs fs false ws skip p = .ok q → q.lenAtDash = none → q.args = [] →
      Pflag.parseArgs fs false (ws ++ tail) skip p = Pflag.parseArgs fs false tail false q := by
  intro ws
  induction ws with
  | nil =>
    intro skip p q hskip h hq hqa
    cases skip with
    | true => exact absurd rfl (hskip rfl)
    | false =>
      simp only [Pflag.parseArgs, Except.ok.injEq] at h
      subst h
      rfl
  | cons s rest ih =>
    intro skip p q hskip h hq hqa
    cases skip with
    | true =>
      simp only [List.cons_append, Pflag.parseArgs] at h ⊢
      cases rest with
      | nil =>
        simp only [Pflag.parseArgs, Except.ok.injEq] at h
        subst h
        simp
      | cons r0 r1 => exact ih false p q (by simp) h hq hqa
    | false =>
      simp only [List.cons_append]
      cases hk : Pflag.wordKind s with
      | dash =>
        simp only [Pflag.parseArgs, hk, Except.ok.injEq] at h
        subst h
        simp at hq
      | long body =>
        simp only [Pflag.parseArgs, hk] at h ⊢
        cases rest with
        | nil =>
          cases tail with
          | nil => exact absurd rfl ht
          | cons t0 t1 =>
            simp only [List.head?_nil, List.nil_append, List.head?_cons] at h ⊢
            cases hl : Pflag.parseLong fs body none with
            | error e => simp [hl] at h
            | ok r =>
              obtain ⟨a, took⟩ := r
              obtain ⟨htk, hall⟩ := Pflag.parseLong_none hl
              subst htk
              simp only [hl, Pflag.parseArgs, Except.ok.injEq] at h
              simp only [hall (some t0)]
              subst h
              rfl
        | cons r0 r1 =>
          simp only [List.head?_cons, List.cons_append] at h ⊢
          cases hl : Pflag.parseLong fs body (some r0) with
          | error e => simp [hl] at h
          | ok r =>
            obtain ⟨a, took⟩ := r
            simp only [hl] at h ⊢
            exact ih took { p with sets := p.sets ++ [a] } q (by simp) h hq hqa
      | short cs =>
        simp only [Pflag.parseArgs, hk] at h ⊢
        cases rest with
        | nil =>
          cases tail with
          | nil => exact absurd rfl ht
          | cons t0 t1 =>
            simp only [List.head?_nil, List.nil_append, List.head?_cons] at h ⊢
            cases hl : Pflag.parseShort fs cs none with
            | error e => simp [hl] at h
            | ok r =>
              obtain ⟨as, took⟩ := r
              obtain ⟨htk, hall⟩ := Pflag.parseShort_none hl
              subst htk
              simp only [hl, Pflag.parseArgs, Except.ok.injEq] at h
              simp only [hall (some t0)]
              subst h
              rfl
        | cons r0 r1 =>
          simp only [List.head?_cons, List.cons_append] at h ⊢
          cases hl : Pflag.parseShort fs cs (some r0) with
          | error e => simp [hl] at h
          | ok r =>
            obtain ⟨as, took⟩ := r
            simp only [hl] at h ⊢
            exact ih took { p with sets := p.sets ++ as } q (by simp) h hq hqa
      | pos =>
        -- a positional ends the parse of a non-interspersed line: excluded by `q.args = []`
        exfalso
        simp only [Pflag.parseArgs, hk, Bool.false_eq_true, if_false, Except.ok.injEq] at h
        subst h
        simp at hqa


/-- **C01 for the flag-value slot of a command that stops parsing flags at the first positional.** As
    `C01_flag_value_lands`, given that the parser has met no positional in front of the flag word (carapace's and
    the parser's count of positionals can differ - the listed finding `lone_dash_or_empty_word`). -/
theorem C01_flag_value_lands_noninterspersed {t : TTree} {c : Nat} {cs : TCmd} (h : Stay t c cs) (hi : cs.interspersed = false)
    (hn : NamesOk (flagsAt t (t.size + 1) c)) (fuel : Nat) (ws : List Str) (hnc : NoChild t c ws) (w name : Str)
    (hs : traverseSlot t (fuel + 1) c ws w = .flagValue c name)
    (hpos : ∀ p, Pflag.parse (flagsAt t (t.size + 1) c) false ws.dropLast = .ok p → p.args = []) :
    ∀ v, (∀ f ∈ flagsAt t (t.size + 1) c, f.name = name → Pflag.valueOk f v = true) →
      ∃ p', Pflag.parse (flagsAt t (t.size + 1) c) false (ws ++ [v]) = .ok p' ∧ p'.sets.getLast? = some (name, v) := by
  intro v hv
  have ht0 : t[c]? = some cs := h.cmd
  unfold traverseSlot at hs
  simp only [ht0, h.name1, h.name2, Bool.false_eq_true, Bool.or_self, if_false] at hs
  obtain ⟨st, b, hl, hin⟩ := loop_single (cs := cs) ((flagsAt t (t.size + 1) c).map (·.toDef)) ws {} hnc
  simp only [hl, h.parses, Bool.false_eq_true, if_false, hi] at hs
  have hin' : st.inArgs = ws := by simpa using hin
  -- only a waiting flag gives this slot
  cases hfl : st.inFlag with
  | none =>
    exfalso
    simp only [hfl] at hs
    split at hs
    · simp at hs
    · split at hs
      · simp at hs
      · unfold traverseSlot.flagOrPositional at hs
        repeat' split at hs
        all_goals simp at hs
  | some fd =>
    simp only [hfl] at hs
    by_cases hcon : consumes fd = true
    · have hargs : fd.args.isEmpty = true := by
        simp only [consumes, Bool.and_eq_true] at hcon; exact hcon.2
      simp only [hargs, hcon, Bool.and_self, if_true, hin'] at hs
      cases hp : Pflag.parse (flagsAt t (t.size + 1) c) false ws.dropLast with
      | error e => simp [hp] at hs
      | ok p =>
        simp only [hp] at hs
        cases hd : p.lenAtDash with
        | some n => simp [hd] at hs
        | none =>
          simp only [hd, Slot.flagValue.injEq, true_and] at hs
          -- the waiting flag is the last word
          have hb : b = false := by
            cases b with
            | false => rfl
            | true =>
              have := loop_dash_nopend _ ws {} st hl fd hfl
              rw [this] at hcon; cases hcon
          have hpend := loop_pend _ ws {} st b hnc (by intro fd' e; cases e) hl hb fd hfl hcon
          obtain ⟨ws0, a, hws, hla, hnd⟩ := hpend
          rw [hin'] at hws
          have hdl : ws.dropLast = ws0 := by rw [hws]; simp
          have hpa : p.args = [] := hpos p hp
          rw [hdl] at hp
          have happ : ws ++ [v] = ws0 ++ [a, v] := by rw [hws]; simp
          rw [happ]
          unfold Pflag.parse at hp ⊢
          rw [parseArgs_append_nopos [a, v] (by simp) ws0 false {} p (by simp) hp hd hpa]
          -- the flag word, as carapace and as the parser read it
          rcases lookupArg_cases hla with ⟨body, rfl, hlong⟩ | ⟨c, rest, hc, rfl, hshort⟩
          · obtain ⟨f, hmem, hfd, hbne, hpl⟩ := long_pending hn v hlong hcon
            have hfn : f.name = name := by
              rw [← hs]; rw [← hfd]; rfl
            cases body with
            | nil => exact absurd rfl hbne
            | cons c r =>
              have := hpl (hv f hmem hfn)
              refine ⟨{ p with sets := p.sets ++ [(f.name, v)] }, ?_, by simp [hfn]⟩
              simp [Pflag.parseArgs, wordKind_long, this]
          · obtain ⟨f, as, hmem, hfd, hpl⟩ := short_pending v (c :: rest) ['-'] fd hshort hcon
            have hfn : f.name = name := by
              rw [← hs]; rw [← hfd]; rfl
            have := hpl (hv f hmem hfn)
            refine ⟨{ p with sets := p.sets ++ (as ++ [(f.name, v)]) }, ?_, by simp [hfn]⟩
            simp [Pflag.parseArgs, wordKind_short c rest hc, this]
    · exfalso
      have hcf : consumes fd = false := by simpa using hcon
      simp only [hcf, Bool.and_false, Bool.false_eq_true, if_false] at hs
      split at hs
      · simp at hs
      · split at hs
        · simp at hs
        · unfold traverseSlot.flagOrPositional at hs
          repeat' split at hs
          all_goals simp at hs


/-- non-vacuity: a non-interspersed command, `--name` waiting for its value, no positional so far -/
example :
    let cs : TCmd := { name := "prog".toList, interspersed := false, flags := [({ name := "name".toList, short := some 'n' }, false)] }
    traverseSlot #[cs] 3 0 ["--name".toList] "val".toList = .flagValue 0 "name".toList ∧
    Pflag.parse (flagsAt #[cs] 2 0) false ([] : List Str) = .ok {} := by
  constructor
  · decide
  · rfl

end Carapace.Props.C01
