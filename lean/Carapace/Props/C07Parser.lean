/-
  C07 at the level of the program's flag parser: a flag name offered in the flag-name slot of an
  accepted interspersed line, appended (with a value if it needs one), is accepted by the parser
  specification and sets that very flag.  (cobra's group validation - mutually exclusive flags -
  is a later layer; its rule is `C07_mutex` over the offer-rule model.)
-/
import Carapace.Props.C01Flag

namespace Carapace.Props.C07
open Carapace Carapace.Model Carapace.Spec Carapace.Props.C01

theorem cutChar_name {n : Str} (h : '=' ∉ n) : Str.cutChar '=' n = (n, none) := Str.cutChar_no '=' n h

/-- `--name` for a flag that needs no value (bool, count, optional argument) -/
theorem C07_long_noarg_accepted {pfs : Pflag.PFlags} (hn : NamesOk pfs) {ws : List Str} {p : Pflag.Parsed}
    (hp : Pflag.parse pfs true ws = .ok p) (hd : p.lenAtDash = none)
    {f : Pflag.PFlag} (hf : Pflag.findLong pfs f.name = some f) {dv : Str} (hdv : f.noOptDefVal = some dv) :
    Pflag.parse pfs true (ws ++ ["--".toList ++ f.name]) = .ok { p with sets := p.sets ++ [(f.name, dv)] } := by
  obtain ⟨hmem, _⟩ := findLong_mem hf
  obtain ⟨hne, hd1, hd2, heq⟩ := hn f hmem
  unfold Pflag.parse at hp ⊢
  rw [parseArgs_append_inter ["--".toList ++ f.name] (by simp) ws false {} p (by simp) hp hd]
  cases hnm : f.name with
  | nil => exact absurd hnm hne
  | cons c r =>
    have hc1 : c ≠ '-' := by intro e; rw [hnm, e] at hd1; simp at hd1
    have hc2 : c ≠ '=' := by intro e; rw [hnm, e] at hd2; simp at hd2
    have hk : Pflag.wordKind ('-' :: '-' :: c :: r) = .long (c :: r) := wordKind_long c r
    have hcut : Str.cutChar '=' (c :: r) = (c :: r, none) := by rw [← hnm]; exact cutChar_name heq
    have hfl : Pflag.findLong pfs (c :: r) = some f := by rw [← hnm]; exact hf
    have hpl : Pflag.parseLong pfs (c :: r) none = .ok ((f.name, dv), false) := by
      unfold Pflag.parseLong
      simp [hc1, hc2, hcut, hfl, hdv]
    rw [hnm] at hpl
    simp [Pflag.parseArgs, hk, hpl]

/-- `--name value` for a flag that needs a value -/
theorem C07_long_value_accepted {pfs : Pflag.PFlags} (hn : NamesOk pfs) {ws : List Str} {p : Pflag.Parsed}
    (hp : Pflag.parse pfs true ws = .ok p) (hd : p.lenAtDash = none)
    {f : Pflag.PFlag} (hf : Pflag.findLong pfs f.name = some f) (hdv : f.noOptDefVal = none)
    (v : Str) (hv : Pflag.valueOk f v = true) :
    Pflag.parse pfs true (ws ++ ["--".toList ++ f.name, v]) = .ok { p with sets := p.sets ++ [(f.name, v)] } := by
  obtain ⟨hmem, _⟩ := findLong_mem hf
  obtain ⟨hne, hd1, hd2, heq⟩ := hn f hmem
  unfold Pflag.parse at hp ⊢
  rw [parseArgs_append_inter ["--".toList ++ f.name, v] (by simp) ws false {} p (by simp) hp hd]
  cases hnm : f.name with
  | nil => exact absurd hnm hne
  | cons c r =>
    have hc1 : c ≠ '-' := by intro e; rw [hnm, e] at hd1; simp at hd1
    have hc2 : c ≠ '=' := by intro e; rw [hnm, e] at hd2; simp at hd2
    have hk : Pflag.wordKind ('-' :: '-' :: c :: r) = .long (c :: r) := wordKind_long c r
    have hcut : Str.cutChar '=' (c :: r) = (c :: r, none) := by rw [← hnm]; exact cutChar_name heq
    have hfl : Pflag.findLong pfs (c :: r) = some f := by rw [← hnm]; exact hf
    have hpl : Pflag.parseLong pfs (c :: r) (some v) = .ok ((f.name, v), true) := by
      unfold Pflag.parseLong
      simp [hc1, hc2, hcut, hfl, hdv, hv]
    rw [hnm] at hpl
    simp [Pflag.parseArgs, hk, hpl]

end Carapace.Props.C07
