/-
  C09 — parallel invocation (Batch) equals sequential invocation.
  Model: every member writes its result into its own slot (batch.go:17-31); a schedule is the
  order in which the member goroutines run.  The data-race part of the property is a runtime
  matter: searched with the race detector by the check, not proved (see DESIGN.md, C09).
-/
import Carapace.Model.Actions
import Carapace.Props.C05

namespace Carapace.Props.C09
open Carapace Carapace.Model

/-- slots after running the members in the order `sched` (a member may run at any point) -/
def runSchedule (ms : List Expr) (c : Ctx) : List Nat → (Nat → Option Invoked) → (Nat → Option Invoked)
  | [], slots => slots
  | i :: rest, slots =>
    runSchedule ms c rest (fun j => if j = i then some (invoke (ms.getD i (.plain [])) c) else slots j)

theorem runSchedule_spec (ms : List Expr) (c : Ctx) (sched : List Nat) (slots : Nat → Option Invoked) (j : Nat) :
    runSchedule ms c sched slots j =
      if j ∈ sched then some (invoke (ms.getD j (.plain [])) c) else slots j := by
  induction sched generalizing slots with
  | nil => simp [runSchedule]
  | cons i rest ih =>
    simp only [runSchedule, ih, List.mem_cons]
    by_cases h1 : j ∈ rest
    · simp [h1]
    · by_cases h2 : j = i
      · simp [h2]
      · simp [h1, h2]

/-- **C09 (schedule independence).** For every complete schedule - every interleaving of the
    member goroutines - the slots hold exactly what the members yield when invoked one after the
    other with the same Context. -/
theorem C09_schedule_independent (ms : List Expr) (c : Ctx) (sched : List Nat)
    (hs : sched.Perm (List.range ms.length)) (j : Nat) (hj : j < ms.length) :
    runSchedule ms c sched (fun _ => none) j = some (invoke (ms.getD j (.plain [])) c) := by
  rw [runSchedule_spec]
  have : j ∈ sched := hs.symm.subset (List.mem_range.mpr hj)
  simp [this]

/-- two schedules give the same slots -/
theorem C09_any_two_schedules (ms : List Expr) (c : Ctx) (s1 s2 : List Nat)
    (h1 : s1.Perm (List.range ms.length)) (h2 : s2.Perm (List.range ms.length)) (j : Nat) (hj : j < ms.length) :
    runSchedule ms c s1 (fun _ => none) j = runSchedule ms c s2 (fun _ => none) j := by
  rw [C09_schedule_independent ms c s1 h1 j hj, C09_schedule_independent ms c s2 h2 j hj]

/-- `Batch(...).ToA()` is the merge of the sequential invocations -/
theorem C09_equals_sequential (es : List Expr) (c : Ctx) :
    invoke (.batch es) c = batchMerge (invokeList es c) := by simp [invoke]

theorem invokeList_eq_map (es : List Expr) (c : Ctx) : invokeList es c = es.map (fun e => invoke e c) := by
  induction es with
  | nil => simp [invokeList]
  | cons e es ih => simp [invokeList, ih]

/-! ### the merge (invokedAction.go:36-43, value.go Unique, meta.go Merge) -/

/-- candidates: merged by inserted value, a later member's entry replacing an earlier one -/
theorem C09_merge_values (rs : List Invoked) : (mergeAll rs).2 = unique (rs.flatMap (·.2)) := rfl

theorem usage_foldl (rs : List Invoked) (m0 : Meta) :
    (rs.foldl (fun acc r => Meta.merge acc r.1) m0).usage =
      ((rs.map (·.1.usage)).filter (fun u => !u.isEmpty)).getLast?.getD m0.usage := by
  induction rs generalizing m0 with
  | nil => simp
  | cons r rs ih =>
    simp only [List.foldl_cons, ih, List.map_cons, List.filter_cons]
    by_cases h : r.1.usage.isEmpty = true
    · simp [h, Meta.merge]
    · simp only [h, Bool.not_false, if_true, Bool.false_eq_true]
      simp only [Meta.merge, h, Bool.false_eq_true, if_false]
      cases hl : (List.filter (fun u => !u.isEmpty) (List.map (fun x => x.1.usage) rs)).getLast? with
      | none =>
        have : List.filter (fun u => !u.isEmpty) (List.map (fun x => x.1.usage) rs) = [] := by
          simpa using hl
        simp [this]
      | some u =>
        have hne : List.filter (fun u => !u.isEmpty) (List.map (fun x => x.1.usage) rs) ≠ [] := by
          intro e; rw [e] at hl; simp at hl
        rw [List.getLast?_cons_of_ne_nil hne] <;> simp [hl]

/-- usage: the last non-empty usage is kept -/
theorem C09_merge_usage (rs : List Invoked) :
    (mergeAll rs).1.usage = ((rs.map (·.1.usage)).filter (fun u => !u.isEmpty)).getLast?.getD [] := by
  simp only [mergeAll]
  exact usage_foldl rs {}

theorem mem_insertMsg (m x : Str) (l : List Str) : x ∈ insertMsg m l ↔ x = m ∨ x ∈ l := by
  induction l with
  | nil => simp [insertMsg]
  | cons y l ih =>
    simp only [insertMsg]
    split
    · rename_i h; subst h; simp
    · split
      · simp
      · simp only [List.mem_cons, ih]
        constructor
        · rintro (h | h | h)
          · exact Or.inr (Or.inl h)
          · exact Or.inl h
          · exact Or.inr (Or.inr h)
        · rintro (h | h | h)
          · exact Or.inr (Or.inl h)
          · exact Or.inl h
          · exact Or.inr (Or.inr h)

theorem mem_mergeMsgs (a b : List Str) (x : Str) : x ∈ mergeMsgs a b ↔ x ∈ a ∨ x ∈ b := by
  unfold mergeMsgs
  induction b generalizing a with
  | nil => simp
  | cons m b ih =>
    simp only [List.foldl_cons, ih, mem_insertMsg, List.mem_cons]
    constructor
    · rintro ((h | h) | h)
      · exact Or.inr (Or.inl h)
      · exact Or.inl h
      · exact Or.inr (Or.inr h)
    · rintro (h | h | h)
      · exact Or.inl (Or.inr h)
      · exact Or.inl (Or.inl h)
      · exact Or.inr h

theorem messages_foldl (rs : List Invoked) (m0 : Meta) (x : Str) :
    x ∈ (rs.foldl (fun acc r => Meta.merge acc r.1) m0).messages ↔ x ∈ m0.messages ∨ ∃ r ∈ rs, x ∈ r.1.messages := by
  induction rs generalizing m0 with
  | nil => simp
  | cons r rs ih =>
    simp only [List.foldl_cons, ih, List.mem_cons]
    simp only [Meta.merge, mem_mergeMsgs]
    constructor
    · rintro ((h | h) | ⟨q, hq, hx⟩)
      · exact Or.inl h
      · exact Or.inr ⟨r, Or.inl rfl, h⟩
      · exact Or.inr ⟨q, Or.inr hq, hx⟩
    · rintro (h | ⟨q, hq | hq, hx⟩)
      · exact Or.inl (Or.inl h)
      · subst hq; exact Or.inl (Or.inr hx)
      · exact Or.inr ⟨q, hq, hx⟩

/-- messages: united -/
theorem C09_merge_messages (rs : List Invoked) (x : Str) :
    x ∈ (mergeAll rs).1.messages ↔ ∃ r ∈ rs, x ∈ r.1.messages := by
  simp only [mergeAll]
  rw [messages_foldl]
  simp

/-- a Batch of one member is that member; an empty Batch is empty -/
theorem C09_batch_small (e : Expr) (c : Ctx) :
    invoke (.batch [e]) c = invoke e c ∧ invoke (.batch []) c = ({}, []) := by
  simp [invoke, invokeList, batchMerge]

end Carapace.Props.C09
