/-
  C01 for a value attached to a shorthand letter: `-n=<TAB>`, `-nva<TAB>`, `-abn=<TAB>`, `-abnva<TAB>`.
  Word level (stage 1 for the attached forms): when carapace's `LookupArg` reads the current word as
  "flag `f` with an attached value" and serves `f`'s completion behind the prefix `pfx`, then for every text
  `v` the flag's type accepts the program's parser reads the word `pfx ++ v` as: the letters before `f` get
  their defaults, `f` gets exactly `v`, and no further word is taken.
  Hypotheses forced by the proof: no flag uses `=` as its shorthand (as in `C01_short_agrees`); `v` is not
  empty; and in the form without `=` (`-nva`) `v` does not start with `=` (`-n` + `=x` is read as `-n=x`,
  i.e. the value `x`: counterexample below).
-/
import Carapace.Props.C01Flag
import Carapace.Props.C01Attached

namespace Carapace.Props.C01
open Carapace Carapace.Model Carapace.Spec

theorem findShort_mem {pfs : Pflag.PFlags} {c : Char} {f : Pflag.PFlag} (h : Pflag.findShort pfs c = some f) :
    f ∈ pfs := List.mem_of_find?_eq_some h

theorem eqValue_letter {pfs : Pflag.PFlags} (heq : Pflag.findShort pfs '=' = none) {c : Char} {f : Pflag.PFlag}
    (h : Pflag.findShort pfs c = some f) (r : Str) : Pflag.eqValue (c :: r) = none := by
  have : c ≠ '=' := by intro e; rw [e, heq] at h; simp at h
  unfold Pflag.eqValue
  split
  · rename_i heq2; simp at heq2; exact absurd heq2.1 this
  · rfl

theorem noOptDef_iff (f : Pflag.PFlag) : f.toDef.noOptDef = f.noOptDefVal.isSome := rfl

/-- the shape of a look-up that found an attached value, and what the parser does with the served prefix
    followed by any acceptable text -/
theorem short_attached {pfs : Pflag.PFlags} (heq : Pflag.findShort pfs '=' = none) :
    ∀ (chain pre : Str) (fd : Found),
      lookupPosixShort (pfs.map Pflag.PFlag.toDef) pre chain = some fd → (fd.args ≠ [] ∨ fd.flag.noOptDef = false) →
      ∃ (f : Pflag.PFlag) (c0 : Char) (body : Str), f ∈ pfs ∧ f.toDef = fd.flag ∧ fd.prefix_ = pre ++ c0 :: body ∧
        (Pflag.findShort pfs c0).isSome ∧ chain.head? = some c0 ∧
        ∀ (v : Str) (next : Option Str), v ≠ [] → ((c0 :: body).getLast? ≠ some '=' → v.head? ≠ some '=') →
          Pflag.valueOk f v = true →
          ∃ sets, Pflag.parseShort pfs (c0 :: body ++ v) next = .ok (sets, false) ∧ sets.getLast? = some (f.name, v) := by
  intro chain
  induction chain with
  | nil => intro pre fd h; simp [lookupPosixShort] at h
  | cons c rest ih =>
    intro pre fd h ha
    rw [lookupPosixShort, lookupShort_map] at h
    cases hf : Pflag.findShort pfs c with
    | none => simp [hf] at h
    | some f =>
      simp only [hf, Option.map_some] at h
      have hmem := findShort_mem hf
      cases rest with
      | nil =>
        -- `-c<TAB>` with a letter that takes a value: nothing attached yet
        simp only [Option.some.injEq] at h
        have hn' : f.toDef.noOptDef = false := by
          rcases ha with ha | ha
          · rw [← h] at ha; simp at ha
          · rw [← h] at ha; exact ha
        refine ⟨f, c, [], hmem, by rw [← h], by rw [← h], by simp [hf], rfl, ?_⟩
        intro v next hv hlast hok
        have hc : c ≠ '=' := by intro e; rw [e, heq] at hf; simp at hf
        have hvh : v.head? ≠ some '=' := hlast (by simp [hc])
        cases v with
        | nil => exact absurd rfl hv
        | cons x xs =>
          have hx : x ≠ '=' := by intro e; apply hvh; simp [e]
          have he : Pflag.eqValue (x :: xs) = none := by
            unfold Pflag.eqValue; split
            · rename_i h2; simp at h2; exact absurd h2.1 hx
            · rfl
          have hnv : f.noOptDefVal = none := by
            rw [noOptDef_iff] at hn'; cases hq : f.noOptDefVal with
            | none => rfl
            | some _ => rw [hq] at hn'; simp at hn'
          refine ⟨[(f.name, x :: xs)], ?_, by simp⟩
          simp [Pflag.parseShort, hf, he, hnv, hok]
      | cons d r2 =>
        simp only at h
        by_cases hd : d = '='
        · -- `-c=...`
          subst hd
          have hpre : fd.prefix_ = pre ++ [c, '='] ∧ fd.flag = f.toDef := by
            by_cases hr : r2 = []
            · simp [hr] at h; rw [← h]; exact ⟨rfl, rfl⟩
            · simp [hr] at h; rw [← h]; exact ⟨rfl, rfl⟩
          refine ⟨f, c, ['='], hmem, hpre.2.symm, by rw [hpre.1], by simp [hf], rfl, ?_⟩
          intro v next hv _ hok
          cases v with
          | nil => exact absurd rfl hv
          | cons x xs =>
            refine ⟨[(f.name, x :: xs)], ?_, by simp⟩
            simp [Pflag.parseShort, hf, Pflag.eqValue, hok]
        · simp only [hd, if_false] at h
          by_cases hn : f.toDef.noOptDef = true
          · -- a letter without / with optional argument: the look-up goes on
            simp only [hn, Bool.not_true, Bool.false_eq_true, if_false] at h
            obtain ⟨g, c0, body, hg, hgd, hpx, hc0, _, hall⟩ := ih (pre ++ [c]) fd h ha
            refine ⟨g, c, c0 :: body, hg, hgd, by rw [hpx]; simp, by simp [hf], rfl, ?_⟩
            intro v next hv hlast hok
            have hlast' : (c0 :: body).getLast? ≠ some '=' → v.head? ≠ some '=' := by
              intro hne; apply hlast; simpa [List.getLast?_cons_cons] using hne
            obtain ⟨sets, hp, hl⟩ := hall v next hv hlast' hok
            obtain ⟨g0, hg0⟩ := Option.isSome_iff_exists.mp hc0
            have he : Pflag.eqValue (c0 :: (body ++ v)) = none := eqValue_letter heq hg0 _
            rw [noOptDef_iff] at hn
            obtain ⟨dv, hdv⟩ := Option.isSome_iff_exists.mp hn
            refine ⟨(f.name, dv) :: sets, ?_, ?_⟩
            · have hp' : Pflag.parseShort pfs (c0 :: (body ++ v)) next = .ok (sets, false) := by simpa using hp
              show Pflag.parseShort pfs (c :: (c0 :: (body ++ v))) next = _
              rw [Pflag.parseShort]
              simp only [hf, he, hdv, hp']
            · cases sets with
              | nil => simp at hl
              | cons s ss => simpa [List.getLast?_cons_cons] using hl
          · -- `-cvalue`
            have hn' : f.toDef.noOptDef = false := by simpa using hn
            simp only [hn', Bool.not_false, if_true] at h
            have hfd := Option.some.inj h
            refine ⟨f, c, [], hmem, by rw [← hfd], by rw [← hfd], by simp [hf], rfl, ?_⟩
            intro v next hv hlast hok
            have hc : c ≠ '=' := by intro e; rw [e, heq] at hf; simp at hf
            have hvh : v.head? ≠ some '=' := hlast (by simp [hc])
            cases v with
            | nil => exact absurd rfl hv
            | cons x xs =>
              have hx : x ≠ '=' := by intro e; apply hvh; simp [e]
              have he : Pflag.eqValue (x :: xs) = none := by
                unfold Pflag.eqValue; split
                · rename_i h2; simp at h2; exact absurd h2.1 hx
                · rfl
              have hnv : f.noOptDefVal = none := by
                rw [noOptDef_iff] at hn'; cases hq : f.noOptDefVal with
                | none => rfl
                | some _ => rw [hq] at hn'; simp at hn'
              refine ⟨[(f.name, x :: xs)], ?_, by simp⟩
              simp [Pflag.parseShort, hf, he, hnv, hok]

/-- **C01 (word level) for a value attached to a shorthand letter.** The word the user gets by accepting a
    candidate `v` behind the served prefix, `pfx ++ v`, handed to the program's parser as a whole word,
    assigns `v` to the flag whose completion was served (as the last assignment of the word), whatever
    follows. -/
theorem C01_short_attached_word {pfs : Pflag.PFlags} (heq : Pflag.findShort pfs '=' = none)
    (chain : Str) (fd : Found)
    (h : lookupArg (pfs.map Pflag.PFlag.toDef) ('-' :: chain) = some fd) (hs : isShorthandSeries ('-' :: chain) = true)
    (ha : fd.args ≠ [] ∨ fd.flag.noOptDef = false) :
    ∃ f ∈ pfs, f.toDef = fd.flag ∧ ∃ body, fd.prefix_ = '-' :: body ∧
      ∀ (v : Str) (next : Option Str), v ≠ [] → (body.getLast? ≠ some '=' → v.head? ≠ some '=') →
        Pflag.valueOk f v = true →
        Pflag.wordKind (fd.prefix_ ++ v) = .short (body ++ v) ∧
        ∃ sets, Pflag.parseShort pfs (body ++ v) next = .ok (sets, false) ∧ sets.getLast? = some (f.name, v) := by
  cases chain with
  | nil => simp [isShorthandSeries] at hs
  | cons c rest =>
    have hc : c ≠ '-' := by simpa [isShorthandSeries] using hs
    have hl : lookupArg (pfs.map Pflag.PFlag.toDef) ('-' :: c :: rest) =
        lookupPosixShort (pfs.map Pflag.PFlag.toDef) ['-'] (c :: rest) := by
      unfold lookupArg; split
      · rename_i heq2; simp at heq2; exact absurd heq2.1 hc
      · rename_i heq2; simp at heq2; obtain ⟨rfl, rfl⟩ := heq2; rfl
      · rename_i h1 h2; exact absurd rfl (h2 _ _)
    rw [hl] at h
    obtain ⟨f, c0, body, hf, hfd, hpx, hc0, hhead, hall⟩ := short_attached heq (c :: rest) ['-'] fd h ha
    have hcc : c0 = c := by simpa using hhead.symm
    refine ⟨f, hf, hfd, c0 :: body, by rw [hpx]; rfl, ?_⟩
    intro v next hv hlast hok
    obtain ⟨sets, hp, hl2⟩ := hall v next hv hlast hok
    refine ⟨?_, sets, hp, hl2⟩
    rw [hpx, hcc]
    -- `-` followed by a letter other than `-`: a group of shorthand letters
    show Pflag.wordKind ('-' :: c :: (body ++ v)) = _
    unfold Pflag.wordKind
    split
    · rename_i h2; simp at h2; exact absurd h2.1 hc
    · rename_i h2; simp at h2; exact absurd h2.1 hc
    · rename_i h2; simp at h2; obtain ⟨rfl, rfl⟩ := h2; simp
    · rename_i h1 h2 h3; exact absurd rfl (h3 _ _)

/-- **C01 for the slot of a value attached to a shorthand letter** (any interspersed command, as long as the
    earlier words stay within it): if the traverse model serves flag `name` behind the prefix `pre` for a
    current word `-...`, and the program's parser accepts the earlier words, then for every acceptable
    non-empty `v` the line `ws ++ [pre ++ v]` is accepted and assigns `v` to that very flag as the last
    assignment of the line. -/
theorem C01_attached_short_lands {t : TTree} {c : Nat} {cs : TCmd} (h : Stay t c cs) (hi : cs.interspersed = true)
    (heq : Pflag.findShort (flagsAt t (t.size + 1) c) '=' = none)
    (fuel : Nat) (ws : List Str) (hnc : NoChild t c ws) (chain name pre : Str)
    (hser : isShorthandSeries ('-' :: chain) = true)
    (hs : traverseSlot t (fuel + 1) c ws ('-' :: chain) = .flagValueAttached c name pre)
    {p : Pflag.Parsed} (hp : Pflag.parse (flagsAt t (t.size + 1) c) true ws = .ok p) (hd : p.lenAtDash = none) :
    ∀ v, v ≠ [] → (pre.getLast? ≠ some '=' → v.head? ≠ some '=') →
      (∀ f ∈ flagsAt t (t.size + 1) c, f.name = name → Pflag.valueOk f v = true) →
      ∃ p', Pflag.parse (flagsAt t (t.size + 1) c) true (ws ++ [pre ++ v]) = .ok p' ∧ p'.sets.getLast? = some (name, v) := by
  have ht0 : t[c]? = some cs := h.cmd
  unfold traverseSlot at hs
  simp only [ht0, h.name1, h.name2, Bool.false_eq_true, Bool.or_self, if_false] at hs
  obtain ⟨st, b, hl, hin⟩ := loop_single (cs := cs) ((flagsAt t (t.size + 1) c).map (·.toDef)) ws {} hnc
  simp only [hl, h.parses, Bool.false_eq_true, if_false, hi] at hs
  -- whichever words were handed to the parser, the slot comes from the look-up of the current word
  have key : ∃ q, traverseSlot.flagOrPositional cs ((flagsAt t (t.size + 1) c).map Pflag.PFlag.toDef) c (true || st.nPos == 0) q ('-' :: chain) =
        .flagValueAttached c name pre := by
    cases hfl : st.inFlag with
    | none =>
      simp only [hfl] at hs
      split at hs
      · simp at hs
      · rename_i q _
        split at hs
        · simp at hs
        · exact ⟨q, hs⟩
    | some fd =>
      simp only [hfl] at hs
      split at hs
      · simp at hs
      · rename_i q _
        split at hs
        · simp at hs
        · split at hs
          · simp at hs
          · exact ⟨q, hs⟩
  obtain ⟨q, hfo⟩ := key
  unfold traverseSlot.flagOrPositional at hfo
  cases hlk : lookupArg ((flagsAt t (t.size + 1) c).map Pflag.PFlag.toDef) ('-' :: chain) with
  | none =>
    exfalso; simp only [hlk] at hfo; split at hfo <;> simp at hfo
  | some fd =>
    simp only [hlk] at hfo
    -- the two ways to this slot: something attached, or a value flag with nothing attached yet
    have hshape : (fd.args ≠ [] ∨ fd.flag.noOptDef = false) ∧ fd.flag.name = name ∧ fd.prefix_ = pre := by
      split at hfo
      · split at hfo
        · rename_i hne
          split at hfo
          · simp at hfo
          · simp only [Slot.flagValueAttached.injEq, true_and] at hfo
            exact ⟨Or.inl (by intro e; rw [e] at hne; simp at hne), hfo.1, hfo.2⟩
        · split at hfo
          · rename_i hc2
            simp only [Slot.flagValueAttached.injEq, true_and] at hfo
            simp only [Bool.and_eq_true, Bool.not_eq_true'] at hc2
            exact ⟨Or.inr hc2.1.2, hfo.1, hfo.2⟩
          · simp at hfo
      · simp at hfo
    obtain ⟨hA, hname, hpre⟩ := hshape
    obtain ⟨f, hf, hfd, body, hbody, hall⟩ := C01_short_attached_word heq chain fd hlk hser hA
    intro v hv hvlast hok
    have hfn : f.name = name := by rw [← hname, ← hfd]; rfl
    have hlast : body.getLast? ≠ some '=' → v.head? ≠ some '=' := by
      intro hb; apply hvlast
      rw [← hpre, hbody]
      cases body with
      | nil => simp
      | cons b0 bs => simpa [List.getLast?_cons_cons] using hb
    obtain ⟨hk, sets, hps, hlst⟩ := hall v none hv hlast (hok f hf hfn)
    refine ⟨{ p with sets := p.sets ++ sets }, ?_, ?_⟩
    · unfold Pflag.parse at hp ⊢
      rw [parseArgs_append_inter [pre ++ v] (by simp) ws false {} p (by simp) hp hd]
      rw [← hpre]
      simp [Pflag.parseArgs, hk, hps]
    · cases sets with
      | nil => simp at hlst
      | cons s0 ss =>
        rw [← hfn]
        simp only [List.getLast?_append, hlst]
        simp

/-- non-vacuity: the slot theorem's hypotheses are met, in all three forms `-vn=<TAB>`, `-vnva<TAB>`, `-vn<TAB>` -/
example :
    let cs : TCmd := { name := "prog".toList, flags := [({ name := "name".toList, short := some 'n' }, false), ({ name := "verbose".toList, short := some 'v', kind := .bool }, false)] }
    traverseSlot #[cs] 3 0 ["x".toList] "-vn=a".toList = .flagValueAttached 0 "name".toList "-vn=".toList ∧
    traverseSlot #[cs] 3 0 ["x".toList] "-vna".toList = .flagValueAttached 0 "name".toList "-vn".toList ∧
    traverseSlot #[cs] 3 0 ["x".toList] "-vn".toList = .flagValueAttached 0 "name".toList "-vn".toList ∧
    Pflag.findShort (flagsAt #[cs] 2 0) '=' = none ∧
    (Pflag.parse (flagsAt #[cs] 2 0) true ["x".toList]).toOption = some { args := ["x".toList] } := by decide

/-- the hypothesis on `v` is needed: behind the prefix `-n` the candidate `=x` is read by the parser as `-n=x`,
    the value `x` -/
theorem short_attached_eq_counterexample :
    let pfs : Pflag.PFlags := [{ name := "name".toList, short := some 'n' }]
    (lookupArg (pfs.map Pflag.PFlag.toDef) "-nv".toList).map (fun fd => (fd.prefix_, fd.args)) = some ("-n".toList, ["v".toList]) ∧
    (Pflag.parseShort pfs "n=x".toList none).toOption = some ([("name".toList, "x".toList)], false) := by decide

/-- non-vacuity: `-vn=a` with a bool `v` and a string flag `n` -/
example :
    let pfs : Pflag.PFlags := [{ name := "verbose".toList, short := some 'v', kind := .bool }, { name := "name".toList, short := some 'n' }]
    Pflag.findShort pfs '=' = none ∧
    (lookupArg (pfs.map Pflag.PFlag.toDef) "-vn=a".toList).map (fun fd => (fd.flag.name, fd.prefix_, fd.args))
      = some ("name".toList, "-vn=".toList, ["a".toList]) ∧
    (Pflag.parseShort pfs "vn=abc".toList none).toOption = some ([("verbose".toList, "true".toList), ("name".toList, "abc".toList)], false) := by
  decide

end Carapace.Props.C01
