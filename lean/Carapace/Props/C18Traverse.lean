/-
  C18: the two slice expressions of traverse.go whose bounds depend on the typed line
  (DESIGN.md appendix D, "needs-invariant"), stated over the traverse model:
    traverse.go `toParse[:len(toParse)-1]`            - needs `toParse` not empty
    traverse.go `Prefix[strings.LastIndex(Prefix, Shorthand):]` - needs the shorthand to occur in the prefix
-/
import Carapace.Props.C01Flag

namespace Carapace.Props.C18
open Carapace Carapace.Model Carapace.Spec Carapace.Props.C01

/-- what `lookupPosixShorthandArg` returns carries the flag's shorthand letter inside its prefix,
    so `strings.LastIndex(Prefix, Shorthand)` is never -1 -/
theorem C18_series_prefix_contains_shorthand (fs : FlagSet) :
    ∀ (cs pre : Str) (fd : Found), lookupPosixShort fs pre cs = some fd →
      ∃ c, fd.flag.short = some c ∧ c ∈ fd.prefix_ := by
  intro cs
  induction cs with
  | nil => intro pre fd h; simp [lookupPosixShort] at h
  | cons c rest ih =>
    intro pre fd h
    rw [lookupPosixShort] at h
    cases hl : lookupShort fs c with
    | none => simp [hl] at h
    | some f =>
      have hs : f.short = some c := by
        unfold lookupShort at hl
        have := List.find?_some hl
        simpa using this
      simp only [hl] at h
      cases rest with
      | nil =>
        simp only [Option.some.injEq] at h
        subst h
        exact ⟨c, hs, by simp⟩
      | cons d r2 =>
        simp only at h
        split at h
        · split at h <;> (simp only [Option.some.injEq] at h; subst h; exact ⟨c, hs, by simp⟩)
        · split at h
          · simp only [Option.some.injEq] at h; subst h; exact ⟨c, hs, by simp⟩
          · exact ih (pre ++ [c]) fd h

/-- in the model of the final fix-up the cut position therefore exists -/
theorem C18_series_cut_exists (fs : FlagSet) (c : Char) (rest : Str) (lf : Found)
    (h : lookupArg fs ('-' :: c :: rest) = some lf) (hc : c ≠ '-') :
    ∃ sc k, lf.flag.short = some sc ∧ lastIndexOfChar lf.prefix_ sc = some k ∧ k < lf.prefix_.length := by
  have hs : lookupPosixShort fs ['-'] (c :: rest) = some lf := by
    rcases lookupArg_cases h with ⟨body, e, _⟩ | ⟨c', rest', _, e, hl⟩
    · exact absurd (by cases e; rfl) hc
    · cases e; exact hl
  obtain ⟨sc, hsc, hmem⟩ := C18_series_prefix_contains_shorthand fs (c :: rest) ['-'] lf hs
  -- the character occurs, so the list of its positions is not empty
  obtain ⟨i, hi, hget⟩ := List.getElem_of_mem hmem
  have hin : i ∈ (List.range lf.prefix_.length).filter (fun j => lf.prefix_[j]? == some sc) := by
    simp [List.mem_filter, hi, List.getElem?_eq_getElem hi, hget]
  have hne : (List.range lf.prefix_.length).filter (fun j => lf.prefix_[j]? == some sc) ≠ [] :=
    List.ne_nil_of_mem hin
  obtain ⟨k, hk⟩ : ∃ k, ((List.range lf.prefix_.length).filter (fun j => lf.prefix_[j]? == some sc)).getLast? = some k := by
    cases hx : ((List.range lf.prefix_.length).filter (fun j => lf.prefix_[j]? == some sc)).getLast? with
    | none => exact absurd (List.getLast?_eq_none_iff.mp hx) hne
    | some k => exact ⟨k, rfl⟩
  refine ⟨sc, k, hsc, hk, ?_⟩
  have := List.mem_of_getLast? hk
  simp only [List.mem_filter, List.mem_range] at this
  exact this.1

/-- `toParse[:len(toParse)-1]` (any command, as long as the words stay within it): the branch that removes the last word is taken only
    when a flag waits for its value, and then that flag word is the last of the words - so the
    slice is never taken of an empty list -/
theorem C18_toParse_nonempty {t : TTree} {c : Nat} {cs : TCmd} (fs : FlagSet) (ws : List Str) (hnc : NoChild t c ws)
    (st : LoopState) (b : Bool) (hl : loop t c cs fs ws {} = .done st b)
    (fd : Found) (hfd : st.inFlag = some fd) (hc : (fd.args.isEmpty && consumes fd) = true) :
    st.inArgs ≠ [] := by
  have hcon : consumes fd = true := by
    simp only [Bool.and_eq_true] at hc; exact hc.2
  have hb : b = false := by
    cases b with
    | false => rfl
    | true =>
      have := loop_dash_nopend fs ws {} st hl fd hfd
      rw [this] at hcon; cases hcon
  obtain ⟨ws0, a, hws, _, _⟩ := loop_pend fs ws {} st b hnc (by intro fd' e; cases e) hl hb fd hfd hcon
  rw [hws]; simp

end Carapace.Props.C18
