/-
  C07 — offered flag and sub-command names are exactly those still acceptable.
  Theorems about the rule model (`Model/Flags.lean`) and about acceptance of an offered shorthand
  by the parser specification (`pflagShort`).  The rule model is compared with the real offer on
  generated trees; that every offered name is accepted by the program's own parser and sets that
  very flag / dispatches to that very sub-command is decided on the real code (op `parse`).
-/
import Carapace.Model.Flags
import Carapace.Props.C01

namespace Carapace.Props.C07
open Carapace Carapace.Model

/-- **the offer rule**: a flag is offered iff it is visible, not deprecated, not already given
    unless repeatable, and no member of its mutually-exclusive groups was given -/
theorem C07_offer_rule (showHidden : Bool) (all : List FlagState) (f : FlagState) :
    offered showHidden all f = true ↔
      (f.hidden = false ∨ showHidden = true) ∧ f.deprecated = false ∧ (f.changed = false ∨ f.repeatable = true) ∧
      mutexBlocked all f = false := by
  simp only [offered, Bool.and_eq_true, Bool.not_eq_true', Bool.and_eq_false_iff, Bool.not_eq_false']
  constructor
  · rintro ⟨⟨⟨h1, h2⟩, h3⟩, h4⟩
    exact ⟨h1, h2, h3, h4⟩
  · rintro ⟨h1, h2, h3, h4⟩
    exact ⟨⟨⟨h1, h2⟩, h3⟩, h4⟩

/-- hidden flags never (unless CARAPACE_HIDDEN), deprecated flags never -/
theorem C07_hidden_never (all : List FlagState) (f : FlagState) (h : f.hidden = true) : offered false all f = false := by
  simp [offered, h]

theorem C07_deprecated_never (showHidden : Bool) (all : List FlagState) (f : FlagState) (h : f.deprecated = true) :
    offered showHidden all f = false := by
  simp [offered, h]

/-- an already given flag only if it is repeatable -/
theorem C07_given_only_if_repeatable (showHidden : Bool) (all : List FlagState) (f : FlagState)
    (hc : f.changed = true) (hr : f.repeatable = false) : offered showHidden all f = false := by
  simp [offered, hc, hr]

/-- none once another member of its group was given -/
theorem C07_mutex (showHidden : Bool) (all : List FlagState) (f o : FlagState) (g : List Str)
    (hg : g ∈ f.groups) (hn : o.fdef.name ∈ g) (ho : o ∈ all) (hc : o.changed = true) (hog : g ∈ o.groups) :
    offered showHidden all f = false := by
  have : mutexBlocked all f = true := by
    simp only [mutexBlocked, List.any_eq_true, Bool.and_eq_true, beq_iff_eq, List.contains_iff_mem]
    exact ⟨g, hg, o.fdef.name, hn, o, ho, ⟨rfl, hc⟩, hog⟩
  simp [offered, this]

/-- a given flag that merely has the *name* of a group member - a local flag shadowing an inherited member - blocks
    nothing (the program accepts both; before fix 39ab3c2 the flag was withheld) -/
theorem C07_mutex_shadowed :
    let pmid : FlagState := { fdef := { name := "pmid".toList }, groups := [["pmid".toList, "all".toList]] }
    let all' : FlagState := { fdef := { name := "all".toList, noOptDef := true, takesValue := false }, changed := true, groups := [["all".toList]] }
    offered false [all', pmid] pmid = true := by decide

/-- **false of the pinned code** (finding `mutex_counts_flag_itself`): a *repeatable* flag that
    belongs to a mutually-exclusive group is no longer offered once it was given itself, although
    `--tag a --tag b` is accepted -/
theorem C07_mutex_self_counterexample :
    let tag : FlagState := { fdef := { name := "tag".toList }, changed := true, repeatable := true,
                             groups := [["tag".toList, "other".toList]] }
    let other : FlagState := { fdef := { name := "other".toList }, groups := [["tag".toList, "other".toList]] }
    offered false [tag, other] tag = false := by decide

/-- **a shorthand offered inside an open series is accepted by the parser**: if every letter typed
    so far takes no argument, appending the shorthand of any existing flag gives a word the parser
    does not reject - it completes the word or waits for that flag's value -/
theorem C07_chain_accepted (fs : FlagSet) (heq : lookupShort fs '=' = none) (s : Char) (g : FlagDef)
    (hs : lookupShort fs s = some g) :
    ∀ cs : Str, (∀ c ∈ cs, ∃ f, lookupShort fs c = some f ∧ f.noOptDef = true) →
      pflagShort fs (cs ++ [s]) = (if g.noOptDef then .done else .pending g) := by
  intro cs
  induction cs with
  | nil => intro _; simp [pflagShort, hs]
  | cons c rest ih =>
    intro h
    obtain ⟨f, hf, hn⟩ := h c (List.mem_cons_self ..)
    have ih' := ih (fun d hd => h d (List.mem_cons_of_mem _ hd))
    -- the next character is a letter of a flag, hence not `=`
    have hne : ∀ d r2, rest ++ [s] = d :: r2 → d ≠ '=' := by
      intro d r2 he hd
      subst hd
      cases rest with
      | nil =>
        simp at he
        rw [he.1, heq] at hs
        exact absurd hs (by simp)
      | cons d' r' =>
        simp at he
        obtain ⟨f', hf', _⟩ := h d' (List.mem_cons_of_mem _ (List.mem_cons_self ..))
        rw [he.1, heq] at hf'
        exact absurd hf' (by simp)
    cases hr : rest ++ [s] with
    | nil => simp at hr
    | cons d r2 =>
      have hd := hne d r2 hr
      rw [List.cons_append, hr, pflagShort]
      simp only [hf, hd, false_and, if_false, hn, if_true]
      rw [← hr]; exact ih'

end Carapace.Props.C07
