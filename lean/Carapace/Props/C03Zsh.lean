/-
  C03 for zsh: the `_describe` escaping is undone by the consumer (`zshUndescribe`, Spec/Decode),
  and what is left reads back as the sanitised value - in the default state (backslash quoting,
  a leading `~/` or named directory kept) and when the typed word opened a double quote
  (states QUOTING_ESCAPING and FULL_QUOTING_ESCAPING).  The two single-quote states are covered by
  exact output correspondence and the reader oracle only.  The reader is the hard-rule one the
  oracle uses (a leading `=` is graded soft, see DESIGN.md appendix B).
-/
import Carapace.Model.Shells
import Carapace.Spec.Reader.Posix
import Carapace.Spec.Decode
import Carapace.Spec.FmtOracle
import Carapace.Lemmas.Sanitizer
import Carapace.Props.C03Shells

namespace Carapace.Props.C03
open Carapace Carapace.Model Carapace.Spec

theorem zshUndescribe_cons_ne (c : Char) (r : Str) (h : c ≠ '\\') :
    zshUndescribe (c :: r) = c :: zshUndescribe r := by
  cases r with
  | nil => simp [zshUndescribe]
  | cons d u =>
    rw [zshUndescribe]
    · intro r e _; exact h e
    · intro r e _; exact h e

/-- the consumer's un-escaping inverts `_describe`'s escaping, whatever follows -/
theorem zshUndescribe_describe (x y : Str) :
    zshUndescribe (zshDescribe x ++ y) = x ++ zshUndescribe y := by
  induction x with
  | nil => simp [zshDescribe, Replacer.applyChars]
  | cons c x ih =>
    have happ : zshDescribe (c :: x) = Replacer.escChar Gen.zsh_describeReplacer c ++ zshDescribe x := by
      simp [zshDescribe, Replacer.applyChars, List.flatMap_cons]
    rw [happ, List.append_assoc]
    by_cases h1 : c = '\\'
    · subst h1
      have : Replacer.escChar Gen.zsh_describeReplacer '\\' = ['\\', '\\'] := by decide
      rw [this]
      simp [zshUndescribe, ih]
    · by_cases h2 : c = ':'
      · subst h2
        have : Replacer.escChar Gen.zsh_describeReplacer ':' = ['\\', ':'] := by decide
        rw [this]
        simp [zshUndescribe, ih]
      · have : Replacer.escChar Gen.zsh_describeReplacer c = [c] := by
          have e1 : (['\\'] == [c]) = false := by simpa using fun e => h1 e.symm
          have e2 : ([':'] == [c]) = false := by simpa using fun e => h2 e.symm
          simp [Replacer.escChar, Replacer.lookup, Gen.zsh_describeReplacer, e1, e2]
        rw [this]
        simp only [List.singleton_append]
        rw [zshUndescribe_cons_ne c _ h1, ih]
        simp

theorem zshUndescribe_describe_nil (x : Str) : zshUndescribe (zshDescribe x) = x := by
  have := zshUndescribe_describe x []
  simpa [zshUndescribe] using this

abbrev Z : Reader Posix.Mode := Posix.reader Posix.bash

theorem zsh_sanitizer_shape : Replacer.isSanitizer Gen.zsh_sanitizer = true := by decide

/-- default state: the backslash escape of every character the sanitizer leaves reads back as that
    character, at the start of a word and inside -/
def zDfltOk (c : Char) : Bool :=
  (Replacer.lookup Gen.zsh_sanitizer c).isSome ||
  (decide (Z.run .mid (Replacer.escChar Gen.zsh_defaultReplacer c) = some (.mid, [Out.lit c])) &&
   decide (Z.run .start (Replacer.escChar Gen.zsh_defaultReplacer c) = some (.mid, [Out.lit c])))

theorem z_dflt_table_ascii : asciiAll zDfltOk = true := by decide
theorem z_dflt_keys : Replacer.keysAscii Gen.zsh_defaultReplacer = true := by decide

theorem z_dflt_table (c : Char) (h1 : Replacer.lookup Gen.zsh_sanitizer c = none) :
    Z.run .mid (Replacer.escChar Gen.zsh_defaultReplacer c) = some (.mid, [Out.lit c]) ∧
    Z.run .start (Replacer.escChar Gen.zsh_defaultReplacer c) = some (.mid, [Out.lit c]) := by
  by_cases h : c.toNat < 128
  · have := asciiAll_spec z_dflt_table_ascii c h
    simpa only [zDfltOk, h1, Option.isSome_none, Bool.false_or, Bool.and_eq_true, decide_eq_true_eq] using this
  · rw [Replacer.escChar_nonascii _ z_dflt_keys c h]
    simp [Reader.run, Posix.reader, Posix.step, Posix.stepUnq, Posix.cls, h]

/-- reading `applyChars defaultReplacer s` from `mid` -/
theorem z_dflt_mid (s : Str) (hs : ∀ c ∈ s, Replacer.lookup Gen.zsh_sanitizer c = none) :
    Z.run .mid (Replacer.applyChars Gen.zsh_defaultReplacer s) = some (.mid, s.map Out.lit) :=
  Reader.run_flatMap Z .mid _ (fun d => Replacer.lookup Gen.zsh_sanitizer d = none)
    (fun d hd => (z_dflt_table d hd).1) s hs

/-- **C03 (zsh, default state).** -/
theorem C03_zsh_dflt (env : Env) (v : Str) (hne : san Gen.zsh_sanitizer v ≠ []) :
    Posix.readBack Posix.bash (zshUndescribe (zshInsert env .dflt v)) = some [san Gen.zsh_sanitizer v] := by
  have hsan : ∀ c ∈ san Gen.zsh_sanitizer v, Replacer.lookup Gen.zsh_sanitizer c = none :=
    fun c hc => (Replacer.mem_applyChars_sanitizer zsh_sanitizer_shape hc).2
  simp only [zshInsert, zshUndescribe_describe_nil]
  generalize san Gen.zsh_sanitizer v = s at hne hsan
  unfold zshQuoteValue
  cases s with
  | nil => exact absurd rfl hne
  | cons c t =>
    have htl : ∀ d ∈ t, Replacer.lookup Gen.zsh_sanitizer d = none := fun d hd => hsan d (List.mem_cons_of_mem _ hd)
    split
    · -- a leading `~/` or named directory: the tilde stays as it is
      rename_i hcond
      have hct : c = '~' := by
        have : Str.hasPrefix (c :: t) ['~'] = true := by
          rcases Bool.or_eq_true _ _ |>.mp hcond with h | h
          · cases t with
            | nil => simp [Str.hasPrefix] at h
            | cons d u =>
              simp [Str.hasPrefix] at h
              simp [Str.hasPrefix, h.1]
          · simp only [zshNamedMatches, Bool.and_eq_true] at h
            exact h.1.1.1
        simpa [Str.hasPrefix] using this
      subst hct
      have htp : Str.trimPrefix ('~' :: t) ['~'] = t := by simp [Str.trimPrefix, Str.hasPrefix]
      rw [htp]
      have h1 : Z.run .start ['~'] = some (.mid, [Out.lit '~']) := by decide
      have h4 := Reader.run_append_of Z h1 (z_dflt_mid t htl)
      have : Z.run .start ('~' :: Replacer.applyChars Gen.zsh_defaultReplacer t) = some (.mid, Out.lit '~' :: t.map Out.lit) := by
        simpa using h4
      simp only [Posix.readBack, readWords, this]
      have hcl := collect_lits_none ('~' :: t) (by simp)
      simpa [Posix.final] using hcl
    · have happ : Replacer.applyChars Gen.zsh_defaultReplacer (c :: t) =
          Replacer.escChar Gen.zsh_defaultReplacer c ++ Replacer.applyChars Gen.zsh_defaultReplacer t := by
        simp [Replacer.applyChars, List.flatMap_cons]
      have hc := (z_dflt_table c (hsan c (List.mem_cons_self ..))).2
      have h4 := Reader.run_append_of Z hc (z_dflt_mid t htl)
      simp only [Posix.readBack, readWords, happ, h4]
      have hcl := collect_lits_none (c :: t) (by simp)
      simpa [Posix.final] using hcl

/-- inside the double quote the typed word opened -/
def zDqOk (c : Char) : Bool :=
  (Replacer.lookup Gen.zsh_sanitizer c).isSome ||
  decide (Z.run .dq (Replacer.escChar Gen.zsh_quotingEscapingReplacer c) = some (.dq, [Out.lit c]))

theorem z_dq_table_ascii : asciiAll zDqOk = true := by decide
theorem z_dq_keys : Replacer.keysAscii Gen.zsh_quotingEscapingReplacer = true := by decide

theorem z_dq_table (c : Char) (h1 : Replacer.lookup Gen.zsh_sanitizer c = none) :
    Z.run .dq (Replacer.escChar Gen.zsh_quotingEscapingReplacer c) = some (.dq, [Out.lit c]) := by
  by_cases h : c.toNat < 128
  · have := asciiAll_spec z_dq_table_ascii c h
    simpa only [zDqOk, h1, Option.isSome_none, Bool.false_or, decide_eq_true_eq] using this
  · rw [Replacer.escChar_nonascii _ z_dq_keys c h]
    simp [Reader.run, Posix.reader, Posix.step, Posix.cls, h]

/-- **C03 (zsh, inside `"`).** The typed word opened a double quote (`zshOpen`); the inserted text
    closes it (QUOTING_ESCAPING) or the typed closing quote follows (FULL_QUOTING_ESCAPING): either
    way the whole reads back as the sanitised value, empty values included. -/
theorem C03_zsh_dq (env : Env) (v : Str) (full : Bool) :
    let st := if full then ZshState.fullQuotingEscaping else ZshState.quotingEscaping
    Posix.readBack Posix.bash (zshOpen st ++ zshUndescribe (zshInsert env st v) ++ zshClose st) = some [san Gen.zsh_sanitizer v] := by
  have hsan : ∀ c ∈ san Gen.zsh_sanitizer v, Replacer.lookup Gen.zsh_sanitizer c = none :=
    fun c hc => (Replacer.mem_applyChars_sanitizer zsh_sanitizer_shape hc).2
  have h1 : Z.run .start ['"'] = some (.dq, [Out.mark]) := by decide
  have h2 : Z.run .dq (Replacer.applyChars Gen.zsh_quotingEscapingReplacer (san Gen.zsh_sanitizer v)) =
      some (.dq, (san Gen.zsh_sanitizer v).map Out.lit) :=
    Reader.run_flatMap Z .dq _ (fun d => Replacer.lookup Gen.zsh_sanitizer d = none) (fun d hd => z_dq_table d hd) _ hsan
  have h3 : Z.run .dq ['"'] = some (.mid, []) := by decide
  have h4 := Reader.run_append_of Z h1 (Reader.run_append_of Z h2 h3)
  have hfin : Posix.readBack Posix.bash (['"'] ++ (Replacer.applyChars Gen.zsh_quotingEscapingReplacer (san Gen.zsh_sanitizer v) ++ ['"'])) =
      some [san Gen.zsh_sanitizer v] := by
    simp only [Posix.readBack, readWords, h4]
    have := collect_lits (san Gen.zsh_sanitizer v) []
    simpa [collect, Posix.final] using this
  cases full with
  | true =>
    simp only [if_true, zshOpen, zshClose, zshInsert, zshUndescribe_describe_nil]
    simpa [List.append_assoc] using hfin
  | false =>
    simp only [Bool.false_eq_true, if_false, zshOpen, zshClose, zshInsert]
    have := zshUndescribe_describe (Replacer.applyChars Gen.zsh_quotingEscapingReplacer (san Gen.zsh_sanitizer v)) ['"']
    rw [this]
    have hq : zshUndescribe ['"'] = ['"'] := by decide
    rw [hq]
    simpa [List.append_assoc] using hfin

/-! ### inside the single quote the typed word opened

Every character is literal there except the quote itself, which the replacer writes as `'\''`: close,
escaped quote, open again.  The reader's output for that chunk is the literal quote followed by the mark
of the re-opened quote, so the per-character lemma is stated with per-character outputs. -/

theorem run_flatMap_emit {M : Type} (r : Reader M) (m : M) (esc : Char → Str) (emit : Char → List Out) (P : Char → Prop)
    (h : ∀ c, P c → r.run m (esc c) = some (m, emit c)) :
    ∀ v : Str, (∀ c ∈ v, P c) → r.run m (v.flatMap esc) = some (m, v.flatMap emit) := by
  intro v
  induction v with
  | nil => intro _; rfl
  | cons c v ih =>
    intro hv
    have hc : P c := hv c (List.mem_cons_self ..)
    have hv' : ∀ d ∈ v, P d := fun d hd => hv d (List.mem_cons_of_mem _ hd)
    have := Reader.run_append_of r (h c hc) (ih hv')
    simpa [List.flatMap_cons] using this

def sqEmit (c : Char) : List Out := if c = '\'' then [Out.lit '\'', Out.mark] else [Out.lit c]

def zSqOk (c : Char) : Bool :=
  (Replacer.lookup Gen.zsh_sanitizer c).isSome ||
  decide (Z.run .sq (Replacer.escChar Gen.zsh_quotingReplacer c) = some (.sq, sqEmit c))

theorem z_sq_table_ascii : asciiAll zSqOk = true := by decide
theorem z_sq_keys : Replacer.keysAscii Gen.zsh_quotingReplacer = true := by decide

theorem z_sq_table (c : Char) (h1 : Replacer.lookup Gen.zsh_sanitizer c = none) :
    Z.run .sq (Replacer.escChar Gen.zsh_quotingReplacer c) = some (.sq, sqEmit c) := by
  by_cases h : c.toNat < 128
  · have := asciiAll_spec z_sq_table_ascii c h
    simpa only [zSqOk, h1, Option.isSome_none, Bool.false_or, decide_eq_true_eq] using this
  · rw [Replacer.escChar_nonascii _ z_sq_keys c h]
    have hq : c ≠ '\'' := by
      intro e; subst e; exact h (by decide)
    simp [Reader.run, Posix.reader, Posix.step, Posix.cls, h, sqEmit, hq]

theorem collect_sqEmit (v : Str) (acc : Str) : collect (v.flatMap sqEmit) (some acc) = [acc ++ v] := by
  induction v generalizing acc with
  | nil => simp [collect]
  | cons c v ih =>
    by_cases hq : c = '\''
    · subst hq
      simp [List.flatMap_cons, sqEmit, collect, ih, List.append_assoc]
    · simp [List.flatMap_cons, sqEmit, hq, collect, ih, List.append_assoc]

/-- **C03 (zsh, inside `'`).** The typed word opened a single quote; the inserted text closes it (QUOTING)
    or the typed closing quote follows (FULL_QUOTING): the whole reads back as the sanitised value, quotes
    inside the value and empty values included. -/
theorem C03_zsh_sq (env : Env) (v : Str) (full : Bool) :
    let st := if full then ZshState.fullQuoting else ZshState.quoting
    Posix.readBack Posix.bash (zshOpen st ++ zshUndescribe (zshInsert env st v) ++ zshClose st) = some [san Gen.zsh_sanitizer v] := by
  have hsan : ∀ c ∈ san Gen.zsh_sanitizer v, Replacer.lookup Gen.zsh_sanitizer c = none :=
    fun c hc => (Replacer.mem_applyChars_sanitizer zsh_sanitizer_shape hc).2
  have h1 : Z.run .start ['\''] = some (.sq, [Out.mark]) := by decide
  have h2 : Z.run .sq (Replacer.applyChars Gen.zsh_quotingReplacer (san Gen.zsh_sanitizer v)) =
      some (.sq, (san Gen.zsh_sanitizer v).flatMap sqEmit) :=
    run_flatMap_emit Z .sq _ sqEmit (fun d => Replacer.lookup Gen.zsh_sanitizer d = none) (fun d hd => z_sq_table d hd) _ hsan
  have h3 : Z.run .sq ['\''] = some (.mid, []) := by decide
  have h4 := Reader.run_append_of Z h1 (Reader.run_append_of Z h2 h3)
  have hfin : Posix.readBack Posix.bash (['\''] ++ (Replacer.applyChars Gen.zsh_quotingReplacer (san Gen.zsh_sanitizer v) ++ ['\''])) =
      some [san Gen.zsh_sanitizer v] := by
    simp only [Posix.readBack, readWords, h4]
    have := collect_sqEmit (san Gen.zsh_sanitizer v) []
    simpa [collect, Posix.final] using this
  cases full with
  | true =>
    simp only [if_true, zshOpen, zshClose, zshInsert, zshUndescribe_describe_nil]
    simpa [List.append_assoc] using hfin
  | false =>
    simp only [Bool.false_eq_true, if_false, zshOpen, zshClose, zshInsert]
    have := zshUndescribe_describe (Replacer.applyChars Gen.zsh_quotingReplacer (san Gen.zsh_sanitizer v)) ['\'']
    rw [this]
    have hq : zshUndescribe ['\''] = ['\''] := by decide
    rw [hq]
    simpa [List.append_assoc] using hfin

/-- non-vacuity -/
example : san Gen.zsh_sanitizer "~/my dir/it's $x: #1".toList ≠ [] := by decide
example : Posix.readBack Posix.bash (zshOpen .quoting ++ zshUndescribe (zshInsert {} .quoting "it's".toList) ++ zshClose .quoting) = some ["it's".toList] := by decide

end Carapace.Props.C03
