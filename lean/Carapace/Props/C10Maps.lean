/- The inventory of `for ... range <map>` statements of the library that the review in DESIGN.md 13.5 was made for (each entry:
   file, function, ranged expression; digest of the whole loop).  Snapshot written by `VERIF_SNAPSHOT_MAPRANGES=<this file> extract`;
   compared with the inventory regenerated from /repo on every run by `C10_map_ranges_covered`. -/
namespace Carapace.Props.C10

def expectedMapRanges : List (String × Nat) := [
  ("action.go Action.MultiPartsP: range matchedSegments", 6425610076918496218),
  ("action.go Action.MultiPartsP: range staticMatches", 4876009460764217842),
  ("carapace.go Carapace.FlagCompletion: range actions", 455720981112572336),
  ("diff.go Diff: range merged", 2618821204973418086),
  ("internal/common/message.go Messages.Get: range m.messages", 5422516051678207752),
  ("internal/common/message.go Messages.Integrate: range m.messages", 5175597866158033186),
  ("internal/common/message.go Messages.MarshalJSON: range m.messages", 1364698857464060560),
  ("internal/common/message.go Messages.Merge: range other.messages", 5264504565784907558),
  ("internal/common/message.go Messages.Suppress: range m.messages", 4867439519628293329),
  ("internal/common/value.go RawValues.EachTag: range tagGroups", 5023482530264857324),
  ("internal/common/value.go RawValues.Unique: range uniqueRawValues", 424725841355020604),
  ("internal/config/config.go configMap.Keys: range c", 7938487809685825968),
  ("internal/config/config.go load: range unmarshalled", 5093707068472951201),
  ("internal/config/config.go load: range value", 2376376692741154660),
  ("internal/shell/shell.go Snippet: range shellSnippets", 8029192151513531107),
  ("invokedAction.go InvokedAction.ToMultiPartsA: range uniqueVals", 3348242203009630536),
  ("pkg/sandbox/sandbox.go Sandbox.NewContext: range s.env", 4255284147937850463),
  ("storage.go _storage.check: range entry.flag", 1856848100043050366),
  ("storage.go _storage.check: range s", 432753733194507219)
]

end Carapace.Props.C10
