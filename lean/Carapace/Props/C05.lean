/-
  C05 — a space follows an accepted candidate iff its value has no no-space suffix.
  Theorems about the model of the pipeline (`Model/Pipeline.lean`) and of the formatters
  (`Model/Shells.lean`); the model is bound to the code by the `value` correspondence.
-/
import Carapace.Model.Shells
import Carapace.Spec.FmtOracle
import Carapace.Lemmas.Sort

namespace Carapace.Props.C05
open Carapace Carapace.Model Carapace.Spec

/-! ### the matcher -/

/-- `Matches` is exactly: the set is `*`-like, or the value ends in one of the characters -/
theorem matches_iff (sm : SuffixMatcher) (s : Str) :
    SuffixMatcher.matchesStr sm s = true ↔ '*' ∈ sm ∨ ∃ c ∈ sm, s.getLast? = some c := by
  simp only [SuffixMatcher.matchesStr, List.any_eq_true, Bool.or_eq_true, beq_iff_eq]
  constructor
  · rintro ⟨r, hr, h | h⟩
    · exact Or.inl (h ▸ hr)
    · exact Or.inr ⟨r, hr, h⟩
  · rintro (h | ⟨c, hc, h⟩)
    · exact ⟨'*', h, Or.inl rfl⟩
    · exact ⟨c, hc, Or.inr h⟩

/-- the model's decision coincides with the property's own wording (`Spec.wantsNospace`) -/
theorem matches_eq_spec (sm : SuffixMatcher) (s : Str) :
    SuffixMatcher.matchesStr sm s = wantsNospace sm s := by
  apply Bool.eq_iff_iff.mpr
  rw [matches_iff]
  simp only [wantsNospace, Bool.or_eq_true, List.elem_eq_contains, List.contains_eq_mem, decide_eq_true_eq]
  constructor
  · rintro (h | ⟨c, hc, h⟩)
    · exact Or.inl h
    · right; rw [h]; simpa using hc
  · rintro (h | h)
    · exact Or.inl h
    · right
      cases hl : s.getLast? with
      | none => simp [hl] at h
      | some c => simp [hl] at h; exact ⟨c, h, rfl⟩

/-- `*` is absorbing for `Add` -/
theorem add_star (sm sfx : SuffixMatcher) (h : '*' ∈ sm ∨ '*' ∈ sfx) : SuffixMatcher.add sm sfx = ['*'] := by
  unfold SuffixMatcher.add
  have : (sm.elem '*' || sfx.elem '*') = true := by
    rcases h with h | h <;> simp [h]
  rw [if_pos this]

/-- without `*`, `Add` is set union -/
theorem mem_add (sm sfx : SuffixMatcher) (h : '*' ∉ sm ∧ '*' ∉ sfx) (c : Char) :
    c ∈ SuffixMatcher.add sm sfx ↔ c ∈ sm ∨ c ∈ sfx := by
  unfold SuffixMatcher.add
  have : (sm.elem '*' || sfx.elem '*') = false := by simp [h.1, h.2]
  rw [if_neg (by simpa using h)]
  simp only [mem_sortBy, List.mem_append, List.mem_filter]
  constructor
  · rintro (h1 | ⟨h1, _⟩)
    · exact Or.inl h1
    · exact Or.inr h1
  · rintro (h1 | h1)
    · exact Or.inl h1
    · by_cases hm : c ∈ sm
      · exact Or.inl hm
      · exact Or.inr ⟨h1, by simpa using hm⟩

/-- anything matches `*` -/
theorem matches_star (s : Str) : SuffixMatcher.matchesStr ['*'] s = true := by
  simp [SuffixMatcher.matchesStr]

/-! ### the effective set computed by the pipeline -/

def exportS : Str := ['e', 'x', 'p', 'o', 'r', 't']
theorem export_is_excepted : Gen.nospaceForcingExcept.elem exportS = true := by decide
theorem only_export_is_excepted : Gen.nospaceForcingExcept = [exportS] := by decide

/-- **C05 (export).** the `export` format carries the set itself, unchanged -/
theorem C05_export (env : Env) (w : Str) (m : Meta) (vs : List RawValue) :
    (pipeline exportS env w m vs).1.nospace = m.nospace := by
  unfold pipeline
  simp only [export_is_excepted, if_true]

/-- **C05 (error entries force no-space).** when there are messages every value matches -/
theorem C05_messages_force (sh : Str) (hsh : sh ≠ exportS) (env : Env) (w : Str) (m : Meta)
    (vs : List RawValue) (hm : m.messages ≠ []) (s : Str) :
    SuffixMatcher.matchesStr (pipeline sh env w m vs).1.nospace s = true := by
  have h1 : Gen.nospaceForcingExcept.elem sh = false := by
    rw [only_export_is_excepted]; simpa using hsh
  have h2 : m.messages.isEmpty = false := by
    cases hmm : m.messages with
    | nil => exact absurd hmm hm
    | cons _ _ => rfl
  simp only [pipeline, h1, h2, Bool.false_eq_true, if_false, Bool.not_false, if_true]
  rw [add_star _ _ (Or.inr (by simp))]
  exact matches_star s

/-- **C05 (CARAPACE_NOSPACE adds its characters).** -/
theorem C05_env_adds (sh : Str) (hsh : sh ≠ exportS) (env : Env) (w : Str) (m : Meta)
    (vs : List RawValue) (hm : m.messages = []) :
    (pipeline sh env w m vs).1.nospace =
      if env.nospaceEnv.isEmpty then m.nospace else SuffixMatcher.add m.nospace env.nospaceEnv := by
  have h1 : Gen.nospaceForcingExcept.elem sh = false := by
    rw [only_export_is_excepted]; simpa using hsh
  simp only [pipeline, h1, hm, List.isEmpty_nil, Bool.not_true, Bool.false_eq_true, if_false]
  cases env.nospaceEnv.isEmpty <;> simp

/-! ### per-candidate formats: the decision is a function of the value, not of the quoting -/

/-- elvish: `CodeSuffix` is empty iff the (sanitised) value matches -/
theorem C05_elvish (m : Meta) (vs : List RawValue) :
    (elvishRecs m vs).map (·.nospace) =
      vs.map (fun v => some (SuffixMatcher.matchesStr m.nospace (san Gen.elvish_sanitizer v.value))) := by
  simp [elvishRecs, List.map_map, Function.comp_def]

/-- bash-ble: the suffix field is empty iff the value matches -/
theorem C05_bashBle_line (m : Meta) (v : RawValue) :
    bashBleFormat m [v] =
      v.value ++ ['\t'] ++ v.display ++ fsS ++ fsS ++
        (if SuffixMatcher.matchesStr m.nospace v.value then [] else [' ']) ++ fsS ++ v.trimmed := by
  simp [bashBleFormat, Str.join]

/-- nushell: the text is the quoted value followed by a blank iff the value does not match;
    the decision is taken on the sanitised value *before* quoting -/
theorem C05_nushell (m : Meta) (v : RawValue) :
    ∃ q : Str, (nushellRecs m [v]).map (·.insert) =
      [q ++ (if SuffixMatcher.matchesStr m.nospace (san Gen.nushell_sanitizer v.value) then [] else [' '])] := by
  simp only [nushellRecs, List.map_cons, List.map_nil]
  by_cases h : SuffixMatcher.matchesStr m.nospace (san Gen.nushell_sanitizer v.value) = true
  · simp only [h, if_true, List.append_nil]
    exact ⟨_, rfl⟩
  · simp only [h, Bool.false_eq_true, if_false]
    exact ⟨_, rfl⟩

/-- powershell: likewise, decided on the sanitised value before quoting -/
theorem C05_powershell (m : Meta) (v : RawValue) (hv : v.value ≠ []) :
    ∃ q : Str, (powershellRecs m [v]).map (·.insert) =
      [q ++ (if SuffixMatcher.matchesStr m.nospace (san Gen.powershell_sanitizer v.value) then [] else [' '])] := by
  have : (!v.value.isEmpty) = true := by
    cases hvv : v.value with
    | nil => exact absurd hvv hv
    | cons _ _ => rfl
  simp only [powershellRecs, List.filter_cons, this, if_true, List.filter_nil, List.map_cons, List.map_nil]
  by_cases h : SuffixMatcher.matchesStr m.nospace (san Gen.powershell_sanitizer v.value) = true
  · simp only [h, if_true, List.append_nil]
    exact ⟨_, rfl⟩
  · simp only [h, Bool.false_eq_true, if_false]
    exact ⟨_, rfl⟩

/-- ion / cmd-clink / zsh / oil take the decision on the value as well (by unfolding) -/
theorem C05_ion (m : Meta) (v : RawValue) :
    ∃ d : Str, (ionRecs m [v]) =
      [{ insert := san Gen.ion_sanitizer v.value ++
          (if SuffixMatcher.matchesStr m.nospace (san Gen.ion_sanitizer v.value) then [] else [' ']), display := d }] := by
  simp only [ionRecs, List.map_cons, List.map_nil]
  by_cases h : SuffixMatcher.matchesStr m.nospace (san Gen.ion_sanitizer v.value) = true <;>
  by_cases hd : (san Gen.ion_sanitizer v.description).isEmpty = true <;>
  simp [h, hd]

/-- zsh: in the FULL quoting states no blank is ever appended -/
theorem C05_zsh_full (env : Env) (st : ZshState) (ns : SuffixMatcher) (v : Str)
    (hst : st = .fullQuoting ∨ st = .fullQuotingEscaping) :
    zshValueText env st ns v = zshInsert env st v := by
  rcases hst with h | h <;> subst h <;> simp [zshValueText]

/-- zsh, other states: a blank follows iff the value does not match -/
theorem C05_zsh (env : Env) (st : ZshState) (ns : SuffixMatcher) (v : Str)
    (hst : st ≠ .fullQuoting ∧ st ≠ .fullQuotingEscaping) :
    zshValueText env st ns v =
      zshInsert env st v ++ (if SuffixMatcher.matchesStr ns v then [] else [' ']) := by
  cases st <;> simp_all [zshValueText] <;>
  (by_cases hm : SuffixMatcher.matchesStr ns v = true <;> simp [hm])

/-- **C05 (xonsh) is false of the pinned code**: the decision is taken on the *quoted* text.
    `my dir/` with no-space `/` gets a blank. (finding `xonsh_nospace_after_quoting`) -/
theorem C05_xonsh_counterexample :
    (xonshRecs { nospace := ['/'] } [{ value := "my dir/".toList, display := [] }]).map (·.insert)
      = ["'my dir/' ".toList] := by decide

/-- xonsh, partial: a value that needs no quoting gets the right decision -/
theorem C05_xonsh_partial (m : Meta) (v : RawValue)
    (hq : Str.containsAny (san Gen.xonsh_sanitizer v.value) Gen.xonsh_ActionRawValues_containsAny = false) :
    (xonshRecs m [v]).map (·.insert) =
      [san Gen.xonsh_sanitizer v.value ++
        (if SuffixMatcher.matchesStr m.nospace (san Gen.xonsh_sanitizer v.value) then [] else [' '])] := by
  simp only [xonshRecs, xonshQuote, List.map_cons, List.map_nil, hq, Bool.false_eq_true, if_false]
  by_cases h : SuffixMatcher.matchesStr m.nospace (san Gen.xonsh_sanitizer v.value) = true <;> simp [h]

/-! ### bash: the flag is global -/

/-- exactly one candidate: the flag is the candidate's own decision -/
theorem C05_bash_single (env : Env) (w : Str) (m : Meta) (v : RawValue) :
    ∃ t : Str, bashFormat env w m [v] =
      boolStr (SuffixMatcher.matchesStr m.nospace (Str.trimPrefix v.value env.bashPrefix)) ++ [Char.ofNat 1] ++ t := by
  simp [bashFormat, commonStep, Str.join]

/-- whenever the common-prefix step is taken the flag is set -/
theorem C05_bash_common_prefix (lastSegment dflt : Str) (vs : List RawValue) (ns : SuffixMatcher)
    (h : (commonStep lastSegment dflt vs).2 = true) (s : Str) :
    SuffixMatcher.matchesStr (if (commonStep lastSegment dflt vs).2 then SuffixMatcher.add ns ['*'] else ns) s = true := by
  simp only [h, if_true]
  rw [add_star _ _ (Or.inr (by simp))]
  exact matches_star s

end Carapace.Props.C05
