/- C05 property theorems (under construction) -/
import Carapace.Model.Shells
import Carapace.Spec.FmtOracle

namespace Carapace.Props.C05

end Carapace.Props.C05
