/-
  C01 for the slot `--name=<TAB>`: the value attached to a long flag (any interspersed command, as long as
  the earlier words stay within it).  If the traverse model completes the value of flag `name` behind the
  prefix `pre` for a current word `--...`, then `pre` is `--name=` and - given that the parser accepts the
  line so far - for any text `v` the flag's type accepts the word `pre ++ v` is accepted by the program's
  parser and assigns `v` to that very flag as the last assignment of the line.
  (The shorthand forms `-n=<TAB>`, `-nv<TAB>`, `-abn<TAB>` are not proved; all are compared with the code.)
-/
import Carapace.Props.C01Flag

namespace Carapace.Props.C01
open Carapace Carapace.Model Carapace.Spec

theorem isSeries_false_long (body : Str) : isShorthandSeries ('-' :: '-' :: body) = false := by
  simp [isShorthandSeries]

theorem cutChar_fst_not_mem (d : Char) (s : Str) : d ∉ (Str.cutChar d s).1 := by
  induction s with
  | nil => simp [Str.cutChar]
  | cons c s ih =>
    by_cases hc : c = d
    · simp [Str.cutChar, hc]
    · rw [Str.cutChar_cons_ne d c s hc]
      simp only [List.mem_cons, not_or]
      exact ⟨fun e => hc e.symm, ih⟩

/-- what the parser does with `--name=v` behind an accepted line -/
theorem long_attached_accepted {pfs : Pflag.PFlags} (hn : NamesOk pfs) {ws : List Str} {p : Pflag.Parsed}
    (hp : Pflag.parse pfs true ws = .ok p) (hd : p.lenAtDash = none)
    {f : Pflag.PFlag} (hf : Pflag.findLong pfs f.name = some f) (v : Str) (hv : Pflag.valueOk f v = true) :
    Pflag.parse pfs true (ws ++ ["--".toList ++ f.name ++ '=' :: v]) = .ok { p with sets := p.sets ++ [(f.name, v)] } := by
  obtain ⟨hmem, _⟩ := findLong_mem hf
  obtain ⟨hne, hd1, hd2, heq⟩ := hn f hmem
  unfold Pflag.parse at hp ⊢
  rw [parseArgs_append_inter ["--".toList ++ f.name ++ '=' :: v] (by simp) ws false {} p (by simp) hp hd]
  cases hnm : f.name with
  | nil => exact absurd hnm hne
  | cons c r =>
    have hc1 : c ≠ '-' := by intro e; rw [hnm, e] at hd1; simp at hd1
    have hc2 : c ≠ '=' := by intro e; rw [hnm, e] at hd2; simp at hd2
    have hk : Pflag.wordKind ('-' :: '-' :: c :: (r ++ '=' :: v)) = .long (c :: (r ++ '=' :: v)) := wordKind_long c _
    have hcut : Str.cutChar '=' (c :: (r ++ '=' :: v)) = (c :: r, some v) := by
      have := Str.cutChar_append '=' (c :: r) v (by rw [← hnm]; exact heq)
      simpa using this
    have hfl : Pflag.findLong pfs (c :: r) = some f := by rw [← hnm]; exact hf
    have hpl : Pflag.parseLong pfs (c :: (r ++ '=' :: v)) none = .ok ((f.name, v), false) := by
      unfold Pflag.parseLong
      simp [hc1, hc2, hcut, hfl, hv]
    rw [hnm] at hpl
    have hw : ("--".toList ++ (c :: r) ++ '=' :: v) = '-' :: '-' :: c :: (r ++ '=' :: v) := by simp
    rw [hw]
    simp [Pflag.parseArgs, hk, hpl]

/-- **C01 for the slot of a value attached to a long flag.** -/
theorem C01_attached_long_lands {t : TTree} {c : Nat} {cs : TCmd} (h : Stay t c cs) (hi : cs.interspersed = true)
    (hn : NamesOk (flagsAt t (t.size + 1) c)) (fuel : Nat) (ws : List Str) (hnc : NoChild t c ws) (body name pre : Str)
    (hs : traverseSlot t (fuel + 1) c ws ('-' :: '-' :: body) = .flagValueAttached c name pre) :
    pre = "--".toList ++ name ++ ['='] ∧
    ∀ v, (∀ f ∈ flagsAt t (t.size + 1) c, f.name = name → Pflag.valueOk f v = true) →
      ∃ p', Pflag.parse (flagsAt t (t.size + 1) c) true (ws ++ [pre ++ v]) = .ok p' ∧ p'.sets.getLast? = some (name, v) := by
  have ht0 : t[c]? = some cs := h.cmd
  unfold traverseSlot at hs
  simp only [ht0, h.name1, h.name2, Bool.false_eq_true, Bool.or_self, if_false] at hs
  obtain ⟨st, b, hl, hin⟩ := loop_single (cs := cs) ((flagsAt t (t.size + 1) c).map (·.toDef)) ws {} hnc
  simp only [hl, h.parses, Bool.false_eq_true, if_false, hi] at hs
  have hin' : st.inArgs = ws := by simpa using hin
  simp only [seriesFix_plain _ _ _ (isSeries_false_long body), hin'] at hs
  -- whatever flag was seen last, it does not wait for this word (that would be another slot); so the earlier words
  -- are what the parser got, and the slot comes from the look-up of the current word
  have key : ∃ p, Pflag.parse (flagsAt t (t.size + 1) c) true ws = .ok p ∧ p.lenAtDash = none ∧
      traverseSlot.flagOrPositional cs ((flagsAt t (t.size + 1) c).map Pflag.PFlag.toDef) c (true || st.nPos == 0) p ('-' :: '-' :: body) =
        .flagValueAttached c name pre := by
    cases hfl : st.inFlag with
    | none =>
      simp only [hfl] at hs
      cases hp : Pflag.parse (flagsAt t (t.size + 1) c) true ws with
      | error e => simp [hp] at hs
      | ok p =>
        simp only [hp] at hs
        cases hd : p.lenAtDash with
        | some n => simp [hd] at hs
        | none => simp only [hd] at hs; exact ⟨p, rfl, hd, hs⟩
    | some fd =>
      simp only [hfl] at hs
      by_cases hcon : consumes fd = true
      · exfalso
        have hargs : fd.args.isEmpty = true := by
          simp only [consumes, Bool.and_eq_true] at hcon; exact hcon.2
        simp only [hargs, hcon, Bool.and_self, if_true] at hs
        split at hs
        · simp at hs
        · split at hs <;> simp at hs
      · have hcf : consumes fd = false := by simpa using hcon
        simp only [hcf, Bool.and_false, Bool.false_eq_true, if_false] at hs
        cases hp : Pflag.parse (flagsAt t (t.size + 1) c) true ws with
        | error e => simp [hp] at hs
        | ok p =>
          simp only [hp] at hs
          cases hd : p.lenAtDash with
          | some n => simp [hd] at hs
          | none => simp only [hd] at hs; exact ⟨p, rfl, hd, hs⟩
  obtain ⟨p, hp, hd, hfo⟩ := key
  -- the look-up of `--body`
  unfold traverseSlot.flagOrPositional at hfo
  have hlk : lookupArg ((flagsAt t (t.size + 1) c).map Pflag.PFlag.toDef) ('-' :: '-' :: body) =
      lookupPosixLong ((flagsAt t (t.size + 1) c).map Pflag.PFlag.toDef) body := rfl
  rw [hlk] at hfo
  unfold lookupPosixLong at hfo
  rcases hcut : Str.cutChar '=' body with ⟨n, v?⟩
  simp only [hcut, lookupLong_map] at hfo
  cases hf : Pflag.findLong (flagsAt t (t.size + 1) c) n with
  | none =>
    exfalso
    cases v? <;> (simp only [hf, Option.map_none] at hfo; split at hfo <;> simp at hfo)
  | some f =>
    obtain ⟨hmem, hfn⟩ := findLong_mem hf
    cases v? with
    | none =>
      exfalso
      simp only [hf, Option.map_some] at hfo
      split at hfo
      · simp [Str.hasPrefix] at hfo
      · simp at hfo
    | some x =>
      simp only [hf, Option.map_some] at hfo
      split at hfo
      · simp only [List.isEmpty_cons, Bool.not_false, if_true] at hfo
        split at hfo
        · simp at hfo
        · simp only [Slot.flagValueAttached.injEq, true_and] at hfo
          obtain ⟨e1, e2⟩ := hfo
          have hname : f.name = name := by rw [← e1]; rfl
          have hpre : pre = "--".toList ++ name ++ ['='] := by rw [← e2, ← hname, hfn]
          refine ⟨hpre, fun v hv => ?_⟩
          have hff : Pflag.findLong (flagsAt t (t.size + 1) c) f.name = some f := by rw [hfn]; exact hf
          have := long_attached_accepted hn hp hd hff v (hv f hmem hname)
          refine ⟨{ p with sets := p.sets ++ [(f.name, v)] }, ?_, ?_⟩
          · rw [hpre, ← hname]
            simpa [List.append_assoc] using this
          · simp [hname]
      · simp at hfo

/-- non-vacuity -/
example :
    let cs : TCmd := { name := "prog".toList, flags := [({ name := "name".toList, short := some 'n' }, false)] }
    traverseSlot #[cs] 3 0 ["x".toList] "--name=va".toList = .flagValueAttached 0 "name".toList "--name=".toList := by decide

end Carapace.Props.C01
