/-
  C16 — file and directory completion mirrors the file system seen from the Context.
  Theorems about the listing logic of the model (`actionPathValues`); the file system itself is
  read by the harness (OS behaviour is not modelled) and the composition with `MultiParts("/")`
  is covered by C11's theorems and by exact correspondence with the real ActionFiles.
-/
import Carapace.Spec.Listing

namespace Carapace.Props.C16
open Carapace Carapace.Model Carapace.Spec

/-- what an entry contributes is the display folder, its name, and `/` for a directory -/
theorem C16_entry_shape (showHidden dirOnly : Bool) (suffixes : List Str) (df : Str) (e : DirEntry) (v : Str)
    (h : entryValue showHidden dirOnly suffixes df e = some v) :
    v = df ++ e.name ++ ['/'] ∨ v = df ++ e.name := by
  unfold entryValue at h
  by_cases h1 : (!showHidden && Str.hasPrefix e.name ['.']) = true
  · simp [h1] at h
  · simp only [h1, Bool.false_eq_true, if_false] at h
    cases hk : e.kind <;> simp only [hk] at h
    · exact Or.inl (Option.some.inj h).symm
    · cases dirOnly <;> simp at h
      exact Or.inr h.2.symm
    · exact Or.inl (Option.some.inj h).symm
    · cases dirOnly <;> simp at h
      exact Or.inr h.2.symm
    · cases dirOnly <;> simp at h
      exact Or.inr h.2.symm

/-- dot-entries only when hidden entries are to be shown -/
theorem C16_entry_hidden (dirOnly : Bool) (suffixes : List Str) (df : Str) (e : DirEntry)
    (he : Str.hasPrefix e.name ['.'] = true) : entryValue false dirOnly suffixes df e = none := by
  simp [entryValue, he]

/-- directories (and links to directories) get a trailing `/`, whatever the suffix filter -/
theorem C16_entry_dir (showHidden dirOnly : Bool) (suffixes : List Str) (df : Str) (e : DirEntry)
    (hk : e.kind = .dir ∨ e.kind = .linkDir) (hv : showHidden = true ∨ Str.hasPrefix e.name ['.'] = false) :
    entryValue showHidden dirOnly suffixes df e = some (df ++ e.name ++ ['/']) := by
  have h1 : (!showHidden && Str.hasPrefix e.name ['.']) = false := by
    rcases hv with h | h <;> simp [h]
  rcases hk with hk | hk <;> simp [entryValue, h1, hk]

/-- regular files: only for ActionFiles and only with an allowed suffix -/
theorem C16_entry_file (showHidden : Bool) (suffixes : List Str) (df : Str) (e : DirEntry)
    (hk : e.kind = .file) (hv : showHidden = true ∨ Str.hasPrefix e.name ['.'] = false) :
    entryValue showHidden true suffixes df e = none ∧
    entryValue showHidden false suffixes df e =
      (if suffixes.any (fun s => Str.hasSuffix e.name s) then some (df ++ e.name) else none) := by
  have h1 : (!showHidden && Str.hasPrefix e.name ['.']) = false := by
    rcases hv with h | h <;> simp [h]
  simp [entryValue, h1, hk]

/-- the listing specification hides dot-entries unless the typed segment starts with a dot -/
theorem C16_spec_hidden (typed : Str) (dirOnly : Bool) (suffixes : List Str)
    (h : Str.hasPrefix (splitTyped typed).2 ['.'] = false) (e : DirEntry) (he : Str.hasPrefix e.name ['.'] = true) :
    (splitTyped typed).1 ++ e.name ∉ (listing typed [e] dirOnly suffixes) ∧
    (splitTyped typed).1 ++ e.name ++ ['/'] ∉ (listing typed [e] dirOnly suffixes) := by
  simp [listing, h, he]

/-- **the typed directory part is rebuilt with `filepath.Dir`, i.e. cleaned**: for typed `a//` in a
    directory that holds `a/x`, nothing is offered although `a//x` continues what was typed
    (finding `files_unclean_dir_part`) -/
theorem C16_unclean_counterexample :
    filesModel "/d".toList "a//".toList [{ name := "x".toList, kind := .file }] false [] = some []
    ∧ listing "a//".toList [{ name := "x".toList, kind := .file }] false [] = ["a//x".toList] := by decide

/-- and for a clean typed path both agree (an instance) -/
example :
    filesModel "/d".toList "a/x".toList [{ name := "x.txt".toList, kind := .file }, { name := "xd".toList, kind := .dir },
      { name := "y".toList, kind := .file }, { name := ".xh".toList, kind := .file }] false []
      = some (listing "a/x".toList [{ name := "x.txt".toList, kind := .file }, { name := "xd".toList, kind := .dir },
      { name := "y".toList, kind := .file }, { name := ".xh".toList, kind := .file }] false []) := by decide

end Carapace.Props.C16
