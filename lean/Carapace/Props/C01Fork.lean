/-
  C01 over the features of the carapace-pflag fork (POSIX flag sets): a custom `OptargDelimiter` and
  `Nargs`.  Theorems about the general models Model/ForkG.lean, Model/TraverseG.lean and the parser
  specification Spec/PflagG.lean:

  * `C01_fork_long_attached`: for a flag with its own delimiter, `--name<d>value` is resolved by
    carapace to that very flag with the prefix `--name<d>` and the argument `value`, and the program's
    parser assigns `value` to the same flag and takes no further word;
  * `C01_fork_nargs_any_extent` / `C01_fork_nargs_n_extent`: carapace's classification loop and the
    parser's `parseNargs` agree on how many of the following words belong to a flag that takes several;
  * `lookupArgG_posix`, `consumesG_posix`: without fork features the general lookup is the POSIX
    one the theorems of C01Slots / C01Flag are about.
-/
import Carapace.Model.TraverseG
import Carapace.Lemmas.Framing
import Carapace.Model.Entry

namespace Carapace.Props.C01Fork
open Carapace Carapace.Model Carapace.Spec Carapace.Spec.Pflag Carapace.Spec.PflagG

/-! ### finding the flag of `--name<d>value` -/

/-- no flag's name contains the delimiter of any flag of the set -/
def DelimFree (fs : PFlagsG) : Prop := ∀ f ∈ fs, ∀ g ∈ fs, g.delim ∉ f.name

def NamesDistinct (fs : PFlagsG) : Prop := ∀ f ∈ fs, ∀ g ∈ fs, f.name = g.name → f = g

theorem find_unique {α} (p : α → Bool) (l : List α) (x : α) (hx : x ∈ l) (hp : p x = true)
    (hu : ∀ y ∈ l, p y = true → y = x) : l.find? p = some x := by
  induction l with
  | nil => simp at hx
  | cons a l ih =>
    by_cases ha : p a = true
    · have : a = x := hu a (List.mem_cons_self ..) ha
      subst this
      simp [List.find?, hp]
    · have hne : a ≠ x := fun e => ha (e ▸ hp)
      have hx' : x ∈ l := by
        rcases List.mem_cons.mp hx with h | h
        · exact absurd h.symm hne
        · exact h
      simp only [List.find?, ha]
      exact ih hx' (fun y hy => hu y (List.mem_cons_of_mem _ hy))

theorem cutChar_fst_append (d : Char) (a b : Str) (h : d ∉ a) :
    (Str.cutChar d (a ++ b)).1 = a ++ (Str.cutChar d b).1 := by
  induction a with
  | nil => simp
  | cons c a ih =>
    have hc : c ≠ d := fun e => h (e ▸ List.mem_cons_self ..)
    have ha : d ∉ a := fun e => h (List.mem_cons_of_mem _ e)
    simp [Str.cutChar, hc, ih ha]

/-- only a flag of the same name can claim `name<d>value` -/
theorem cut_claims_name (fs : PFlagsG) (hd : DelimFree fs) (f g : PFlagG) (hf : f ∈ fs) (hg : g ∈ fs) (v : Str)
    (h : (Str.cutChar g.delim (f.name ++ f.delim :: v)).1 = g.name) : g.name = f.name := by
  by_cases he : g.delim = f.delim
  · rw [he, Str.cutChar_append f.delim f.name v (hd f hf f hf)] at h
    exact h.symm
  · exfalso
    rw [cutChar_fst_append g.delim f.name _ (hd f hf g hg)] at h
    have hne : f.delim ≠ g.delim := fun e => he e.symm
    rw [Str.cutChar_cons_ne g.delim f.delim v hne] at h
    have : f.delim ∈ g.name := by rw [← h]; simp
    exact hd g hg f hf this

theorem findLongG_attached (fs : PFlagsG) (hd : DelimFree fs) (hn : NamesDistinct fs) (f : PFlagG) (hf : f ∈ fs) (v : Str) :
    findLongG fs (f.name ++ f.delim :: v) = some f := by
  unfold findLongG
  apply find_unique _ fs f hf
  · rw [Str.cutChar_append f.delim f.name v (hd f hf f hf)]; simp
  · intro g hg hp
    have h1 : (Str.cutChar g.delim (f.name ++ f.delim :: v)).1 = g.name := by simpa using hp
    exact hn g hg f hf (cut_claims_name fs hd f g hf hg v h1)

/-- the same search on carapace's side (`lookupPosixLonghandArg` visits the flags of mode Default) -/
theorem find_toDefG (fs : PFlagsG) (body : Str) :
    (fs.map PFlagG.toDefG).find? (fun f => f.mode == 0 && (Str.cutChar f.delim body).1 == f.name) =
      (fs.find? (fun f => f.mode == 0 && (Str.cutChar f.delim body).1 == f.name)).map PFlagG.toDefG := by
  induction fs with
  | nil => rfl
  | cons a l ih =>
    simp only [List.map_cons, List.find?]
    have e1 : (a.toDefG).delim = a.delim := rfl
    have e2 : (a.toDefG).name = a.name := rfl
    have e3 : (a.toDefG).mode = a.mode := rfl
    rw [e1, e2, e3]
    cases hq : (a.mode == 0 && (Str.cutChar a.delim body).1 == a.name) with
    | true => simp
    | false => simpa using ih

theorem findLongModeG_attached (fs : PFlagsG) (hd : DelimFree fs) (hn : NamesDistinct fs) (f : PFlagG) (hf : f ∈ fs)
    (hm : f.mode = 0) (v : Str) :
    fs.find? (fun g => g.mode == 0 && (Str.cutChar g.delim (f.name ++ f.delim :: v)).1 == g.name) = some f := by
  apply find_unique _ fs f hf
  · rw [Str.cutChar_append f.delim f.name v (hd f hf f hf)]; simp [hm]
  · intro g hg hp
    have h1 : (Str.cutChar g.delim (f.name ++ f.delim :: v)).1 = g.name := by
      simp only [Bool.and_eq_true, beq_iff_eq] at hp; exact hp.2
    exact hn g hg f hf (cut_claims_name fs hd f g hf hg v h1)

/-- **C01, custom delimiter.** `--name<d>value`: carapace resolves the word to flag `name` with prefix
    `--name<d>` and argument `value` (so the flag's completion is offered, prefixed), and the parser
    gives `value` to that flag and consumes nothing else. -/
theorem C01_fork_long_attached (fs : PFlagsG) (hd : DelimFree fs) (hn : NamesDistinct fs) (f : PFlagG) (hf : f ∈ fs)
    (hm : f.mode = 0) (c : Char) (n : Str) (hname : f.name = c :: n) (hc : c ≠ '-' ∧ c ≠ '=') (v : Str) (hv : valueOkG f v = true) (rest : List Str) (wl : Bool) :
    lookupArgG (fs.map PFlagG.toDefG) ('-' :: '-' :: (f.name ++ f.delim :: v)) =
        some ⟨f.toDefG, "--".toList ++ f.name ++ [f.delim], [v]⟩ ∧
    parseLongG fs wl (f.name ++ f.delim :: v) rest = .ok (some (f.name, v), 0) := by
  have hfind := findLongG_attached fs hd hn f hf v
  have hcut := Str.cutChar_append f.delim f.name v (hd f hf f hf)
  constructor
  · show lookupPosixLongG _ (f.name ++ f.delim :: v) = _
    unfold lookupPosixLongG
    rw [find_toDefG, findLongModeG_attached fs hd hn f hf hm v]
    have e1 : (f.toDefG).delim = f.delim := rfl
    simp only [Option.map_some, e1, hcut]
  · unfold parseLongG
    rw [hname] at hfind hcut ⊢
    simp only [List.cons_append]
    have h1 : ¬ (c = '-' ∨ c = '=') := fun h => h.elim hc.1 hc.2
    simp only [h1, if_false]
    simp only [List.cons_append] at hfind hcut
    rw [hfind]
    have hm1 : (f.mode == 1) = false := by rw [hm]; rfl
    simp only [hm1, Bool.false_eq_true, if_false, hcut, hv, if_true]
    rw [hname]

/-! ### how many words a flag with `Nargs` takes -/

section extent
variable (t : TTreeG) (c : Nat) (cs : TCmdG) (fs : FlagSetG)

/-- the flag is one that waits for words at all -/
def Waits (fd : FoundG) : Prop := fd.flag.takesValue = true ∧ fd.flag.noOptDef = false

theorem consumesG_any (fd : FoundG) (hw : Waits fd) (hn : fd.flag.nargs < 0) (w : Str) :
    consumesG fd w = !Str.hasPrefix w ['-'] := by
  unfold consumesG; simp [hw.1, hw.2, hn]

/-- one word that does not look like a flag is taken as an argument of the pending any-number flag -/
theorem classifyG_any_takes (fd : FoundG) (hw : Waits fd) (hn : fd.flag.nargs < 0) (w : Str) (hwd : Str.hasPrefix w ['-'] = false)
    (st : LoopStateG) (hst : st.inFlag = some fd) :
    classifyG t c cs fs w st =
      .next { st with inArgs := st.inArgs ++ [w], inFlag := some { fd with args := fd.args ++ [w] } } := by
  have h1 : consumesG fd w = true := by rw [consumesG_any fd hw hn]; simp [hwd]
  have h2 : consumesG { fd with args := fd.args ++ [w] } [] = true := by
    have := consumesG_any { fd with args := fd.args ++ [w] } hw hn []
    rw [this]; rfl
  unfold classifyG
  simp only [hst, h1, h2, if_true]

/-- **C01, `Nargs` < 0 (carapace's side).** The classification loop gives the pending flag exactly the
    run of following words that do not start with `-` ... -/
theorem loopG_any_run (fd : FoundG) (hw : Waits fd) (hn : fd.flag.nargs < 0) (ws rest : List Str)
    (hws : ∀ w ∈ ws, Str.hasPrefix w ['-'] = false) (st : LoopStateG) (hst : st.inFlag = some fd) :
    loopG t c cs fs (ws ++ rest) st =
      loopG t c cs fs rest { st with inArgs := st.inArgs ++ ws, inFlag := some { fd with args := fd.args ++ ws } } := by
  induction ws generalizing st fd with
  | nil =>
    cases st; simp only at hst; subst hst; simp
  | cons w ws ih =>
    have hwd := hws w (List.mem_cons_self ..)
    simp only [List.cons_append, loopG]
    rw [classifyG_any_takes t c cs fs fd hw hn w hwd st hst]
    simp only
    have := ih { fd with args := fd.args ++ [w] } hw hn (fun x hx => hws x (List.mem_cons_of_mem _ hx))
      { st with inArgs := st.inArgs ++ [w], inFlag := some { fd with args := fd.args ++ [w] } } rfl
    rw [this]
    simp [List.append_assoc]

/-- ... and the next word, which does, is not the flag's -/
theorem consumesG_any_stops (fd : FoundG) (hw : Waits fd) (hn : fd.flag.nargs < 0) (w : Str) (hwd : Str.hasPrefix w ['-'] = true) :
    consumesG fd w = false := by
  rw [consumesG_any fd hw hn]; simp [hwd]

/-- **C01, `Nargs` < 0 (the parser's side).** `parseNargs` takes the same run. -/
theorem takeNargs_any (n : Int) (hn : n < 0) (ws : List Str) (w : Str) (rest : List Str)
    (hws : ∀ x ∈ ws, Str.hasPrefix x ['-'] = false) (hwd : Str.hasPrefix w ['-'] = true) :
    takeNargs n (ws ++ w :: rest) = ws.length := by
  unfold takeNargs
  have h0 : (n == 0 || n == 1) = false := by
    have : n ≠ 0 := by omega
    have : n ≠ 1 := by omega
    simp [*]
  have h1 : ¬ (n > 1) := by omega
  simp only [h0, Bool.false_eq_true, if_false, h1, decide_false, Bool.false_and, hn, if_true, List.take_length]
  induction ws with
  | nil => simp [List.takeWhile, hwd]
  | cons x ws ih =>
    have hx := hws x (List.mem_cons_self ..)
    simp only [List.cons_append, List.takeWhile, hx, Bool.not_false, List.length_cons]
    rw [ih (fun y hy => hws y (List.mem_cons_of_mem _ hy))]

/-- at the end of the line every remaining word is the flag's -/
theorem takeNargs_any_all (n : Int) (hn : n < 0) (ws : List Str) (hws : ∀ x ∈ ws, Str.hasPrefix x ['-'] = false) :
    takeNargs n ws = if n == 0 || n == 1 then 1 else ws.length := by
  unfold takeNargs
  have h0 : (n == 0 || n == 1) = false := by
    have : n ≠ 0 := by omega
    have : n ≠ 1 := by omega
    simp [*]
  have h1 : ¬ (n > 1) := by omega
  simp only [h0, Bool.false_eq_true, if_false, h1, decide_false, Bool.false_and, hn, if_true, List.take_length]
  induction ws with
  | nil => rfl
  | cons x ws ih =>
    have hx := hws x (List.mem_cons_self ..)
    simp only [List.takeWhile, hx, Bool.not_false, List.length_cons]
    rw [ih (fun y hy => hws y (List.mem_cons_of_mem _ hy))]

/-- **C01, `Nargs` = n > 1.** carapace keeps the flag open while it has fewer than n words; the parser
    takes n words (all of them when fewer follow). -/
theorem consumesG_n (fd : FoundG) (hw : Waits fd) (n : Nat) (hn : fd.flag.nargs = (n : Int)) (h1 : 1 < n) (w : Str) :
    consumesG fd w = decide (fd.args.length < n) := by
  unfold consumesG
  have hlt : ¬ (fd.flag.nargs < 0) := by omega
  have hgt : fd.flag.nargs > 1 := by omega
  simp only [hw.1, hw.2, Bool.not_false, Bool.and_self, Bool.true_and, hlt, if_false, hgt, decide_true]
  by_cases he : fd.args = []
  · simp [he]; omega
  · have : fd.args.isEmpty = false := by cases h : fd.args with | nil => exact absurd h he | cons _ _ => rfl
    simp only [this, Bool.false_or, hn]
    congr 1
    exact propext ⟨fun h => by omega, fun h => by omega⟩

theorem takeNargs_n (n : Nat) (h1 : 1 < n) (rest : List Str) :
    takeNargs (n : Int) rest = min n rest.length := by
  unfold takeNargs
  have h0 : ((n : Int) == 0 || (n : Int) == 1) = false := by
    have a : ((n : Int) == 0) = false := by simp; omega
    have b : ((n : Int) == 1) = false := by simp; omega
    simp [a, b]
  have hlt : ¬ ((n : Int) < 0) := by omega
  have hgt : (n : Int) > 1 := by omega
  simp only [h0, Bool.false_eq_true, if_false, hlt, hgt, decide_true, Bool.true_and]
  by_cases hl : (n : Int) < (rest.length : Int)
  · simp only [hl, decide_true, if_true, Int.toNat_natCast]; omega
  · simp only [hl, decide_false, Bool.false_eq_true, if_false]; omega

end extent

/-! ### without fork features: the POSIX model -/

/-- a POSIX flag seen as a fork flag with the default delimiter and one word -/
def embed (f : FlagDef) : FlagDefG := { f with }

def embedFound (fd : Found) : FoundG := ⟨embed fd.flag, fd.prefix_, fd.args⟩

theorem consumesG_posix (fd : Found) (w : Str) : consumesG (embedFound fd) w = consumes fd := by
  unfold consumesG consumes embedFound embed
  simp only
  have : ¬ ((0 : Int) < 0) := by omega
  have h2 : ¬ ((0 : Int) > 1) := by omega
  simp [this, h2]

theorem lookupShortG_embed (fs : FlagSet) (c : Char) :
    lookupShortG (fs.map embed) c = (lookupShort fs c).map embed := by
  unfold lookupShortG lookupShort
  induction fs with
  | nil => rfl
  | cons a l ih =>
    simp only [List.map_cons, List.find?]
    have : (embed a).short = a.short := rfl
    rw [this]
    cases (a.short == some c) with
    | true => simp
    | false => simpa using ih

theorem lookupPosixShortG_posix (fs : FlagSet) (pre s : Str) :
    lookupPosixShortG (fs.map embed) pre s = (lookupPosixShort fs pre s).map embedFound := by
  induction s generalizing pre with
  | nil => simp [lookupPosixShortG, lookupPosixShort]
  | cons c rest ih =>
    unfold lookupPosixShortG lookupPosixShort
    rw [lookupShortG_embed]
    cases hl : lookupShort fs c with
    | none => simp
    | some f =>
      simp only [Option.map_some]
      cases rest with
      | nil => simp [embedFound]
      | cons d r2 =>
        have e1 : (embed f).delim = '=' := rfl
        have e2 : (embed f).noOptDef = f.noOptDef := rfl
        simp only [e1, e2]
        by_cases hd : d = '='
        · simp only [hd, if_true]
          by_cases hr : r2 = [] <;> simp [hr, embedFound]
        · simp only [hd, if_false]
          cases hno : f.noOptDef with
          | false => simp [embedFound]
          | true => simpa using ih (pre ++ [c])

theorem lookupPosixLongG_posix (fs : FlagSet) (body : Str) :
    lookupPosixLongG (fs.map embed) body = (lookupPosixLong fs body).map embedFound := by
  unfold lookupPosixLongG lookupPosixLong lookupLong
  have hfind : ∀ l : FlagSet, (l.map embed).find? (fun f => f.mode == 0 && (Str.cutChar f.delim body).1 == f.name) =
      (l.find? (fun f => f.name == (Str.cutChar '=' body).1)).map embed := by
    intro l
    induction l with
    | nil => rfl
    | cons a l ih =>
      simp only [List.map_cons, List.find?]
      have e1 : (embed a).delim = '=' := rfl
      have e2 : (embed a).name = a.name := rfl
      have e3 : ((embed a).mode == 0) = true := rfl
      rw [e1, e2, e3, Bool.true_and]
      have hsym : ((Str.cutChar '=' body).1 == a.name) = (a.name == (Str.cutChar '=' body).1) := by
        rw [Bool.eq_iff_iff]; simp only [beq_iff_eq]; exact eq_comm
      rw [hsym]
      cases (a.name == (Str.cutChar '=' body).1) with
      | true => simp
      | false => simpa using ih
  rw [hfind]
  rcases hc : Str.cutChar '=' body with ⟨n, v?⟩
  simp only
  cases hf : fs.find? (fun f => f.name == n) with
  | none => cases v? <;> simp [hf]
  | some f =>
    have e1 : (embed f).delim = '=' := rfl
    simp only [Option.map_some]
    rw [e1, hc]
    cases v? with
    | none => simp [hf, embedFound]
    | some v => simp [hf, embedFound, e1]

theorem isPosixG_embed (fs : FlagSet) : isPosixG (fs.map embed) = true := by
  unfold isPosixG
  simp only [List.all_map, List.all_eq_true]
  intro f _
  rfl

/-- **the general lookup is the POSIX one on flag sets without fork features** -/
theorem lookupArgG_posix (fs : FlagSet) (arg : Str) :
    lookupArgG (fs.map embed) arg = (lookupArg fs arg).map embedFound := by
  unfold lookupArgG lookupArg
  rw [isPosixG_embed]
  simp only [if_true]
  split <;> split
  all_goals (try simp_all)
  · exact lookupPosixLongG_posix fs _
  · rename_i hne heq; exact absurd heq.1.symm hne
  · exact lookupPosixShortG_posix fs _ _

/-! ### the premises are satisfiable, the statements not vacuous -/

def exColor : PFlagG := { name := "color".toList, kind := .string, delim := ':' }
def exFiles : PFlagG := { name := "files".toList, short := some 'f', kind := .stringSlice, nargs := -1 }

example : lookupArgG ([exColor, exFiles].map PFlagG.toDefG) "--color:red".toList =
    some ⟨exColor.toDefG, "--color:".toList, ["red".toList]⟩ := by decide
example : parseG [exColor, exFiles] true ["--color:red".toList, "--files".toList, "a".toList, "b".toList, "-x".toList] =
    .error .unknownShort := by decide
example : parseG [exColor, exFiles] true ["--files".toList, "a".toList, "b".toList, "--color:red".toList, "p".toList] =
    .ok { args := ["p".toList], lenAtDash := none,
          sets := [("files".toList, "a,b".toList), ("color".toList, "red".toList)] } := by decide
/-- what the fix 8fe9b47 is about: a first word that looks like a flag is not the flag's -/
example : takeNargs (-1) ["-".toList, "x".toList] = 0 := by decide
/-- `-e=3` for a letter whose delimiter is `:`: the fork's parser panics (listed finding) -/
example : parseG [{ name := "level".toList, short := some 'e', delim := ':' }] true ["-e=3".toList] = .error .parserPanic := by decide

end Carapace.Props.C01Fork

/-! ### without fork features the general parser specification is the POSIX one -/

namespace Carapace.Props.C01Fork
open Carapace Carapace.Model Carapace.Spec Carapace.Spec.Pflag Carapace.Spec.PflagG

/-- a POSIX flag seen as a fork flag: default delimiter, one word -/
def embedP (f : PFlag) : PFlagG := { f with }

theorem valueOkG_embed (f : PFlag) (v : Str) : valueOkG (embedP f) v = valueOk f v := by
  unfold valueOkG embedP; simp

theorem findLongG_embed (fs : PFlags) (body : Str) :
    findLongG (fs.map embedP) body = (findLong fs (Str.cutChar '=' body).1).map embedP := by
  unfold findLongG findLong
  induction fs with
  | nil => rfl
  | cons a l ih =>
    simp only [List.map_cons, List.find?]
    have e1 : (embedP a).delim = '=' := rfl
    have e2 : (embedP a).name = a.name := rfl
    rw [e1, e2]
    have hsym : ((Str.cutChar '=' body).1 == a.name) = (a.name == (Str.cutChar '=' body).1) := by
      rw [Bool.eq_iff_iff]; simp only [beq_iff_eq]; exact eq_comm
    rw [hsym]
    cases (a.name == (Str.cutChar '=' body).1) with
    | true => simp
    | false => simpa using ih

theorem findShortG_embed (fs : PFlags) (c : Char) :
    findShortG (fs.map embedP) c = (findShort fs c).map embedP := by
  unfold findShortG findShort
  induction fs with
  | nil => rfl
  | cons a l ih =>
    simp only [List.map_cons, List.find?]
    have : (embedP a).short = a.short := rfl
    rw [this]
    cases (a.short == some c) with
    | true => simp
    | false => simpa using ih

def liftL : Except Err ((Str × Str) × Bool) → Except Err (Option (Str × Str) × Nat)
  | .ok (a, t) => .ok (some a, if t then 1 else 0)
  | .error e => .error e

def liftS : Except Err (List (Str × Str) × Bool) → Except Err (List (Str × Str) × Nat)
  | .ok (l, t) => .ok (l, if t then 1 else 0)
  | .error e => .error e

theorem parseLongG_posix (fs : PFlags) (body : Str) (rest : List Str) :
    parseLongG (fs.map embedP) false body rest = liftL (parseLong fs body rest.head?) := by
  unfold parseLongG parseLong
  cases body with
  | nil => rfl
  | cons c r =>
    simp only
    by_cases hc : c = '-' ∨ c = '='
    · simp [hc, liftL]
    · simp only [hc, if_false]
      rw [findLongG_embed]
      rcases hcut : Str.cutChar '=' (c :: r) with ⟨n, v?⟩
      simp only
      cases hf : findLong fs n with
      | none =>
        simp only [Option.map_none, Bool.false_eq_true, if_false]
        split <;> rfl
      | some f =>
        simp only [Option.map_some]
        have e1 : (embedP f).delim = '=' := rfl
        have e2 : (embedP f).name = f.name := rfl
        have e3 : (embedP f).toPFlag = f := rfl
        have e5 : ((embedP f).mode == 1) = false := rfl
        rw [e1, hcut]
        simp only [e5, Bool.false_eq_true, if_false]
        cases v? with
        | some v =>
          simp only [valueOkG_embed, e2]
          split <;> rfl
        | none =>
          simp only [e3, e2]
          cases hd : f.noOptDefVal with
          | some d => rfl
          | none =>
            cases rest with
            | nil => rfl
            | cons a rs =>
              have e4 : (embedP f).nargs = 0 := rfl
              simp only [List.isEmpty_cons, Bool.false_eq_true, if_false, List.head?_cons, e4, valueOkG_embed]
              have hv : nargsValue 0 (a :: rs) = a := by unfold nargsValue; simp
              have ht : takeNargs 0 (a :: rs) = 1 := by unfold takeNargs; simp
              rw [hv, ht]
              split <;> rfl

theorem cut_eq_short (c d : Char) (r2 : Str) (hc : c ≠ '=') :
    (Str.cutChar '=' (c :: '=' :: d :: r2)).2 = some (d :: r2) := by
  simp [Str.cutChar, hc]

/-- no flag uses `=` as its shorthand letter (the hypothesis of `C01_short_agrees`) -/
def NoEqShort (fs : PFlags) : Prop := ∀ f ∈ fs, f.short ≠ some '='

theorem findShort_ne_eq (fs : PFlags) (h : NoEqShort fs) (c : Char) (f : PFlag) (hf : findShort fs c = some f) : c ≠ '=' := by
  intro hc
  unfold findShort at hf
  have hm := List.mem_of_find?_eq_some hf
  have hp := List.find?_some hf
  simp only [beq_iff_eq] at hp
  exact h f hm (hc ▸ hp)

theorem parseShortG_posix (fs : PFlags) (h : NoEqShort fs) (cs : Str) (rest : List Str) :
    parseShortG (fs.map embedP) false cs rest = liftS (parseShort fs cs rest.head?) := by
  induction cs with
  | nil => rfl
  | cons c more ih =>
    unfold parseShortG parseShort
    rw [findShortG_embed]
    cases hf : findShort fs c with
    | none =>
      simp only [Option.map_none, Bool.false_eq_true, if_false]
      split <;> rfl
    | some f =>
      have hce : c ≠ '=' := findShort_ne_eq fs h c f hf
      have e1 : (embedP f).delim = '=' := rfl
      have e2 : (embedP f).name = f.name := rfl
      have e3 : (embedP f).toPFlag = f := rfl
      have e4 : (embedP f).nargs = 0 := rfl
      simp only [Option.map_some]
      cases he : eqValue more with
      | some v =>
        -- more = '=' :: d :: r2 and v = d :: r2
        have hm : ∃ d r2, more = '=' :: d :: r2 ∧ v = d :: r2 := by
          unfold eqValue at he
          split at he
          · rename_i d r2; exact ⟨d, r2, rfl, by simpa using he.symm⟩
          · simp at he
        obtain ⟨d, r2, hmore, hv⟩ := hm
        subst hmore; subst hv
        simp only [e1, cut_eq_short c d r2 hce, valueOkG_embed, e2]
        split <;> rfl
      | none =>
        simp only [e3, e2]
        cases hd : f.noOptDefVal with
        | some dv =>
          simp only
          rw [ih]
          cases parseShort fs more rest.head? with
          | error e => rfl
          | ok p => obtain ⟨ms, t⟩ := p; rfl
        | none =>
          simp only
          cases more with
          | cons d r2 =>
            simp only [valueOkG_embed]
            split <;> rfl
          | nil =>
            cases rest with
            | nil => rfl
            | cons a rs =>
              simp only [List.isEmpty_cons, Bool.false_eq_true, if_false, List.head?_cons, e4, valueOkG_embed]
              have hv : nargsValue 0 (a :: rs) = a := by unfold nargsValue; simp
              have ht : takeNargs 0 (a :: rs) = 1 := by unfold takeNargs; simp
              rw [hv, ht]
              split <;> rfl

theorem isPosixP_embed (fs : PFlags) : isPosixP (fs.map embedP) = true := by
  unfold isPosixP
  simp only [List.all_map, List.all_eq_true]
  intro f _
  rfl

theorem parseArgsG_posix (fs : PFlags) (h : NoEqShort fs) (inter : Bool) (l : List Str) (b : Bool) (p : Parsed) :
    parseArgsG (fs.map embedP) false inter l (if b then 1 else 0) p = parseArgs fs inter l b p := by
  induction l generalizing b p with
  | nil => cases b <;> rfl
  | cons s rest ih =>
    cases b with
    | true =>
      show parseArgsG (fs.map embedP) false inter (s :: rest) (0 + 1) p = _
      unfold parseArgsG parseArgs
      exact ih false p
    | false =>
      show parseArgsG (fs.map embedP) false inter (s :: rest) 0 p = _
      unfold parseArgsG parseArgs
      cases hk : wordKind s with
      | dash => rfl
      | long body =>
        simp only
        rw [parseLongG_posix]
        cases parseLong fs body rest.head? with
        | error e => rfl
        | ok r =>
          obtain ⟨a, took⟩ := r
          simp only [liftL, Option.toList]
          exact ih took _
      | short cs =>
        simp only [isPosixP_embed, if_true]
        rw [parseShortG_posix fs h]
        cases parseShort fs cs rest.head? with
        | error e => rfl
        | ok r =>
          obtain ⟨as, took⟩ := r
          simp only [liftS]
          exact ih took _
      | pos =>
        simp only
        cases inter with
        | true => simp only [if_true]; exact ih false _
        | false => rfl

/-- **the general parser specification is the POSIX one on flag sets without fork features**: what is proved
    about `Pflag.parse` (C01Slots, C01Flag, C07Parser) is proved about `PflagG.parseG` there -/
theorem parseG_posix (fs : PFlags) (h : NoEqShort fs) (inter : Bool) (args : List Str) :
    parseG (fs.map embedP) inter args = parse fs inter args := by
  unfold parseG parse
  exact parseArgsG_posix fs h inter args false {}

end Carapace.Props.C01Fork
