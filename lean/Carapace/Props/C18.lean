/-
  C18 — the completion entry point is total.
  Proved here: the functions on the entry path whose slice / index arithmetic depends on user text
  (`Model/Entry.lean`, in `Except Panic`) never reach a panic, for every input.  The inventory of
  index / slice sites of the anchored files is regenerated from /repo on every run
  (`Gen/IndexSites.lean`) and `C18_sites_covered` pins it to the list these proofs and the review in
  DESIGN.md appendix D were made for.  The entry point as a whole (any argv, any environment, all
  shells) is decided on the real code by child processes (op `entry`): see DESIGN.md.
-/
import Carapace.Model.Entry
import Carapace.Lemmas.Framing
import Carapace.Gen.IndexSites
import Carapace.Props.C18Sites

namespace Carapace.Props.C18
open Carapace Carapace.Model

theorem sliceTo_ok {α} (l : List α) (n : Int) (h0 : 0 ≤ n) (h1 : n ≤ (l.length : Int)) :
    sliceTo l n = .ok (l.take n.toNat) := by
  simp [sliceTo, h0, h1]

theorem sliceFrom_ok {α} (l : List α) (n : Int) (h0 : 0 ≤ n) (h1 : n ≤ (l.length : Int)) :
    sliceFrom l n = .ok (l.drop n.toNat) := by
  simp [sliceFrom, h0, h1]

/-- **bash.CompLine never panics**: whatever COMP_LINE and COMP_POINT hold (unset, not a number,
    negative, beyond the line, beyond int64) -/
theorem C18_compLine_total (line : Option (List Nat)) (point : Option Str) :
    ∃ r, compLine line point = .ok r := by
  unfold compLine
  cases line with
  | none => exact ⟨none, rfl⟩
  | some l =>
    cases point with
    | none => exact ⟨none, rfl⟩
    | some p =>
      simp only []
      cases atoi p with
      | none => exact ⟨none, rfl⟩
      | some i =>
        simp only []
        by_cases h : (i < 0 || (l.length : Int) < i) = true
        · simp only [h, if_true]; exact ⟨none, rfl⟩
        · simp only [h, Bool.false_eq_true, if_false]
          have h' : ¬ (i < 0) ∧ ¬ ((l.length : Int) < i) := by
            simpa [Bool.or_eq_true, decide_eq_true_eq, not_or] using h
          rw [sliceTo_ok l i (by omega) (by omega)]
          exact ⟨_, rfl⟩

/-- and when it yields a line, it is the prefix of COMP_LINE of the length COMP_POINT says -/
theorem C18_compLine_prefix (l : List Nat) (p : Str) (r : List Nat)
    (h : compLine (some l) (some p) = .ok (some r)) : ∃ i : Nat, atoi p = some (i : Int) ∧ r = l.take i := by
  unfold compLine at h
  simp only [] at h
  cases ha : atoi p with
  | none => simp [ha] at h
  | some i =>
    simp only [ha] at h
    by_cases hc : (i < 0 || (l.length : Int) < i) = true
    · simp [hc] at h
    · simp only [hc, Bool.false_eq_true, if_false] at h
      have h' : ¬ (i < 0) ∧ ¬ ((l.length : Int) < i) := by
        simpa [Bool.or_eq_true, decide_eq_true_eq, not_or] using hc
      rw [sliceTo_ok l i (by omega) (by omega)] at h
      refine ⟨i.toNat, ?_, ?_⟩
      · have : ((i.toNat : Nat) : Int) = i := Int.toNat_of_nonneg (by omega)
        rw [this]
      · simpa [Except.map] using h.symm

/-- **TrimmedDescription never panics** and is the total function the formatter theorems use, for
    any limit of at least 3 - in particular the one read from the source -/
theorem C18_trimmed_total (m : Nat) (hm : 3 ≤ m) (d : Str) :
    trimmedDescriptionP m d = .ok (trimmedDescription m d) := by
  unfold trimmedDescriptionP trimmedDescription
  simp only []
  split
  · rename_i hlen
    rw [sliceTo_ok _ ((m : Int) - 3) (by omega) (by omega)]
    have : ((m : Int) - 3).toNat = m - 3 := by omega
    simp [this, bind, Except.bind]
  · rfl

theorem C18_trimmed_source (d : Str) :
    trimmedDescriptionP Gen.common_maxLength d = .ok (trimmedDescription Gen.common_maxLength d) :=
  C18_trimmed_total _ (by decide) d

/-- the limit matters: with a limit below 3 the slice bound is negative (a decided witness that the
    `Except` model can fail, i.e. that the theorems above are not vacuous) -/
theorem C18_trimmed_small_limit_panics :
    trimmedDescriptionP 2 "abcd".toList = .error .sliceBounds := by decide

/-! ### named directories and `~` expansion -/

theorem splitN2_length (c : Char) (s : Str) (h : c ∈ s) : (splitN2 c s).length = 2 := by
  unfold splitN2
  cases hc : Str.cutChar c s with
  | mk a b =>
    cases b with
    | some b => rfl
    | none =>
      exfalso
      obtain ⟨a', b', hab⟩ := Str.cutChar_some_of_mem c s h
      rw [hab] at hc
      cases hc

theorem splitN2_head (c : Char) (s : Str) : ∃ a, (splitN2 c s)[0]? = some a := by
  unfold splitN2
  cases Str.cutChar c s with
  | mk a b => cases b <;> exact ⟨a, rfl⟩

/-- the first piece of a string starting with `~` is not empty, so `[1:]` is in range -/
theorem splitN2_head_tilde (s : Str) (h : Str.hasPrefix s ['~'] = true) :
    ∃ r, (splitN2 '/' s)[0]? = some ('~' :: r) := by
  cases s with
  | nil => simp [Str.hasPrefix] at h
  | cons c r =>
    have hc : c = '~' := by
      simp [Str.hasPrefix] at h
      exact h
    subst hc
    unfold splitN2
    rw [Str.cutChar_cons_ne '/' '~' r (by decide)]
    cases (Str.cutChar '/' r) with
    | mk a b => cases b <;> exact ⟨a, rfl⟩

theorem C18_ndMatch_total (nd : NamedDirs) (s : Str) : ∃ m, ndMatch nd s = .ok m := by
  unfold ndMatch
  split
  · rename_i h
    have h1 : Str.hasPrefix s ['~'] = true := by
      simp only [Bool.and_eq_true] at h; exact h.1.1
    obtain ⟨r, hr⟩ := splitN2_head_tilde s h1
    simp only [indexP, hr, bind, Except.bind]
    rw [sliceFrom_ok _ 1 (by omega) (by simp only [List.length_cons]; omega)]
    exact ⟨_, rfl⟩
  · exact ⟨[], rfl⟩

/-- a match implies a `/` in the string: the guarantee `Replace` relies on -/
theorem ndMatch_nonempty_slash (nd : NamedDirs) (s m : Str) (h : ndMatch nd s = .ok m) (hm : m.isEmpty = false) :
    '/' ∈ s := by
  unfold ndMatch at h
  split at h
  · rename_i hc
    simp only [Bool.and_eq_true] at hc
    simpa using hc.2
  · cases h; simp at hm

/-- **Replace never panics**: `strings.SplitN(s, "/", 2)[1]` is reached only after a match -/
theorem C18_ndReplace_total (nd : NamedDirs) (s : Str) : ∃ r, ndReplace nd s = .ok r := by
  unfold ndReplace
  obtain ⟨m, hm⟩ := C18_ndMatch_total nd s
  simp only [hm, bind, Except.bind]
  by_cases he : m.isEmpty = true
  · simp [he]
  · have he' : m.isEmpty = false := by simpa using he
    have hs := ndMatch_nonempty_slash nd s m hm he'
    have hl := splitN2_length '/' s hs
    have : ∃ t, (splitN2 '/' s)[1]? = some t := by
      cases hsp : splitN2 '/' s with
      | nil => simp [hsp] at hl
      | cons a r =>
        cases r with
        | nil => simp [hsp] at hl
        | cons b r2 => exact ⟨b, rfl⟩
    obtain ⟨t, ht⟩ := this
    simp only [he', Bool.not_false, if_true, indexP, ht]
    exact ⟨_, rfl⟩

theorem C18_expandHome_total (nd : NamedDirs) (home s : Str) : ∃ r, expandHome nd home s = .ok r := by
  unfold expandHome
  split
  · obtain ⟨m, hm⟩ := C18_ndMatch_total nd s
    simp only [hm, bind, Except.bind]
    split
    · exact C18_ndReplace_total nd s
    · split <;> exact ⟨_, rfl⟩
  · exact ⟨_, rfl⟩

/-- **Context.Abs never panics**, for any word (`~`, `~name`, `~name/..`, anything else), any set
    of named directories, any directory -/
theorem C18_abs_total (nd : NamedDirs) (home cwd dir path : Str) : ∃ r, absP nd home cwd dir path = .ok r := by
  unfold absP
  simp only []
  obtain ⟨p, hp⟩ := C18_expandHome_total nd home
    (if (!Str.hasPrefix path ['/'] && !Str.hasPrefix path ['~']) = true then
      (if dir.isEmpty = true then "./".toList ++ path else dir ++ ['/'] ++ path) else path)
  simp only [hp, bind, Except.bind]
  repeat' split
  all_goals exact ⟨_, rfl⟩

/-- non-vacuity: a named directory is expanded, and `~name` without a slash is left alone -/
example : absP [("proj".toList, "/srv/proj".toList)] "/home/u".toList "/w".toList [] "~proj/a".toList = .ok "/srv/proj/a".toList := by decide
example : expandHome [("proj".toList, "/srv/proj".toList)] "/home/u".toList "~proj".toList = .ok "~proj".toList := by decide

/-! ### the site inventory -/

/-- every index / slice / `panic` site of the files C18 anchors (with the conditions guarding it),
    as read from /repo now, is one the review was made for: a site that appears, disappears, or
    whose expression or guards change breaks this theorem -/
theorem C18_sites_covered : Gen.indexSites.map (·.2) = expectedSites.map (·.2) := by decide +kernel

end Carapace.Props.C18
