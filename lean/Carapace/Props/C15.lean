/-
  C15 — the on-disk cache never serves a partially written entry.
  For the Action cache the in-place protocol is saved by re-parsing: a proper prefix of an export
  document does not decode (`hprefix`, a property of encoding/json's decoder that the check
  validates at every byte offset of generated documents against the real code).  For the raw byte
  cache the statement is false for the in-place protocol (decided counterexample, listed finding)
  and true for a temp-file + rename protocol.
-/
import Carapace.Model.WriteProto

namespace Carapace.Props.C15
open Carapace Carapace.Model

/-- the code writes an entry with a single `os.WriteFile` (read from the source on every run):
    the protocol the theorems below are about -/
theorem write_is_in_place : Gen.cache_Write_calls = ["os.WriteFile".toList] := by decide

/-- ... and reads it with `json.Unmarshal` of the whole file -/
theorem loadE_decodes_whole_file : Gen.cache_LoadE_calls = ["Load".toList, "json.Unmarshal".toList] := by decide

/-- **C15 (Action cache).** Whatever the previous entry was (none, or a complete document `old`),
    and wherever the write of `doc` stops - before the open, after any number of bytes, or not at
    all - a reader gets nothing usable (and recomputes), or the complete previous entry, or the
    complete new entry; never anything else. -/
theorem C15_action_cache {R} (decode : Str → Option R) (doc : Str) (r : R)
    (hdoc : decode doc = some r)
    (hprefix : ∀ k, k < doc.length → decode (doc.take k) = none)
    (old : FileState) (stop : Option Nat) :
    readAction decode (inPlaceWrite old doc stop) = none ∨
    readAction decode (inPlaceWrite old doc stop) = readAction decode old ∨
    readAction decode (inPlaceWrite old doc stop) = some r := by
  cases stop with
  | none => exact Or.inr (Or.inl rfl)
  | some k =>
    by_cases hk : k < doc.length
    · left; simp [inPlaceWrite, readAction, hprefix k hk]
    · right; right
      have : doc.take k = doc := List.take_of_length_le (by omega)
      simp [inPlaceWrite, readAction, this, hdoc]

/-- **the raw cache is false of the pinned code**: a write of `hello world` that stops after 5
    bytes leaves `hello`, and the next reader is handed `hello` as if it were the cached value
    (finding `raw_cache_partial_entry`) -/
theorem C15_raw_cache_counterexample :
    readRaw (inPlaceWrite none "hello world".toList (some 5)) = some "hello".toList := by decide

/-- with a temp file and an atomic rename the raw cache would satisfy the property -/
theorem C15_raw_cache_rename (old : FileState) (content : Str) (renamed : Bool) :
    readRaw (renameWrite old content renamed) = old ∨ readRaw (renameWrite old content renamed) = some content := by
  cases renamed <;> simp [renameWrite, readRaw]

/-- non-vacuity of `C15_action_cache`: a decoder that accepts exactly the complete document -/
example : ∃ (decode : Str → Option Nat) (doc : Str),
    decode doc = some 1 ∧ ∀ k, k < doc.length → decode (doc.take k) = none :=
  ⟨fun s => if s = "{}".toList then some 1 else none, "{}".toList, by decide, by
    intro k hk
    have : k = 0 ∨ k = 1 := by simp at hk; omega
    rcases this with rfl | rfl <;> decide⟩

end Carapace.Props.C15
