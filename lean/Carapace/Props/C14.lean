/-
  C14 — a cached Action equals a fresh one within its lifetime, call site and keys.
  Refinement: the file-based cache (model of action.go / internal/cache) behaves, for every history
  of invocations, elapsed times and corruptions, exactly like an abstract store keyed by
  (call site, key tuple) - provided the encoding of key tuples into file names is injective on the
  tuples that occur (the hypothesis the proof forces; false in general: listed finding).
-/
import Carapace.Model.Cache

namespace Carapace.Props.C14
open Carapace Carapace.Model

theorem lookupF_updateF {α β} [DecidableEq α] (l : List (α × β)) (k k' : α) (v : β) :
    lookupF (updateF l k v) k' = if k' = k then some v else lookupF l k' := by
  induction l with
  | nil =>
    simp only [updateF, lookupF]
    by_cases h : k' = k
    · simp [h]
    · have : ¬ k = k' := fun e => h e.symm
      simp [h, this]
  | cons p l ih =>
    obtain ⟨k0, v0⟩ := p
    simp only [updateF]
    by_cases h0 : k0 = k
    · subst h0
      simp only [if_true, lookupF]
      by_cases h : k0 = k'
      · subst h; simp
      · have : ¬ k' = k0 := fun e => h e.symm
        simp [h, this]
    · simp only [h0, if_false, lookupF, ih]
      by_cases h1 : k0 = k'
      · subst h1; simp [h0]
      · simp [h1]

theorem lookupF_eraseF {α β} [DecidableEq α] (l : List (α × β)) (k k' : α) :
    lookupF (eraseF l k) k' = if k' = k then none else lookupF l k' := by
  induction l with
  | nil => simp [eraseF, lookupF]
  | cons p l ih =>
    obtain ⟨k0, v0⟩ := p
    simp only [eraseF, List.filter_cons] at ih ⊢
    by_cases h0 : k0 = k
    · subst h0
      simp only [ne_eq, not_true_eq_false, decide_false, Bool.false_eq_true, if_false, ih, lookupF]
      by_cases h : k' = k0
      · simp [h]
      · have : ¬ k0 = k' := fun e => h e.symm
        simp [h, this]
    · simp only [ne_eq, h0, not_false_eq_true, decide_true, if_true, lookupF, ih]
      by_cases h1 : k0 = k'
      · subst h1; simp [h0]
      · simp [h1]

/-- what a cache file means to the store: a readable entry, or nothing -/
def absF : Option CFile → Option SEntry
  | some ⟨some r, t⟩ => some ⟨r, t⟩
  | _ => none

/-- key tuples occurring in an operation -/
def opKeys : COp → List Keys
  | .invoke _ kb ka _ _ => [kb, ka]
  | .advance _ => []
  | .corrupt _ ks => [ks]
  | .block _ ks => [ks]

/-- the encoding of key tuples into file names is injective on `U` -/
def KeyEncodingInjective (U : List Keys) : Prop :=
  ∀ a ∈ U, ∀ b ∈ U, keysName a = keysName b → a = b

/-- simulation relation -/
def Sim (U : List Keys) (c : CState) (s : SState) : Prop :=
  c.now = s.now ∧ c.counter = s.counter ∧
  (∀ site, ∀ ks ∈ U, absF (lookupF c.files (cachePath site ks)) = lookupF s.store (site, ks)) ∧
  (∀ site, ∀ ks ∈ U, cachePath site ks ∈ c.blocked ↔ (site, ks) ∈ s.blocked)

theorem path_eq_iff {U : List Keys} (hinj : KeyEncodingInjective U) {site site' : Str} {a b : Keys}
    (ha : a ∈ U) (hb : b ∈ U) : cachePath site a = cachePath site' b ↔ (site, a) = (site', b) := by
  simp only [cachePath, Prod.mk.injEq]
  constructor
  · rintro ⟨h1, h2⟩; exact ⟨h1, hinj a ha b hb h2⟩
  · rintro ⟨h1, h2⟩; exact ⟨h1, by rw [h2]⟩

theorem sim_step (U : List Keys) (hinj : KeyEncodingInjective U) (c : CState) (s : SState) (op : COp)
    (hsim : Sim U c s) (hop : ∀ k ∈ opKeys op, k ∈ U) :
    (cacheStep c op).2 = (storeStep s op).2 ∧ Sim U (cacheStep c op).1 (storeStep s op).1 := by
  obtain ⟨hnow, hcnt, hfiles, hblk⟩ := hsim
  cases op with
  | advance dt =>
    simp only [cacheStep, storeStep]
    exact ⟨trivial, by rw [hnow], hcnt, hfiles, hblk⟩
  | block site ks =>
    have hks : ks ∈ U := hop ks (by simp [opKeys])
    simp only [cacheStep, storeStep]
    refine ⟨trivial, hnow, hcnt, ?_, ?_⟩
    · intro site' ks' hks'
      simp only
      rw [lookupF_eraseF, lookupF_eraseF]
      by_cases he : (site', ks') = (site, ks)
      · have hp : cachePath site' ks' = cachePath site ks := (path_eq_iff hinj hks' hks).mpr he
        simp [he, hp, absF]
      · have hp : ¬ cachePath site' ks' = cachePath site ks := fun e => he ((path_eq_iff hinj hks' hks).mp e)
        simp only [hp, he, if_false]; exact hfiles site' ks' hks'
    · intro site' ks' hks'
      simp only [List.mem_cons]
      by_cases he : (site', ks') = (site, ks)
      · have hp : cachePath site' ks' = cachePath site ks := (path_eq_iff hinj hks' hks).mpr he
        simp [he, hp]
      · have hp : ¬ cachePath site' ks' = cachePath site ks := fun e => he ((path_eq_iff hinj hks' hks).mp e)
        have := hblk site' ks' hks'
        simp [he, hp, this]
  | corrupt site ks =>
    have hks : ks ∈ U := hop ks (by simp [opKeys])
    simp only [cacheStep, storeStep]
    cases hl : lookupF c.files (cachePath site ks) with
    | none =>
      refine ⟨rfl, hnow, hcnt, ?_, hblk⟩
      intro site' ks' hks'
      rw [lookupF_eraseF]
      by_cases he : (site', ks') = (site, ks)
      · simp only [he, if_true]
        have := hfiles site ks hks
        rw [hl] at this
        obtain ⟨e1, e2⟩ := Prod.mk.inj he
        subst e1; subst e2
        rw [hl]; rfl
      · simp only [he, if_false]; exact hfiles site' ks' hks'
    | some f =>
      refine ⟨rfl, hnow, hcnt, ?_, hblk⟩
      intro site' ks' hks'
      simp only
      rw [lookupF_updateF, lookupF_eraseF]
      by_cases he : (site', ks') = (site, ks)
      · have hp : cachePath site' ks' = cachePath site ks := (path_eq_iff hinj hks' hks).mpr he
        simp [he, hp, absF]
      · have hp : ¬ cachePath site' ks' = cachePath site ks := fun e => he ((path_eq_iff hinj hks' hks).mp e)
        simp only [hp, he, if_false]; exact hfiles site' ks' hks'
  | invoke site kb ka timeout msg =>
    have hkb : kb ∈ U := hop kb (by simp [opKeys])
    have hka : ka ∈ U := hop ka (by simp [opKeys])
    have hrel := hfiles site kb hkb
    -- the hit / miss decision agrees
    have hload : cacheLoad c (cachePath site kb) timeout = storeHit s site kb timeout := by
      unfold cacheLoad storeHit
      cases hl : lookupF c.files (cachePath site kb) with
      | none => rw [hl] at hrel; simp [absF] at hrel; rw [← hrel]
      | some f =>
        rw [hl] at hrel
        obtain ⟨content, mtime⟩ := f
        cases content with
        | none =>
          simp only [absF] at hrel
          rw [← hrel]
          simp
        | some r =>
          simp only [absF] at hrel
          rw [← hrel, hnow]
    simp only [cacheStep, storeStep, hload]
    cases hhit : storeHit s site kb timeout with
    | some r => exact ⟨rfl, hnow, hcnt, hfiles, hblk⟩
    | none =>
      simp only
      cases msg with
      | true =>
        simp only [if_true]
        exact ⟨by rw [hcnt], hnow, by simp [hcnt], hfiles, hblk⟩
      | false =>
        simp only [Bool.false_eq_true, if_false]
        by_cases hb : (site, ka) ∈ s.blocked
        · have hb' : cachePath site ka ∈ c.blocked := (hblk site ka hka).mpr hb
          simp only [hb, hb', if_true]
          exact ⟨by rw [hcnt], hnow, by simp [hcnt], hfiles, hblk⟩
        have hb' : ¬ cachePath site ka ∈ c.blocked := fun h => hb ((hblk site ka hka).mp h)
        simp only [hb, hb', if_false]
        refine ⟨by rw [hcnt], hnow, by simp [hcnt], ?_, hblk⟩
        intro site' ks' hks'
        simp only
        rw [lookupF_updateF, lookupF_updateF]
        by_cases he : (site', ks') = (site, ka)
        · have hp : cachePath site' ks' = cachePath site ka := (path_eq_iff hinj hks' hka).mpr he
          simp [he, hp, absF, hcnt, hnow]
        · have hp : ¬ cachePath site' ks' = cachePath site ka := fun e => he ((path_eq_iff hinj hks' hka).mp e)
          simp only [hp, he, if_false]; exact hfiles site' ks' hks'

/-- **C14 (refinement).** For every history, the file cache returns exactly what the abstract
    keyed store returns - the result of the most recent real invocation under the same call site and
    key values, not older than the timeout; a real invocation happens iff there is no such entry;
    results with messages are not stored; a corrupt entry is absent. -/
theorem C14_refines (U : List Keys) (hinj : KeyEncodingInjective U) (ops : List COp)
    (hops : ∀ op ∈ ops, ∀ k ∈ opKeys op, k ∈ U) : runCache ops = runStore ops := by
  unfold runCache runStore
  suffices h : ∀ (c : CState) (s : SState) (acc : List COut), Sim U c s →
      (ops.foldl (fun (a : CState × List COut) op => let (s', o) := cacheStep a.1 op; (s', a.2 ++ [o])) (c, acc)).2 =
      (ops.foldl (fun (a : SState × List COut) op => let (s', o) := storeStep a.1 op; (s', a.2 ++ [o])) (s, acc)).2 by
    exact h {} {} [] ⟨rfl, rfl, fun _ _ _ => rfl, fun _ _ _ => by simp⟩
  induction ops with
  | nil => intro c s acc _; rfl
  | cons op ops ih =>
    intro c s acc hsim
    have hop : ∀ k ∈ opKeys op, k ∈ U := hops op (List.mem_cons_self ..)
    obtain ⟨ho, hs'⟩ := sim_step U hinj c s op hsim hop
    simp only [List.foldl_cons]
    have e1 : (cacheStep c op) = ((cacheStep c op).1, (cacheStep c op).2) := rfl
    have e2 : (storeStep s op) = ((storeStep s op).1, (storeStep s op).2) := rfl
    rw [e1, e2]
    simp only
    rw [ho]
    exact ih (fun o ho' => hops o (List.mem_cons_of_mem _ ho')) _ _ _ hs'

/-- never stale: a hit is never older than the timeout -/
theorem C14_never_stale (s : CState) (p : Str × Str) (timeout : Int) (r : Nat) (ht : timeout ≥ 0)
    (h : cacheLoad s p timeout = some r) : ∃ f, lookupF s.files p = some f ∧ s.now ≤ f.mtime + timeout := by
  unfold cacheLoad at h
  cases hl : lookupF s.files p with
  | none => simp [hl] at h
  | some f =>
    simp only [hl] at h
    refine ⟨f, rfl, ?_⟩
    by_cases hc : timeout ≥ 0 ∧ f.mtime + timeout < s.now
    · simp [hc] at h
    · have : ¬ f.mtime + timeout < s.now := fun e => hc ⟨ht, e⟩
      omega

/-- **the encoding is not injective** (finding `cache_key_encoding`): `key.String("a","b")` and
    `key.String("a\nb")` name the same file, and so do two keys `a`,`b` and one key `a\x01b` -/
theorem C14_key_collision :
    keysName [["a".toList, "b".toList]] = keysName [["a\nb".toList]] ∧
    keysName [["a".toList], ["b".toList]] = keysName [[['a', Char.ofNat 1, 'b']]] := by decide

/-- non-vacuity: key tuples without the separator characters are encoded injectively -/
example : KeyEncodingInjective [[["a".toList]], [["b".toList]], [["a".toList], ["b".toList]]] := by
  intro a ha b hb h
  simp only [List.mem_cons, List.mem_nil_iff, or_false] at ha hb
  rcases ha with rfl | rfl | rfl <;> rcases hb with rfl | rfl | rfl <;> first | rfl | (exact absurd h (by decide))

end Carapace.Props.C14
