/-
  The general traverse model (Model/TraverseG.lean) picks, on trees without fork features, the slot the
  POSIX model (Model/Traverse.lean) picks: `traverseSlotG_posix`.  With it every theorem about
  `traverseSlot` (C01Slots, C01Flag, C18Traverse) is a theorem about the model the driver compares with
  the code on every case.
-/
import Carapace.Props.C01Fork
import Carapace.Props.C01Flag

namespace Carapace.Props.C01Fork
open Carapace Carapace.Model Carapace.Spec Carapace.Spec.Pflag Carapace.Spec.PflagG

def embedCmd (c : TCmd) : TCmdG :=
  { name := c.name, aliases := c.aliases, parent := c.parent, interspersed := c.interspersed,
    noFlagParse := c.noFlagParse, whitelist := false, flags := c.flags.map (fun p => (embedP p.1, p.2)) }

def embedTree (t : TTree) : TTreeG := t.map embedCmd

theorem getElem_embedTree (t : TTree) (k : Nat) : (embedTree t)[k]? = (t[k]?).map embedCmd := by
  unfold embedTree; simp

theorem size_embedTree (t : TTree) : (embedTree t).size = t.size := by
  unfold embedTree; simp

theorem toDefG_embedP (f : PFlag) : (embedP f).toDefG = embed f.toDef := rfl

theorem map_toDefG_embedP (l : PFlags) : (l.map embedP).map PFlagG.toDefG = (l.map PFlag.toDef).map embed := by
  simp [List.map_map, Function.comp_def, toDefG_embedP]

theorem pred_embed (acc : PFlags) (g : PFlag) :
    (!(acc.map embedP).any (fun h => h.name == (embedP g).name)) = (!acc.any (fun h => h.name == g.name)) := by
  have hn : (embedP g).name = g.name := rfl
  rw [hn, List.any_map]
  rfl

theorem add_embed (acc : PFlags) (xs : List (PFlag × Bool)) :
    ((((xs.map (fun p => (embedP p.1, p.2))).filter (·.2)).map (·.1)).filter
        (fun g => !(acc.map embedP).any (fun h => h.name == g.name))) =
      ((((xs.filter (·.2)).map (·.1)).filter (fun g => !acc.any (fun h => h.name == g.name))).map embedP) := by
  induction xs with
  | nil => rfl
  | cons x xs ih =>
    obtain ⟨xf, xb⟩ := x
    cases xb with
    | false =>
      simp only [List.map_cons, List.filter_cons, Bool.false_eq_true, if_false]
      exact ih
    | true =>
      simp only [List.map_cons, List.filter_cons, if_true]
      rw [pred_embed acc xf]
      cases (!acc.any (fun h => h.name == xf.name)) with
      | true => simp only [if_true, List.map_cons]; rw [ih]
      | false => simp only [Bool.false_eq_true, if_false]; exact ih

theorem inherit_embed (t : TTree) (fuel : Nat) (p : Option Nat) (acc : PFlags) :
    flagsAtG.inherit (embedTree t) fuel p (acc.map embedP) = (flagsAt.inherit t fuel p acc).map embedP := by
  induction fuel generalizing p acc with
  | zero => cases p <;> simp [flagsAtG.inherit, flagsAt.inherit]
  | succ f ih =>
    cases p with
    | none => simp [flagsAtG.inherit, flagsAt.inherit]
    | some q =>
      unfold flagsAtG.inherit flagsAt.inherit
      rw [getElem_embedTree]
      cases hq : t[q]? with
      | none => simp
      | some qs =>
        simp only [Option.map_some]
        have hpar : (embedCmd qs).parent = qs.parent := rfl
        have hfl : (embedCmd qs).flags = qs.flags.map (fun p => (embedP p.1, p.2)) := rfl
        rw [hpar, hfl]
        have hadd := add_embed acc qs.flags
        rw [hadd, ← List.map_append]
        exact ih _ _

theorem flagsAtG_embed (t : TTree) (fuel c : Nat) :
    flagsAtG (embedTree t) fuel c = (flagsAt t fuel c).map embedP := by
  cases fuel with
  | zero => rfl
  | succ f =>
    simp only [flagsAtG, flagsAt]
    rw [getElem_embedTree]
    cases hc : t[c]? with
    | none => rfl
    | some cs =>
      simp only [Option.map_some]
      have hpar : (embedCmd cs).parent = cs.parent := rfl
      have hfl : (embedCmd cs).flags.map (·.1) = (cs.flags.map (·.1)).map embedP := by
        show (cs.flags.map (fun p => (embedP p.1, p.2))).map (·.1) = _
        simp [List.map_map, Function.comp_def]
      rw [hpar, hfl]
      exact inherit_embed t f cs.parent _

/-! ### the classification loop -/

theorem childNamedG_embed (t : TTree) (c : Nat) (w : Str) : childNamedG (embedTree t) c w = childNamed t c w := by
  unfold childNamedG childNamed
  rw [size_embedTree]
  split
  · rfl
  · congr 1
    funext k
    rw [getElem_embedTree]
    cases t[k]? <;> rfl

/-- the branch of `classify` for a word that is not an argument of a pending flag -/
def noFlagP (t : TTree) (c : Nat) (cs : TCmd) (fs : FlagSet) (arg : Str) (st : LoopState) : WordClass :=
  if arg == "--".toList then .dash
  else if !cs.noFlagParse && Str.hasPrefix arg ['-'] && (cs.interspersed || st.nPos == 0) then
    .next { st with inArgs := st.inArgs ++ [arg], inFlag := lookupArg fs arg }
  else match childNamed t c arg with
    | some k => .child k
    | none => .next { st with inArgs := st.inArgs ++ [arg], nPos := st.nPos + 1, inFlag := st.inFlag }

def noFlagGP (t : TTreeG) (c : Nat) (cs : TCmdG) (fs : FlagSetG) (arg : Str) (st : LoopStateG) : WordClassG :=
  if arg == "--".toList then .dash
  else if !cs.noFlagParse && Str.hasPrefix arg ['-'] && (cs.interspersed || st.nPos == 0) then
    .next { st with inArgs := st.inArgs ++ [arg],
                    inFlag := (lookupArgG fs arg).bind (fun fd => if fd.args.isEmpty then some fd else none) }
  else match childNamedG t c arg with
    | some k => .child k
    | none => .next { st with inArgs := st.inArgs ++ [arg], nPos := st.nPos + 1, inFlag := st.inFlag }

theorem classify_eq (t : TTree) (c : Nat) (cs : TCmd) (fs : FlagSet) (arg : Str) (st : LoopState) :
    classify t c cs fs arg st =
      match st.inFlag with
      | some fd =>
        if consumes fd then
          .next { st with inArgs := st.inArgs ++ [arg],
                          inFlag := if consumes { fd with args := fd.args ++ [arg] } then some { fd with args := fd.args ++ [arg] } else none }
        else noFlagP t c cs fs arg st
      | none => noFlagP t c cs fs arg st := rfl

theorem classifyG_eq (t : TTreeG) (c : Nat) (cs : TCmdG) (fs : FlagSetG) (arg : Str) (st : LoopStateG) :
    classifyG t c cs fs arg st =
      match st.inFlag with
      | some fd =>
        if consumesG fd arg then
          .next { st with inArgs := st.inArgs ++ [arg],
                          inFlag := if consumesG { fd with args := fd.args ++ [arg] } [] then some { fd with args := fd.args ++ [arg] } else none }
        else noFlagGP t c cs fs arg st
      | none => noFlagGP t c cs fs arg st := rfl

/-- the two loop states agree: same words, same count, and the same pending flag as far as waiting for
    words goes (the general model forgets a flag whose argument was attached, the POSIX model keeps it
    without ever asking it again) -/
structure Rel (sg : LoopStateG) (s : LoopState) : Prop where
  inArgs : sg.inArgs = s.inArgs
  nPos : sg.nPos = s.nPos
  flag : (∃ fd, s.inFlag = some fd ∧ fd.args = [] ∧ sg.inFlag = some (embedFound fd)) ∨
         (sg.inFlag = none ∧ ∀ fd, s.inFlag = some fd → consumes fd = false)

inductive RelClass : WordClassG → WordClass → Prop where
  | next {sg s} : Rel sg s → RelClass (.next sg) (.next s)
  | dash : RelClass .dash .dash
  | child (k : Nat) : RelClass (.child k) (.child k)

theorem consumes_args_ne (fd : Found) (h : fd.args ≠ []) : consumes fd = false := by
  unfold consumes
  cases ha : fd.args with
  | nil => exact absurd ha h
  | cons _ _ => simp

theorem noFlag_rel (t : TTree) (c : Nat) (cs : TCmd) (fs : FlagSet) (arg : Str) (sg : LoopStateG) (s : LoopState)
    (h : Rel sg s) :
    RelClass (noFlagGP (embedTree t) c (embedCmd cs) (fs.map embed) arg sg) (noFlagP t c cs fs arg s) := by
  unfold noFlagGP noFlagP
  by_cases hd : (arg == "--".toList) = true
  · simp only [hd, if_true]; exact .dash
  · simp only [hd, Bool.false_eq_true, if_false]
    have e1 : (embedCmd cs).noFlagParse = cs.noFlagParse := rfl
    have e2 : (embedCmd cs).interspersed = cs.interspersed := rfl
    rw [e1, e2, h.nPos]
    by_cases hf : (!cs.noFlagParse && Str.hasPrefix arg ['-'] && (cs.interspersed || s.nPos == 0)) = true
    · simp only [hf, if_true]
      refine .next ⟨by simp [h.inArgs], rfl, ?_⟩
      simp only
      rw [lookupArgG_posix]
      cases hl : lookupArg fs arg with
      | none => right; exact ⟨rfl, fun fd hfd => by simp at hfd⟩
      | some fd2 =>
        simp only [Option.map_some, Option.bind_some]
        by_cases ha : fd2.args = []
        · left
          refine ⟨fd2, rfl, ha, ?_⟩
          have : (embedFound fd2).args = fd2.args := rfl
          simp [this, ha]
        · right
          have : (embedFound fd2).args = fd2.args := rfl
          refine ⟨?_, fun fd hfd => ?_⟩
          · cases hx : fd2.args with
            | nil => exact absurd hx ha
            | cons _ _ => simp [this, hx]
          · simp only [Option.some.injEq] at hfd
            subst hfd
            exact consumes_args_ne fd2 ha
    · simp only [hf, Bool.false_eq_true, if_false]
      rw [childNamedG_embed]
      cases childNamed t c arg with
      | some k => exact .child k
      | none =>
        refine .next ⟨by simp [h.inArgs], by simp [h.nPos], ?_⟩
        exact h.flag

theorem classify_rel (t : TTree) (c : Nat) (cs : TCmd) (fs : FlagSet) (arg : Str) (sg : LoopStateG) (s : LoopState)
    (h : Rel sg s) :
    RelClass (classifyG (embedTree t) c (embedCmd cs) (fs.map embed) arg sg) (classify t c cs fs arg s) := by
  rw [classifyG_eq, classify_eq]
  rcases h.flag with ⟨fd, hs, ha, hg⟩ | ⟨hg, hnc⟩
  · rw [hs, hg]
    simp only
    rw [consumesG_posix]
    by_cases hc : consumes fd = true
    · simp only [hc, if_true]
      have hne : ({ fd with args := fd.args ++ [arg] } : Found).args ≠ [] := by simp
      have h1 : consumes { fd with args := fd.args ++ [arg] } = false := consumes_args_ne _ hne
      have h2 : consumesG { embedFound fd with args := (embedFound fd).args ++ [arg] } [] = false := by
        have := consumesG_posix { fd with args := fd.args ++ [arg] } []
        rw [h1] at this
        exact this
      simp only [h1, h2, Bool.false_eq_true, if_false]
      exact .next ⟨by simp [h.inArgs], h.nPos, Or.inr ⟨rfl, fun fd hfd => by simp at hfd⟩⟩
    · simp only [hc, Bool.false_eq_true, if_false]
      exact noFlag_rel t c cs fs arg sg s h
  · rw [hg]
    simp only
    cases hs : s.inFlag with
    | none => exact noFlag_rel t c cs fs arg sg s h
    | some fd =>
      simp only [hnc fd hs, Bool.false_eq_true, if_false]
      exact noFlag_rel t c cs fs arg sg s h

theorem classify_dash_nonconsuming (t : TTree) (c : Nat) (cs : TCmd) (fs : FlagSet) (arg : Str) (s : LoopState)
    (h : classify t c cs fs arg s = .dash) : ∀ fd, s.inFlag = some fd → consumes fd = false := by
  intro fd hfd
  rw [classify_eq, hfd] at h
  simp only at h
  by_cases hc : consumes fd = true
  · simp [hc] at h
  · simpa using hc

inductive RelOut : LoopOutG → LoopOut → Prop where
  | done {sg s} (b : Bool) : Rel sg s → RelOut (.done sg b) (.done s b)
  | descend (k : Nat) (rest inArgs : List Str) : RelOut (.descend k rest inArgs) (.descend k rest inArgs)

theorem loop_rel (t : TTree) (c : Nat) (cs : TCmd) (fs : FlagSet) (args : List Str) (sg : LoopStateG) (s : LoopState)
    (h : Rel sg s) :
    RelOut (loopG (embedTree t) c (embedCmd cs) (fs.map embed) args sg) (loop t c cs fs args s) := by
  induction args generalizing sg s with
  | nil => exact .done false h
  | cons arg rest ih =>
    unfold loopG loop
    have hr := classify_rel t c cs fs arg sg s h
    have hd := classify_dash_nonconsuming t c cs fs arg s
    generalize classifyG (embedTree t) c (embedCmd cs) (fs.map embed) arg sg = x at hr
    generalize classify t c cs fs arg s = y at hr hd
    cases hr with
    | next h' => exact ih _ _ h'
    | dash =>
      refine .done true ⟨by simp [h.inArgs], h.nPos, Or.inr ⟨rfl, ?_⟩⟩
      exact hd rfl
    | child k => rw [h.inArgs]; exact .descend k rest s.inArgs

/-! ### the final case distinction -/

theorem seriesFix_embed (fs : FlagSet) (flagOk : Bool) (inArgs : List Str) (value : Str) :
    traverseSlotG.seriesFix (fs.map embed) flagOk inArgs value = traverseSlot.seriesFix fs flagOk inArgs value := by
  unfold traverseSlotG.seriesFix traverseSlot.seriesFix
  rw [isPosixG_embed, Bool.and_true]
  split
  · rw [lookupArgG_posix]
    cases lookupArg fs value with
    | none => rfl
    | some lf => rfl
  · rfl

theorem flagOrPositional_embed (cs : TCmd) (fs : FlagSet) (c : Nat) (flagOk : Bool) (p : Parsed) (value : Str) :
    traverseSlotG.flagOrPositional (embedCmd cs) (fs.map embed) c flagOk p value =
      traverseSlot.flagOrPositional cs fs c flagOk p value := by
  unfold traverseSlotG.flagOrPositional traverseSlot.flagOrPositional
  have e1 : (embedCmd cs).noFlagParse = cs.noFlagParse := rfl
  rw [e1, isPosixG_embed]
  simp only [Bool.true_and]
  split
  · rw [lookupArgG_posix]
    cases lookupArg fs value with
    | none => rfl
    | some f => rfl
  · rfl

/-- no flag visible from any command uses `=` as its shorthand letter -/
def TreeNoEqShort (t : TTree) : Prop := ∀ c, NoEqShort (flagsAt t (t.size + 1) c)

/-- **On trees without fork features the general traverse model picks the slot of the POSIX model.** -/
theorem traverseSlotG_posix (t : TTree) (h : TreeNoEqShort t) (fuel c : Nat) (args : List Str) (value : Str) :
    traverseSlotG (embedTree t) fuel c args value = traverseSlot t fuel c args value := by
  induction fuel generalizing c args with
  | zero => rfl
  | succ fuel ih =>
    simp only [traverseSlotG, traverseSlot]
    rw [getElem_embedTree]
    cases hc : t[c]? with
    | none => rfl
    | some cs =>
      simp only [Option.map_some]
      have en : (embedCmd cs).name = cs.name := rfl
      have ei : (embedCmd cs).interspersed = cs.interspersed := rfl
      have ep : (embedCmd cs).noFlagParse = cs.noFlagParse := rfl
      have ew : (embedCmd cs).whitelist = false := rfl
      rw [en]
      split
      · rfl
      · rw [size_embedTree, flagsAtG_embed, map_toDefG_embedP]
        have hl := loop_rel t c cs ((flagsAt t (t.size + 1) c).map PFlag.toDef) args {} {}
          ⟨rfl, rfl, Or.inr ⟨rfl, fun fd hfd => by simp at hfd⟩⟩
        generalize loopG (embedTree t) c (embedCmd cs) (((flagsAt t (t.size + 1) c).map PFlag.toDef).map embed) args {} = x at hl
        generalize loop t c cs ((flagsAt t (t.size + 1) c).map PFlag.toDef) args {} = y at hl
        cases hl with
        | descend k rest inArgs =>
          simp only [ep, ei, ew]
          rw [parseG_posix _ (h c)]
          simp only [ih k rest]
          rfl
        | done b hrel =>
          rename_i sg s
          simp only [ep, ei, ew, hrel.nPos, hrel.inArgs]
          rcases hrel.flag with ⟨fd, hs, ha, hg⟩ | ⟨hg, hnc⟩
          · rw [hs, hg]
            simp only
            have ea : (embedFound fd).args = fd.args := rfl
            have ef : (embedFound fd).flag.name = fd.flag.name := rfl
            rw [ea, consumesG_posix, consumesG_posix, seriesFix_embed, ef]
            simp only [parseG_posix _ (h c), flagOrPositional_embed]
            rfl
          · rw [hg]
            simp only
            rw [seriesFix_embed]
            cases hs : s.inFlag with
            | none => simp only [parseG_posix _ (h c), flagOrPositional_embed]; rfl
            | some fd =>
              have hc' := hnc fd hs
              simp only [hc', Bool.and_false, Bool.false_eq_true, if_false, parseG_posix _ (h c), flagOrPositional_embed]
              rfl

/-! ### the slot theorems, about the model that is compared with the code

`traverseSlotG` is what the driver evaluates on every generated case; on trees without fork features it is
`traverseSlot` (above), and the parser specification `parseG` is `parse` (`parseG_posix`).  So the three slot
theorems hold of the general model and the general specification as they stand. -/

open Carapace.Props.C01 in
/-- **C01, positional slot, over the general model and specification.** -/
theorem C01_positional_lands_general {t : TTree} {c : Nat} {cs : TCmd} (hne : TreeNoEqShort t) (h : Stay t c cs) (fuel : Nat)
    (ws : List Str) (hnc : NoChild t c ws) (w : Str) (hw : Str.hasPrefix w ['-'] = false) (k : Nat)
    (hs : traverseSlotG (embedTree t) (fuel + 1) c ws w = .positional c k) :
    ∀ w', Pflag.flagLike w' = false →
      ∃ p', parseG (flagsAtG (embedTree t) ((embedTree t).size + 1) c) cs.interspersed (ws ++ [w']) = .ok p' ∧
            p'.args[k]? = some w' ∧ p'.lenAtDash = none := by
  rw [traverseSlotG_posix t hne] at hs
  intro w' hw'
  rw [size_embedTree, flagsAtG_embed, parseG_posix _ (hne c)]
  exact C01_positional_lands h fuel ws hnc w hw k hs w' hw'

open Carapace.Props.C01 in
/-- **C01, slot after `--`, over the general model and specification.** -/
theorem C01_dash_lands_general {t : TTree} {c : Nat} {cs : TCmd} (hne : TreeNoEqShort t) (h : Stay t c cs) (fuel : Nat)
    (ws : List Str) (hnc : NoChild t c ws) (w : Str) (hw : Str.hasPrefix w ['-'] = false) (k : Nat)
    (hs : traverseSlotG (embedTree t) (fuel + 1) c ws w = .dash c k)
    (hnp : pendingFlag t c cs ws = false) :
    ∀ w', ∃ p' n, parseG (flagsAtG (embedTree t) ((embedTree t).size + 1) c) cs.interspersed (ws ++ [w']) = .ok p' ∧
            p'.lenAtDash = some n ∧ p'.args[n + k]? = some w' := by
  rw [traverseSlotG_posix t hne] at hs
  intro w'
  rw [size_embedTree, flagsAtG_embed, parseG_posix _ (hne c)]
  exact C01_dash_lands h fuel ws hnc w hw k hs hnp w'

open Carapace.Props.C01 in
/-- **C01, flag value slot, over the general model and specification.** -/
theorem C01_flag_value_lands_general {t : TTree} {c : Nat} {cs : TCmd} (hne : TreeNoEqShort t) (h : Stay t c cs)
    (hi : cs.interspersed = true) (hn : NamesOk (flagsAt t (t.size + 1) c)) (fuel : Nat) (ws : List Str)
    (hnc : NoChild t c ws) (w name : Str)
    (hs : traverseSlotG (embedTree t) (fuel + 1) c ws w = .flagValue c name) :
    ∀ v, (∀ f ∈ flagsAt t (t.size + 1) c, f.name = name → Pflag.valueOk f v = true) →
      ∃ p', parseG (flagsAtG (embedTree t) ((embedTree t).size + 1) c) true (ws ++ [v]) = .ok p' ∧
            p'.sets.getLast? = some (name, v) := by
  rw [traverseSlotG_posix t hne] at hs
  intro v hv
  rw [size_embedTree, flagsAtG_embed, parseG_posix _ (hne c)]
  exact C01_flag_value_lands h hi hn fuel ws hnc w name hs v hv

/-- the hypotheses are satisfiable: a one-command program with a string flag `--name` / `-n` -/
def exTree : TTree := #[{ name := "root".toList, flags := [({ name := "name".toList, short := some 'n' }, false)] }]

example : TreeNoEqShort exTree := by
  intro c f hf
  cases c with
  | zero =>
    have : flagsAt exTree (exTree.size + 1) 0 = [{ name := "name".toList, short := some 'n' }] := by decide
    rw [this] at hf
    simp at hf
    subst hf
    decide
  | succ c =>
    have : flagsAt exTree (exTree.size + 1) (c + 1) = [] := by
      simp [flagsAt, exTree]
    rw [this] at hf
    simp at hf


end Carapace.Props.C01Fork
