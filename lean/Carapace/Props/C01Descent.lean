/-
  C01, lines that begin with sub-command names: `traverseSlot_descend` - a first word that names a child of
  the command (and is therefore not flag-like) makes the traverse model continue in that child with the
  remaining words; by induction over a path of such names (`traverseSlot_path`) the slot of
  `sub1 sub2 ... words` is the slot of `words` in the command the path leads to.  Together with the slot
  theorems (which speak about one command) this covers lines whose sub-command names come first - the form
  carapace and cobra agree on; names *behind* other words are the listed finding `descent_heuristics`.
  (That cobra dispatches the same path is decided on the real code, not proved: cobra is executed.)
-/
import Carapace.Props.C01Flag

namespace Carapace.Props.C01
open Carapace Carapace.Model Carapace.Spec

theorem childNamed_not_flaglike {t : TTree} {c : Nat} {w : Str} {k : Nat} (h : childNamed t c w = some k) :
    Str.hasPrefix w ['-'] = false := by
  unfold childNamed at h
  by_cases hp : Str.hasPrefix w ['-'] = true
  · simp [hp] at h
  · simpa using hp

theorem traverseSlot_descend {t : TTree} {c : Nat} {cs : TCmd} (h : Stay t c cs) (fuel : Nat) (w : Str) (k : Nat)
    (hk : childNamed t c w = some k) (ws : List Str) (value : Str) :
    traverseSlot t (fuel + 1) c (w :: ws) value = traverseSlot t fuel k ws value := by
  have hnf := childNamed_not_flaglike hk
  have hnd : (w == "--".toList) = false := by
    cases hw : (w == "--".toList) with
    | false => rfl
    | true =>
      have : w = "--".toList := by simpa using hw
      rw [this] at hnf
      simp [Str.hasPrefix] at hnf
  have hnd' : ¬ (w = ['-', '-']) := by
    intro e; rw [e] at hnd; simp at hnd
  rw [traverseSlot]
  simp only [h.cmd, h.name1, h.name2, Bool.false_eq_true, Bool.or_self, if_false]
  have hl : loop t c cs ((flagsAt t (t.size + 1) c).map (·.toDef)) (w :: ws) {} = .descend k ws [] := by
    simp only [loop, classify]
    simp [hnd', hnf, hk]
  simp only [hl, h.parses, Bool.false_eq_true, if_false]
  have hp : Pflag.parse (flagsAt t (t.size + 1) c) cs.interspersed [] = .ok {} := rfl
  rw [hp]

/-- a path of sub-command names from command `c` to command `k` -/
inductive Path (t : TTree) : Nat → List Str → Nat → Prop where
  | nil (c : Nat) : Path t c [] c
  | cons {c k k' : Nat} {cs : TCmd} {w : Str} {ws : List Str} :
      Stay t c cs → childNamed t c w = some k → Path t k ws k' → Path t c (w :: ws) k'

/-- **the slot of `path ++ words` is the slot of `words` in the command the path leads to** -/
theorem traverseSlot_path {t : TTree} {c k : Nat} {path : List Str} (hp : Path t c path k) (fuel : Nat) (ws : List Str) (value : Str) :
    traverseSlot t (fuel + path.length) c (path ++ ws) value = traverseSlot t fuel k ws value := by
  induction hp with
  | nil c => rfl
  | @cons c0 k0 k1 cs0 w0 ws0 hst hk _ ih =>
    have : fuel + (w0 :: ws0).length = (fuel + ws0.length) + 1 := by simp; omega
    rw [this, List.cons_append, traverseSlot_descend hst (fuel + ws0.length) w0 k0 hk]
    exact ih

/-- **C01, positional slot, behind a path of sub-command names.** -/
theorem C01_positional_lands_after_path {t : TTree} {c k : Nat} {cs : TCmd} {path : List Str} (hp : Path t c path k)
    (h : Stay t k cs) (fuel : Nat) (ws : List Str) (hnc : NoChild t k ws) (w : Str) (hw : Str.hasPrefix w ['-'] = false) (n : Nat)
    (hs : traverseSlot t (fuel + 1 + path.length) c (path ++ ws) w = .positional k n) :
    ∀ w', Pflag.flagLike w' = false →
      ∃ p', Pflag.parse (flagsAt t (t.size + 1) k) cs.interspersed (ws ++ [w']) = .ok p' ∧
            p'.args[n]? = some w' ∧ p'.lenAtDash = none := by
  rw [traverseSlot_path hp] at hs
  exact C01_positional_lands h fuel ws hnc w hw n hs

end Carapace.Props.C01
