/-
  C15 — a proper prefix of an export document does not decode: the hypothesis `hprefix` of `C15_action_cache`,
  proved for the decoder model `parseExport` (Model/ExportDecode.lean) and every document `marshalExport` writes.
  With it the Action-cache statement holds without hypotheses: whatever the previous entry was and wherever the write
  of the new document stops, a reader gets nothing usable, the complete previous entry, or the complete new one.
-/
import Carapace.Props.C13Doc
import Carapace.Props.C15

namespace Carapace.Props.C15
open Carapace Carapace.Model Carapace.Props.C13

/-! ### truncation, component by component: a component cut short is rejected, a complete one is read and the
    truncation moves on into what follows -/

theorem hasPrefix_length {s p : Str} (h : Str.hasPrefix s p = true) : p.length ≤ s.length := by
  induction p generalizing s with
  | nil => simp
  | cons d p ih =>
    cases s with
    | nil => simp [Str.hasPrefix] at h
    | cons c s =>
      simp only [Str.hasPrefix, Bool.and_eq_true] at h
      have := ih h.2
      simp; omega

theorem take_append_ge {α} (a r : List α) (k : Nat) (h : a.length ≤ k) : (a ++ r).take k = a ++ r.take (k - a.length) := by
  rw [List.take_append]
  rw [List.take_of_length_le h]

theorem take_append_lt {α} (a r : List α) (k : Nat) (h : k < a.length) : (a ++ r).take k = a.take k := by
  rw [List.take_append]
  have : k - a.length = 0 := by omega
  simp [this]

theorem expect_trunc (lit r : Str) (k : Nat) :
    expect lit ((lit ++ r).take k) = if k < lit.length then none else some (r.take (k - lit.length)) := by
  split
  · rename_i h
    rw [take_append_lt _ _ _ h]
    unfold expect
    cases hp : Str.hasPrefix (lit.take k) lit with
    | false => simp
    | true =>
      have := hasPrefix_length hp
      simp [List.length_take] at this; omega
  · rename_i h
    rw [take_append_ge _ _ _ (by omega), expect_append]

theorem readLit_trunc (a : Str) : ∀ (m : JMode) (o acc : List Out) (k : Nat),
    m ≠ .done → jsonReader.run m a = some (.done, o) → k < a.length → readLit m (a.take k) acc = none := by
  induction a with
  | nil => intro m o acc k _ _ hk; simp at hk
  | cons c a ih =>
    intro m o acc k hm h hk
    cases k with
    | zero => simp [readLit, hm]
    | succ k =>
      simp only [Reader.run] at h
      simp only [List.take_succ_cons, readLit, hm, if_false]
      cases hs : jsonReader.step m c with
      | none => rw [hs] at h; simp at h
      | some p =>
        obtain ⟨m1, o1⟩ := p
        simp only [hs] at h
        have hs' : jsonStep m c = some (m1, o1) := hs
        simp only [hs']
        cases hr : jsonReader.run m1 a with
        | none => simp [hr] at h
        | some q =>
          obtain ⟨m2, o2⟩ := q
          simp only [hr, Option.some.injEq, Prod.mk.injEq] at h
          obtain ⟨h2, _⟩ := h
          subst h2
          have hka : k < a.length := by simpa using hk
          by_cases hd : m1 = .done
          · subst hd
            cases a with
            | nil => simp at hka
            | cons d a => rw [run_done_cons] at hr; simp at hr
          · exact ih m1 o2 (acc ++ o1) k hd hr hka

theorem parseString_trunc (s r : Str) (k : Nat) :
    parseString ((jsonEncodeString s ++ r).take k) =
      if k < (jsonEncodeString s).length then none else some (s, r.take (k - (jsonEncodeString s).length)) := by
  split
  · rename_i h
    rw [take_append_lt _ _ _ h]
    unfold parseString
    rw [readLit_trunc (jsonEncodeString s) .start (s.map Out.lit) [] k (by decide) (run_encodeString s) h]
  · rename_i h
    rw [take_append_ge _ _ _ (by omega), parseString_encode]

/-! ### arrays -/

/-- the text of a non-empty array behind its opening bracket -/
def bodyE {α : Type} (enc : α → Str) (x : α) (xs : List α) : Str :=
  enc x ++ (xs.flatMap (fun y => ',' :: enc y)) ++ [']']

/-- a codec whose decoder rejects every truncation of an encoded element and otherwise hands on what follows -/
def Seq {α : Type} (elem : Str → Option (α × Str)) (enc : α → Str) : Prop :=
  ∀ x r k, elem ((enc x ++ r).take k) = if k < (enc x).length then none else some (x, r.take (k - (enc x).length))

theorem parseElems_trunc {α : Type} (elem : Str → Option (α × Str)) (enc : α → Str) (h : Seq elem enc) :
    ∀ (xs : List α) (x : α) (n k : Nat) (r : Str), k < (bodyE enc x xs).length →
      parseElems elem n ((bodyE enc x xs ++ r).take k) = none := by
  unfold Seq at h
  intro xs
  induction xs with
  | nil =>
    intro x n k r hk
    cases n with
    | zero => rfl
    | succ n =>
      simp only [bodyE, List.flatMap_nil, List.append_nil, List.length_append, List.length_cons, List.length_nil] at hk
      simp only [bodyE, List.flatMap_nil, List.append_nil, List.append_assoc, parseElems]
      rw [h x ([']'] ++ r) k]
      by_cases hlt : k < (enc x).length
      · rw [if_pos hlt]
      · rw [if_neg hlt]
        have : k - (enc x).length = 0 := by omega
        rw [this]; rfl
  | cons y ys ih =>
    intro x n k r hk
    cases n with
    | zero => rfl
    | succ n =>
      have e : bodyE enc x (y :: ys) ++ r = enc x ++ (',' :: (bodyE enc y ys ++ r)) := by
        simp [bodyE, List.append_assoc]
      have hl : (bodyE enc x (y :: ys)).length = (enc x).length + 1 + (bodyE enc y ys).length := by
        simp [bodyE, List.length_append]; omega
      rw [e]
      simp only [parseElems]
      rw [h x (',' :: (bodyE enc y ys ++ r)) k]
      by_cases hlt : k < (enc x).length
      · rw [if_pos hlt]
      · rw [if_neg hlt]
        cases hj : k - (enc x).length with
        | zero => rfl
        | succ j =>
          have hj' : j < (bodyE enc y ys).length := by omega
          show (match parseElems elem n ((bodyE enc y ys ++ r).take j) with
                | none => none
                | some (xs, r) => some (x :: xs, r)) = none
          rw [ih y n j r hj']

theorem parseArray_trunc {α : Type} (elem : Str → Option (α × Str)) (enc : α → Str) (h : Seq elem enc)
    (hnil : elem [] = none) (hne : ∀ x, ∃ c r, enc x = c :: r ∧ c ≠ ']') (xs : List α) (r : Str) (k : Nat) :
    parseArray elem ((jsonArray (xs.map enc) ++ r).take k) =
      if k < (jsonArray (xs.map enc)).length then none else some (xs, r.take (k - (jsonArray (xs.map enc)).length)) := by
  have hfull : ∀ x rest, elem (enc x ++ rest) = some (x, rest) := by
    intro x rest
    have := (show ∀ x r k, elem ((enc x ++ r).take k) = if k < (enc x).length then none else some (x, r.take (k - (enc x).length)) from h) x rest ((enc x).length + rest.length)
    rw [List.take_of_length_le (by simp)] at this
    rw [this]; simp
  split
  · rename_i hk
    cases xs with
    | nil =>
      have : k = 0 ∨ k = 1 := by simp [jsonArray, Str.join] at hk; omega
      rcases this with rfl | rfl
      · simp [parseArray]
      · simp [jsonArray, Str.join, parseArray, parseElems, hnil]
    | cons x xs =>
      have e : jsonArray ((x :: xs).map enc) ++ r = '[' :: (bodyE enc x xs ++ r) := by
        simp [jsonArray, bodyE, join_cons, List.flatMap_map]
      have hl : (jsonArray ((x :: xs).map enc)).length = 1 + (bodyE enc x xs).length := by
        have := congrArg List.length e
        simp only [List.length_append, List.length_cons] at this; omega
      rw [e]
      cases k with
      | zero => simp [parseArray]
      | succ j =>
        have hj : j < (bodyE enc x xs).length := by omega
        simp only [List.take_succ_cons]
        obtain ⟨c, t, hc, hcne⟩ := hne x
        -- the text behind `[` starts with the first character of the first element (not `]`) or is empty
        have hbody : bodyE enc x xs ++ r = c :: (t ++ (xs.flatMap (fun y => ',' :: enc y)) ++ [']'] ++ r) := by
          simp [bodyE, hc, List.append_assoc]
        unfold parseArray
        split
        · rename_i heq
          simp only [List.cons.injEq, true_and] at heq
          rw [hbody] at heq
          cases j with
          | zero => simp at heq
          | succ j' => simp at heq; exact absurd heq.1 hcne
        · rename_i heq
          simp only [List.cons.injEq, true_and] at heq
          subst heq
          exact parseElems_trunc elem enc h xs x _ j r hj
        · rename_i h1 h2; exact absurd rfl (h2 _)
  · rename_i hk
    rw [take_append_ge _ _ _ (by omega)]
    exact parseArray_encode elem enc hfull hne xs _

theorem seq_parseString : Seq parseString jsonEncodeString := parseString_trunc

/-! ### the optional fields of a candidate and its closing brace -/

/-- the optional fields in turn, then the closing brace (the tail of `parseRawValue`) -/
def optsThenBrace : List Str → Str → Option (List Str × Str)
  | [], s => match s with
    | '}' :: r => some ([], r)
    | _ => none
  | n :: ns, s =>
    match parseOptField n s with
    | none => none
    | some (x, r) =>
      match optsThenBrace ns r with
      | none => none
      | some (xs, r') => some (x :: xs, r')

def optsText : List Str → List Str → Str
  | n :: ns, x :: xs => optText n x ++ optsText ns xs
  | _, _ => []

theorem hasPrefix_take {s p : Str} (j : Nat) (h : Str.hasPrefix (s.take j) p = true) : Str.hasPrefix s p = true := by
  induction p generalizing s j with
  | nil => cases s <;> rfl
  | cons d p ih =>
    cases s with
    | nil => simp [Str.hasPrefix] at h
    | cons c s =>
      cases j with
      | zero => simp [Str.hasPrefix] at h
      | succ j =>
        simp only [List.take_succ_cons, Str.hasPrefix, Bool.and_eq_true] at h ⊢
        exact ⟨h.1, ih j h.2⟩

theorem expect_take_none {lit s : Str} (j : Nat) (h : expect lit s = none) : expect lit (s.take j) = none := by
  unfold expect at h ⊢
  cases hp : Str.hasPrefix (s.take j) lit with
  | false => simp
  | true => rw [hasPrefix_take j hp] at h; simp at h

/-- a text on which every remaining optional field is absent and which does not start with `}` ends the candidate badly -/
theorem absent_all (t : Str) (ht : ∀ r, t ≠ '}' :: r) : ∀ ns : List Str, (∀ n ∈ ns, expect (optPre n) t = none) →
    optsThenBrace ns t = none := by
  intro ns
  induction ns with
  | nil =>
    intro _
    cases t with
    | nil => rfl
    | cons c t' =>
      have hc : c ≠ '}' := by intro e; exact ht t' (by rw [e])
      unfold optsThenBrace
      split
      · rename_i heq; simp only [List.cons.injEq] at heq; exact absurd heq.1 hc
      · rfl
  | cons n ns ih =>
    intro h
    have hn := h n (by simp)
    simp only [optsThenBrace, parseOptField, hn]
    rw [ih (fun m hm => h m (List.mem_cons_of_mem _ hm))]

theorem optPre_cons (n : Str) : ∃ t, optPre n = ',' :: t := ⟨_, rfl⟩

/-- what follows the optional fields never looks like the start of field `n`, if `n` is none of them -/
theorem noPre_rest (n : Str) (r : Str) : ∀ (ns xs : List Str),
    (∀ n' ∈ ns, ∀ s, expect (optPre n) (optPre n' ++ s) = none) →
    expect (optPre n) (optsText ns xs ++ '}' :: r) = none := by
  intro ns
  induction ns with
  | nil => intro xs _; simpa [optsText] using no_pre_brace n r
  | cons m ms ih =>
    intro xs h
    cases xs with
    | nil => simpa [optsText] using no_pre_brace n r
    | cons x xs =>
      simp only [optsText, optText]
      cases x with
      | nil => simpa using ih xs (fun n' hn' => h n' (List.mem_cons_of_mem _ hn'))
      | cons c x => simp only [List.isEmpty_cons, Bool.false_eq_true, if_false, List.append_assoc]; exact h m (by simp) _

theorem opts_trunc : ∀ (ns : List Str), ns.Nodup →
    (∀ n ∈ ns, ∀ n' ∈ ns, n ≠ n' → ∀ s, expect (optPre n) (optPre n' ++ s) = none) →
    (∀ n ∈ ns, ∀ n' ∈ ns, n ≠ n' → ∀ j, expect (optPre n') ((optPre n).take j) = none) →
    ∀ (xs : List Str) (r : Str) (j : Nat), j < (optsText ns xs).length + 1 →
      optsThenBrace ns ((optsText ns xs ++ '}' :: r).take j) = none := by
  intro ns
  induction ns with
  | nil =>
    intro _ _ _ xs r j hj
    have : j = 0 := by simp [optsText] at hj; omega
    subst this
    simp [optsThenBrace]
  | cons n ns ih =>
    intro hnd h1 h2 xs r j hj
    have hnn : ∀ n' ∈ ns, n ≠ n' := by
      intro n' hn' e; subst e; exact (List.nodup_cons.mp hnd).1 hn'
    have ih' := ih (List.nodup_cons.mp hnd).2
      (fun a ha b hb => h1 a (List.mem_cons_of_mem _ ha) b (List.mem_cons_of_mem _ hb))
      (fun a ha b hb => h2 a (List.mem_cons_of_mem _ ha) b (List.mem_cons_of_mem _ hb))
    cases xs with
    | nil =>
      -- no values at all: only the brace remains
      have : j = 0 := by simp [optsText] at hj; omega
      subst this
      simp only [optsText, List.nil_append, List.take_zero]
      exact absent_all [] (by intro r' e; cases e) (n :: ns)
        (fun m _ => by obtain ⟨t, ht⟩ := optPre_cons m; simp [expect, ht, Str.hasPrefix])
    | cons x xs =>
      have hnopre : expect (optPre n) (optsText ns xs ++ '}' :: r) = none :=
        noPre_rest n r ns xs (fun n' hn' s => h1 n (by simp) n' (List.mem_cons_of_mem _ hn') (hnn n' hn') s)
      simp only [optsText] at hj ⊢
      cases x with
      | nil =>
        -- the field is absent in the text
        simp only [optText, List.isEmpty_nil, if_true, List.nil_append, List.length_nil, Nat.zero_add] at hj ⊢
        simp only [optsThenBrace, parseOptField, expect_take_none j hnopre]
        rw [ih' xs r j hj]
      | cons c x =>
        have hO : optText n (c :: x) = optPre n ++ jsonEncodeString (c :: x) := by simp [optText]
        have hlenO : (optText n (c :: x)).length = (optPre n).length + (jsonEncodeString (c :: x)).length := by
          rw [hO]; simp
        have hj' : j < (optPre n).length + (jsonEncodeString (c :: x)).length + (optsText ns xs).length + 1 := by
          simp only [List.length_append] at hj; omega
        rw [hO, List.append_assoc, List.append_assoc]
        by_cases hj1 : j < (optPre n).length
        · -- cut inside `,"name":`
          rw [take_append_lt _ _ _ hj1]
          have hexp : expect (optPre n) ((optPre n).take j) = none := by
            have := expect_trunc (optPre n) [] j
            simpa [hj1] using this
          simp only [optsThenBrace, parseOptField, hexp]
          obtain ⟨t, ht⟩ := optPre_cons n
          rw [absent_all ((optPre n).take j) (by
                intro r' e; rw [ht] at e
                cases j with
                | zero => simp at e
                | succ j => simp at e) ns
              (fun n' hn' => h2 n (by simp) n' (List.mem_cons_of_mem _ hn') (hnn n' hn') j)]
        · have hexp := expect_trunc (optPre n) (jsonEncodeString (c :: x) ++ (optsText ns xs ++ '}' :: r)) j
          simp only [hj1, if_false] at hexp
          simp only [optsThenBrace, parseOptField, hexp]
          rw [parseString_trunc]
          by_cases hj2 : j - (optPre n).length < (jsonEncodeString (c :: x)).length
          · simp [hj2]
          · simp only [hj2, if_false]
            rw [ih' xs r _ (by omega)]

/-! ### one candidate -/

def optNames : List Str := ["description".toList, "style".toList, "tag".toList, "uid".toList]

theorem optNames_nodup : optNames.Nodup := by decide

theorem optNames_pre : ∀ n ∈ optNames, ∃ t, optPre n = ',' :: '"' :: n.headD ' ' :: t := by
  intro n hn
  simp only [optNames, List.mem_cons, List.mem_nil_iff, or_false] at hn
  rcases hn with rfl | rfl | rfl | rfl
  · exact ⟨_, by rw [pre_description]; rfl⟩
  · exact ⟨_, by rw [pre_style]; rfl⟩
  · exact ⟨_, by rw [pre_tag]; rfl⟩
  · exact ⟨_, by rw [pre_uid]; rfl⟩

theorem optNames_heads : ∀ n ∈ optNames, ∀ n' ∈ optNames, n ≠ n' → n.headD ' ' ≠ n'.headD ' ' := by
  intro n hn n' hn'
  simp only [optNames, List.mem_cons, List.mem_nil_iff, or_false] at hn hn'
  rcases hn with rfl | rfl | rfl | rfl <;> rcases hn' with rfl | rfl | rfl | rfl <;> simp <;> decide

theorem optNames_sep1 : ∀ n ∈ optNames, ∀ n' ∈ optNames, n ≠ n' → ∀ s, expect (optPre n) (optPre n' ++ s) = none := by
  intro n hn n' hn' hne s
  obtain ⟨t, ht⟩ := optNames_pre n hn
  obtain ⟨t', ht'⟩ := optNames_pre n' hn'
  have hh := optNames_heads n hn n' hn' hne
  generalize n.headD ' ' = a at ht hh
  generalize n'.headD ' ' = b at ht' hh
  have hh' : ¬ (b = a) := fun e => hh e.symm
  simp [expect, ht, ht', Str.hasPrefix, hh']

theorem optNames_sep2 : ∀ n ∈ optNames, ∀ n' ∈ optNames, n ≠ n' → ∀ j, expect (optPre n') ((optPre n).take j) = none := by
  intro n hn n' hn' hne j
  obtain ⟨t, ht⟩ := optNames_pre n hn
  obtain ⟨t', ht'⟩ := optNames_pre n' hn'
  have hh := optNames_heads n hn n' hn' hne
  generalize n.headD ' ' = a at ht hh
  generalize n'.headD ' ' = b at ht' hh
  rw [ht, ht']
  match j with
  | 0 => simp [expect, Str.hasPrefix]
  | 1 => simp [expect, Str.hasPrefix]
  | 2 => simp [expect, Str.hasPrefix]
  | j + 3 => simp [expect, Str.hasPrefix, hh]

theorem otb_cons (n : Str) (ns : List Str) (s : Str) : optsThenBrace (n :: ns) s =
    (match parseOptField n s with
     | none => none
     | some (x, r) =>
       match optsThenBrace ns r with
       | none => none
       | some (xs, r') => some (x :: xs, r')) := rfl

theorem otb_nil_brace (r : Str) : optsThenBrace [] ('}' :: r) = some ([], r) := rfl

theorem otb_nil_other (s : Str) (h : ∀ r, s ≠ '}' :: r) : optsThenBrace [] s = none :=
  absent_all s h [] (by intro n hn; cases hn)

theorem parseRawValue_eq (s : Str) : parseRawValue s =
    match expect (objPre "value".toList) s with
    | none => none
    | some r =>
    match parseString r with
    | none => none
    | some (value, r) =>
    match expect (optPre "display".toList) r with
    | none => none
    | some r =>
    match parseString r with
    | none => none
    | some (display, r) =>
    match optsThenBrace optNames r with
    | some ([a, b, c, d], r') => some ({ value := value, display := display, description := a, style := b, tag := c, uid := d }, r')
    | _ => none := by
  unfold parseRawValue
  cases expect (objPre "value".toList) s with
  | none => rfl
  | some r =>
    simp only
    cases parseString r with
    | none => rfl
    | some p =>
      obtain ⟨value, r⟩ := p
      simp only
      cases expect (optPre "display".toList) r with
      | none => rfl
      | some r =>
        simp only
        cases parseString r with
        | none => rfl
        | some p =>
          obtain ⟨display, r⟩ := p
          simp only [optNames, otb_cons]
          cases parseOptField "description".toList r with
          | none => rfl
          | some p =>
            obtain ⟨a, r⟩ := p
            simp only
            cases parseOptField "style".toList r with
            | none => rfl
            | some p =>
              obtain ⟨b, r⟩ := p
              simp only
              cases parseOptField "tag".toList r with
              | none => rfl
              | some p =>
                obtain ⟨c, r⟩ := p
                simp only
                cases parseOptField "uid".toList r with
                | none => rfl
                | some p =>
                  obtain ⟨d, r⟩ := p
                  simp only
                  cases r with
                  | nil => rw [otb_nil_other [] (by intro r e; cases e)]
                  | cons ch r' =>
                    by_cases hb : ch = '}'
                    · subst hb; rw [otb_nil_brace]; rfl
                    · rw [otb_nil_other (ch :: r') (by intro r e; simp only [List.cons.injEq] at e; exact hb e.1)]
                      simp only
                      split
                      · rename_i heq; simp only [List.cons.injEq] at heq; exact absurd heq.1 hb
                      · rfl

theorem marshalRawValue_opts (v : RawValue) :
    marshalRawValue v = objPre "value".toList ++ (jsonEncodeString v.value ++ (optPre "display".toList ++ (jsonEncodeString v.display
      ++ (optsText optNames [v.description, v.style, v.tag, v.uid] ++ ['}'])))) := by
  rw [marshalRawValue_eq]; simp [optsText, optNames, List.append_assoc]

theorem seq_parseRawValue : Seq parseRawValue marshalRawValue := by
  intro v r k
  by_cases hk : k < (marshalRawValue v).length
  · rw [if_pos hk, parseRawValue_eq]
    rw [marshalRawValue_opts] at hk ⊢
    simp only [List.append_assoc, List.length_append] at hk ⊢
    rw [expect_trunc]
    by_cases h1 : k < (objPre "value".toList).length
    · rw [if_pos h1]
    · rw [if_neg h1]; simp only
      rw [parseString_trunc]
      by_cases h2 : k - (objPre "value".toList).length < (jsonEncodeString v.value).length
      · rw [if_pos h2]
      · rw [if_neg h2]; simp only
        rw [expect_trunc]
        by_cases h3 : k - (objPre "value".toList).length - (jsonEncodeString v.value).length < (optPre "display".toList).length
        · rw [if_pos h3]
        · rw [if_neg h3]; simp only
          rw [parseString_trunc]
          by_cases h4 : k - (objPre "value".toList).length - (jsonEncodeString v.value).length - (optPre "display".toList).length
              < (jsonEncodeString v.display).length
          · rw [if_pos h4]
          · rw [if_neg h4]; simp only
            rw [show (['}'] ++ r) = '}' :: r from rfl]
            rw [opts_trunc optNames optNames_nodup optNames_sep1 optNames_sep2 _ r _ (by
              simp only [List.length_cons, List.length_nil] at hk; omega)]
  · rw [if_neg hk, take_append_ge _ _ _ (by omega), parseRawValue_encode]

theorem parseValues_trunc (vs : List RawValue) (r : Str) (k : Nat) :
    parseValues ((jsonArray (vs.map marshalRawValue) ++ r).take k) =
      if k < (jsonArray (vs.map marshalRawValue)).length then none
      else some (some vs, r.take (k - (jsonArray (vs.map marshalRawValue)).length)) := by
  unfold parseValues
  have hnull : expect "null".toList ((jsonArray (vs.map marshalRawValue) ++ r).take k) = none := by
    apply expect_take_none
    simp [expect, jsonArray, Str.hasPrefix]
  rw [hnull]
  simp only
  rw [parseArray_trunc parseRawValue marshalRawValue seq_parseRawValue (by decide) marshalRawValue_head]
  by_cases h : k < (jsonArray (vs.map marshalRawValue)).length
  · rw [if_pos h, if_pos h]
  · rw [if_neg h, if_neg h]

theorem parseNull_trunc (r : Str) (k : Nat) :
    parseValues (("null".toList ++ r).take k) = if k < 4 then none else some (none, r.take (k - 4)) := by
  unfold parseValues
  have h := expect_trunc "null".toList r k
  have hl : "null".toList.length = 4 := by decide
  rw [hl] at h
  rw [h]
  by_cases hk : k < 4
  · -- a cut `null` is no array either
    rw [if_pos hk, if_pos hk]
    simp only
    have : parseArray parseRawValue (("null".toList ++ r).take k) = none := by
      rw [take_append_lt _ _ _ (by rw [hl]; exact hk)]
      match k, hk with
      | 0, _ => rfl
      | 1, _ => rfl
      | 2, _ => rfl
      | 3, _ => rfl
    rw [this]
  · rw [if_neg hk, if_neg hk]

/-- the values field of the document, `null` or an array -/
def valuesText (vs : Option (List RawValue)) : Str :=
  match vs with
  | none => "null".toList
  | some vs => jsonArray ((sortBy (fun a b => Str.lt a.value b.value) vs).map marshalRawValue)

theorem valuesText_trunc (vs : Option (List RawValue)) (r : Str) (k : Nat) :
    parseValues ((valuesText vs ++ r).take k) =
      if k < (valuesText vs).length then none else some (wireValues vs, r.take (k - (valuesText vs).length)) := by
  cases vs with
  | none =>
    have hl : "null".toList.length = 4 := by decide
    simp only [valuesText, hl, wireValues, Option.map_none]
    exact parseNull_trunc r k
  | some vs =>
    simp only [valuesText, wireValues, Option.map_some]
    exact parseValues_trunc _ r k

/-- **a proper prefix of an export document does not decode.** -/
theorem C15_prefix_rejected (version : Str) (m : Meta) (vs : Option (List RawValue)) (k : Nat)
    (hk : k < (marshalExport version m vs).length) : parseExport ((marshalExport version m vs).take k) = none := by
  have e : marshalExport version m vs
      = objPre "version".toList ++ (jsonEncodeString version
        ++ (optPre "messages".toList ++ (jsonArray (m.messages.map jsonEncodeString)
        ++ (optPre "nospace".toList ++ (jsonEncodeString m.nospace
        ++ (optPre "usage".toList ++ (jsonEncodeString m.usage
        ++ (optPre "values".toList ++ (valuesText vs ++ ['}']))))))))) := by
    unfold marshalExport jsonObject valuesText
    simp only [join_cons, jsonField, List.flatMap_cons, List.flatMap_nil, List.append_nil, objPre, optPre]
    cases vs <;> simp
  rw [e] at hk ⊢
  simp only [List.length_append, List.length_cons, List.length_nil] at hk
  generalize hL1 : (objPre "version".toList).length = L1 at hk
  generalize hL2 : (jsonEncodeString version).length = L2 at hk
  generalize hL3 : (optPre "messages".toList).length = L3 at hk
  generalize hL4 : (jsonArray (m.messages.map jsonEncodeString)).length = L4 at hk
  generalize hL5 : (optPre "nospace".toList).length = L5 at hk
  generalize hL6 : (jsonEncodeString m.nospace).length = L6 at hk
  generalize hL7 : (optPre "usage".toList).length = L7 at hk
  generalize hL8 : (jsonEncodeString m.usage).length = L8 at hk
  generalize hL9 : (optPre "values".toList).length = L9 at hk
  generalize hL10 : (valuesText vs).length = L10 at hk
  unfold parseExport
  rw [expect_trunc, hL1]
  by_cases h1 : k < L1
  · rw [if_pos h1]
  rw [if_neg h1]; simp only
  rw [parseString_trunc, hL2]
  by_cases h2 : k - L1 < L2
  · rw [if_pos h2]
  rw [if_neg h2]; simp only
  rw [expect_trunc, hL3]
  by_cases h3 : k - L1 - L2 < L3
  · rw [if_pos h3]
  rw [if_neg h3]; simp only
  rw [parseArray_trunc parseString jsonEncodeString seq_parseString (by decide) (fun x => ⟨'"', _, rfl, by decide⟩), hL4]
  by_cases h4 : k - L1 - L2 - L3 < L4
  · rw [if_pos h4]
  rw [if_neg h4]; simp only
  rw [expect_trunc, hL5]
  by_cases h5 : k - L1 - L2 - L3 - L4 < L5
  · rw [if_pos h5]
  rw [if_neg h5]; simp only
  rw [parseString_trunc, hL6]
  by_cases h6 : k - L1 - L2 - L3 - L4 - L5 < L6
  · rw [if_pos h6]
  rw [if_neg h6]; simp only
  rw [expect_trunc, hL7]
  by_cases h7 : k - L1 - L2 - L3 - L4 - L5 - L6 < L7
  · rw [if_pos h7]
  rw [if_neg h7]; simp only
  rw [parseString_trunc, hL8]
  by_cases h8 : k - L1 - L2 - L3 - L4 - L5 - L6 - L7 < L8
  · rw [if_pos h8]
  rw [if_neg h8]; simp only
  rw [expect_trunc, hL9]
  by_cases h9 : k - L1 - L2 - L3 - L4 - L5 - L6 - L7 - L8 < L9
  · rw [if_pos h9]
  rw [if_neg h9]; simp only
  rw [valuesText_trunc, hL10]
  by_cases h10 : k - L1 - L2 - L3 - L4 - L5 - L6 - L7 - L8 - L9 < L10
  · rw [if_pos h10]
  rw [if_neg h10]; simp only
  have : (['}'] : Str).take (k - L1 - L2 - L3 - L4 - L5 - L6 - L7 - L8 - L9 - L10) = [] := by
    rw [List.take_eq_nil_iff]; left; omega
  rw [this]

/-- **C15 (Action cache), without hypotheses on the decoder**: for every document the encoder writes and the decoder
    model of `Model/ExportDecode.lean` - whatever the previous entry was and wherever the write stops, a reader gets
    nothing usable, the previous entry as it was, or the complete new document. -/
theorem C15_action_cache_export (version : Str) (m : Meta) (vs : Option (List RawValue)) (old : FileState) (stop : Option Nat) :
    readAction parseExport (inPlaceWrite old (marshalExport version m vs) stop) = none ∨
    readAction parseExport (inPlaceWrite old (marshalExport version m vs) stop) = readAction parseExport old ∨
    readAction parseExport (inPlaceWrite old (marshalExport version m vs) stop) =
      some { version := version, messages := m.messages, nospace := m.nospace, usage := m.usage, values := wireValues vs } :=
  C15_action_cache parseExport _ _ (C13_document_roundtrip version m vs)
    (fun k hk => C15_prefix_rejected version m vs k hk) old stop

/-- non-vacuity: the shortest document (no messages, no candidates) has 67 characters; cut after 40 it does not decode -/
example : parseExport ((marshalExport "v".toList {} none).take 40) = none :=
  C15_prefix_rejected _ _ _ 40 (by
    have : (marshalExport "v".toList {} none).length = 67 := by decide
    omega)

end Carapace.Props.C15
