/-
  C12 — modifiers change exactly the aspect they document.
  One frame theorem per modifier over the pure model `invoke` (Model/Actions.lean), which is
  bound to the real library by exact comparison on random expressions (ops `invoke`, `history`).
-/
import Carapace.Model.Actions
import Carapace.Lemmas.Utf8

namespace Carapace.Props.C12
open Carapace Carapace.Model

variable (e : Expr) (c : Ctx)

/-- `Filter` removes precisely the listed values and touches nothing else -/
theorem C12_filter (xs : List Str) :
    invoke (.filter xs e) c = ((invoke e c).1, (invoke e c).2.filter (fun v => !xs.elem v.value)) := by
  simp [invoke, filterValues]

/-- `Retain` keeps precisely the listed values -/
theorem C12_retain (xs : List Str) :
    invoke (.retain xs e) c = ((invoke e c).1, (invoke e c).2.filter (fun v => xs.elem v.value)) := by
  simp [invoke, retainValues]

theorem C12_filterArgs : invoke (.filterArgs e) c = invoke (.filter c.args e) c := by simp [invoke]
theorem C12_filterParts : invoke (.filterParts e) c = invoke (.filter c.parts e) c := by simp [invoke]

/-- `Suffix` alters only the inserted text -/
theorem C12_suffix (s : Str) :
    (invoke (.sfx s e) c).1 = (invoke e c).1 ∧
    (invoke (.sfx s e) c).2 = (invoke e c).2.map (fun v => { v with value := v.value ++ s }) := by
  simp [invoke, mapValues]

theorem C12_suffix_display (s : Str) :
    (invoke (.sfx s e) c).2.map (·.display) = (invoke e c).2.map (·.display) := by
  simp [invoke, mapValues, List.map_map, Function.comp_def]

/-- **the Prefix law**: `p+x` is completed as `p` + completion of `x` (case sensitive matching) -/
theorem C12_prefix_law (p x : Str) (hci : c.ci = false) :
    invoke (.pfx p e) { c with value := p ++ x } =
      mapValues (fun v => { v with value := p ++ v.value }) (invoke e { c with value := x }) := by
  have h1 : matchHasPrefix false (p ++ x) p = true := by
    simp only [matchHasPrefix, Bool.false_eq_true, if_false]
    induction p with
    | nil => simp [Str.hasPrefix]
    | cons d p ih => simp [Str.hasPrefix, ih]
  have h2 : Utf8.dropBytesLossy (Utf8.byteLen p) (p ++ x) = x := Utf8.dropBytesLossy_append p x
  simp only [invoke, hci, h1, if_true, matchTrimPrefix, h2]

/-- an incompatible typed word offers nothing -/
theorem C12_prefix_incompatible (p : Str)
    (h1 : matchHasPrefix c.ci c.value p = false) (h2 : matchHasPrefix c.ci p c.value = false) :
    invoke (.pfx p e) c = ({}, []) := by
  simp [invoke, h1, h2]

/-- `Prefix` never touches the display -/
theorem C12_prefix_display (p : Str) (h : matchHasPrefix c.ci c.value p = true) :
    (invoke (.pfx p e) c).2.map (·.display) =
      (invoke e { c with value := matchTrimPrefix c.ci c.value p }).2.map (·.display) := by
  simp [invoke, h, mapValues, List.map_map, Function.comp_def]

/-- `Style` / `Tag` affect only style / tag -/
theorem C12_style (s : Str) :
    invoke (.style s e) c = ((invoke e c).1, (invoke e c).2.map (fun v => { v with style := s })) := by
  simp [invoke, mapValues]

theorem C12_tag (t : Str) :
    invoke (.tag t e) c = ((invoke e c).1, (invoke e c).2.map (fun v => { v with tag := t })) := by
  simp [invoke, mapValues]

/-- `Usage`: the outer usage overrides the inner one; an empty usage changes nothing -/
theorem C12_usage (u : Str) :
    (invoke (.usage u e) c).2 = (invoke e c).2 ∧
    (invoke (.usage u e) c).1.usage = (if u.isEmpty then (invoke e c).1.usage else u) ∧
    (invoke (.usage u e) c).1.messages = (invoke e c).1.messages ∧
    (invoke (.usage u e) c).1.nospace = (invoke e c).1.nospace := by
  simp [invoke, Meta.merge, mergeMsgs, SuffixMatcher.merge]

theorem C12_usage_outer_overrides (u1 u2 : Str) (h : u2 ≠ []) :
    (invoke (.usage u2 (.usage u1 e)) c).1.usage = u2 := by
  have : u2.isEmpty = false := by cases u2 with | nil => exact absurd rfl h | cons _ _ => rfl
  simp [invoke, Meta.merge, this]

/-- `NoSpace` affects only the no-space set -/
theorem C12_nospace (chars : Str) :
    (invoke (.nospace chars e) c).2 = (invoke e c).2 ∧
    (invoke (.nospace chars e) c).1.usage = (invoke e c).1.usage ∧
    (invoke (.nospace chars e) c).1.messages = (invoke e c).1.messages := by
  simp [invoke, Meta.merge, mergeMsgs]

/-- `Suppress` removes the matching messages, and only those -/
theorem C12_suppress (lit : Str) :
    (invoke (.suppress lit e) c).2 = (invoke e c).2 ∧
    (invoke (.suppress lit e) c).1.messages = (invoke e c).1.messages.filter (fun m => !Str.contains m lit) ∧
    (invoke (.suppress lit e) c).1.nospace = (invoke e c).1.nospace ∧
    (invoke (.suppress lit e) c).1.usage = (invoke e c).1.usage := by
  simp [invoke]

/-- `Unless` affects only emptiness -/
theorem C12_unless (b : Bool) : invoke (.unless b e) c = if b then ({}, []) else invoke e c := by
  cases b <;> simp [invoke]

/-- `TagF` / `StyleF` with a function of the value: exactly the tag / style changes, to the function's result on the candidate's own value -/
theorem C12_tagF : invoke (.tagF e) c = ((invoke e c).1, (invoke e c).2.map (fun v => { v with tag := tagOfValue v.value })) := by
  simp [invoke, mapValues]

theorem C12_styleF : invoke (.styleF e) c = ((invoke e c).1, (invoke e c).2.map (fun v => { v with style := styleOfValue v.value })) := by
  simp [invoke, mapValues]

/-- `UnlessF`: nothing when the condition holds for the Context, the untouched action otherwise -/
theorem C12_unlessF (t : Test) : invoke (.unlessF t e) c = if t.eval c then ({}, []) else invoke e c := by
  simp [invoke]

/-- `Shift` affects only the args -/
theorem C12_shift (n : Nat) : invoke (.shift n e) c = invoke e { c with args := c.args.drop n } := by
  have : ¬ ((n : Int) < 0) := by omega
  simp [invoke, this]

/-- edits a callback makes to its Context reach exactly the actions beneath it -/
theorem C12_withCtx (edits : List Edit) : invoke (.withCtx edits e) c = invoke e (edits.foldl Edit.apply c) := by
  simp [invoke]

/-- ActionMultiPartsN: every candidate is the untouched completed parts followed by the callback's
    candidate, and the callback sees exactly the derived Context -/
theorem C12_multiPartsN_frame (sep : Str) (n : Int) (h0 : n ≠ 0) (h1 : n ≠ 1) :
    (invoke (.multiPartsN sep n e) c).2 =
      (invoke e (multiPartsNCtx sep n c).2).2.map (fun v => { v with value := (multiPartsNCtx sep n c).1 ++ v.value }) := by
  simp [invoke, h0, h1, multiPartsNWith]

/-- the completed parts of a non-empty separator are rebuilt from the typed text itself -/
theorem C12_multiPartsN_parts (sep : Str) (n : Int) (hs : sep ≠ []) (h : (splitN c.value sep n).length > 1) :
    (multiPartsNCtx sep n c).1 = Str.join sep (splitN c.value sep n).dropLast ++ sep ∧
    (multiPartsNCtx sep n c).2.parts = (splitN c.value sep n).dropLast := by
  have : sep.isEmpty = false := by cases sep with | nil => exact absurd rfl hs | cons _ _ => rfl
  simp [multiPartsNCtx, this, h]

/-- `UniqueList` never offers an item that is already one of the completed parts -/
theorem C12_uniqueList (div : Str) :
    ∀ v ∈ (invoke (.uniqueList div e) c).2,
      ∃ w ∈ (invoke e (multiPartsNCtx div (-1) c).2).2,
        w.value ∉ (multiPartsNCtx div (-1) c).2.parts ∧ v.value = (multiPartsNCtx div (-1) c).1 ++ w.value := by
  intro v hv
  simp only [invoke, multiPartsNWith, List.mem_map, filterValues, List.mem_filter] at hv
  obtain ⟨w, ⟨hw, hnot⟩, rfl⟩ := hv
  refine ⟨w, hw, ?_, rfl⟩
  simpa using hnot

/-- **false of the pinned code**: `MultiParts` builds a fresh Action and drops the inner usage,
    no-space set and messages (finding `multiparts_drops_meta`) -/
theorem C12_multiParts_counterexample :
    (invoke (.multiParts [['/']] (.usage "u".toList (.message "boom".toList))) {}).1 = { nospace := ['/'] } := by
  decide

end Carapace.Props.C12
