/-
  C10 — every loop over a Go map in the library is one that was reviewed for independence of the iteration order.
  `Gen/MapRanges.lean` is regenerated from /repo on every run (extract/mapranges.go: file, function, ranged expression,
  digest of the whole loop); `C10Maps.lean` is the inventory the review was made for (DESIGN.md 13.5: per loop, why the
  order cannot reach the output - keys collected and sorted, a map filled from a map, an all/any test, distinct keys
  sorted by a total order downstream, test support).  A new loop over a map, or a change of what an existing one does,
  breaks `C10_map_ranges_covered`; the check then searches with the repetition runs of op `repeat`.
-/
import Carapace.Gen.MapRanges
import Carapace.Props.C10Maps

namespace Carapace.Props.C10

theorem C10_map_ranges_covered : Gen.mapRanges = expectedMapRanges := by decide +kernel

/-- the review covers nineteen loops -/
theorem C10_map_ranges_count : expectedMapRanges.length = 19 := by decide

end Carapace.Props.C10
