/-
  C13 — the whole export document round-trips: what the decoder of `Model/ExportDecode.lean`
  reads from the text written by `marshalExport` is the document that was written (values in
  the order of the wire, i.e. sorted by value), for any text in any field, any number of
  values and messages, with the `omitempty` fields present or absent.
-/
import Carapace.Model.ExportDecode
import Carapace.Props.C13
import Carapace.Gen.CharSets
import Carapace.Lemmas.Sort

namespace Carapace.Props.C13
open Carapace Carapace.Model

/-! ### the layout the model writes is the layout of the source (regenerated on every run)

  `marshalRawValue` / `marshalExport` / `parseExport` were written for these json tags, this field
  order, these `omitempty` marks, the sort by value before `json.Marshal`, and `json.Unmarshal` on
  the reading side.  A change of any of them in /repo changes the regenerated lists and breaks
  these obligations. -/

theorem rawValue_tags : Gen.json_tags_common_RawValue =
    ["Value value".toList, "Display display".toList, "Description description,omitempty".toList,
     "Style style,omitempty".toList, "Tag tag,omitempty".toList, "Uid uid,omitempty".toList] := by decide
theorem meta_tags : Gen.json_tags_common_Meta =
    ["Messages messages".toList, "Nospace nospace".toList, "Usage usage".toList] := by decide
theorem export_tags : Gen.json_tags_export_Export =
    ["Version version".toList, "embedded:common.Meta".toList, "Values values".toList] := by decide
theorem export_wire_tags : Gen.json_tags_export_anon1 = Gen.json_tags_export_Export := by decide
theorem marshal_calls : Gen.export_MarshalJSON_calls =
    ["sort.Sort".toList, "common.ByValue".toList, "json.Marshal".toList, "version".toList] := by decide
theorem import_calls : Gen.carapace_ActionImport_calls =
    ["ActionCallback".toList, "json.Unmarshal".toList, "ActionMessage".toList, "err.Error".toList] := by decide

/-! ### one string literal, with text behind it -/

theorem run_done_cons (c : Char) (s : Str) : jsonReader.run .done (c :: s) = none := by
  simp [Reader.run, jsonReader, jsonStep]

theorem readLit_of_run (a : Str) : ∀ (m : JMode) (o acc : List Out) (rest : Str),
    m ≠ .done → jsonReader.run m a = some (.done, o) → readLit m (a ++ rest) acc = some (acc ++ o, rest) := by
  induction a with
  | nil =>
    intro m o acc rest hm h
    simp [Reader.run] at h
    exact absurd h.1 hm
  | cons c a ih =>
    intro m o acc rest hm h
    simp only [Reader.run] at h
    simp only [List.cons_append, readLit, hm, if_false]
    cases hs : jsonReader.step m c with
    | none => rw [hs] at h; simp at h
    | some p =>
      obtain ⟨m1, o1⟩ := p
      simp only [hs] at h
      have hs' : jsonStep m c = some (m1, o1) := hs
      simp only [hs']
      cases hr : jsonReader.run m1 a with
      | none => simp [hr] at h
      | some q =>
        obtain ⟨m2, o2⟩ := q
        simp only [hr, Option.some.injEq, Prod.mk.injEq] at h
        obtain ⟨h2, ho⟩ := h
        subst h2
        by_cases hd : m1 = .done
        · subst hd
          cases a with
          | nil =>
            simp [Reader.run] at hr
            subst hr ho
            cases rest <;> simp [readLit]
          | cons d a => rw [run_done_cons] at hr; simp at hr
        · rw [ih m1 o2 (acc ++ o1) rest hd hr, ← ho, List.append_assoc]

theorem run_encodeString (s : Str) :
    jsonReader.run .start (jsonEncodeString s) = some (.done, s.map Out.lit) := by
  have h1 : jsonReader.run .start ['"'] = some (.normal, []) := by decide
  have h2 : jsonReader.run .normal (jsonEncodeBody s) = some (.normal, s.map Out.lit) :=
    Reader.run_flatMap jsonReader .normal jsonEncodeChar (fun _ => True) (fun c _ => json_char_all c) s (fun _ _ => trivial)
  have h3 : jsonReader.run .normal ['"'] = some (.done, []) := by decide
  have h := Reader.run_append_of jsonReader h1 (Reader.run_append_of jsonReader h2 h3)
  unfold jsonEncodeString
  rw [List.append_assoc, h]; simp

/-- a string literal is read back exactly, and the reader stops right behind its closing quote -/
theorem parseString_encode (s rest : Str) : parseString (jsonEncodeString s ++ rest) = some (s, rest) := by
  unfold parseString
  rw [readLit_of_run (jsonEncodeString s) .start (s.map Out.lit) [] rest (by decide) (run_encodeString s)]
  simp [litsOf_map_lit]

/-! ### punctuation -/

theorem hasPrefix_append (l r : Str) : Str.hasPrefix (l ++ r) l = true := by
  induction l with
  | nil => cases r <;> rfl
  | cons c l ih => simp [Str.hasPrefix, ih]

theorem expect_append (l r : Str) : expect l (l ++ r) = some r := by
  simp [expect, hasPrefix_append]

/-! ### arrays -/

theorem join_cons (a : Str) (xs : List Str) :
    Str.join [','] (a :: xs) = a ++ xs.flatMap (fun x => ',' :: x) := by
  induction xs generalizing a with
  | nil => simp [Str.join]
  | cons b xs ih => simp only [Str.join, ih b, List.flatMap_cons]; simp

/-- elements that are read back with any text behind them are read back as a list -/
theorem parseElems_encode {α : Type} (elem : Str → Option (α × Str)) (enc : α → Str)
    (h : ∀ x rest, elem (enc x ++ rest) = some (x, rest)) :
    ∀ (xs : List α) (x : α) (n : Nat) (rest : Str), xs.length < n →
      parseElems elem n (enc x ++ (xs.flatMap (fun y => ',' :: enc y)) ++ ']' :: rest) = some (x :: xs, rest) := by
  intro xs
  induction xs with
  | nil =>
    intro x n rest hn
    cases n with
    | zero => omega
    | succ n => simp [parseElems, h]
  | cons y ys ih =>
    intro x n rest hn
    cases n with
    | zero => simp at hn
    | succ n =>
      have hlen : ys.length < n := by simp at hn; omega
      have := ih y n rest hlen
      simp only [List.flatMap_cons, List.append_assoc, List.cons_append] at this ⊢
      simp only [parseElems, h]
      rw [this]

theorem length_le_flatMap {α : Type} (enc : α → Str) (xs : List α) :
    xs.length ≤ (xs.flatMap (fun y => ',' :: enc y)).length := by
  induction xs with
  | nil => simp
  | cons x xs ih => simp only [List.flatMap_cons, List.length_append, List.length_cons]; omega

theorem parseArray_encode {α : Type} (elem : Str → Option (α × Str)) (enc : α → Str)
    (h : ∀ x rest, elem (enc x ++ rest) = some (x, rest)) (hne : ∀ x, ∃ c r, enc x = c :: r ∧ c ≠ ']')
    (xs : List α) (rest : Str) :
    parseArray elem (jsonArray (xs.map enc) ++ rest) = some (xs, rest) := by
  cases xs with
  | nil => simp [jsonArray, Str.join, parseArray]
  | cons x xs =>
    obtain ⟨c, r, hc, hne'⟩ := hne x
    have e : jsonArray ((x :: xs).map enc) ++ rest
        = '[' :: (enc x ++ (xs.flatMap (fun y => ',' :: enc y)) ++ ']' :: rest) := by
      simp [jsonArray, join_cons, List.flatMap_map]
    rw [e]
    have hp := parseElems_encode elem enc h xs x
      ('[' :: (enc x ++ (xs.flatMap (fun y => ',' :: enc y)) ++ ']' :: rest)).length rest
      (by have := length_le_flatMap enc xs; simp only [List.length_cons, List.length_append]; omega)
    rw [hc] at hp ⊢
    simp only [List.cons_append] at hp ⊢
    unfold parseArray
    split
    · rename_i heq; simp at heq; exact absurd heq.1 hne'
    · rename_i heq; simp only [List.cons.injEq, true_and] at heq; subst heq; exact hp
    · rename_i h1 h2; exact absurd rfl (h2 _)

/-! ### one candidate -/

/-- what an `omitempty` field contributes to the text -/
def optText (name s : Str) : Str := if s.isEmpty then [] else optPre name ++ jsonEncodeString s

theorem parseOptField_encode (name s rest : Str) (hrest : expect (optPre name) rest = none) :
    parseOptField name (optText name s ++ rest) = some (s, rest) := by
  unfold optText parseOptField
  cases s with
  | nil => simp [hrest]
  | cons c s => simp [List.append_assoc, expect_append, parseString_encode]

theorem pre_description : optPre "description".toList = ",\"description\":".toList := by decide
theorem pre_style : optPre "style".toList = ",\"style\":".toList := by decide
theorem pre_tag : optPre "tag".toList = ",\"tag\":".toList := by decide
theorem pre_uid : optPre "uid".toList = ",\"uid\":".toList := by decide

theorem encodeString_cons (s : Str) : ∃ r, jsonEncodeString s = '"' :: r := ⟨_, rfl⟩

/-- behind an optional field comes another optional field with a different name, or `}` -/
theorem no_desc_style (s x : Str) (h : expect (optPre "description".toList) x = none) :
    expect (optPre "description".toList) (optText "style".toList s ++ x) = none := by
  unfold optText; cases s with
  | nil => simpa using h
  | cons c s => rw [pre_description, pre_style]; simp [expect, Str.hasPrefix]
theorem no_desc_tag (s x : Str) (h : expect (optPre "description".toList) x = none) :
    expect (optPre "description".toList) (optText "tag".toList s ++ x) = none := by
  unfold optText; cases s with
  | nil => simpa using h
  | cons c s => rw [pre_description, pre_tag]; simp [expect, Str.hasPrefix]
theorem no_desc_uid (s x : Str) (h : expect (optPre "description".toList) x = none) :
    expect (optPre "description".toList) (optText "uid".toList s ++ x) = none := by
  unfold optText; cases s with
  | nil => simpa using h
  | cons c s => rw [pre_description, pre_uid]; simp [expect, Str.hasPrefix]
theorem no_style_tag (s x : Str) (h : expect (optPre "style".toList) x = none) :
    expect (optPre "style".toList) (optText "tag".toList s ++ x) = none := by
  unfold optText; cases s with
  | nil => simpa using h
  | cons c s => rw [pre_style, pre_tag]; simp [expect, Str.hasPrefix]
theorem no_style_uid (s x : Str) (h : expect (optPre "style".toList) x = none) :
    expect (optPre "style".toList) (optText "uid".toList s ++ x) = none := by
  unfold optText; cases s with
  | nil => simpa using h
  | cons c s => rw [pre_style, pre_uid]; simp [expect, Str.hasPrefix]
theorem no_tag_uid (s x : Str) (h : expect (optPre "tag".toList) x = none) :
    expect (optPre "tag".toList) (optText "uid".toList s ++ x) = none := by
  unfold optText; cases s with
  | nil => simpa using h
  | cons c s => rw [pre_tag, pre_uid]; simp [expect, Str.hasPrefix]

theorem no_pre_brace (name rest : Str) : expect (optPre name) (['}'] ++ rest) = none := by
  simp [expect, optPre, Str.hasPrefix]

/-- the text of one candidate, field by field -/
theorem marshalRawValue_eq (v : RawValue) :
    marshalRawValue v = objPre "value".toList ++ jsonEncodeString v.value
      ++ optPre "display".toList ++ jsonEncodeString v.display
      ++ optText "description".toList v.description ++ optText "style".toList v.style
      ++ optText "tag".toList v.tag ++ optText "uid".toList v.uid ++ ['}'] := by
  unfold marshalRawValue jsonObject
  simp only [List.cons_append, join_cons, jsonField, optText, optPre, objPre]
  cases v.description <;> cases v.style <;> cases v.tag <;> cases v.uid <;> simp

/-- **C13 (one candidate).** Every field of a candidate - value, display and the four optional
    ones, empty or not - is read back unchanged, whatever follows it in the document. -/
theorem parseRawValue_encode (v : RawValue) (rest : Str) :
    parseRawValue (marshalRawValue v ++ rest) = some (v, rest) := by
  rw [marshalRawValue_eq]
  unfold parseRawValue
  simp only [List.append_assoc]
  rw [expect_append]; simp only
  rw [parseString_encode]; simp only
  rw [expect_append]; simp only
  rw [parseString_encode]; simp only
  rw [parseOptField_encode _ _ _ (no_desc_style _ _ (no_desc_tag _ _ (no_desc_uid _ _ (no_pre_brace _ _))))]
  simp only
  rw [parseOptField_encode _ _ _ (no_style_tag _ _ (no_style_uid _ _ (no_pre_brace _ _)))]
  simp only
  rw [parseOptField_encode _ _ _ (no_tag_uid _ _ (no_pre_brace _ _))]
  simp only
  rw [parseOptField_encode _ _ _ (no_pre_brace _ _)]
  simp

/-! ### the document -/

/-- the values as they travel: sorted by value (`sort.Sort(ByValue)` in `MarshalJSON`) -/
def wireValues (vs : Option (List RawValue)) : Option (List RawValue) :=
  vs.map (sortBy (fun a b => Str.lt a.value b.value))

theorem marshalRawValue_head (v : RawValue) : ∃ c r, marshalRawValue v = c :: r ∧ c ≠ ']' :=
  ⟨'{', _, by rw [marshalRawValue_eq]; rfl, by decide⟩

theorem parseValues_encode (vs : Option (List RawValue)) (rest : Str) :
    parseValues ((match vs with
        | none => "null".toList
        | some vs => jsonArray ((sortBy (fun a b => Str.lt a.value b.value) vs).map marshalRawValue)) ++ rest)
      = some (wireValues vs, rest) := by
  cases vs with
  | none => simp [parseValues, expect, Str.hasPrefix, wireValues]
  | some vs =>
    simp only [parseValues]
    rw [show expect "null".toList (jsonArray ((sortBy (fun a b => Str.lt a.value b.value) vs).map marshalRawValue) ++ rest) = none from by
      simp [expect, jsonArray, Str.hasPrefix]]
    simp only
    rw [parseArray_encode parseRawValue marshalRawValue parseRawValue_encode marshalRawValue_head]
    simp [wireValues]

/-- **C13 (document round trip).** For any version string, any messages, no-space characters,
    usage text and any list of candidates (or none): decoding the exported text yields exactly
    what was exported, the candidates in wire order. Nothing is lost, added, merged or moved
    between fields, whatever characters the fields contain. -/
theorem C13_document_roundtrip (version : Str) (m : Meta) (vs : Option (List RawValue)) :
    parseExport (marshalExport version m vs)
      = some { version := version, messages := m.messages, nospace := m.nospace, usage := m.usage,
               values := wireValues vs } := by
  have e : marshalExport version m vs
      = objPre "version".toList ++ (jsonEncodeString version
        ++ (optPre "messages".toList ++ (jsonArray (m.messages.map jsonEncodeString)
        ++ (optPre "nospace".toList ++ (jsonEncodeString m.nospace
        ++ (optPre "usage".toList ++ (jsonEncodeString m.usage
        ++ (optPre "values".toList ++ ((match vs with
            | none => "null".toList
            | some vs => jsonArray ((sortBy (fun a b => Str.lt a.value b.value) vs).map marshalRawValue)) ++ ['}']))))))))) := by
    unfold marshalExport jsonObject
    simp only [join_cons, jsonField, List.flatMap_cons, List.flatMap_nil, List.append_nil, objPre, optPre]
    cases vs <;> simp
  rw [e]
  unfold parseExport
  rw [expect_append]; simp only
  rw [parseString_encode]; simp only
  rw [expect_append]; simp only
  rw [parseArray_encode parseString jsonEncodeString parseString_encode (fun x => ⟨'"', _, rfl, by decide⟩)]
  simp only
  rw [expect_append]; simp only
  rw [parseString_encode]; simp only
  rw [expect_append]; simp only
  rw [parseString_encode]; simp only
  rw [expect_append]; simp only
  rw [parseValues_encode]
  rfl

/-- the decoder accepts nothing shorter: a document cut anywhere before its last character is rejected
    for this example (the general statement is searched on the real decoder, op `import`) -/
example : ((List.range ((marshalExport "v".toList {} (some [{ value := "a".toList, display := "a".toList }])).length)).all
    (fun n => (parseExport ((marshalExport "v".toList {} (some [{ value := "a".toList, display := "a".toList }])).take n)).isNone)) = true := by
  decide

/-- non-vacuity: a document with awkward text in every field, optional fields present and absent -/
example : parseExport (marshalExport "v1".toList
    { messages := ["a\"b".toList, "}]".toList], nospace := "*".toList, usage := "<u>".toList }
    (some [{ value := "b\",\"display\":\"x".toList, display := "}".toList, tag := "t".toList },
           { value := "a".toList, display := "".toList, description := "d\n".toList, uid := "u".toList }]))
  = some { version := "v1".toList, messages := ["a\"b".toList, "}]".toList], nospace := "*".toList, usage := "<u>".toList,
           values := some [{ value := "a".toList, display := "".toList, description := "d\n".toList, uid := "u".toList },
                           { value := "b\",\"display\":\"x".toList, display := "}".toList, tag := "t".toList }] } := by
  rw [C13_document_roundtrip]; decide

/-- **nothing lost, nothing added, nothing merged**: the candidates the reading side holds are the exported ones up
    to order (a permutation: every candidate with all six fields, as often as it was exported), and messages, no-space
    characters and usage are the exported ones - for the `export` wire format this is also C04's "one intact record per
    candidate" and the well-formedness half of C18 -/
theorem C13_candidates_perm (version : Str) (m : Meta) (vs : List RawValue) :
    ∃ d, parseExport (marshalExport version m (some vs)) = some d ∧
      (∃ ws, d.values = some ws ∧ ws.Perm vs) ∧ d.messages = m.messages ∧ d.nospace = m.nospace ∧ d.usage = m.usage := by
  refine ⟨_, C13_document_roundtrip version m (some vs), ⟨_, rfl, ?_⟩, rfl, rfl, rfl⟩
  exact sortBy_perm _ vs

/-- **different completions never share a document**: equal texts were written for the same version, messages, no-space
    characters, usage and (up to order) the same candidates -/
theorem C13_export_injective (v v' : Str) (m m' : Meta) (vs vs' : Option (List RawValue))
    (h : marshalExport v m vs = marshalExport v' m' vs') :
    v = v' ∧ m.messages = m'.messages ∧ m.nospace = m'.nospace ∧ m.usage = m'.usage ∧ wireValues vs = wireValues vs' := by
  have h1 := C13_document_roundtrip v m vs
  have h2 := C13_document_roundtrip v' m' vs'
  rw [h, h2] at h1
  have := Option.some.inj h1
  simp only [ExportDoc.mk.injEq] at this
  exact ⟨this.1.symm, this.2.1.symm, this.2.2.1.symm, this.2.2.2.1.symm, this.2.2.2.2.symm⟩

end Carapace.Props.C13
