/-
  C17 — Split completes the last word of an embedded line and keeps the rest intact.
  Theorems about the quoting step of the model (`splitQuote`): for candidate values made of word
  characters and blanks, the text appended after the untouched prefix reads back - by the POSIX
  style reader the lexer implements - as exactly the value, in each of the three quoting styles.
-/
import Carapace.Model.Split
import Carapace.Spec.Reader.Posix
import Carapace.Lemmas.Sanitizer

namespace Carapace.Props.C17
open Carapace Carapace.Model Carapace.Spec

abbrev B : Reader Posix.Mode := Posix.reader Posix.bash

/-- "word characters and blanks": plain for the reader, or the blank -/
def WordOrBlank (c : Char) : Prop := Posix.cls c = .plain ∨ c = ' '

theorem cls_blank : Posix.cls ' ' = .blank := by decide

/-- unquoted style: blanks are escaped with a backslash -/
theorem unq_char (c : Char) (h : WordOrBlank c) :
    B.run .mid (if c = ' ' then ['\\', ' '] else [c]) = some (.mid, [Out.lit c]) := by
  rcases h with h | h
  · have hne : c ≠ ' ' := by intro e; rw [e, cls_blank] at h; exact absurd h (by decide)
    simp [hne, Reader.run, Posix.reader, Posix.step, Posix.stepUnq, h]
  · subst h; decide

theorem C17_unquoted (v : Str) (hv : ∀ c ∈ v, WordOrBlank c) :
    B.run .mid (replaceChar ' ' ['\\', ' '] v) = some (.mid, v.map Out.lit) :=
  Reader.run_flatMap B .mid _ WordOrBlank (fun c hc => unq_char c hc) v hv

/-- inside double quotes word characters and blanks are literal -/
theorem dq_char (c : Char) (h : WordOrBlank c) :
    B.run .dq (if c = '"' then ['\\', '"'] else [c]) = some (.dq, [Out.lit c]) := by
  rcases h with h | h
  · have hne : c ≠ '"' := by intro e; rw [e] at h; exact absurd h (by decide)
    simp [hne, Reader.run, Posix.reader, Posix.step, h]
  · subst h; decide

/-- **open double quote**: `"` + value + `"` reads back as the value -/
theorem C17_dquote (v : Str) (hv : ∀ c ∈ v, WordOrBlank c) :
    B.run .dq (replaceChar '"' ['\\', '"'] v ++ ['"']) = some (.mid, v.map Out.lit) := by
  have h1 : B.run .dq (replaceChar '"' ['\\', '"'] v) = some (.dq, v.map Out.lit) :=
    Reader.run_flatMap B .dq _ WordOrBlank (fun c hc => dq_char c hc) v hv
  have h2 : B.run .dq ['"'] = some (.mid, []) := by decide
  simpa using Reader.run_append_of B h1 h2

/-- inside single quotes everything but the quote is literal -/
theorem sq_char (c : Char) (h : WordOrBlank c) :
    B.run .sq (if c = '\'' then "'\"'\"'".toList else [c]) = some (.sq, [Out.lit c]) := by
  rcases h with h | h
  · have hne : c ≠ '\'' := by intro e; rw [e] at h; exact absurd h (by decide)
    have hq : ¬ Posix.cls c = .squote := by rw [h]; decide
    simp [hne, Reader.run, Posix.reader, Posix.step, hq]
  · subst h; decide

/-- **open single quote** -/
theorem C17_squote (v : Str) (hv : ∀ c ∈ v, WordOrBlank c) :
    B.run .sq (replaceChar '\'' "'\"'\"'".toList v ++ ['\'']) = some (.mid, v.map Out.lit) := by
  have h1 : B.run .sq (replaceChar '\'' "'\"'\"'".toList v) = some (.sq, v.map Out.lit) :=
    Reader.run_flatMap B .sq _ WordOrBlank (fun c hc => sq_char c hc) v hv
  have h2 : B.run .sq ['\''] = some (.mid, []) := by decide
  simpa using Reader.run_append_of B h1 h2

/-- every candidate is the prefix followed by the quoted value (by construction of the model):
    the typed text in front of the last word is never rewritten - as far as `takeBytesLossy` at the
    lexer's index is that text (false for non-ASCII text in front: finding `split_rune_byte_index`) -/
theorem C17_prefix_preserved (lex : Lex) (text : Str) (vals : List Str) (ns : SuffixMatcher) :
    ∀ cand ∈ splitModel lex text vals ns, ∃ r, cand = Utf8.takeBytesLossy lex.wordsCurIndex text ++ r := by
  intro cand hc
  simp only [splitModel, List.mem_map] at hc
  obtain ⟨v, _, rfl⟩ := hc
  exact ⟨_, rfl⟩

/-- the rune index of the lexer is used as a byte offset: `é a`, last word at rune 2, cuts the
    `é` in half (finding `split_rune_byte_index`) -/
theorem C17_rune_byte_counterexample :
    Utf8.takeBytesLossy 2 "é a".toList = "é".toList := by decide

/-- a blank follows unless no-space applies -/
theorem C17_space (state : String) (ns : SuffixMatcher) (v : Str) :
    (splitQuote state ns v).getLast? = some ' ' ∨ SuffixMatcher.matchesStr ns v = true := by
  by_cases h : SuffixMatcher.matchesStr ns v = true
  · exact Or.inr h
  · left; simp [splitQuote, h]

end Carapace.Props.C17
