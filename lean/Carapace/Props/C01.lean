/-
  C01 — completion targets the slot the program's own parser will fill.
  Stage 1 of DESIGN.md (C01): carapace's own reading of a flag word (`LookupArg` + `Consumes`)
  agrees with the program's parser on *whether the next word is that flag's value* - the decision
  that selects the "flag value" slot.  The remaining stages (single-command simulation, descent
  into sub-commands) are not proved: they are decided by the marker/landing oracle on the real
  code (see the manifest and DESIGN.md).
-/
import Carapace.Model.PflagFork
import Carapace.Lemmas.Framing

namespace Carapace.Props.C01
open Carapace Carapace.Model

/-- flags that take no value always have a default (bool: "true", count: "+1") -/
def WellFormed (fs : FlagSet) : Prop := ∀ f ∈ fs, f.takesValue = false → f.noOptDef = true

theorem lookupShort_mem {fs : FlagSet} {c : Char} {f : FlagDef} (h : lookupShort fs c = some f) : f ∈ fs :=
  List.mem_of_find?_eq_some h

/-- **stage 1 (shorthand chains).** For a POSIX flag set in which no flag uses `=` as its shorthand
    (the hypothesis the proof forces: `-a=` with a bool `a` makes pflag look up the shorthand `=`,
    carapace treats `=` as the delimiter), and a chain the parser does not reject: carapace expects
    the next word to be the value of flag `f` exactly when the parser will take it as `f`'s value. -/
theorem C01_short_agrees (fs : FlagSet) (hwf : WellFormed fs) (heq : lookupShort fs '=' = none) :
    ∀ (cs pre : Str), pflagShort fs cs ≠ .err →
      ((lookupPosixShort fs pre cs).bind (fun fd => if consumes fd then some fd.flag else none)) =
        (match pflagShort fs cs with | .pending f => some f | _ => none) := by
  intro cs
  induction cs with
  | nil => intro pre _; simp [lookupPosixShort, pflagShort]
  | cons c rest ih =>
    intro pre hne
    cases hl : lookupShort fs c with
    | none => simp [pflagShort, hl] at hne
    | some f =>
      have hf : f ∈ fs := lookupShort_mem hl
      cases rest with
      | nil =>
        simp only [lookupPosixShort, pflagShort, hl]
        by_cases hn : f.noOptDef = true
        · simp [consumes, hn]
        · have hn' : f.noOptDef = false := by simpa using hn
          have ht : f.takesValue = true := by
            cases htv : f.takesValue with
            | true => rfl
            | false =>
              have := hwf f hf htv
              rw [this] at hn'; exact absurd hn' (by simp)
          simp [consumes, hn', ht]
      | cons d r2 =>
        rw [pflagShort] at hne
        rw [lookupPosixShort, pflagShort]
        simp only [hl] at hne ⊢
        by_cases hd : d = '='
        · subst hd
          by_cases hr : r2 = []
          · subst hr
            simp only [ne_eq, not_true_eq_false, and_false, if_false, if_true] at hne ⊢
            by_cases hn : f.noOptDef = true
            · -- the parser goes on with the letter `=`: rejected, excluded by the hypothesis
              simp only [hn, if_true] at hne
              rw [pflagShort] at hne
              simp [heq] at hne
            · simp [consumes, hn]
          · simp [hr, consumes]
        · simp only [hd, false_and, if_false] at hne ⊢
          by_cases hn : f.noOptDef = true
          · simp only [hn, Bool.not_true, Bool.false_eq_true, if_false, if_true] at hne ⊢
            exact ih (pre ++ [c]) hne
          · simp [hn, consumes]

/-- the hypothesis is needed: with a bool flag `a` and a flag whose shorthand is `=`, the word `-a=`
    is accepted by the parser (both flags set) while carapace reads `=` as the delimiter of `a` -/
theorem C01_eq_shorthand_counterexample :
    let fs : FlagSet := [{ name := "all".toList, short := some 'a', noOptDef := true, takesValue := false },
                         { name := "eq".toList, short := some '=', noOptDef := false, takesValue := true }]
    pflagShort fs "a=".toList = .pending { name := "eq".toList, short := some '=', noOptDef := false, takesValue := true } ∧
    ((lookupPosixShort fs ['-'] "a=".toList).map (fun fd => (fd.flag.name, fd.args))) = some ("all".toList, [[]]) := by
  decide

/-- non-vacuity: an ordinary flag set meets the hypotheses, and the chain `-vn` is pending on `n` -/
example :
    let fs : FlagSet := [{ name := "verbose".toList, short := some 'v', noOptDef := true, takesValue := false },
                         { name := "name".toList, short := some 'n' }]
    WellFormed fs ∧ lookupShort fs '=' = none ∧ pflagShort fs "vn".toList = .pending { name := "name".toList, short := some 'n' } := by
  refine ⟨?_, by decide, by decide⟩
  intro f hf ht
  simp only [List.mem_cons, List.mem_nil_iff, or_false] at hf
  rcases hf with rfl | rfl
  · rfl
  · simp at ht

/-- long form: `--name=value` carries its value, `--name` of a value flag waits for the next word -/
theorem C01_long_attached (fs : FlagSet) (n v : Str) (f : FlagDef) (hn : '=' ∉ n) (hl : lookupLong fs n = some f) :
    lookupPosixLong fs (n ++ '=' :: v) = some ⟨f, "--".toList ++ n ++ ['='], [v]⟩ ∧
    lookupPosixLong fs n = some ⟨f, "--".toList ++ n, []⟩ := by
  have h1 : Str.cutChar '=' (n ++ '=' :: v) = (n, some v) := Str.cutChar_append '=' n v hn
  have h2 : Str.cutChar '=' n = (n, none) := Str.cutChar_no '=' n hn
  simp [lookupPosixLong, h1, h2, hl]

end Carapace.Props.C01
