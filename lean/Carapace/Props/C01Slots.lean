/-
  C01, stages 2-3 of DESIGN.md for a program with a single command: the slot the traverse model
  picks for the word under the cursor is the place where the program's own parser (specification
  Spec/Pflag.lean, tied to the real package by op `pflagparse`) puts a word typed there.
  The traverse model is tied to traverse.go by exact comparison of the served slot on every
  generated line (op `parse`), also for programs with sub-commands, which these theorems do not cover.
-/
import Carapace.Model.Traverse
import Carapace.Lemmas.PflagParse

namespace Carapace.Props.C01
open Carapace Carapace.Model Carapace.Spec

/-- command `c` of the program is `cs`, an ordinary command that parses its flags -/
structure Stay (t : TTree) (c : Nat) (cs : TCmd) : Prop where
  cmd : t[c]? = some cs
  name1 : (cs.name == "help".toList) = false
  name2 : (cs.name == "_carapace".toList) = false
  parses : cs.noFlagParse = false

/-- none of the words names a sub-command of command `c`: the line stays within that command -/
def NoChild (t : TTree) (c : Nat) (ws : List Str) : Prop := ∀ w ∈ ws, childNamed t c w = none

/-- a program that consists of one command which parses its flags -/
structure Single (t : TTree) (cs : TCmd) : Prop where
  tree : t = #[cs]
  root : cs.parent = none
  name1 : (cs.name == "help".toList) = false
  name2 : (cs.name == "_carapace".toList) = false
  parses : cs.noFlagParse = false

theorem childNamed_single {t : TTree} {cs : TCmd} (h : Single t cs) (w : Str) : childNamed t 0 w = none := by
  unfold childNamed
  have ht := h.tree
  subst ht
  split
  · rfl
  · simp [h.root]

theorem Single.stay {t : TTree} {cs : TCmd} (h : Single t cs) : Stay t 0 cs :=
  ⟨by rw [h.tree]; rfl, h.name1, h.name2, h.parses⟩

theorem Single.noChild {t : TTree} {cs : TCmd} (h : Single t cs) (ws : List Str) : NoChild t 0 ws :=
  fun w _ => childNamed_single h w

theorem noFlag_cases (cs : TCmd) (fs : FlagSet) (arg : Str) (inArgs : List Str) (nPos : Nat) (fl : Option Found) :
    let e : WordClass :=
      if (arg == "--".toList) = true then WordClass.dash
      else if (!cs.noFlagParse && Str.hasPrefix arg ['-'] && (cs.interspersed || nPos == 0)) = true then
        WordClass.next { inArgs := inArgs ++ [arg], nPos := nPos, inFlag := lookupArg fs arg }
      else WordClass.next { inArgs := inArgs ++ [arg], nPos := nPos + 1, inFlag := fl }
    e = .dash ∨ ∃ st', e = .next st' ∧ st'.inArgs = inArgs ++ [arg] := by
  intro e
  by_cases h1 : (arg == "--".toList) = true
  · left; simp only [e]; rw [if_pos h1]
  · right
    by_cases h2 : (!cs.noFlagParse && Str.hasPrefix arg ['-'] && (cs.interspersed || nPos == 0)) = true
    · refine ⟨{ inArgs := inArgs ++ [arg], nPos := nPos, inFlag := lookupArg fs arg }, ?_, rfl⟩
      simp only [e]; rw [if_neg h1, if_pos h2]
    · refine ⟨{ inArgs := inArgs ++ [arg], nPos := nPos + 1, inFlag := fl }, ?_, rfl⟩
      simp only [e]; rw [if_neg h1, if_neg h2]

/-- with a single command every earlier word is either the dash or goes on, appended to `inArgs` -/
theorem classify_single {t : TTree} {c : Nat} {cs : TCmd} (h : childNamed t c arg = none) (fs : FlagSet) (st : LoopState) :
    classify t c cs fs arg st = .dash ∨
    ∃ st', classify t c cs fs arg st = .next st' ∧ st'.inArgs = st.inArgs ++ [arg] := by
  obtain ⟨inArgs, nPos, inFlag⟩ := st
  unfold classify
  simp only [h]
  cases inFlag with
  | none => exact noFlag_cases cs fs arg inArgs nPos none
  | some fd =>
    simp only []
    by_cases hc : consumes fd = true
    · right
      refine ⟨{ inArgs := inArgs ++ [arg], nPos := nPos, inFlag := if consumes { fd with args := fd.args ++ [arg] } = true then some { fd with args := fd.args ++ [arg] } else none }, ?_, rfl⟩
      rw [if_pos hc]
    · rw [if_neg hc]
      exact noFlag_cases cs fs arg inArgs nPos (some fd)

/-- with a single command the loop never descends, and hands every earlier word to the parser -/
theorem loop_single {t : TTree} {c : Nat} {cs : TCmd} (fs : FlagSet) :
    ∀ (ws : List Str) (st : LoopState), NoChild t c ws →
      ∃ st' b, loop t c cs fs ws st = .done st' b ∧ st'.inArgs = st.inArgs ++ ws := by
  intro ws
  induction ws with
  | nil => intro st _; exact ⟨st, false, rfl, by simp⟩
  | cons arg rest ih =>
    intro st hnc
    have ih := fun st => ih st (fun w hw => hnc w (List.mem_cons_of_mem _ hw))
    rw [loop]
    rcases classify_single (cs := cs) (hnc arg (List.mem_cons_self ..)) fs st with hd | ⟨st', hn, hi⟩
    · simp only [hd]
      exact ⟨_, true, rfl, rfl⟩
    · simp only [hn]
      obtain ⟨st'', b, h1, h2⟩ := ih st'
      exact ⟨st'', b, h1, by rw [h2, hi, List.append_assoc]; rfl⟩

theorem isSeries_false {w : Str} (hw : Str.hasPrefix w ['-'] = false) : isShorthandSeries w = false := by
  cases w with
  | nil => rfl
  | cons c r =>
    have hc : c ≠ '-' := by
      intro e; subst e; simp [Str.hasPrefix] at hw
    cases r with
    | nil => simp [isShorthandSeries]
    | cons d r2 =>
      rw [isShorthandSeries]
      · intro c' r' e; exact hc (by cases e; rfl)

theorem seriesFix_plain (fs : FlagSet) (fo : Bool) (inArgs : List Str) {w : Str} (hw : isShorthandSeries w = false) :
    traverseSlot.seriesFix fs fo inArgs w = inArgs := by
  unfold traverseSlot.seriesFix
  simp [hw]

theorem flagOrPositional_plain (cs : TCmd) (fs : FlagSet) (c : Nat) (fo : Bool) (p : Pflag.Parsed) {w : Str}
    (hw : Str.hasPrefix w ['-'] = false) :
    traverseSlot.flagOrPositional cs fs c fo p w = .positional c p.args.length := by
  unfold traverseSlot.flagOrPositional
  simp [hw]

/-- what `parse` does with one more word that does not look like a flag -/
theorem parse_snoc_positional {fs : Pflag.PFlags} {inter : Bool} {ws : List Str} {p : Pflag.Parsed} {w' : Str}
    (hp : Pflag.parse fs inter ws = .ok p) (hw' : Pflag.flagLike w' = false ∨ p.lenAtDash.isSome = true) :
    Pflag.parse fs inter (ws ++ [w']) = .ok { p with args := p.args ++ [w'] } :=
  Pflag.parseArgs_snoc w' ws false {} p rfl (by simp) hp hw'

/-- **C01 for a positional slot (any command of any program, as long as the earlier words stay within it).** If the traverse model completes positional
    argument `k` for the word under the cursor (a word not starting with `-`), then any word typed
    there that does not look like a flag is accepted by the program's parser - given that it
    accepts the line so far - and becomes exactly its positional argument number `k`. -/
theorem C01_positional_lands {t : TTree} {c : Nat} {cs : TCmd} (h : Stay t c cs) (fuel : Nat) (ws : List Str) (hnc : NoChild t c ws) (w : Str)
    (hw : Str.hasPrefix w ['-'] = false) (k : Nat)
    (hs : traverseSlot t (fuel + 1) c ws w = .positional c k) :
    ∀ w', Pflag.flagLike w' = false →
      ∃ p', Pflag.parse (flagsAt t (t.size + 1) c) cs.interspersed (ws ++ [w']) = .ok p' ∧
            p'.args[k]? = some w' ∧ p'.lenAtDash = none := by
  intro w' hw'
  have ht0 : t[c]? = some cs := h.cmd
  unfold traverseSlot at hs
  simp only [ht0, h.name1, h.name2, Bool.false_eq_true, Bool.or_self, if_false] at hs
  obtain ⟨st, b, hl, hin⟩ := loop_single (cs := cs) ((flagsAt t (t.size + 1) c).map (·.toDef)) ws {} hnc
  simp only [hl, h.parses, Bool.false_eq_true, if_false] at hs
  have hin' : st.inArgs = ws := by simpa using hin
  simp only [seriesFix_plain _ _ _ (isSeries_false hw), hin'] at hs
  -- the words handed to the parser are the earlier words: a flag still waiting for its value would give another slot
  have key : ∀ toParse, (match Pflag.parse (flagsAt t (t.size + 1) c) cs.interspersed toParse with
      | Except.error _ => Slot.message
      | Except.ok p =>
        match p.lenAtDash with
        | some n => Slot.dash c (p.args.length - n)
        | none => traverseSlot.flagOrPositional cs ((flagsAt t (t.size + 1) c).map Pflag.PFlag.toDef) c (cs.interspersed || st.nPos == 0) p w) = .positional c k →
      ∃ p, Pflag.parse (flagsAt t (t.size + 1) c) cs.interspersed toParse = .ok p ∧ p.lenAtDash = none ∧ k = p.args.length := by
    intro toParse hk
    cases hp : Pflag.parse (flagsAt t (t.size + 1) c) cs.interspersed toParse with
    | error e => simp [hp] at hk
    | ok p =>
      simp only [hp] at hk
      cases hd : p.lenAtDash with
      | some n => simp [hd] at hk
      | none =>
        simp only [hd, flagOrPositional_plain _ _ _ _ _ hw, Slot.positional.injEq, true_and] at hk
        exact ⟨p, rfl, hd, hk.symm⟩
  have hparse : ∃ p, Pflag.parse (flagsAt t (t.size + 1) c) cs.interspersed ws = .ok p ∧ p.lenAtDash = none ∧ k = p.args.length := by
    cases hfl : st.inFlag with
    | none =>
      simp only [hfl] at hs
      exact key ws hs
    | some fd =>
      simp only [hfl] at hs
      by_cases hc : consumes fd = true
      · -- a flag waits for its value: the slot is that flag's, never a positional
        exfalso
        simp only [hc, if_true] at hs
        split at hs
        · simp at hs
        · split at hs <;> simp at hs
      · have hcf : consumes fd = false := by simpa using hc
        simp only [hcf, Bool.and_false, Bool.false_eq_true, if_false] at hs
        exact key ws hs
  obtain ⟨p, hp, hd, hk⟩ := hparse
  refine ⟨{ p with args := p.args ++ [w'] }, parse_snoc_positional hp (Or.inl hw'), ?_, hd⟩
  subst hk
  simp

/-- is the last flag word of the line still waiting for its value, in the traverse model's reading? -/
def pendingFlag (t : TTree) (c : Nat) (cs : TCmd) (ws : List Str) : Bool :=
  match loop t c cs ((flagsAt t (t.size + 1) c).map Pflag.PFlag.toDef) ws {} with
  | .done st _ => (match st.inFlag with | some fd => fd.args.isEmpty && consumes fd | none => false)
  | .descend .. => false

/-- **C01 for a slot after `--` (same scope).** If the traverse model completes argument `k`
    after the dash, then any word typed there - flag-like or not - is accepted and becomes the
    `k`-th argument after the `--` in the program's own parse.  Hypothesis `hnp`: no flag is waiting
    for its value (with one waiting, the model hands the line without that flag word to the parser;
    that this cannot coincide with a `--` seen by the parser follows from the stage-1 agreement on
    flag values but is not proved here). -/
theorem C01_dash_lands {t : TTree} {c : Nat} {cs : TCmd} (h : Stay t c cs) (fuel : Nat) (ws : List Str) (hnc : NoChild t c ws) (w : Str)
    (hw : Str.hasPrefix w ['-'] = false) (k : Nat)
    (hs : traverseSlot t (fuel + 1) c ws w = .dash c k)
    (hnp : pendingFlag t c cs ws = false) :
    ∀ w', ∃ p' n, Pflag.parse (flagsAt t (t.size + 1) c) cs.interspersed (ws ++ [w']) = .ok p' ∧
            p'.lenAtDash = some n ∧ p'.args[n + k]? = some w' := by
  intro w'
  have ht0 : t[c]? = some cs := h.cmd
  unfold traverseSlot at hs
  simp only [ht0, h.name1, h.name2, Bool.false_eq_true, Bool.or_self, if_false] at hs
  obtain ⟨st, b, hl, hin⟩ := loop_single (cs := cs) ((flagsAt t (t.size + 1) c).map (·.toDef)) ws {} hnc
  have hl' : loop t c cs ((flagsAt t (t.size + 1) c).map Pflag.PFlag.toDef) ws {} = .done st b := hl
  simp only [pendingFlag, hl'] at hnp
  simp only [hl, h.parses, Bool.false_eq_true, if_false] at hs
  have hin' : st.inArgs = ws := by simpa using hin
  simp only [seriesFix_plain _ _ _ (isSeries_false hw), hin'] at hs
  -- the parser was given the earlier words, accepted them and saw the dash
  have key : ∀ (rest : Pflag.Parsed → Slot), (∀ p, ∀ k', rest p ≠ .dash c k') →
      (match Pflag.parse (flagsAt t (t.size + 1) c) cs.interspersed ws with
        | Except.error _ => Slot.message
        | Except.ok p =>
          match p.lenAtDash with
          | some n => Slot.dash c (p.args.length - n)
          | none => rest p) = .dash c k →
      ∃ p n, Pflag.parse (flagsAt t (t.size + 1) c) cs.interspersed ws = .ok p ∧ p.lenAtDash = some n ∧ k = p.args.length - n := by
    intro rest hrest hk
    cases hp : Pflag.parse (flagsAt t (t.size + 1) c) cs.interspersed ws with
    | error e => simp [hp] at hk
    | ok p =>
      simp only [hp] at hk
      cases hd : p.lenAtDash with
      | none => simp only [hd] at hk; exact absurd hk (hrest p k)
      | some n =>
        simp only [hd, Slot.dash.injEq, true_and] at hk
        exact ⟨p, n, rfl, hd, hk.symm⟩
  have hparse : ∃ p n, Pflag.parse (flagsAt t (t.size + 1) c) cs.interspersed ws = .ok p ∧ p.lenAtDash = some n ∧ k = p.args.length - n := by
    cases hfl : st.inFlag with
    | none =>
      simp only [hfl] at hs
      exact key _ (fun p k' => by simp [flagOrPositional_plain _ _ _ _ _ hw]) hs
    | some fd =>
      simp only [hfl] at hnp hs
      simp only [hnp, Bool.false_eq_true, if_false] at hs
      refine key _ (fun p k' => ?_) hs
      split
      · simp
      · simp [flagOrPositional_plain _ _ _ _ _ hw]
  obtain ⟨p, n, hp, hd, hk⟩ := hparse
  have hle : n ≤ p.args.length := Pflag.parseArgs_lenAtDash_le ws false {} p rfl hp n hd
  refine ⟨{ p with args := p.args ++ [w'] }, n, parse_snoc_positional hp (Or.inr (by simp [hd])), hd, ?_⟩
  have : n + k = p.args.length := by omega
  simp [this]

/-- non-vacuity: a command with a value flag and a bool flag; `-v -- a <TAB>` is the second argument after the dash -/
example :
    let cs : TCmd := { name := "prog".toList, flags := [({ name := "name".toList, short := some 'n' }, false), ({ name := "verbose".toList, short := some 'v', kind := .bool }, false)] }
    traverseSlot #[cs] 3 0 ["-v".toList, "--".toList, "a".toList] [] = .dash 0 1 ∧
    traverseSlot #[cs] 3 0 ["-v".toList, "x".toList] [] = .positional 0 1 ∧
    traverseSlot #[cs] 3 0 ["-vn".toList] [] = .flagValue 0 "name".toList := by decide

end Carapace.Props.C01
