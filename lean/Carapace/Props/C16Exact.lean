/-
  C16 — exactness of the listing for clean typed paths.
  For a typed path made of plain segments (`a/b/se`: every directory segment non-empty, not `.` or `..`; the
  last, partial segment free of `/` and not `.` / `..`; the empty path and a trailing `/` included), any Context
  directory and any directory listing, the values `actionPath` yields are the typed directory part followed by an
  entry name (plus `/` for directories) - and those among them that continue the typed text are exactly the
  listing specification.  The excluded typed paths are the listed finding `files_unclean_dir_part`
  (`C16_unclean_counterexample`).
-/
import Carapace.Spec.Listing
import Carapace.Lemmas.Tokenize

namespace Carapace.Props.C16
open Carapace Carapace.Model Carapace.Spec

/-- a directory segment as typed: not empty, not `.`, not `..`, no separator -/
def Plain (s : Str) : Prop := s ≠ [] ∧ s ≠ ['.'] ∧ s ≠ ['.', '.'] ∧ '/' ∉ s
/-- the last, partial segment: possibly empty -/
def SegOk (s : Str) : Prop := s ≠ ['.'] ∧ s ≠ ['.', '.'] ∧ '/' ∉ s

instance (s : Str) : Decidable (Plain s) := by unfold Plain; infer_instance
instance (s : Str) : Decidable (SegOk s) := by unfold SegOk; infer_instance

/-! ### splitting and joining at `/` -/

theorem splitOnChar_no (d : Char) (s : Str) (h : d ∉ s) : Str.splitOnChar d s = [s] := by
  induction s with
  | nil => rfl
  | cons c s ih =>
    have hc : c ≠ d := by intro e; apply h; simp [e]
    have hs : d ∉ s := by intro e; apply h; simp [e]
    simp [Str.splitOnChar, hc, ih hs]

theorem splitOnChar_ne_nil (d : Char) (s : Str) : Str.splitOnChar d s ≠ [] := by
  induction s with
  | nil => simp [Str.splitOnChar]
  | cons c s ih =>
    by_cases hc : c = d
    · simp [Str.splitOnChar, hc]
    · simp only [Str.splitOnChar, hc, if_false]
      cases h : Str.splitOnChar d s with
      | nil => exact absurd h ih
      | cons w ws => simp

theorem splitOnChar_append (d : Char) (a s : Str) :
    Str.splitOnChar d (a ++ d :: s) = (Str.splitOnChar d a).dropLast ++
      [(Str.splitOnChar d a).getLast?.getD []] ++ Str.splitOnChar d s := by
  induction a with
  | nil => simp [Str.splitOnChar]
  | cons c a ih =>
    by_cases hc : c = d
    · subst hc
      simp only [List.cons_append, Str.splitOnChar, if_true, ih]
      cases h : Str.splitOnChar c a with
      | nil => exact absurd h (splitOnChar_ne_nil c a)
      | cons w ws => simp [List.dropLast, List.getLast?_cons_cons]
        <;> cases ws <;> simp
    · simp only [List.cons_append, Str.splitOnChar, hc, if_false, ih]
      cases h : Str.splitOnChar d a with
      | nil => exact absurd h (splitOnChar_ne_nil d a)
      | cons w ws =>
        cases ws with
        | nil => simp
        | cons w2 ws2 => simp [List.dropLast, List.getLast?_cons_cons]

theorem splitOnChar_append2 (d : Char) (a s : Str) :
    Str.splitOnChar d (a ++ d :: s) = Str.splitOnChar d a ++ Str.splitOnChar d s := by
  rw [splitOnChar_append]
  cases h : Str.splitOnChar d a with
  | nil => exact absurd h (splitOnChar_ne_nil d a)
  | cons w ws =>
    have : ∀ (w : Str) (ws : List Str), (w :: ws).dropLast ++ [(w :: ws).getLast?.getD []] = w :: ws := by
      intro w ws
      induction ws generalizing w with
      | nil => simp
      | cons a b ih => simp [List.dropLast, List.getLast?_cons_cons, ih a]
    rw [this]

theorem splitOnChar_join : ∀ (ss : List Str), ss ≠ [] → (∀ s ∈ ss, '/' ∉ s) →
    Str.splitOnChar '/' (Str.join ['/'] ss) = ss := by
  intro ss
  induction ss with
  | nil => intro h; exact absurd rfl h
  | cons x r ih =>
    intro _ hall
    cases r with
    | nil => simpa [Str.join] using splitOnChar_no '/' x (hall x (by simp))
    | cons y r2 =>
      have hx := splitOnChar_no '/' x (hall x (by simp))
      have := ih (by simp) (fun s hs => hall s (List.mem_cons_of_mem _ hs))
      simp only [Str.join, List.append_assoc, List.singleton_append]
      rw [splitOnChar_append2, hx, this]; rfl

/-- the typed path: directory segments `ss`, then the partial segment -/
def typedOf (ss : List Str) (seg : Str) : Str := Str.join ['/'] (ss ++ [seg])

theorem pathSegs_typed (ss : List Str) (seg : Str) (hss : ∀ s ∈ ss, Plain s) (hseg : SegOk seg) :
    pathSegs (typedOf ss seg) = ss ++ [seg] := by
  unfold pathSegs typedOf
  apply splitOnChar_join _ (by simp)
  intro s hs
  rcases List.mem_append.mp hs with h | h
  · exact (hss s h).2.2.2
  · simp at h; rw [h]; exact hseg.2.2

/-! ### `filepath.Clean` on plain segments -/

/-- the step of the fold inside `pathClean` -/
def cleanStep (rooted : Bool) (acc : List Str) (s : Str) : List Str :=
  if s.isEmpty || s == ['.'] then acc
  else if s == ['.', '.'] then
    match acc.getLast? with
    | some l => if l == ['.', '.'] then acc ++ [s] else acc.dropLast
    | none => if rooted then acc else acc ++ [s]
  else acc ++ [s]

theorem pathClean_eq (p : Str) (hp : p ≠ []) :
    pathClean p =
      (let segs := (pathSegs p).foldl (cleanStep (p.head? == some '/')) []
       let body := Str.join ['/'] segs
       if (p.head? == some '/') = true then '/' :: body else if body.isEmpty then ['.'] else body) := by
  unfold pathClean
  have : p.isEmpty = false := by cases p <;> simp_all
  simp only [this, Bool.false_eq_true, if_false]
  rfl

theorem cleanStep_plain (rooted : Bool) (acc : List Str) (s : Str) (h1 : s ≠ []) (h2 : s ≠ ['.']) (h3 : s ≠ ['.', '.']) :
    cleanStep rooted acc s = acc ++ [s] := by
  unfold cleanStep
  have e1 : s.isEmpty = false := by cases s <;> simp_all
  have e2 : (s == ['.']) = false := by simpa using h2
  have e3 : (s == ['.', '.']) = false := by simpa using h3
  simp [e1, e2, e3]

theorem foldl_cleanStep_plain (rooted : Bool) (ss : List Str) (hss : ∀ s ∈ ss, Plain s) :
    ∀ acc, ss.foldl (cleanStep rooted) acc = acc ++ ss := by
  induction ss with
  | nil => intro acc; simp
  | cons x r ih =>
    intro acc
    have hx := hss x (by simp)
    simp only [List.foldl_cons, cleanStep_plain rooted acc x hx.1 hx.2.1 hx.2.2.1]
    rw [ih (fun s hs => hss s (List.mem_cons_of_mem _ hs))]
    simp

theorem join_snoc (sep : Str) (R : List Str) (x : Str) :
    Str.join sep (R ++ [x]) = if R = [] then x else Str.join sep R ++ sep ++ x := by
  induction R with
  | nil => simp [Str.join]
  | cons a r ih =>
    cases r with
    | nil => simp [Str.join]
    | cons b r2 =>
      simp only [List.cons_append, Str.join] at ih ⊢
      rw [ih]; simp

theorem join_head_plain (ss : List Str) (hne : ss ≠ []) (hss : ∀ s ∈ ss, Plain s) :
    ∃ c r, Str.join ['/'] ss = c :: r ∧ c ≠ '/' := by
  cases ss with
  | nil => exact absurd rfl hne
  | cons x r =>
    have hx := hss x (by simp)
    cases x with
    | nil => exact absurd rfl hx.1
    | cons c xs =>
      have hc : c ≠ '/' := by intro e; apply hx.2.2.2; simp [e]
      cases r with
      | nil => exact ⟨c, xs, by simp [Str.join], hc⟩
      | cons y r2 => exact ⟨c, xs ++ '/' :: Str.join ['/'] (y :: r2), by simp [Str.join], hc⟩

/-- a clean relative path is its own `filepath.Clean` -/
theorem pathClean_plain (ss : List Str) (hne : ss ≠ []) (hss : ∀ s ∈ ss, Plain s) :
    pathClean (Str.join ['/'] ss) = Str.join ['/'] ss := by
  obtain ⟨c, r, hj, hc⟩ := join_head_plain ss hne hss
  have hp : Str.join ['/'] ss ≠ [] := by rw [hj]; simp
  rw [pathClean_eq _ hp]
  have hroot : ((Str.join ['/'] ss).head? == some '/') = false := by rw [hj]; simpa using hc
  have hsegs : pathSegs (Str.join ['/'] ss) = ss := splitOnChar_join ss hne (fun s hs => (hss s hs).2.2.2)
  simp only [hroot, hsegs, foldl_cleanStep_plain false ss hss [], List.nil_append, Bool.false_eq_true, if_false]
  have : (Str.join ['/'] ss).isEmpty = false := by rw [hj]; rfl
  simp [this]

/-! ### the typed directory part -/

theorem dropLast_snoc {α} (l : List α) (x : α) : (l ++ [x]).dropLast = l := by simp

/-- `filepath.Dir` of the typed path is its directory segments -/
theorem pathDir_typed (ss : List Str) (seg : Str) (hss : ∀ s ∈ ss, Plain s) (hseg : SegOk seg) :
    pathDir (typedOf ss seg) = if ss = [] then ['.'] else Str.join ['/'] ss := by
  unfold pathDir
  simp only [pathSegs_typed ss seg hss hseg, dropLast_snoc]
  cases ss with
  | nil => simp
  | cons x r =>
    have hne : x :: r ≠ [] := by simp
    obtain ⟨c, t, hj, _⟩ := join_head_plain (x :: r) hne hss
    have hlen : ¬ ((x :: r ++ [seg]).length ≤ 1) := by simp
    simp only [hlen, if_false, hne]
    have : (Str.join ['/'] (x :: r)).isEmpty = false := by rw [hj]; rfl
    simp only [this, Bool.false_eq_true, if_false]
    exact pathClean_plain (x :: r) hne hss

theorem getLastQ_append_ne {α} (a b : List α) (h : b ≠ []) : (a ++ b).getLast? = b.getLast? := by
  rw [List.getLast?_append]
  cases hb : b.getLast? with
  | none => exact absurd (List.getLast?_eq_none_iff.mp hb) h
  | some x => rfl

theorem getLastQ_join_plain (ss : List Str) (hne : ss ≠ []) (hss : ∀ s ∈ ss, Plain s) :
    (Str.join ['/'] ss).getLast? ≠ some '/' := by
  have hl : ss = ss.dropLast ++ [ss.getLast hne] := (List.dropLast_concat_getLast hne).symm
  have hp := hss (ss.getLast hne) (List.getLast_mem hne)
  rw [hl, join_snoc]
  have hlast : (ss.getLast hne).getLast? ≠ some '/' := by
    intro e
    have := List.mem_of_getLast? e
    exact hp.2.2.2 this
  split
  · exact hlast
  · rw [getLastQ_append_ne _ _ hp.1]; exact hlast

theorem hasSuffix_single (s : Str) (c : Char) : Str.hasSuffix s [c] = (s.getLast? == some c) := by
  unfold Str.hasSuffix
  cases h : s.reverse with
  | nil =>
    have : s = [] := by simpa using h
    subst this; simp [Str.hasPrefix]
  | cons x r =>
    have hl : s.getLast? = some x := by
      rw [List.getLast?_eq_head?_reverse, h]; rfl
    simp only [List.reverse_cons, List.reverse_nil, List.nil_append, Str.hasPrefix, hl]
    cases r <;> simp [Str.hasPrefix]

/-- what is shown in front of every entry name: the typed directory part -/
theorem displayFolder_typed (ss : List Str) (seg : Str) (hss : ∀ s ∈ ss, Plain s) (hseg : SegOk seg) :
    (let df := pathDir (typedOf ss seg)
     if df == ['.'] then [] else if Str.hasSuffix df ['/'] then df else df ++ ['/']) = (splitTyped (typedOf ss seg)).1 := by
  have hsp : (splitTyped (typedOf ss seg)).1 = if ss = [] then [] else Str.join ['/'] ss ++ ['/'] := by
    unfold splitTyped
    have := pathSegs_typed ss seg hss hseg
    unfold pathSegs at this
    simp only [this, List.reverse_append, List.reverse_cons, List.reverse_nil, List.nil_append, List.singleton_append]
    cases ss with
    | nil => simp
    | cons x r =>
      have : (x :: r).reverse ≠ [] := by simp
      cases hr : (x :: r).reverse with
      | nil => exact absurd hr this
      | cons y ys =>
        simp only
        have : (y :: ys).reverse = x :: r := by rw [← hr]; simp
        rw [this]; simp
  rw [hsp]
  simp only [pathDir_typed ss seg hss hseg]
  cases ss with
  | nil => simp
  | cons x r =>
    have hne : x :: r ≠ [] := by simp
    simp only [hne, if_false]
    obtain ⟨c, t, hj, hc⟩ := join_head_plain (x :: r) hne hss
    have h1 : (Str.join ['/'] (x :: r) == ['.']) = false := by
      -- a single plain segment is not `.`; several segments contain a `/`
      cases r with
      | nil =>
        have := (hss x (by simp)).2.1
        simpa [Str.join] using this
      | cons y r2 =>
        have hsl : '/' ∈ Str.join ['/'] (x :: y :: r2) := by simp [Str.join]
        apply beq_false_of_ne
        intro e; rw [e] at hsl; simp at hsl
    have h2 : Str.hasSuffix (Str.join ['/'] (x :: r)) ['/'] = false := by
      rw [hasSuffix_single]
      have := getLastQ_join_plain (x :: r) hne hss
      simpa using this
    simp [h1, h2]

/-! ### hidden entries: the base name of the absolute path is the typed last segment -/

theorem clean_ends (P0 seg : Str) (hne : seg ≠ []) (hseg : SegOk seg) :
    ∃ Q, pathClean (P0 ++ '/' :: seg) = Q ++ seg ∧ (Q = [] ∨ Q.getLast? = some '/') := by
  have hp : P0 ++ '/' :: seg ≠ [] := by simp
  rw [pathClean_eq _ hp]
  have hsegs : pathSegs (P0 ++ '/' :: seg) = pathSegs P0 ++ [seg] := by
    unfold pathSegs; rw [splitOnChar_append2, splitOnChar_no '/' seg hseg.2.2]
  simp only [hsegs, List.foldl_append, List.foldl_cons, List.foldl_nil,
    cleanStep_plain _ _ seg hne hseg.1 hseg.2.1, join_snoc]
  generalize (pathSegs P0).foldl (cleanStep ((P0 ++ '/' :: seg).head? == some '/')) [] = R
  by_cases hR : R = []
  · simp only [hR, if_true]
    have he : seg.isEmpty = false := by cases seg <;> simp_all
    split
    · exact ⟨['/'], by simp, Or.inr rfl⟩
    · simp only [he, Bool.false_eq_true, if_false]; exact ⟨[], by simp, Or.inl rfl⟩
  · simp only [hR, if_false]
    have he : (Str.join ['/'] R ++ ['/'] ++ seg).isEmpty = false := by simp
    split
    · refine ⟨'/' :: (Str.join ['/'] R ++ ['/']), by simp, Or.inr ?_⟩
      rw [← List.cons_append, getLastQ_append_ne _ _ (by simp)]; rfl
    · simp only [he, Bool.false_eq_true, if_false]
      exact ⟨Str.join ['/'] R ++ ['/'], by simp, Or.inr (by rw [getLastQ_append_ne _ _ (by simp)]; rfl)⟩

theorem base_of_ends (Q seg : Str) (hne : seg ≠ []) (hsl : '/' ∉ seg) (hQ : Q = [] ∨ Q.getLast? = some '/') :
    pathBase (Q ++ seg) = seg ∧ Str.hasSuffix (Q ++ seg) ['/'] = false := by
  have hlast : (Q ++ seg).getLast? = seg.getLast? := getLastQ_append_ne _ _ hne
  have hl2 : seg.getLast? ≠ some '/' := fun e => hsl (List.mem_of_getLast? e)
  refine ⟨?_, by rw [hasSuffix_single, hlast]; simpa using hl2⟩
  unfold pathBase
  have he : (Q ++ seg).isEmpty = false := by cases seg <;> simp_all
  simp only [he, Bool.false_eq_true, if_false]
  -- no trailing separator to strip
  have hrev : (Q ++ seg).reverse.dropWhile (· == '/') = (Q ++ seg).reverse := by
    cases hr : (Q ++ seg).reverse with
    | nil => simp
    | cons x xs =>
      have hx : (Q ++ seg).getLast? = some x := by rw [List.getLast?_eq_head?_reverse, hr]; rfl
      have : x ≠ '/' := by intro e; rw [hlast, e] at hx; exact hl2 hx
      have hb : (x == '/') = false := by simpa using this
      simp [List.dropWhile, hb]
  simp only [hrev, List.reverse_reverse, he, Bool.false_eq_true, if_false]
  rcases hQ with rfl | hQ
  · simp [pathSegs, splitOnChar_no '/' seg hsl]
  · obtain ⟨Q', rfl⟩ : ∃ Q', Q = Q' ++ ['/'] := by
      have hQne : Q ≠ [] := by intro e; rw [e] at hQ; simp at hQ
      refine ⟨Q.dropLast, ?_⟩
      have h1 := (List.dropLast_concat_getLast hQne).symm
      have h2 : Q.getLast? = some (Q.getLast hQne) := List.getLast?_eq_some_getLast hQne
      rw [h2] at hQ
      have h3 : Q.getLast hQne = '/' := by simpa using hQ
      rw [h3] at h1; exact h1
    simp only [pathSegs, List.append_assoc, List.singleton_append]
    rw [splitOnChar_append2, splitOnChar_no '/' seg hsl, getLastQ_append_ne _ _ (by simp)]
    simp

theorem hasSuffix_two_last (s : Str) (a b : Char) (h : Str.hasSuffix s [a, b] = true) : s.getLast? = some b := by
  unfold Str.hasSuffix at h
  cases hr : s.reverse with
  | nil => rw [hr] at h; simp [Str.hasPrefix] at h
  | cons x xs =>
    rw [hr] at h
    simp only [List.reverse_cons, List.reverse_nil, List.nil_append, List.singleton_append, Str.hasPrefix, Bool.and_eq_true, beq_iff_eq] at h
    rw [List.getLast?_eq_head?_reverse, hr]; simp [h.1]

theorem hasSuffix_slashdot (P0 seg : Str) (hne : seg ≠ []) (hseg : SegOk seg) :
    Str.hasSuffix (P0 ++ '/' :: seg) ['/', '.'] = false := by
  unfold Str.hasSuffix
  simp only [List.reverse_append, List.reverse_cons, List.reverse_nil, List.nil_append, List.singleton_append]
  cases hr : seg.reverse with
  | nil => exact absurd (by simpa using hr) hne
  | cons x xs =>
    cases xs with
    | nil =>
      have : seg = [x] := by have := congrArg List.reverse hr; simpa using this
      have hx : x ≠ '.' := by intro e; apply hseg.1; rw [this, e]
      simp [Str.hasPrefix, hx]
    | cons y ys =>
      have hy : y ∈ seg := by
        have : y ∈ seg.reverse := by rw [hr]; simp
        simpa using this
      have : y ≠ '/' := by intro e; apply hseg.2.2; rw [← e]; exact hy
      simp [Str.hasPrefix, this]

theorem typed_head (ss : List Str) (seg : Str) (hss : ∀ s ∈ ss, Plain s) (hseg : SegOk seg) :
    ((typedOf ss seg).head? == some '/') = false := by
  unfold typedOf
  rw [join_snoc]
  cases ss with
  | nil =>
    simp only [if_true]
    cases seg with
    | nil => rfl
    | cons c r =>
      have : c ≠ '/' := by intro e; apply hseg.2.2; simp [e]
      simpa using this
  | cons x r =>
    obtain ⟨c, t, hj, hc⟩ := join_head_plain (x :: r) (by simp) hss
    simp only [List.cons_ne_nil, if_false, hj]
    simpa using hc

/-- the typed text behind its directory part -/
theorem typed_split (ss : List Str) (seg : Str) :
    typedOf ss seg = (if ss = [] then [] else Str.join ['/'] ss ++ ['/']) ++ seg := by
  unfold typedOf; rw [join_snoc]; split <;> simp

/-- hidden entries are shown exactly when the typed last segment starts with a dot - whatever the Context
    directory and the directories typed before it are called -/
theorem showHidden_typed (dir : Str) (ss : List Str) (seg : Str) (hss : ∀ s ∈ ss, Plain s) (hseg : SegOk seg) :
    (!Str.hasSuffix (ctxAbs dir (typedOf ss seg)) ['/'] && Str.hasPrefix (pathBase (ctxAbs dir (typedOf ss seg))) ['.'])
      = Str.hasPrefix seg ['.'] := by
  unfold ctxAbs
  simp only [typed_head ss seg hss hseg, Bool.false_eq_true, if_false]
  -- the path handed to `filepath.Abs`: `D/typed`
  obtain ⟨D, hD⟩ : ∃ D, (if dir.isEmpty = true then "./".toList ++ typedOf ss seg else dir ++ ['/'] ++ typedOf ss seg)
      = D ++ '/' :: typedOf ss seg := by
    by_cases hd : dir.isEmpty = true
    · exact ⟨['.'], by simp [hd]⟩
    · exact ⟨dir, by simp [hd]⟩
  rw [hD]
  by_cases hne : seg = []
  · -- a trailing separator (or nothing typed): the directory itself is listed, hidden entries are not shown
    subst hne
    have hlast : (D ++ '/' :: typedOf ss []).getLast? = some '/' := by
      rw [typed_split]
      by_cases h : ss = []
      · simp [h]
      · simp only [h, if_false, List.append_nil]
        rw [← List.cons_append, ← List.append_assoc, getLastQ_append_ne _ _ (by simp)]; rfl
    have hs1 : Str.hasSuffix (D ++ '/' :: typedOf ss []) ['/'] = true := by rw [hasSuffix_single, hlast]; simp
    have hs2 : Str.hasSuffix (D ++ '/' :: typedOf ss []) ['/', '.'] = false := by
      cases h : Str.hasSuffix (D ++ '/' :: typedOf ss []) ['/', '.'] with
      | false => rfl
      | true => have := hasSuffix_two_last _ _ _ h; rw [hlast] at this; simp at this
    simp only [hs1, hs2, Bool.true_and, Bool.false_and, Bool.false_eq_true, if_false]
    cases hr : Str.hasSuffix (pathClean (D ++ '/' :: typedOf ss [])) ['/'] with
    | true => simp [hr, Str.hasPrefix]
    | false =>
      have : Str.hasSuffix (pathClean (D ++ '/' :: typedOf ss []) ++ ['/']) ['/'] = true := by
        rw [hasSuffix_single, getLastQ_append_ne _ _ (by simp)]; simp
      simp [this, Str.hasPrefix]
  · -- a partial last segment: it is the base name of the absolute path
    have hP : ∃ P0, D ++ '/' :: typedOf ss seg = P0 ++ '/' :: seg := by
      rw [typed_split]
      by_cases h : ss = []
      · exact ⟨D, by simp [h]⟩
      · exact ⟨D ++ '/' :: Str.join ['/'] ss, by simp [h]⟩
    obtain ⟨P0, hP0⟩ := hP
    rw [hP0]
    have hs1 : Str.hasSuffix (P0 ++ '/' :: seg) ['/'] = false := by
      rw [hasSuffix_single, ← List.singleton_append, ← List.append_assoc, getLastQ_append_ne _ _ hne]
      have : seg.getLast? ≠ some '/' := fun e => hseg.2.2 (List.mem_of_getLast? e)
      simpa using this
    have hs2 := hasSuffix_slashdot P0 seg hne hseg
    simp only [hs1, hs2, Bool.false_and, Bool.false_eq_true, if_false]
    obtain ⟨Q, hQ, hQ2⟩ := clean_ends P0 seg hne hseg
    rw [hQ]
    obtain ⟨hb, hsf⟩ := base_of_ends Q seg hne hseg.2.2 hQ2
    simp [hb, hsf]

/-! ### the theorems -/

theorem typed_no_dotslash (ss : List Str) (seg : Str) (hss : ∀ s ∈ ss, Plain s) (hseg : SegOk seg) :
    Str.hasPrefix (typedOf ss seg) ['.', '/'] = false := by
  rw [typed_split]
  cases ss with
  | nil =>
    simp only [if_true, List.nil_append]
    cases seg with
    | nil => rfl
    | cons a r =>
      cases r with
      | nil => simp [Str.hasPrefix]
      | cons b r2 =>
        have : b ≠ '/' := by intro e; apply hseg.2.2; simp [e]
        simp [Str.hasPrefix, this]
  | cons x r =>
    have hx := hss x (by simp)
    simp only [List.cons_ne_nil, if_false]
    cases x with
    | nil => exact absurd rfl hx.1
    | cons a t =>
      cases t with
      | nil =>
        have : a ≠ '.' := by intro e; apply hx.2.1; rw [e]
        cases r <;> simp [Str.join, Str.hasPrefix, this]
      | cons b t2 =>
        have : b ≠ '/' := by intro e; apply hx.2.2.2; simp [e]
        cases r <;> simp [Str.join, Str.hasPrefix, this]

/-- **C16 (values).** For a clean typed path, any Context directory and any listing of the directory it
    denotes: what `actionPath` yields is, entry by entry, the typed directory part - exactly as typed - followed
    by the entry name, `/` appended for directories and links to directories; regular files only for ActionFiles
    and only with an allowed suffix; dot-entries exactly when the typed last segment starts with a dot. -/
theorem C16_values_clean (dir : Str) (ss : List Str) (seg : Str) (hss : ∀ s ∈ ss, Plain s) (hseg : SegOk seg)
    (entries : List DirEntry) (dirOnly : Bool) (suffixes : List Str) :
    actionPathValues dir (typedOf ss seg) entries dirOnly suffixes =
      entries.filterMap (entryValue (Str.hasPrefix seg ['.']) dirOnly (if suffixes.isEmpty then [[]] else suffixes)
        (splitTyped (typedOf ss seg)).1) := by
  unfold actionPathValues
  simp only [typed_no_dotslash ss seg hss hseg, Bool.false_eq_true, if_false]
  have h1 := showHidden_typed dir ss seg hss hseg
  have h2 := displayFolder_typed ss seg hss hseg
  simp only at h2
  rw [h1, h2]

theorem filterMap_congr2 {α β} {f g : α → Option β} : ∀ (l : List α), (∀ x ∈ l, f x = g x) → l.filterMap f = l.filterMap g := by
  intro l
  induction l with
  | nil => intro _; rfl
  | cons a r ih =>
    intro h
    simp only [List.filterMap_cons, h a (by simp), ih (fun x hx => h x (List.mem_cons_of_mem _ hx))]

theorem hasPrefix_append_left (a x y : Str) : Str.hasPrefix (a ++ x) (a ++ y) = Str.hasPrefix x y := by
  induction a with
  | nil => rfl
  | cons c a ih => simp [Str.hasPrefix, ih]

theorem hasPrefix_snoc_notin (n p : Str) (c : Char) (h : c ∉ p) : Str.hasPrefix (n ++ [c]) p = Str.hasPrefix n p := by
  induction n generalizing p with
  | nil =>
    cases p with
    | nil => rfl
    | cons d r =>
      have : c ≠ d := by intro e; apply h; simp [e]
      simp [Str.hasPrefix, this]
  | cons a n ih =>
    cases p with
    | nil => rfl
    | cons d r =>
      have hr : c ∉ r := by intro e; apply h; simp [e]
      simp [Str.hasPrefix, ih r hr]

theorem any_suffix_default (name : Str) (suffixes : List Str) :
    (if suffixes.isEmpty then [[]] else suffixes).any (fun s => Str.hasSuffix name s) =
      (suffixes.isEmpty || suffixes.any (fun s => Str.hasSuffix name s)) := by
  cases suffixes with
  | nil => simp [Str.hasSuffix, Str.hasPrefix]
  | cons a r => simp

/-- **C16 (exactness).** For a clean typed path the values `actionPath` yields that continue what was typed are
    exactly the listing specification: the entries of the denoted directory whose names continue the typed last
    segment, each as the typed directory part followed by the name. -/
theorem C16_exact (dir : Str) (ss : List Str) (seg : Str) (hss : ∀ s ∈ ss, Plain s) (hseg : SegOk seg)
    (entries : List DirEntry) (dirOnly : Bool) (suffixes : List Str) :
    (actionPathValues dir (typedOf ss seg) entries dirOnly suffixes).filter (fun v => Str.hasPrefix v (typedOf ss seg))
      = listing (typedOf ss seg) entries dirOnly suffixes := by
  rw [C16_values_clean dir ss seg hss hseg, List.filter_filterMap]
  unfold listing
  have hsp2 : (splitTyped (typedOf ss seg)).2 = seg := by
    unfold splitTyped
    have := pathSegs_typed ss seg hss hseg
    unfold pathSegs at this
    simp only [this, List.reverse_append, List.reverse_cons, List.reverse_nil, List.nil_append, List.singleton_append]
    cases hr : ss.reverse <;> simp
  have hty : typedOf ss seg = (splitTyped (typedOf ss seg)).1 ++ seg := by
    have h2 := displayFolder_typed ss seg hss hseg
    simp only at h2
    rw [← h2, pathDir_typed ss seg hss hseg, typed_split]
    cases ss with
    | nil => simp
    | cons x r =>
      have hne : x :: r ≠ [] := by simp
      obtain ⟨c, t, hj, hc⟩ := join_head_plain (x :: r) hne hss
      have hx1 : (Str.join ['/'] (x :: r) == ['.']) = false := by
        cases r with
        | nil => have := (hss x (by simp)).2.1; simpa [Str.join] using this
        | cons y r2 =>
          have hsl : '/' ∈ Str.join ['/'] (x :: y :: r2) := by simp [Str.join]
          apply beq_false_of_ne; intro e; rw [e] at hsl; simp at hsl
      have hx2 : Str.hasSuffix (Str.join ['/'] (x :: r)) ['/'] = false := by
        rw [hasSuffix_single]; have := getLastQ_join_plain (x :: r) hne hss; simpa using this
      simp [hne, hx1, hx2]
  generalize hdp : (splitTyped (typedOf ss seg)).1 = dp at hty ⊢
  have hsp : splitTyped (typedOf ss seg) = (dp, seg) := Prod.ext hdp hsp2
  simp only [hsp]
  apply filterMap_congr2
  intro e _
  unfold entryValue
  rw [hty]
  by_cases hh : Str.hasPrefix e.name ['.'] = true
  · by_cases hs : Str.hasPrefix seg ['.'] = true
    · simp only [hs, hh, Bool.not_true, Bool.false_and, Bool.false_eq_true, if_false, Bool.and_false, any_suffix_default]
      cases e.kind <;> by_cases hp : Str.hasPrefix e.name seg = true <;>
        cases dirOnly <;> simp [hp, Option.filter, List.append_assoc, hasPrefix_append_left, hasPrefix_snoc_notin _ _ _ hseg.2.2] <;>
        (split <;> simp_all [Option.filter, hasPrefix_append_left]) <;>
        (rename_i hq; obtain ⟨_, rfl⟩ := hq; simp [hasPrefix_append_left, hp])
    · have hs' : Str.hasPrefix seg ['.'] = false := by simpa using hs
      simp [hs', hh, Option.filter]
  · have hh' : Str.hasPrefix e.name ['.'] = false := by simpa using hh
    simp only [hh', Bool.and_false, Bool.false_eq_true, if_false, Bool.false_and, any_suffix_default]
    cases e.kind <;> by_cases hp : Str.hasPrefix e.name seg = true <;>
      cases dirOnly <;> simp [hp, Option.filter, List.append_assoc, hasPrefix_append_left, hasPrefix_snoc_notin _ _ _ hseg.2.2] <;>
      (split <;> simp_all [Option.filter, hasPrefix_append_left]) <;>
        (rename_i hq; obtain ⟨_, rfl⟩ := hq; simp [hasPrefix_append_left, hp])

/-- non-vacuity: `a/b/.h` typed below `/ctx` is a clean typed path; and so are the empty path and `a/` -/
example : (∀ s ∈ ["a".toList, "b".toList], Plain s) ∧ SegOk ".h".toList ∧ typedOf ["a".toList, "b".toList] ".h".toList = "a/b/.h".toList
    ∧ SegOk [] ∧ typedOf [] [] = [] ∧ typedOf ["a".toList] [] = "a/".toList := by
  refine ⟨?_, by decide, by decide, by decide, by decide, by decide⟩
  intro s hs; simp at hs; rcases hs with rfl | rfl <;> decide

end Carapace.Props.C16
