/-
  C01 for the flag-value slot of a single interspersed command: if the traverse model completes
  the value of flag `f`, the program's parser gives the word typed there to `f`.
-/
import Carapace.Props.C01Slots
import Carapace.Lemmas.Framing

namespace Carapace.Props.C01
open Carapace Carapace.Model Carapace.Spec

/-- flag names are not empty, do not start with `-` or `=` and contain no `=` -/
def NamesOk (pfs : Pflag.PFlags) : Prop :=
  ∀ f ∈ pfs, f.name ≠ [] ∧ f.name.head? ≠ some '-' ∧ f.name.head? ≠ some '=' ∧ '=' ∉ f.name

theorem lookupLong_map (pfs : Pflag.PFlags) (n : Str) :
    lookupLong (pfs.map Pflag.PFlag.toDef) n = (Pflag.findLong pfs n).map Pflag.PFlag.toDef := by
  unfold lookupLong Pflag.findLong
  induction pfs with
  | nil => rfl
  | cons f r ih =>
    simp only [List.map_cons, List.find?_cons]
    have : (f.toDef.name == n) = (f.name == n) := rfl
    rw [this]
    cases (f.name == n) <;> simp [ih]

theorem lookupShort_map (pfs : Pflag.PFlags) (c : Char) :
    lookupShort (pfs.map Pflag.PFlag.toDef) c = (Pflag.findShort pfs c).map Pflag.PFlag.toDef := by
  unfold lookupShort Pflag.findShort
  induction pfs with
  | nil => rfl
  | cons f r ih =>
    simp only [List.map_cons, List.find?_cons]
    have : (f.toDef.short == some c) = (f.short == some c) := rfl
    rw [this]
    cases (f.short == some c) <;> simp [ih]

theorem findLong_mem {pfs : Pflag.PFlags} {n : Str} {f : Pflag.PFlag} (h : Pflag.findLong pfs n = some f) :
    f ∈ pfs ∧ f.name = n := by
  unfold Pflag.findLong at h
  exact ⟨List.mem_of_find?_eq_some h, by simpa using List.find?_some h⟩

/-- a flag that still waits for its value has no default -/
theorem consumes_noDefault {f : Pflag.PFlag} {pre : Str} (h : consumes ⟨f.toDef, pre, []⟩ = true) :
    f.noOptDefVal = none := by
  simp only [consumes, Pflag.PFlag.toDef, Bool.and_eq_true, Bool.not_eq_true', List.isEmpty_nil] at h
  cases hd : f.noOptDefVal with
  | none => rfl
  | some d => simp [hd] at h

/-- **long form**: carapace reads `--name` as a flag waiting for its value => the parser gives it the next word -/
theorem long_pending {pfs : Pflag.PFlags} (hn : NamesOk pfs) {body : Str} {fd : Found} (v : Str)
    (hl : lookupPosixLong (pfs.map Pflag.PFlag.toDef) body = some fd) (hc : consumes fd = true) :
    ∃ f, f ∈ pfs ∧ f.toDef = fd.flag ∧ body ≠ [] ∧
      (Pflag.valueOk f v = true → Pflag.parseLong pfs body (some v) = .ok ((f.name, v), true)) := by
  unfold lookupPosixLong at hl
  cases hcut : Str.cutChar '=' body with
  | mk n v? =>
    simp only [hcut, lookupLong_map] at hl
    cases v? with
    | some v' =>
      -- `--name=value` carries its value: nothing is waited for
      simp only [Option.map_map] at hl
      cases hf : Pflag.findLong pfs n with
      | none => simp [hf] at hl
      | some f =>
        simp only [hf, Option.map_some, Option.some.injEq] at hl
        subst hl
        simp [consumes] at hc
    | none =>
      simp only [Option.map_map] at hl
      cases hf : Pflag.findLong pfs n with
      | none => simp [hf] at hl
      | some f =>
        simp only [hf, Option.map_some, Option.some.injEq] at hl
        subst hl
        obtain ⟨hmem, hname⟩ := findLong_mem hf
        obtain ⟨hne, hd1, hd2, heq⟩ := hn f hmem
        -- no `=` in the word: the name is the whole body
        have hbody : body = n := by
          have h1 : '=' ∉ body ∨ '=' ∈ body := by
            by_cases h : '=' ∈ body
            · exact Or.inr h
            · exact Or.inl h
          rcases h1 with h1 | h1
          · rw [Str.cutChar_no '=' body h1] at hcut
            exact (Prod.mk.inj hcut).1
          · obtain ⟨a, b, hab⟩ := Str.cutChar_some_of_mem '=' body h1
            rw [hab] at hcut
            cases hcut
        subst hbody
        have hnd := consumes_noDefault (f := f) (pre := "--".toList ++ body) hc
        refine ⟨f, hmem, rfl, by rw [← hname]; exact hne, fun hv => ?_⟩
        unfold Pflag.parseLong
        cases hb : body with
        | nil => rw [hb] at hname; exact absurd hname hne
        | cons c r =>
          have hc1 : c ≠ '-' := by
            intro e; rw [hname, hb, e] at hd1; simp at hd1
          have hc2 : c ≠ '=' := by
            intro e; rw [hname, hb, e] at hd2; simp at hd2
          rw [← hb]
          simp only [hb, hc1, hc2, or_self, if_false]
          rw [← hb, hcut]
          simp [hf, hnd, hv]

theorem eqValue_ne {d : Char} (r2 : Str) (h : d ≠ '=') : Pflag.eqValue (d :: r2) = none := by
  rw [Pflag.eqValue]
  intro d' r' e
  exact h (by cases e; rfl)

/-- **shorthand series**: carapace reads `-abf` as "f waits for its value" => the parser assigns the
    defaults of the letters before it and gives f the next word -/
theorem short_pending {pfs : Pflag.PFlags} (v : Str) :
    ∀ (cs pre : Str) (fd : Found),
      lookupPosixShort (pfs.map Pflag.PFlag.toDef) pre cs = some fd → consumes fd = true →
      ∃ f as, f ∈ pfs ∧ f.toDef = fd.flag ∧
        (Pflag.valueOk f v = true → Pflag.parseShort pfs cs (some v) = .ok (as ++ [(f.name, v)], true)) := by
  intro cs
  induction cs with
  | nil => intro pre fd hl; simp [lookupPosixShort] at hl
  | cons c rest ih =>
    intro pre fd hl hc
    rw [lookupPosixShort] at hl
    simp only [lookupShort_map] at hl
    cases hf : Pflag.findShort pfs c with
    | none => simp [hf] at hl
    | some f =>
      have hmem : f ∈ pfs := by
        unfold Pflag.findShort at hf
        exact List.mem_of_find?_eq_some hf
      simp only [hf, Option.map_some] at hl
      cases rest with
      | nil =>
        simp only [Option.some.injEq] at hl
        subst hl
        have hnd := consumes_noDefault (f := f) (pre := pre ++ [c]) hc
        refine ⟨f, [], hmem, rfl, fun hv => ?_⟩
        rw [Pflag.parseShort]
        simp [hf, Pflag.eqValue, hnd, hv]
      | cons d r2 =>
        simp only at hl
        by_cases hd : d = '='
        · -- `-f=...` carries its value
          subst hd
          simp only [true_and, if_true] at hl
          split at hl <;> (simp only [Option.some.injEq] at hl; subst hl; simp [consumes] at hc)
        · simp only [hd, false_and, if_false] at hl
          by_cases hno : f.toDef.noOptDef = true
          · simp only [hno, Bool.not_true, Bool.false_eq_true, if_false] at hl
            obtain ⟨g, as, hg, hgd, hp⟩ := ih (pre ++ [c]) fd hl hc
            have hdv : ∃ dv, f.noOptDefVal = some dv := by
              simp only [Pflag.PFlag.toDef] at hno
              cases hx : f.noOptDefVal with
              | none => simp [hx] at hno
              | some dv => exact ⟨dv, rfl⟩
            obtain ⟨dv, hdv⟩ := hdv
            refine ⟨g, (f.name, dv) :: as, hg, hgd, fun hv => ?_⟩
            rw [Pflag.parseShort]
            simp [hf, eqValue_ne r2 hd, hdv, hp hv]
          · -- `-fvalue`: the value is attached
            have hno' : f.toDef.noOptDef = false := by simpa using hno
            simp only [hno', Bool.not_false, if_true, Option.some.injEq] at hl
            subst hl
            simp [consumes] at hc

/-! ### the loop: a flag that waits for its value is the last word -/

def PendInv (fs : FlagSet) (inArgs : List Str) (fl : Option Found) : Prop :=
  ∀ fd, fl = some fd → consumes fd = true →
    ∃ ws0 a, inArgs = ws0 ++ [a] ∧ lookupArg fs a = some fd ∧ (a == "--".toList) = false

theorem consumes_after_arg (fd : Found) (arg : Str) : consumes { fd with args := fd.args ++ [arg] } = false := by
  simp [consumes]

theorem classify_pend {t : TTree} {c : Nat} {cs : TCmd} {arg : Str} (h : childNamed t c arg = none) (fs : FlagSet) (st st' : LoopState)
    (hc : classify t c cs fs arg st = .next st') : PendInv fs st'.inArgs st'.inFlag := by
  obtain ⟨inArgs, nPos, inFlag⟩ := st
  unfold classify at hc
  simp only [h] at hc
  -- the part without a waiting flag
  have noFlag : ∀ fl : Option Found, (∀ fd, fl = some fd → consumes fd = false) →
      (if (arg == "--".toList) = true then WordClass.dash
       else if (!cs.noFlagParse && Str.hasPrefix arg ['-'] && (cs.interspersed || nPos == 0)) = true then
         WordClass.next { inArgs := inArgs ++ [arg], nPos := nPos, inFlag := lookupArg fs arg }
       else WordClass.next { inArgs := inArgs ++ [arg], nPos := nPos + 1, inFlag := fl }) = .next st' →
      PendInv fs st'.inArgs st'.inFlag := by
    intro fl hfl hk
    by_cases h1 : (arg == "--".toList) = true
    · rw [if_pos h1] at hk; cases hk
    · rw [if_neg h1] at hk
      by_cases h2 : (!cs.noFlagParse && Str.hasPrefix arg ['-'] && (cs.interspersed || nPos == 0)) = true
      · rw [if_pos h2] at hk
        cases hk
        intro fd hfd _
        exact ⟨inArgs, arg, rfl, hfd, by simpa using h1⟩
      · rw [if_neg h2] at hk
        cases hk
        intro fd hfd hcon
        rw [hfl fd hfd] at hcon
        cases hcon
  cases inFlag with
  | none => exact noFlag none (fun fd e => by cases e) hc
  | some fd =>
    simp only [] at hc
    by_cases hcon : consumes fd = true
    · rw [if_pos hcon] at hc
      cases hc
      intro fd' hfd' hcon'
      simp only [consumes_after_arg, Bool.false_eq_true, if_false] at hfd'
      cases hfd'
    · rw [if_neg hcon] at hc
      exact noFlag (some fd) (fun fd' e => by cases e; simpa using hcon) hc

theorem loop_pend {t : TTree} {c : Nat} {cs : TCmd} (fs : FlagSet) :
    ∀ (ws : List Str) (st st' : LoopState) (b : Bool), NoChild t c ws →
      PendInv fs st.inArgs st.inFlag → loop t c cs fs ws st = .done st' b →
      b = false → PendInv fs st'.inArgs st'.inFlag := by
  intro ws
  induction ws with
  | nil =>
    intro st st' b _ hp hl _
    simp only [loop, LoopOut.done.injEq] at hl
    rw [← hl.1]; exact hp
  | cons arg rest ih =>
    intro st st' b hnc hp hl hb
    have harg := hnc arg (List.mem_cons_self ..)
    rw [loop] at hl
    rcases classify_single (cs := cs) harg fs st with hd | ⟨st1, hn, _⟩
    · simp only [hd, LoopOut.done.injEq] at hl
      rw [← hl.2] at hb; cases hb
    · simp only [hn] at hl
      exact ih st1 st' b (fun w hw => hnc w (List.mem_cons_of_mem _ hw)) (classify_pend harg fs st st1 hn) hl hb

/-- at the dash nothing is waited for (the dash would have been taken as the value) -/
theorem loop_dash_nopend {t : TTree} {c : Nat} {cs : TCmd} (fs : FlagSet) :
    ∀ (ws : List Str) (st st' : LoopState),
      loop t c cs fs ws st = .done st' true → ∀ fd, st'.inFlag = some fd → consumes fd = false := by
  intro ws
  induction ws with
  | nil => intro st st' hl; simp [loop] at hl
  | cons arg rest ih =>
    intro st st' hl fd hfd
    rw [loop] at hl
    cases hcl : classify t c cs fs arg st with
    | next st1 => simp only [hcl] at hl; exact ih st1 st' hl fd hfd
    | child k => simp [hcl] at hl
    | dash =>
      simp only [hcl, LoopOut.done.injEq, and_true] at hl
      subst hl
      simp only at hfd
      -- `classify` answered dash: the flag-argument branch was not taken
      obtain ⟨inArgs, nPos, inFlag⟩ := st
      simp only at hfd
      subst hfd
      unfold classify at hcl
      simp only [] at hcl
      by_cases hcon : consumes fd = true
      · rw [if_pos hcon] at hcl; cases hcl
      · simpa using hcon

/-! ### the parser on an interspersed line followed by more words -/

theorem parseArgs_append_inter {fs : Pflag.PFlags} (tail : List Str) (ht : tail ≠ []) :
    ∀ (ws : List Str) (skip : Bool) (p q : Pflag.Parsed),
      (skip = true → ws ≠ []) →
      Pflag.parseArgs fs true ws skip p = .ok q → q.lenAtDash = none →
      Pflag.parseArgs fs true (ws ++ tail) skip p = Pflag.parseArgs fs true tail false q := by
  intro ws
  induction ws with
  | nil =>
    intro skip p q hskip h hq
    cases skip with
    | true => exact absurd rfl (hskip rfl)
    | false =>
      simp only [Pflag.parseArgs, Except.ok.injEq] at h
      subst h
      rfl
  | cons s rest ih =>
    intro skip p q hskip h hq
    cases skip with
    | true =>
      simp only [List.cons_append, Pflag.parseArgs] at h ⊢
      cases rest with
      | nil =>
        simp only [Pflag.parseArgs, Except.ok.injEq] at h
        subst h
        simp
      | cons r0 r1 => exact ih false p q (by simp) h hq
    | false =>
      simp only [List.cons_append]
      cases hk : Pflag.wordKind s with
      | dash =>
        simp only [Pflag.parseArgs, hk, Except.ok.injEq] at h
        subst h
        simp at hq
      | long body =>
        simp only [Pflag.parseArgs, hk] at h ⊢
        cases rest with
        | nil =>
          cases tail with
          | nil => exact absurd rfl ht
          | cons t0 t1 =>
            simp only [List.head?_nil, List.nil_append, List.head?_cons] at h ⊢
            cases hl : Pflag.parseLong fs body none with
            | error e => simp [hl] at h
            | ok r =>
              obtain ⟨a, took⟩ := r
              obtain ⟨htk, hall⟩ := Pflag.parseLong_none hl
              subst htk
              simp only [hl, Pflag.parseArgs, Except.ok.injEq] at h
              simp only [hall (some t0)]
              subst h
              rfl
        | cons r0 r1 =>
          simp only [List.head?_cons, List.cons_append] at h ⊢
          cases hl : Pflag.parseLong fs body (some r0) with
          | error e => simp [hl] at h
          | ok r =>
            obtain ⟨a, took⟩ := r
            simp only [hl] at h ⊢
            exact ih took { p with sets := p.sets ++ [a] } q (by simp) h hq
      | short cs =>
        simp only [Pflag.parseArgs, hk] at h ⊢
        cases rest with
        | nil =>
          cases tail with
          | nil => exact absurd rfl ht
          | cons t0 t1 =>
            simp only [List.head?_nil, List.nil_append, List.head?_cons] at h ⊢
            cases hl : Pflag.parseShort fs cs none with
            | error e => simp [hl] at h
            | ok r =>
              obtain ⟨as, took⟩ := r
              obtain ⟨htk, hall⟩ := Pflag.parseShort_none hl
              subst htk
              simp only [hl, Pflag.parseArgs, Except.ok.injEq] at h
              simp only [hall (some t0)]
              subst h
              rfl
        | cons r0 r1 =>
          simp only [List.head?_cons, List.cons_append] at h ⊢
          cases hl : Pflag.parseShort fs cs (some r0) with
          | error e => simp [hl] at h
          | ok r =>
            obtain ⟨as, took⟩ := r
            simp only [hl] at h ⊢
            exact ih took { p with sets := p.sets ++ as } q (by simp) h hq
      | pos =>
        simp only [Pflag.parseArgs, hk, if_true] at h ⊢
        cases rest with
        | nil =>
          simp only [Pflag.parseArgs, Except.ok.injEq] at h
          subst h
          simp
        | cons r0 r1 => exact ih false { p with args := p.args ++ [s] } q (by simp) h hq

theorem wordKind_long (c : Char) (r : Str) : Pflag.wordKind ('-' :: '-' :: c :: r) = .long (c :: r) := by
  rw [Pflag.wordKind]
  intro e; cases e

theorem wordKind_short (c : Char) (r : Str) (hc : c ≠ '-') : Pflag.wordKind ('-' :: c :: r) = .short (c :: r) := by
  rw [Pflag.wordKind]
  · intro e _; exact hc e
  · intro e; exact hc e

theorem lookupArg_cases {fs : FlagSet} {a : Str} {fd : Found} (h : lookupArg fs a = some fd) :
    (∃ body, a = '-' :: '-' :: body ∧ lookupPosixLong fs body = some fd) ∨
    (∃ c rest, c ≠ '-' ∧ a = '-' :: c :: rest ∧ lookupPosixShort fs ['-'] (c :: rest) = some fd) := by
  cases a with
  | nil => simp [lookupArg] at h
  | cons x r =>
    cases r with
    | nil => simp [lookupArg] at h
    | cons y z =>
      by_cases hx : x = '-'
      · subst hx
        by_cases hy : y = '-'
        · subst hy
          exact Or.inl ⟨z, rfl, by simpa [lookupArg] using h⟩
        · refine Or.inr ⟨y, z, hy, rfl, ?_⟩
          rw [lookupArg] at h
          · exact h
          · intro e; exact hy e
      · exfalso
        rw [lookupArg] at h
        · cases h
        · intro body e; exact hx (by cases e; rfl)
        · intro c rest e; exact hx (by cases e; rfl)

/-- **C01 for the flag-value slot (any interspersed command, as long as the earlier words stay within it).** If the traverse model completes
    the value of flag `name`, then - given that the parser accepts the line up to the flag word -
    any word `v` the flag's type accepts, typed there, is accepted by the program's parser and is
    assigned to that very flag (as the last assignment of the line). -/
theorem C01_flag_value_lands {t : TTree} {c : Nat} {cs : TCmd} (h : Stay t c cs) (hi : cs.interspersed = true)
    (hn : NamesOk (flagsAt t (t.size + 1) c)) (fuel : Nat) (ws : List Str) (hnc : NoChild t c ws) (w name : Str)
    (hs : traverseSlot t (fuel + 1) c ws w = .flagValue c name) :
    ∀ v, (∀ f ∈ flagsAt t (t.size + 1) c, f.name = name → Pflag.valueOk f v = true) →
      ∃ p', Pflag.parse (flagsAt t (t.size + 1) c) true (ws ++ [v]) = .ok p' ∧ p'.sets.getLast? = some (name, v) := by
  intro v hv
  have ht0 : t[c]? = some cs := h.cmd
  unfold traverseSlot at hs
  simp only [ht0, h.name1, h.name2, Bool.false_eq_true, Bool.or_self, if_false] at hs
  obtain ⟨st, b, hl, hin⟩ := loop_single (cs := cs) ((flagsAt t (t.size + 1) c).map (·.toDef)) ws {} hnc
  simp only [hl, h.parses, Bool.false_eq_true, if_false, hi] at hs
  have hin' : st.inArgs = ws := by simpa using hin
  -- only a waiting flag gives this slot
  cases hfl : st.inFlag with
  | none =>
    exfalso
    simp only [hfl] at hs
    split at hs
    · simp at hs
    · split at hs
      · simp at hs
      · unfold traverseSlot.flagOrPositional at hs
        repeat' split at hs
        all_goals simp at hs
  | some fd =>
    simp only [hfl] at hs
    by_cases hcon : consumes fd = true
    · have hargs : fd.args.isEmpty = true := by
        simp only [consumes, Bool.and_eq_true] at hcon; exact hcon.2
      simp only [hargs, hcon, Bool.and_self, if_true, hin'] at hs
      cases hp : Pflag.parse (flagsAt t (t.size + 1) c) true ws.dropLast with
      | error e => simp [hp] at hs
      | ok p =>
        simp only [hp] at hs
        cases hd : p.lenAtDash with
        | some n => simp [hd] at hs
        | none =>
          simp only [hd, Slot.flagValue.injEq, true_and] at hs
          -- the waiting flag is the last word
          have hb : b = false := by
            cases b with
            | false => rfl
            | true =>
              have := loop_dash_nopend _ ws {} st hl fd hfl
              rw [this] at hcon; cases hcon
          have hpend := loop_pend _ ws {} st b hnc (by intro fd' e; cases e) hl hb fd hfl hcon
          obtain ⟨ws0, a, hws, hla, hnd⟩ := hpend
          rw [hin'] at hws
          have hdl : ws.dropLast = ws0 := by rw [hws]; simp
          rw [hdl] at hp
          have happ : ws ++ [v] = ws0 ++ [a, v] := by rw [hws]; simp
          rw [happ]
          unfold Pflag.parse at hp ⊢
          rw [parseArgs_append_inter [a, v] (by simp) ws0 false {} p (by simp) hp hd]
          -- the flag word, as carapace and as the parser read it
          rcases lookupArg_cases hla with ⟨body, rfl, hlong⟩ | ⟨c, rest, hc, rfl, hshort⟩
          · obtain ⟨f, hmem, hfd, hbne, hpl⟩ := long_pending hn v hlong hcon
            have hfn : f.name = name := by
              rw [← hs]; rw [← hfd]; rfl
            cases body with
            | nil => exact absurd rfl hbne
            | cons c r =>
              have := hpl (hv f hmem hfn)
              refine ⟨{ p with sets := p.sets ++ [(f.name, v)] }, ?_, by simp [hfn]⟩
              simp [Pflag.parseArgs, wordKind_long, this]
          · obtain ⟨f, as, hmem, hfd, hpl⟩ := short_pending v (c :: rest) ['-'] fd hshort hcon
            have hfn : f.name = name := by
              rw [← hs]; rw [← hfd]; rfl
            have := hpl (hv f hmem hfn)
            refine ⟨{ p with sets := p.sets ++ (as ++ [(f.name, v)]) }, ?_, by simp [hfn]⟩
            simp [Pflag.parseArgs, wordKind_short c rest hc, this]
    · exfalso
      have hcf : consumes fd = false := by simpa using hcon
      simp only [hcf, Bool.and_false, Bool.false_eq_true, if_false] at hs
      split at hs
      · simp at hs
      · split at hs
        · simp at hs
        · unfold traverseSlot.flagOrPositional at hs
          repeat' split at hs
          all_goals simp at hs

/-- non-vacuity: the hypotheses are met by an ordinary command, and the series `-vn` waits for `name` -/
example :
    let cs : TCmd := { name := "prog".toList, flags := [({ name := "name".toList, short := some 'n' }, false), ({ name := "verbose".toList, short := some 'v', kind := .bool }, false)] }
    Stay #[cs] 0 cs ∧ NoChild #[cs] 0 ["x".toList, "-vn".toList] ∧ NamesOk (flagsAt #[cs] 2 0) ∧
    traverseSlot #[cs] 3 0 ["x".toList, "-vn".toList] "val".toList = .flagValue 0 "name".toList := by
  refine ⟨⟨rfl, by decide, by decide, rfl⟩, by intro w hw; simp at hw; rcases hw with rfl | rfl <;> decide, ?_, by decide⟩
  intro f hf
  have : f = { name := "name".toList, short := some 'n' } ∨ f = { name := "verbose".toList, short := some 'v', kind := .bool } := by
    simpa [flagsAt, flagsAt.inherit] using hf
  rcases this with rfl | rfl <;> decide

end Carapace.Props.C01
