/- The functions of the library that start goroutines, create channels or select (file, function, what they contain; digest of
   the function body) that the review in DESIGN.md 13.5 was made for.  Snapshot written by `VERIF_SNAPSHOT_GOSTMTS=<this file> extract`;
   compared with the inventory regenerated from /repo on every run by `C09_goroutines_covered`. -/
namespace Carapace.Props.C09

def expectedGoStmts : List (String × Nat) := [
  ("action.go Action.Timeout: chan go select", 966210176808351854),
  ("batch.go parallelize: go", 8235738740852513162)
]

end Carapace.Props.C09
