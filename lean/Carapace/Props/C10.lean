/-
  C10 — completion output is deterministic, byte for byte.
  The candidate order is a total order (display text, ties broken by value): whatever order a Go
  map iteration or a goroutine schedule delivers the candidates in, and whichever (unstable)
  sorting algorithm is used, the sorted result is the same list.
-/
import Carapace.Model.Actions
import Carapace.Lemmas.Tokenize

namespace Carapace.Props.C10
open Carapace Carapace.Model

theorem char_eq_of_toNat {a b : Char} (h : a.toNat = b.toNat) : a = b := by
  apply Char.ext
  apply UInt32.toNat_inj.mp
  exact h

/-- the string order is total: neither below the other means equal -/
theorem str_eq_of_not_lt : ∀ (s t : Str), Str.lt s t = false → Str.lt t s = false → s = t
  | [], [], _, _ => rfl
  | [], _ :: _, h, _ => by simp [Str.lt] at h
  | _ :: _, [], _, h => by simp [Str.lt] at h
  | a :: s, b :: t, h1, h2 => by
    simp only [Str.lt, Bool.or_eq_false_iff, decide_eq_false_iff_not, Nat.not_lt, Bool.and_eq_false_iff] at h1 h2
    have hab : a.toNat = b.toNat := Nat.le_antisymm h2.1 h1.1
    have heq : a = b := char_eq_of_toNat hab
    subst heq
    have h1' : Str.lt s t = false := by
      rcases h1.2 with h | h
      · simp at h
      · exact h
    have h2' : Str.lt t s = false := by
      rcases h2.2 with h | h
      · simp at h
      · exact h
    rw [str_eq_of_not_lt s t h1' h2']

/-- "a is not after b" in the candidate order -/
def le (a b : RawValue) : Prop := byDisplayLt b a = false

/-- antisymmetry up to the sort key: equal display and equal value -/
theorem le_antisymm_key (a b : RawValue) (h1 : le a b) (h2 : le b a) :
    a.display = b.display ∧ a.value = b.value := by
  simp only [le, byDisplayLt, Bool.or_eq_false_iff, Bool.and_eq_false_iff] at h1 h2
  have hd : a.display = b.display := str_eq_of_not_lt _ _ h2.1 h1.1
  refine ⟨hd, ?_⟩
  have h1v : Str.lt b.value a.value = false := by
    rcases h1.2 with h | h
    · simp [hd] at h
    · exact h
  have h2v : Str.lt a.value b.value = false := by
    rcases h2.2 with h | h
    · simp [hd] at h
    · exact h
  exact str_eq_of_not_lt _ _ h2v h1v

/-- **C10 (order).** Two sorted arrangements of the same candidates are the same list, provided
    candidates that agree on display and value are equal (true after `Unique`, which keys by
    value).  `xs ~ ys` covers every map iteration order and schedule; "sorted" covers every
    sorting algorithm. -/
theorem C10_sorted_unique (xs ys : List RawValue) (hperm : xs.Perm ys)
    (hx : xs.Pairwise le) (hy : ys.Pairwise le)
    (hkey : ∀ a ∈ xs, ∀ b ∈ xs, a.display = b.display → a.value = b.value → a = b) : xs = ys := by
  apply List.Perm.eq_of_pairwise (le := le) _ hx hy hperm
  intro a b ha hb h1 h2
  have hb' : b ∈ xs := hperm.symm.subset hb
  obtain ⟨hd, hv⟩ := le_antisymm_key a b h1 h2
  exact hkey a ha b hb' hd hv

/-- after `Unique` (a map keyed by value) the key condition holds whatever the iteration order -/
theorem C10_unique_key (vs : List RawValue) :
    ∀ a ∈ uniqueByValue vs, ∀ b ∈ uniqueByValue vs, a.display = b.display → a.value = b.value → a = b := by
  intro a ha b hb _ hv
  have hnd := uniqueByValue_nodup vs
  -- two members with the same value are the same member
  induction huv : uniqueByValue vs generalizing a b with
  | nil => rw [huv] at ha; simp at ha
  | cons x r ih =>
    rw [huv] at ha hb hnd
    simp only [List.map_cons, List.nodup_cons] at hnd
    rcases List.mem_cons.mp ha with rfl | ha' <;> rcases List.mem_cons.mp hb with rfl | hb'
    · rfl
    · exact absurd (List.mem_map.mpr ⟨b, hb', hv.symm⟩) hnd.1
    · exact absurd (List.mem_map.mpr ⟨a, ha', hv⟩) hnd.1
    · -- both in the tail: the tail has distinct values too
      have : ∀ (l : List RawValue), (l.map (·.value)).Nodup → ∀ a ∈ l, ∀ b ∈ l, a.value = b.value → a = b := by
        intro l
        induction l with
        | nil => intro _ a ha; simp at ha
        | cons y l ihl =>
          intro hn a ha b hb hv
          simp only [List.map_cons, List.nodup_cons] at hn
          rcases List.mem_cons.mp ha with rfl | ha' <;> rcases List.mem_cons.mp hb with rfl | hb'
          · rfl
          · exact absurd (List.mem_map.mpr ⟨b, hb', hv.symm⟩) hn.1
          · exact absurd (List.mem_map.mpr ⟨a, ha', hv⟩) hn.1
          · exact ihl hn.2 a ha' b hb' hv
      exact this r hnd.2 a ha' b hb' hv

/-- which record survives `Unique` does not depend on iteration order either: it is the last
    one written for its value (slice order, fixed by the Batch theorem C09) -/
theorem C10_unique_last_wins (v : RawValue) (r : List RawValue) (h : r.any (fun x => x.value == v.value) = false) :
    v ∈ uniqueByValue (v :: r) := by
  simp [uniqueByValue, uniqueByValue.go, h]

end Carapace.Props.C10
