/-
  C08 — where the library changes the process: calls of os.Setenv / os.Unsetenv / os.Clearenv / os.Chdir and direct
  assignments to package-level variables, regenerated from /repo on every run (`Gen/GlobalEffects.lean`, extract/mapranges.go)
  and pinned to the reviewed list (`C08EffectSites.lean`).  All nine reviewed statements run at package initialisation or
  once on the entry path (`complete` -> `Patch`), none while an Action is invoked: registration of the storage, the style
  configuration, the logger, the match mode and the zsh named directories in `init`; bash's `Patch` recording COMP_TYPE and
  the word-break prefix and removing the COMP_* variables; cmd-clink's `Patch` removing CARAPACE_COMPLINE.  A statement of
  this kind anywhere else (an `os.Setenv` in `Context.Command`, a package-level memo written by a callback) breaks
  `C08_global_effects_covered`; the check then searches with the invocation histories of op `history`.
  Not seen by this inventory: writes through a pointer or a method receiver into state reachable from a package-level
  variable (the storage entries, reflection in config.Load) - those are what the histories are for.
-/
import Carapace.Gen.GlobalEffects
import Carapace.Basic.Str
import Carapace.Props.C08EffectSites

namespace Carapace.Props.C08

theorem C08_global_effects_covered : Gen.globalEffects = expectedGlobalEffects := by decide +kernel

/-- none of the reviewed statements lies in a file of the invocation path (action.go, invokedAction.go, defaultActions.go,
    context.go, batch.go, internalActions.go, storage.go) -/
theorem C08_no_effect_on_invocation_path :
    expectedGlobalEffects.all (fun e => !(["action.go ", "invokedAction.go ", "defaultActions.go ", "context.go ", "batch.go ",
      "internalActions.go ", "storage.go "].any (fun p => Carapace.Str.hasPrefix e.1.toList p.toList))) = true := by decide

end Carapace.Props.C08
