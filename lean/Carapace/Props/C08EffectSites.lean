/- The statements of the library that change the process (os.Setenv / Unsetenv / Clearenv / Chdir) or write a package-level variable
   (file, function, what; digest of the statement) that the review in DESIGN.md 13.5 was made for.  Snapshot written by
   `VERIF_SNAPSHOT_EFFECTS=<this file> extract`; compared with the inventory regenerated from /repo on every run by `C08_global_effects_covered`. -/
namespace Carapace.Props.C08

def expectedGlobalEffects : List (String × Nat) := [
  ("experimental.go init: writes storage", 5656286014085607712),
  ("internal/config/config.go RegisterStyle: writes config.Styles[name]", 8529254544147141188),
  ("internal/log/log.go init: writes LOG", 3133604872469803792),
  ("internal/shell/bash/patch.go Patch: writes compType", 6223104737345446110),
  ("internal/shell/bash/patch.go Patch: writes wordbreakPrefix", 3968678674987333469),
  ("internal/shell/bash/patch.go unsetBashCompEnv: os.Unsetenv", 3859323966005372385),
  ("internal/shell/cmd_clink/patch.go Patch: os.Unsetenv", 5879678762518197436),
  ("internal/shell/zsh/namedDirectory.go init: writes NamedDirectories[splitted[0]]", 278520799538455586),
  ("pkg/match/match.go init: writes match", 5896515949299102360)
]

end Carapace.Props.C08
