/-
  C01 in a non-POSIX flag set (a shorthand that is a word): `-word<d>value`.
  `C01_nonposix_attached`: carapace's lookup (`lookupNonPosixShorthandArg`) resolves the word to the flag
  whose shorthand is `word`, with prefix `-word<d>` and argument `value` - so that flag's completion is
  offered, prefixed - and the fork's parser (`parseSingleShortArg`, non-POSIX branch) assigns `value` to the
  same flag and takes no further word.  Hypotheses: `-` is no delimiter, no shorthand key contains a
  delimiter of the set, keys are distinct (the fork's `AddFlag` panics otherwise), and the text behind the
  dash is longer than two characters - the parser's own condition; what it excludes is the listed finding
  `nonposix_short_empty_attached`, decided at the end.
-/
import Carapace.Props.C01Fork
import Carapace.Lemmas.Sort

namespace Carapace.Props.C01Fork
open Carapace Carapace.Model Carapace.Spec Carapace.Spec.Pflag Carapace.Spec.PflagG

/-- `-` is no delimiter, and no delimiter of the set occurs in a shorthand key of the set -/
def ShortsDelimFree (fs : PFlagsG) : Prop :=
  ∀ f ∈ fs, ∀ g ∈ fs, g.delim ≠ '-' ∧ g.delim ∉ f.shortW ∧ (f.mode = 2 → g.delim ∉ f.name)

/-- shorthand keys are not shared: only `f` itself answers to `f`'s shorthand -/
def KeysDistinct (fs : PFlagsG) : Prop :=
  ∀ f ∈ fs, ∀ g ∈ fs, (g.shortW = f.shortW → g = f) ∧ (g.mode = 2 → g.shortW ≠ [] → g.name = f.shortW → g = f)

/-- only the key `f.shortW` can claim `shortW<d>value` -/
theorem cut_claims_short (fs : PFlagsG) (hd : ShortsDelimFree fs) (f g : PFlagG) (hf : f ∈ fs) (hg : g ∈ fs) (v k : Str)
    (hk : f.delim ∉ k) (h : (Str.cutChar g.delim (f.shortW ++ f.delim :: v)).1 = k) : k = f.shortW := by
  by_cases he : g.delim = f.delim
  · rw [he, Str.cutChar_append f.delim f.shortW v (hd f hf f hf).2.1] at h
    exact h.symm
  · exfalso
    rw [cutChar_fst_append g.delim f.shortW _ (hd f hf g hg).2.1] at h
    have hne : f.delim ≠ g.delim := fun e => he e.symm
    rw [Str.cutChar_cons_ne g.delim f.delim v hne] at h
    exact hk (by rw [← h]; simp)

theorem isPosixG_toDefG (fs : PFlagsG) : isPosixG (fs.map PFlagG.toDefG) = isPosixP fs := by
  unfold isPosixG isPosixP
  rw [List.all_map]
  rfl

theorem mem_shortKeys (g : PFlagG) (k : Str) (h : k ∈ g.shortKeys) :
    g.shortW ≠ [] ∧ (k = g.shortW ∨ (g.mode = 2 ∧ k = g.name)) := by
  unfold PFlagG.shortKeys at h
  by_cases he : g.shortW.isEmpty = true
  · simp [he] at h
  · have hne : g.shortW ≠ [] := by
      intro e; apply he; simp [e]
    simp only [he, Bool.false_eq_true, if_false] at h
    by_cases hm : (g.mode == 2) = true
    · simp only [hm, if_true, List.mem_cons, List.not_mem_nil, or_false] at h
      rcases h with h | h
      · exact ⟨hne, Or.inl h⟩
      · exact ⟨hne, Or.inr ⟨by simpa using hm, h⟩⟩
    · simp only [hm, Bool.false_eq_true, if_false, List.mem_cons, List.not_mem_nil, or_false] at h
      exact ⟨hne, Or.inl h⟩

/-- **C01, non-POSIX flag set, attached value.** -/
theorem C01_nonposix_attached (fs : PFlagsG) (hnp : isPosixP fs = false) (hd : ShortsDelimFree fs) (hk : KeysDistinct fs)
    (f : PFlagG) (hf : f ∈ fs) (c : Char) (w : Str) (hsw : f.shortW = c :: w) (hc : c ≠ '-')
    (v : Str) (hv : valueOkG f v = true) (hlen : (f.shortW ++ f.delim :: v).length > 2) (rest : List Str) (wl : Bool) :
    lookupArgG (fs.map PFlagG.toDefG) ('-' :: (f.shortW ++ f.delim :: v)) =
        some ⟨f.toDefG, '-' :: f.shortW ++ [f.delim], [v]⟩ ∧
    parseNonPosixShortG fs wl (f.shortW ++ f.delim :: v) rest = .ok ([(f.name, v)], 0) := by
  have hdf := hd f hf f hf
  have hcut : Str.cutChar f.delim (f.shortW ++ f.delim :: v) = (f.shortW, some v) :=
    Str.cutChar_append f.delim f.shortW v hdf.2.1
  constructor
  · -- carapace's side
    rw [hsw]
    show lookupArgG _ ('-' :: c :: (w ++ f.delim :: v)) = _
    unfold lookupArgG
    have hcc : ¬ (c = '-') := hc
    simp only [isPosixG_toDefG, hnp, Bool.false_eq_true, if_false]
    unfold lookupNonPosixG
    have hperm := sortBy_perm (fun (a b : FlagDefG) => Str.lt a.name b.name) (fs.map PFlagG.toDefG)
    have hmem : f.toDefG ∈ sortBy (fun (a b : FlagDefG) => Str.lt a.name b.name) (fs.map PFlagG.toDefG) :=
      hperm.symm.subset (List.mem_map_of_mem hf)
    have hfd : (f.toDefG).delim = f.delim := rfl
    have hfs : (f.toDefG).shortW = f.shortW := rfl
    have harg : ('-' :: c :: (w ++ f.delim :: v)) = '-' :: (f.shortW ++ f.delim :: v) := by rw [hsw]; rfl
    rw [harg]
    have hcutd : ∀ g : PFlagG, g ∈ fs → Str.cutChar g.delim ('-' :: (f.shortW ++ f.delim :: v)) =
        ('-' :: (Str.cutChar g.delim (f.shortW ++ f.delim :: v)).1, (Str.cutChar g.delim (f.shortW ++ f.delim :: v)).2) := by
      intro g hg
      exact Str.cutChar_cons_ne g.delim '-' _ (fun e => (hd f hf g hg).1 e.symm)
    rw [find_unique _ _ (f.toDefG) hmem]
    · simp only [Option.map_some, hfd, hcutd f hf, hcut]
      rw [← hsw]
    · rw [hfd, hfs, hcutd f hf, hcut]; simp
    · intro y hy hp
      have hy' : y ∈ fs.map PFlagG.toDefG := hperm.subset hy
      obtain ⟨g, hg, rfl⟩ := List.mem_map.mp hy'
      have hgd : (g.toDefG).delim = g.delim := rfl
      have hgs : (g.toDefG).shortW = g.shortW := rfl
      rw [hgd, hgs, hcutd g hg] at hp
      have h1 : (Str.cutChar g.delim (f.shortW ++ f.delim :: v)).1 = g.shortW := by simpa using hp
      have hkk : f.delim ∉ g.shortW := (hd g hg f hf).2.1
      have := cut_claims_short fs hd f g hf hg v g.shortW hkk h1
      rw [(hk f hf g hg).1 this]
  · -- the parser's side
    unfold parseNonPosixShortG findShortWordG
    have hkeys : f.shortW ∈ f.shortKeys := by
      unfold PFlagG.shortKeys
      have : f.shortW.isEmpty = false := by rw [hsw]; rfl
      simp only [this, Bool.false_eq_true, if_false]
      split <;> simp
    rw [find_unique _ fs f hf]
    · have hel : (f.shortW ++ f.delim :: v).elem f.delim = true := by simp
      simp only [hlen, decide_true, hel, Bool.and_self, if_true, hcut, Option.getD_some, hv]
    · simp only [List.any_eq_true]
      exact ⟨f.shortW, hkeys, by rw [hcut]; simp⟩
    · intro g hg hp
      simp only [List.any_eq_true, beq_iff_eq] at hp
      obtain ⟨k, hkm, hkc⟩ := hp
      obtain ⟨hne, hcase⟩ := mem_shortKeys g k hkm
      have hkd : f.delim ∉ k := by
        rcases hcase with e | ⟨hm, e⟩
        · rw [e]; exact (hd g hg f hf).2.1
        · rw [e]; exact (hd g hg f hf).2.2 hm
      have hkf := cut_claims_short fs hd f g hf hg v k hkd hkc
      rcases hcase with e | ⟨hm, e⟩
      · exact (hk f hf g hg).1 (e ▸ hkf)
      · exact (hk f hf g hg).2 hm hne (e ▸ hkf)

/-! the premises are satisfiable, and the excluded case is the listed finding -/

def npDelim : PFlagG := { name := "delim".toList, shortW := "delim".toList, mode := 1, delim := ':' }
def npOpt : PFlagG := { name := "opt".toList, short := some 'o', shortW := "o".toList }

example : lookupArgG ([npDelim, npOpt].map PFlagG.toDefG) "-delim:v".toList =
    some ⟨npDelim.toDefG, "-delim:".toList, ["v".toList]⟩ := by decide
example : parseG [npDelim, npOpt] true ["-delim:v".toList, "x".toList] =
    .ok { args := ["x".toList], sets := [("delim".toList, "v".toList)] } := by decide
/-- `-o= v`: the lookup takes the empty value for attached, the parser gives `v` to the flag -/
theorem nonposix_short_empty_attached_counterexample :
    (lookupArgG ([npDelim, npOpt].map PFlagG.toDefG) "-o=".toList).map (·.args) = some [[]] ∧
    parseG [npDelim, npOpt] true ["-o=".toList, "v".toList] =
      .ok { args := [], sets := [("opt".toList, "v".toList)] } := by decide

end Carapace.Props.C01Fork
