/-
  C01 / C07, behind a path of sub-command names carapace and cobra are in the same command.
  `Spec/Cobra.lean` specifies cobra's `Find` (tied to the real package by op `cobrafind`).  `find_path`: a line that begins
  with a path of sub-command names is dispatched by cobra to the command the path leads to, with the remaining words
  (`find_descend` by induction); `find_stays`: there it stays when no remaining word names a child.  With
  `traverseSlot_path` (C01Descent.lean) this is `C01_path_same_command`: for such lines the command whose completion
  carapace serves is the command cobra runs, and the words both look at are the same.  (Sub-command names *behind* other
  words are the listed finding `descent_heuristics`: there the two disagree.)
-/
import Carapace.Spec.Cobra
import Carapace.Props.C01Descent

namespace Carapace.Props.C01
open Carapace Carapace.Model Carapace.Spec

theorem hasPrefix_dd_d (s : Str) (h : Str.hasPrefix s ['-', '-'] = true) : Str.hasPrefix s ['-'] = true := by
  cases s with
  | nil => simp [Str.hasPrefix] at h
  | cons c r =>
    simp only [Str.hasPrefix, Bool.and_eq_true] at h ⊢
    cases r <;> simp_all [Str.hasPrefix]

/-- a word that is not flag-like never makes cobra skip the following word -/
theorem takesNext_word (fs : Pflag.PFlags) (s : Str) (h : Str.hasPrefix s ['-'] = false) : Cobra.takesNext fs s = false := by
  have h2 : Str.hasPrefix s ['-', '-'] = false := by
    cases hh : Str.hasPrefix s ['-', '-'] with
    | false => rfl
    | true => rw [hasPrefix_dd_d s hh] at h; cases h
  simp [Cobra.takesNext, h, h2]

theorem not_dashdash (s : Str) (h : Str.hasPrefix s ['-'] = false) : s ≠ ['-', '-'] := by
  intro e; rw [e] at h; simp [Str.hasPrefix] at h

theorem stripFlags_word (fs : Pflag.PFlags) (s : Str) (rest : List Str) (hne : s ≠ []) (h : Str.hasPrefix s ['-'] = false) :
    Cobra.stripFlags fs (s :: rest) = s :: Cobra.stripFlags fs rest := by
  simp [Cobra.stripFlags, Cobra.stripFlagsAux, not_dashdash s h, takesNext_word fs s h, hne, h]

theorem argsMinusFirstX_head (fs : Pflag.PFlags) (s : Str) (rest : List Str) (h : Str.hasPrefix s ['-'] = false) :
    Cobra.argsMinusFirstX fs s (s :: rest) = rest := by
  simp [Cobra.argsMinusFirstX, Cobra.argsMinusFirstXAux, not_dashdash s h, takesNext_word fs s h, h]

/-- a first word that names a child: cobra goes on in that child with the remaining words -/
theorem find_descend (t : TTree) (fuel c k : Nat) (w : Str) (ws : List Str) (hne : w ≠ [])
    (hk : childNamed t c w = some k) : Cobra.find t (fuel + 1) c (w :: ws) = Cobra.find t fuel k ws := by
  have hnf := childNamed_not_flaglike hk
  simp only [Cobra.find, stripFlags_word _ w ws hne hnf, hk, argsMinusFirstX_head _ w ws hnf]

/-- what `stripFlags` keeps are words of the line -/
theorem stripFlagsAux_sub (fs : Pflag.PFlags) : ∀ (ws : List Str) (skip : Bool), ∀ w ∈ Cobra.stripFlagsAux fs ws skip, w ∈ ws := by
  intro ws
  induction ws with
  | nil => intro skip w hw; simp [Cobra.stripFlagsAux] at hw
  | cons s rest ih =>
    intro skip w hw
    cases skip with
    | true => simp only [Cobra.stripFlagsAux] at hw; exact List.mem_cons_of_mem _ (ih false w hw)
    | false =>
      simp only [Cobra.stripFlagsAux] at hw
      by_cases h1 : s = ['-', '-']
      · simp [h1] at hw
      · simp only [h1, if_false] at hw
        by_cases h2 : Cobra.takesNext fs s = true
        · simp only [h2, if_true] at hw
          by_cases h3 : rest.length ≤ 1
          · simp [h3] at hw
          · simp only [h3, if_false] at hw
            exact List.mem_cons_of_mem _ (ih true w hw)
        · simp only [h2, Bool.false_eq_true, if_false] at hw
          by_cases h3 : s ≠ [] ∧ Str.hasPrefix s ['-'] = false
          · rw [if_pos h3] at hw
            rcases List.mem_cons.mp hw with e | hw
            · rw [e]; simp
            · exact List.mem_cons_of_mem _ (ih false w hw)
          · rw [if_neg h3] at hw
            exact List.mem_cons_of_mem _ (ih false w hw)

/-- no remaining word names a child: cobra stays -/
theorem find_stays (t : TTree) (fuel c : Nat) (ws : List Str) (hnc : NoChild t c ws) :
    Cobra.find t fuel c ws = (c, ws) := by
  cases fuel with
  | zero => rfl
  | succ fuel =>
    simp only [Cobra.find]
    cases hs : Cobra.stripFlags (flagsAt t (t.size + 1) c) ws with
    | nil => rfl
    | cons next r =>
      have hmem : next ∈ ws := stripFlagsAux_sub _ ws false next (by unfold Cobra.stripFlags at hs; rw [hs]; simp)
      simp [hnc next hmem]

/-- a path of sub-command names, none of them empty -/
def PathWordsNonEmpty (path : List Str) : Prop := ∀ w ∈ path, w ≠ []

theorem find_path {t : TTree} {c k : Nat} {path : List Str} (hp : Path t c path k) (hne : PathWordsNonEmpty path)
    (fuel : Nat) (ws : List Str) :
    Cobra.find t (fuel + path.length) c (path ++ ws) = Cobra.find t fuel k ws := by
  induction hp with
  | nil c => rfl
  | @cons c0 k0 k1 cs0 w0 ws0 hst hk _ ih =>
    have : fuel + (w0 :: ws0).length = (fuel + ws0.length) + 1 := by simp; omega
    rw [this, List.cons_append, find_descend t _ c0 k0 w0 _ (hne w0 (by simp)) hk]
    exact ih (fun w hw => hne w (List.mem_cons_of_mem _ hw))

/-- **behind a path of sub-command names carapace and cobra are in the same command with the same words**: cobra
    dispatches `path ++ ws` to the command `k` the path leads to and hands it `ws`; the traverse model computes the slot of
    the word under the cursor as the slot of `ws` in that same `k`. -/
theorem C01_path_same_command {t : TTree} {c k : Nat} {path : List Str} (hp : Path t c path k) (hne : PathWordsNonEmpty path)
    (fuel : Nat) (ws : List Str) (hnc : NoChild t k ws) (value : Str) :
    Cobra.find t (fuel + 1 + path.length) c (path ++ ws) = (k, ws) ∧
    traverseSlot t (fuel + 1 + path.length) c (path ++ ws) value = traverseSlot t (fuel + 1) k ws value := by
  refine ⟨?_, traverseSlot_path hp (fuel + 1) ws value⟩
  rw [find_path hp hne (fuel + 1) ws]
  exact find_stays t (fuel + 1) k ws hnc

/-- **C01, flag-value slot, behind a path of sub-command names**: cobra dispatches `path ++ ws ++ [v]` to the command `k`
    the path leads to and hands it `ws ++ [v]`; if the traverse model completes the value of flag `name` there, `k`'s parser
    accepts those words and assigns `v` to that flag. -/
theorem C01_flag_value_lands_after_path {t : TTree} {c k : Nat} {cs : TCmd} {path : List Str} (hp : Path t c path k)
    (hne : PathWordsNonEmpty path) (h : Stay t k cs) (hi : cs.interspersed = true)
    (hn : NamesOk (flagsAt t (t.size + 1) k)) (fuel : Nat) (ws : List Str) (hnc : NoChild t k ws) (w name : Str)
    (hs : traverseSlot t (fuel + 1 + path.length) c (path ++ ws) w = .flagValue k name) :
    ∀ v, childNamed t k v = none → (∀ f ∈ flagsAt t (t.size + 1) k, f.name = name → Pflag.valueOk f v = true) →
      Cobra.find t (fuel + 1 + path.length) c (path ++ (ws ++ [v])) = (k, ws ++ [v]) ∧
      ∃ p', Pflag.parse (flagsAt t (t.size + 1) k) true (ws ++ [v]) = .ok p' ∧ p'.sets.getLast? = some (name, v) := by
  intro v hv hok
  rw [traverseSlot_path hp] at hs
  refine ⟨?_, C01_flag_value_lands h hi hn fuel ws hnc w name hs v hok⟩
  rw [find_path hp hne (fuel + 1) (ws ++ [v])]
  apply find_stays
  intro x hx
  rcases List.mem_append.mp hx with hx | hx
  · exact hnc x hx
  · simp at hx; rw [hx]; exact hv

/-- **C07, sub-command names**: a name (or alias) of a child of the command a path of names leads to, typed there, is
    dispatched by cobra to that very child with nothing left over - so are the words that follow it, handed on unchanged
    as long as none of them names a grandchild -/
theorem C07_subcommand_dispatches {t : TTree} {c k k' : Nat} {path : List Str} (hp : Path t c path k) (hne : PathWordsNonEmpty path)
    (name : Str) (hname : name ≠ []) (hk : childNamed t k name = some k') (fuel : Nat) (ws : List Str) (hnc : NoChild t k' ws) :
    Cobra.find t (fuel + 2 + path.length) c (path ++ name :: ws) = (k', ws) := by
  rw [show fuel + 2 + path.length = (fuel + 2) + path.length from rfl, find_path hp hne (fuel + 2) (name :: ws)]
  rw [show fuel + 2 = (fuel + 1) + 1 from rfl, find_descend t (fuel + 1) k k' name ws hname hk]
  exact find_stays t (fuel + 1) k' ws hnc

/-- non-vacuity: `root sub --flag x` in a two-command tree -/
example :
    let root : TCmd := { name := "root".toList }
    let sub : TCmd := { name := "sub".toList, parent := some 0, flags := [({ name := "flag".toList }, false)] }
    childNamed #[root, sub] 0 "sub".toList = some 1 ∧
    Cobra.find #[root, sub] 5 0 ["sub".toList, "--flag".toList, "x".toList] = (1, ["--flag".toList, "x".toList]) := by
  decide

end Carapace.Props.C01
