/-
  C11 — MultiParts completes a set of values segment by segment, soundly and completely.
  Theorems over the model `tokenize` / `toMultiPartsValues` (a transcription of
  invokedAction.go:98-172), for arbitrary value sets, divider lists and typed texts.
  All theorems carry "no divider is the empty string": with the empty divider the pinned code
  panics / makes values unreachable (listed findings, counterexamples below).
-/
import Carapace.Model.Actions
import Carapace.Lemmas.Tokenize

namespace Carapace.Props.C11
open Carapace Carapace.Model

/-- the tokens concatenate to the text: nothing is lost, added or reordered -/
theorem C11_tokenize_concat (ds : List Str) (h : ∀ d ∈ ds, d ≠ []) (s : Str) : (tokenize s ds).flatten = s :=
  (tokenize_flatten ds h s).1

theorem C11_tokenize_nonempty (ds : List Str) (h : ∀ d ∈ ds, d ≠ []) (s : Str) : tokenize s ds ≠ [] :=
  (tokenize_flatten ds h s).2

theorem flatten_take_prefix (ts : List Str) (n : Nat) : ∃ r, ts.flatten = (ts.take n).flatten ++ r := by
  refine ⟨(ts.drop n).flatten, ?_⟩
  rw [← List.flatten_append, List.take_append_drop]

/-- the candidate `MultiParts` builds from value `v` at depth `n` -/
def candOf (ds : List Str) (n : Nat) (v : Str) : Str := ((tokenize v ds).take n).flatten

/-- **sound**: every offered candidate is the first `n` segments of an original value that starts
    with the typed text (`n` = number of segments of the typed text) - hence a prefix of that value,
    cut right after a divider or equal to the whole value. It never panics for non-empty dividers. -/
theorem C11_sound (ci : Bool) (ds : List Str) (hds : ∀ d ∈ ds, d ≠ []) (vs : List RawValue) (cv : Str) :
    ∃ out, toMultiPartsValues ci ds vs cv = some out ∧
      ∀ cand ∈ out, ∃ v ∈ vs, matchHasPrefix ci v.value cv = true ∧
        (tokenize v.value ds).length ≥ (tokenize cv ds).length ∧
        cand.value = candOf ds (tokenize cv ds).length v.value ∧
        (∃ r, v.value = cand.value ++ r) := by
  have hne := C11_tokenize_nonempty ds hds cv
  have hE : (tokenize cv ds).isEmpty = false := by
    cases h : tokenize cv ds with
    | nil => exact absurd h hne
    | cons _ _ => rfl
  simp only [toMultiPartsValues, hE, Bool.false_eq_true, if_false]
  refine ⟨_, rfl, ?_⟩
  intro cand hc
  have hc' := uniqueByValue_sub _ cand hc
  simp only [List.mem_filterMap] at hc'
  obtain ⟨v, hv, hsome⟩ := hc'
  by_cases hp : matchHasPrefix ci v.value cv = true
  · simp only [hp, if_true] at hsome
    by_cases hl : (tokenize v.value ds).length ≥ (tokenize cv ds).length
    · simp only [hl, if_true] at hsome
      have hval : cand.value = candOf ds (tokenize cv ds).length v.value := by
        split at hsome <;> (simp at hsome; rw [← hsome]; rfl)
      refine ⟨v, hv, hp, hl, hval, ?_⟩
      obtain ⟨r, hr⟩ := flatten_take_prefix (tokenize v.value ds) (tokenize cv ds).length
      rw [C11_tokenize_concat ds hds v.value] at hr
      exact ⟨r, by rw [hval]; exact hr⟩
    · simp [hl] at hsome
  · simp [hp] at hsome

/-- **complete**: every original value that starts with the typed text (and has at least as many
    segments) is the continuation of a candidate that is offered -/
theorem C11_complete (ci : Bool) (ds : List Str) (hds : ∀ d ∈ ds, d ≠ []) (vs : List RawValue) (cv : Str)
    (v : RawValue) (hv : v ∈ vs) (hp : matchHasPrefix ci v.value cv = true)
    (hl : (tokenize v.value ds).length ≥ (tokenize cv ds).length) :
    ∃ out, toMultiPartsValues ci ds vs cv = some out ∧
      ∃ cand ∈ out, cand.value = candOf ds (tokenize cv ds).length v.value := by
  have hne := C11_tokenize_nonempty ds hds cv
  have hE : (tokenize cv ds).isEmpty = false := by
    cases h : tokenize cv ds with
    | nil => exact absurd h hne
    | cons _ _ => rfl
  simp only [toMultiPartsValues, hE, Bool.false_eq_true, if_false]
  refine ⟨_, rfl, ?_⟩
  -- the record built from `v` is in the list before deduplication
  let n := (tokenize cv ds).length
  have : ∃ x, x ∈ (vs.filterMap (fun val =>
      if matchHasPrefix ci val.value cv = true then
        if (tokenize val.value ds).length ≥ n then
          if ((tokenize val.value ds).length == n) = true then
            some ({ value := ((tokenize val.value ds).take n).flatten, display := (tokenize val.value ds).getD (n - 1) [],
                    description := val.description, style := val.style, tag := val.tag, uid := val.uid } : RawValue)
          else
            some ({ value := ((tokenize val.value ds).take n).flatten, display := (tokenize val.value ds).getD (n - 1) [],
                    description := [], style := [], tag := val.tag, uid := val.uid } : RawValue)
        else none
      else none)) ∧ x.value = candOf ds n v.value := by
    by_cases he : ((tokenize v.value ds).length == n) = true
    · refine ⟨({ value := ((tokenize v.value ds).take n).flatten, display := (tokenize v.value ds).getD (n - 1) [],
                  description := v.description, style := v.style, tag := v.tag, uid := v.uid } : RawValue),
               List.mem_filterMap.mpr ⟨v, hv, ?_⟩, rfl⟩
      have hl' : (tokenize v.value ds).length ≥ n := hl
      simp only [hp, if_true, he]
      rw [if_pos hl']
    · refine ⟨({ value := ((tokenize v.value ds).take n).flatten, display := (tokenize v.value ds).getD (n - 1) [],
                  description := [], style := [], tag := v.tag, uid := v.uid } : RawValue),
               List.mem_filterMap.mpr ⟨v, hv, ?_⟩, rfl⟩
      have hl' : (tokenize v.value ds).length ≥ n := hl
      simp only [hp, if_true, he, Bool.false_eq_true, if_false]
      rw [if_pos hl']
  obtain ⟨x, hx, hxv⟩ := this
  obtain ⟨y, hy, hyv⟩ := uniqueByValue_cover _ x hx
  exact ⟨y, hy, by rw [hyv, hxv]⟩

/-- **exactly one**: the offered candidates are pairwise distinct, so every original value is the
    continuation of exactly one of them -/
theorem C11_distinct (ci : Bool) (ds : List Str) (vs : List RawValue) (cv : Str) (out : List RawValue)
    (h : toMultiPartsValues ci ds vs cv = some out) : (out.map (·.value)).Nodup := by
  unfold toMultiPartsValues at h
  by_cases hE : (tokenize cv ds).isEmpty = true
  · simp only [hE, if_true] at h
    by_cases ha : (vs.any fun val => matchHasPrefix ci val.value cv) = true
    · simp [ha] at h
    · simp only [ha, Bool.false_eq_true, if_false, Option.some.injEq] at h
      subst h; simp
  · simp only [hE, Bool.false_eq_true, if_false, Option.some.injEq] at h
    subst h
    exact uniqueByValue_nodup _

/-- intermediate steps suppress the trailing space: the no-space set holds the last character of
    every divider -/
theorem C11_nospace_single (d : Str) (c : Char) (h : d.getLast? = some c) :
    multiPartsNospace [d] = [c] := by
  simp [multiPartsNospace, multiPartsNospace.go, h, SuffixMatcher.add, sortBy, insertSorted]

/-- one step at a time: the candidate has exactly as many segments as the typed text (when the
    value has at least that many), i.e. it extends the typed text by at most one segment -/
theorem C11_one_segment (ds : List Str) (n : Nat) (v : Str) (h : (tokenize v ds).length ≥ n) :
    ((tokenize v ds).take n).length = n := by
  simp [List.length_take]; omega

/-! ### the empty divider (listed findings) -/

/-- with the empty divider and an empty typed text the real code indexes `splitted[-1]`:
    the model reports the panic (finding `multiparts_empty_divider_panic`) -/
theorem C11_empty_divider_panics :
    toMultiPartsValues false [[]] [{ value := "ab".toList, display := "ab".toList }] [] = none := by decide

/-- with the empty divider, values `a` and `ab`, typed `a`: the only candidate is `a` again, so `ab`
    is unreachable (finding `multiparts_empty_divider_unreachable`) -/
theorem C11_empty_divider_unreachable :
    (toMultiPartsValues false [[]] [{ value := "a".toList, display := [] }, { value := "ab".toList, display := [] }] ['a']).map
      (·.map (·.value)) = some ["a".toList] := by decide

end Carapace.Props.C11
