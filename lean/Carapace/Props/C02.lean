/-
  C02 — what the user typed is preserved; filtering is exact prefix filtering.
  Theorems about the model of the pipeline (`FilterPrefix`, sorting, integration) and of the
  sanitizers; the formatter-specific part (common-prefix step) with its counterexample.
-/
import Carapace.Model.Shells
import Carapace.Spec.FmtOracle
import Carapace.Lemmas.Sort
import Carapace.Lemmas.Sanitizer
import Carapace.Props.C06

namespace Carapace.Props.C02
open Carapace Carapace.Model Carapace.Spec

/-- **sound**: everything that passes the filter extends the typed word -/
theorem filterPrefix_sound (ci : Bool) (vs : List RawValue) (w : Str) :
    ∀ v ∈ filterPrefix ci vs w, matchHasPrefix ci v.value w = true := by
  intro v hv
  exact (List.mem_filter.mp hv).2

/-- **complete**: everything that extends the typed word passes the filter -/
theorem filterPrefix_complete (ci : Bool) (vs : List RawValue) (w : Str) (v : RawValue)
    (hv : v ∈ vs) (h : matchHasPrefix ci v.value w = true) : v ∈ filterPrefix ci vs w :=
  List.mem_filter.mpr ⟨hv, h⟩

/-- the filter keeps the order and multiplicity: it is a sublist -/
theorem filterPrefix_sublist (ci : Bool) (vs : List RawValue) (w : Str) :
    (filterPrefix ci vs w).Sublist vs := List.filter_sublist

/-- the candidates the pipeline hands to a formatter, when no messages are integrated:
    exactly the (decoloured) candidates that extend the typed word — all of them when unfiltered *)-/
theorem C02_pipeline_exact (sh : Str) (env : Env) (w : Str) (m : Meta) (vs : List RawValue)
    (hm : m.messages = []) (x : RawValue) :
    x ∈ (pipeline sh env w m vs).2 ↔
      ∃ v ∈ (if env.colorDisabled then vs.map (fun v => { v with style := [] }) else vs),
        (env.unfiltered = true ∨ matchHasPrefix env.ci v.value w = true) ∧ x = { v with uid := [] } := by
  unfold pipeline
  simp only [hm, integrate, List.isEmpty_nil, if_true, ite_self, List.mem_map, mem_sortBy]
  by_cases hu : env.unfiltered = true
  · simp only [hu, if_true, true_or, true_and]
    constructor
    · rintro ⟨v, hv, rfl⟩; exact ⟨v, hv, rfl⟩
    · rintro ⟨v, hv, rfl⟩; exact ⟨v, hv, rfl⟩
  · simp only [hu, Bool.false_eq_true, if_false, false_or, filterPrefix, List.mem_filter]
    constructor
    · rintro ⟨v, ⟨hv, hp⟩, rfl⟩; exact ⟨v, hv, hp, rfl⟩
    · rintro ⟨v, hv, hp, rfl⟩; exact ⟨v, ⟨hv, hp⟩, rfl⟩

/-- **unfiltered**: with CARAPACE_UNFILTERED the invoked set is passed through -/
theorem C02_unfiltered_length (sh : Str) (env : Env) (w : Str) (m : Meta) (vs : List RawValue)
    (hm : m.messages = []) (hu : env.unfiltered = true) : (pipeline sh env w m vs).2.length = vs.length := by
  unfold pipeline
  simp only [hm, integrate, List.isEmpty_nil, if_true, ite_self, hu, List.length_map, length_sortBy]
  split <;> simp

/-- the number of candidates handed to the formatter never exceeds the invoked set plus one
    entry per message and the filler -/
theorem C02_nothing_added (sh : Str) (env : Env) (w : Str) (m : Meta) (vs : List RawValue) (hm : m.messages = []) :
    (pipeline sh env w m vs).2.length ≤ vs.length := by
  unfold pipeline
  simp only [hm, integrate, List.isEmpty_nil, if_true, ite_self, List.length_map, length_sortBy]
  by_cases hc : env.colorDisabled = true <;> by_cases hu : env.unfiltered = true <;>
    simp only [hc, hu, if_true, Bool.false_eq_true, if_false, List.length_map, Nat.le_refl]
  · have := (filterPrefix_sublist env.ci (List.map (fun v => { v with style := [] }) vs) w).length_le
    simpa using this
  · exact (filterPrefix_sublist env.ci vs w).length_le

/-! ### sanitising preserves "extends the typed word" -/

theorem hasPrefix_iff (s p : Str) : Str.hasPrefix s p = true ↔ ∃ t, s = p ++ t := by
  induction p generalizing s with
  | nil => simp [Str.hasPrefix]
  | cons d p ih =>
    cases s with
    | nil => simp [Str.hasPrefix]
    | cons c s =>
      simp only [Str.hasPrefix, Bool.and_eq_true, beq_iff_eq, ih, List.cons_append, List.cons.injEq]
      constructor
      · rintro ⟨rfl, t, rfl⟩; exact ⟨t, rfl, rfl⟩
      · rintro ⟨t, rfl, rfl⟩; exact ⟨rfl, t, rfl⟩

/-- a character-wise replacer is a monoid homomorphism, so prefixes are preserved:
    if the value extends the typed word, the sanitised value extends the sanitised typed word -/
theorem san_prefix (t : Replacer) (v w : Str) (h : Str.hasPrefix v w = true) :
    Str.hasPrefix (san t v) (san t w) = true := by
  obtain ⟨r, rfl⟩ := (hasPrefix_iff v w).mp h
  apply (hasPrefix_iff _ _).mpr
  exact ⟨san t r, by simp [san, Replacer.applyChars, List.flatMap_append]⟩

/-- a typed word without tab / CR / LF is left alone by a sanitizer -/
theorem san_id (t : Replacer) (w : Str) (h : ∀ c ∈ w, Replacer.lookup t c = none) : san t w = w := by
  induction w with
  | nil => rfl
  | cons c w ih =>
    have hc := h c (List.mem_cons_self ..)
    have := ih (fun d hd => h d (List.mem_cons_of_mem _ hd))
    simp only [san, Replacer.applyChars, List.flatMap_cons, Replacer.escChar, hc, Option.getD_none] at this ⊢
    simp [this]

/-- **fish** (a natively quoting format): every emitted value extends the typed word -/
theorem C02_fish_sound (w : Str) (hw : ∀ c ∈ w, Replacer.lookup Gen.fish_sanitizer c = none)
    (vs : List RawValue) (hv : ∀ v ∈ vs, Str.hasPrefix v.value w = true) :
    ∀ v ∈ vs, Str.hasPrefix (san Gen.fish_sanitizer v.value) w = true := by
  intro v hvm
  have := san_prefix Gen.fish_sanitizer v.value w (hv v hvm)
  rwa [san_id _ w hw] at this

/-! ### bash / tcsh: the common-prefix step (finding `bash_common_prefix_not_extending`) -/

/-- **false of the pinned code under case-insensitive matching**: typed `fo`, candidates `Foo`
    and `FOX` (both match case-insensitively): bash emits the single text `F`, shorter than and
    different from what was typed. -/
theorem C02_bash_ci_counterexample :
    bashFormat { ci := true } "fo".toList {} [{ value := "FOX".toList, display := "FOX".toList }, { value := "Foo".toList, display := "Foo".toList }]
      = "true".toList ++ [Char.ofNat 1] ++ "F".toList := by decide

/-- when the step is not taken the candidates are the pipeline's, one text per candidate -/
theorem C02_bash_no_step_count (lastSegment dflt : Str) (vs : List RawValue)
    (h : (commonStep lastSegment dflt vs).2 = false) : (commonStep lastSegment dflt vs).1 = vs := by
  unfold commonStep at h ⊢
  by_cases hc : (decide (vs.length > 1) && !(commonPrefixAll (·.display) vs).isEmpty) = true
  · simp only [hc, if_true] at h
    by_cases hl : (lastSegment != commonPrefixAll (·.value) vs) = true <;> simp [hl] at h
  · simp [hc]

end Carapace.Props.C02
