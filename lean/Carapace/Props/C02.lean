/- C02 property theorems (under construction) -/
import Carapace.Model.Shells
import Carapace.Spec.FmtOracle

namespace Carapace.Props.C02

end Carapace.Props.C02
