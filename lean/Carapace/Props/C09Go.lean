/-
  C09 / C19 — the functions of the library that start goroutines, create channels or select are the two the models and
  theorems are about: `parallelize` (batch.go: one goroutine per member, results written to the member's own slot, a
  WaitGroup as the only synchronisation - `runSchedule_spec`, `C09_schedule_independent`) and `Action.Timeout` (action.go:
  one goroutine, one buffered channel, one select - `C19_*`, `channel_capacity`, `timeout_shape`).  The inventory is
  regenerated from /repo on every run (`Gen/GoStmts.lean`: file, function, what it contains, digest of the function body);
  a goroutine started anywhere else, or any change inside these two functions, breaks `C09_goroutines_covered`, and the
  check then searches with the race detector and the schedule-sensitive scenarios.
-/
import Carapace.Gen.GoStmts
import Carapace.Props.C09GoSites

namespace Carapace.Props.C09

theorem C09_goroutines_covered : Gen.goStmts = expectedGoStmts := by decide +kernel

/-- exactly these two -/
theorem C09_goroutines_where : expectedGoStmts.map (·.1) =
    ["action.go Action.Timeout: chan go select", "batch.go parallelize: go"] := by decide

end Carapace.Props.C09
