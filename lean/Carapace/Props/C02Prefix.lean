/-
  `commonPrefix` of internal/shell/bash/action.go and tcsh/action.go after fix 18f19b1: the length of the
  longest common prefix of the two byte strings, cut back while it points at a continuation byte.
  `goCommonPrefix_eq`: on UTF-8 encoded text this is the longest common prefix counted in characters -
  the function `Model.commonPrefix` the formatter models and the C02 / C04 / C05 theorems use - and it never
  leaves a partial character behind.  (Before the fix the byte count was used as it was:
  `byte_prefix_splits_character`.)
-/
import Carapace.Basic.Utf8
import Carapace.Model.Shells

namespace Carapace.Props.C02Prefix
open Carapace Carapace.Utf8

/-- `!utf8.RuneStart(b)`: a continuation byte `10xxxxxx` -/
def isCont (b : Nat) : Bool := decide (0x80 ≤ b) && decide (b < 0xC0)

/-- `for i > 0 && i < len(a) && !utf8.RuneStart(a[i]) { i-- }` -/
def backoff (a : List Nat) : Nat → Nat
  | 0 => 0
  | i + 1 => if decide (i + 1 < a.length) && isCont (a.getD (i + 1) 0) then backoff a i else i + 1

/-- the Go function on the UTF-8 bytes of two texts: the characters of `a` inside the cut, and how many
    bytes of a partial character are left over -/
def goCommonPrefix (a b : Str) : Str × Nat :=
  byteTake (backoff (encode a) (commonLen (encode a) (encode b))) a

/-! ### facts about the encoding of one character -/

theorem toNat_lt (c : Char) : c.toNat < 0x110000 := by
  have := c.valid
  rcases this with h | h
  · have : c.val.toNat < 0xD800 := h
    show c.val.toNat < 0x110000
    omega
  · have : c.val.toNat < 0x110000 := h.2
    exact this

theorem enc1 (c : Char) (h : c.toNat < 0x80) : encodeChar c = [c.toNat] := by
  unfold encodeChar; simp [h]
theorem enc2 (c : Char) (h1 : ¬ c.toNat < 0x80) (h : c.toNat < 0x800) :
    encodeChar c = [0xC0 + c.toNat / 64, 0x80 + c.toNat % 64] := by
  unfold encodeChar; simp [h1, h]
theorem enc3 (c : Char) (h1 : ¬ c.toNat < 0x800) (h : c.toNat < 0x10000) :
    encodeChar c = [0xE0 + c.toNat / 4096, 0x80 + (c.toNat / 64) % 64, 0x80 + c.toNat % 64] := by
  have h0 : ¬ c.toNat < 0x80 := by omega
  unfold encodeChar; simp [h0, h1, h]
theorem enc4 (c : Char) (h1 : ¬ c.toNat < 0x10000) :
    encodeChar c = [0xF0 + c.toNat / 262144, 0x80 + (c.toNat / 4096) % 64, 0x80 + (c.toNat / 64) % 64, 0x80 + c.toNat % 64] := by
  have h0 : ¬ c.toNat < 0x80 := by omega
  have h2 : ¬ c.toNat < 0x800 := by omega
  unfold encodeChar; simp [h0, h2, h1]

/-- the four shapes of an encoding -/
theorem enc_cases (c : Char) :
    (c.toNat < 0x80 ∧ encodeChar c = [c.toNat]) ∨
    (0x80 ≤ c.toNat ∧ c.toNat < 0x800 ∧ encodeChar c = [0xC0 + c.toNat / 64, 0x80 + c.toNat % 64]) ∨
    (0x800 ≤ c.toNat ∧ c.toNat < 0x10000 ∧ encodeChar c = [0xE0 + c.toNat / 4096, 0x80 + (c.toNat / 64) % 64, 0x80 + c.toNat % 64]) ∨
    (0x10000 ≤ c.toNat ∧ c.toNat < 0x110000 ∧
      encodeChar c = [0xF0 + c.toNat / 262144, 0x80 + (c.toNat / 4096) % 64, 0x80 + (c.toNat / 64) % 64, 0x80 + c.toNat % 64]) := by
  by_cases h1 : c.toNat < 0x80
  · exact Or.inl ⟨h1, enc1 c h1⟩
  · by_cases h2 : c.toNat < 0x800
    · exact Or.inr (Or.inl ⟨by omega, h2, enc2 c h1 h2⟩)
    · by_cases h3 : c.toNat < 0x10000
      · exact Or.inr (Or.inr (Or.inl ⟨by omega, h3, enc3 c h2 h3⟩))
      · exact Or.inr (Or.inr (Or.inr ⟨by omega, toNat_lt c, enc4 c h3⟩))

theorem enc_ne_nil (c : Char) : encodeChar c ≠ [] := by
  rcases enc_cases c with ⟨_, e⟩ | ⟨_, _, e⟩ | ⟨_, _, e⟩ | ⟨_, _, e⟩ <;> rw [e] <;> simp

theorem enc_length_pos (c : Char) : 0 < (encodeChar c).length :=
  List.length_pos_iff.mpr (enc_ne_nil c)

/-- the first byte starts a character -/
theorem enc_head (c : Char) : isCont ((encodeChar c).getD 0 0) = false := by
  unfold isCont
  rcases enc_cases c with ⟨h, e⟩ | ⟨h1, h2, e⟩ | ⟨h1, h2, e⟩ | ⟨h1, h2, e⟩ <;> rw [e] <;> simp <;> omega

/-- every other byte continues one -/
theorem enc_tail (c : Char) (i : Nat) (h0 : 0 < i) (hi : i < (encodeChar c).length) :
    isCont ((encodeChar c).getD i 0) = true := by
  unfold isCont
  rcases enc_cases c with ⟨h, e⟩ | ⟨h1, h2, e⟩ | ⟨h1, h2, e⟩ | ⟨h1, h2, e⟩ <;> rw [e] at hi ⊢ <;> simp at hi
  · omega
  · have : i = 1 := by omega
    subst this; simp; omega
  · have : i = 1 ∨ i = 2 := by omega
    rcases this with h | h <;> subst h <;> simp <;> omega
  · have : i = 1 ∨ i = 2 ∨ i = 3 := by omega
    rcases this with h | h | h <;> subst h <;> simp <;> omega

theorem commonLen_le_left (a b : List Nat) : commonLen a b ≤ a.length := by
  induction a generalizing b with
  | nil => simp [commonLen]
  | cons x a ih =>
    cases b with
    | nil => simp [commonLen]
    | cons y b =>
      simp only [commonLen]
      split
      · have := ih b; simp; omega
      · simp

theorem commonLen_append_same (p x y : List Nat) : commonLen (p ++ x) (p ++ y) = p.length + commonLen x y := by
  induction p with
  | nil => simp
  | cons a p ih => simp [commonLen, ih]; omega

/-- two lists that differ inside both of them: what follows does not matter -/
theorem commonLen_append_lt (p q x y : List Nat) (h1 : commonLen p q < p.length) (h2 : commonLen p q < q.length) :
    commonLen (p ++ x) (q ++ y) = commonLen p q := by
  induction p generalizing q with
  | nil => simp at h1
  | cons a p ih =>
    cases q with
    | nil => simp at h2
    | cons b q =>
      simp only [List.cons_append, commonLen] at *
      split
      · rename_i hab
        simp only [hab, if_true] at h1 h2
        have := ih q (by simp at h1; omega) (by simp at h2; omega)
        omega
      · rfl

/-- the encodings of two different characters differ at a position inside both of them -/
theorem enc_differ (c d : Char) (h : c ≠ d) :
    commonLen (encodeChar c) (encodeChar d) < (encodeChar c).length ∧
    commonLen (encodeChar c) (encodeChar d) < (encodeChar d).length := by
  have hn : c.toNat ≠ d.toNat := fun e => h (Char.toNat_inj.mp e)
  rcases enc_cases c with ⟨a1, e⟩ | ⟨a1, a2, e⟩ | ⟨a1, a2, e⟩ | ⟨a1, a2, e⟩ <;>
  rcases enc_cases d with ⟨b1, f⟩ | ⟨b1, b2, f⟩ | ⟨b1, b2, f⟩ | ⟨b1, b2, f⟩ <;>
  rw [e, f] <;> generalize c.toNat = n at * <;> generalize d.toNat = m at * <;>
  simp only [commonLen, List.length_cons, List.length_nil] <;>
  (repeat' split) <;> omega

/-! ### the back-off loop -/

/-- a byte string that does not begin inside a character -/
def StartsClean (l : List Nat) : Prop := l = [] ∨ isCont (l.getD 0 0) = false

theorem encode_startsClean (s : Str) : StartsClean (encode s) := by
  cases s with
  | nil => exact Or.inl rfl
  | cons c s =>
    right
    unfold encode
    simp only [List.flatMap_cons]
    have hne := enc_ne_nil c
    cases he : encodeChar c with
    | nil => exact absurd he hne
    | cons x xs =>
      have := enc_head c
      rw [he] at this
      simpa using this

/-- behind a complete prefix the loop behaves as on the rest alone -/
theorem backoff_append (p rest : List Nat) (hp : p ≠ []) (hr : StartsClean rest) (n : Nat) :
    backoff (p ++ rest) (p.length + n) = p.length + backoff rest n := by
  induction n with
  | zero =>
    simp only [Nat.add_zero, backoff]
    cases hl : p.length with
    | zero => exact absurd (List.length_eq_zero_iff.mp hl) hp
    | succ k =>
      simp only [backoff]
      have hcond : (decide (k + 1 < (p ++ rest).length) && isCont ((p ++ rest).getD (k + 1) 0)) = false := by
        rcases hr with h | h
        · subst h; simp [hl]
        · have : (p ++ rest).getD (k + 1) 0 = rest.getD 0 0 := by
            rw [← hl]
            simp [List.getD_eq_getElem?_getD, List.getElem?_append_right]
          rw [this, h]; simp
      rw [hcond]
      simp
  | succ n ih =>
    have h1 : p.length + (n + 1) = (p.length + n) + 1 := by omega
    rw [h1]
    simp only [backoff]
    have hget : (p ++ rest).getD (p.length + n + 1) 0 = rest.getD (n + 1) 0 := by
      simp [List.getD_eq_getElem?_getD, List.getElem?_append_right, Nat.add_assoc]
    have hlen : decide (p.length + n + 1 < (p ++ rest).length) = decide (n + 1 < rest.length) := by
      simp [List.length_append]; omega
    rw [hget, hlen]
    split
    · rw [ih]
    · omega

/-- a cut inside the first character goes back to its start -/
theorem backoff_inside (c : Char) (rest : List Nat) (j : Nat) (hj : j < (encodeChar c).length) :
    backoff (encodeChar c ++ rest) j = 0 := by
  induction j with
  | zero => rfl
  | succ j ih =>
    simp only [backoff]
    have h1 : decide (j + 1 < (encodeChar c ++ rest).length) = true := by simp [List.length_append]; omega
    have h2 : (encodeChar c ++ rest).getD (j + 1) 0 = (encodeChar c).getD (j + 1) 0 := by
      simp [List.getD_eq_getElem?_getD, List.getElem?_append_left hj]
    rw [h1, h2, enc_tail c (j + 1) (by omega) hj]
    simp only [Bool.and_self, if_true]
    exact ih (by omega)

theorem byteTake_whole (c : Char) (s : Str) (m : Nat) :
    byteTake ((encodeChar c).length + m) (c :: s) = ((c :: (byteTake m s).1), (byteTake m s).2) := by
  have hpos := enc_length_pos c
  cases hk : (encodeChar c).length + m with
  | zero => omega
  | succ k =>
    simp only [byteTake]
    have : (encodeChar c).length ≤ k + 1 := by omega
    simp only [this, if_true]
    have : k + 1 - (encodeChar c).length = m := by omega
    rw [this]

/-- **`commonPrefix` (after the fix) is the common prefix in characters, and leaves no partial character.** -/
theorem goCommonPrefix_eq (a b : Str) : goCommonPrefix a b = (Model.commonPrefix a b, 0) := by
  unfold goCommonPrefix
  induction a generalizing b with
  | nil => simp [encode, commonLen, backoff, byteTake, Model.commonPrefix]
  | cons c s ih =>
    cases b with
    | nil =>
      have : commonLen (encode (c :: s)) (encode []) = 0 := by
        simp only [encode, List.flatMap_nil]
        cases (List.flatMap encodeChar (c :: s)) <;> rfl
      rw [this]
      simp [backoff, byteTake, Model.commonPrefix]
    | cons d t =>
      have hec : encode (c :: s) = encodeChar c ++ encode s := by simp [encode, List.flatMap_cons]
      have hed : encode (d :: t) = encodeChar d ++ encode t := by simp [encode, List.flatMap_cons]
      rw [hec, hed]
      by_cases hcd : c = d
      · subst hcd
        rw [commonLen_append_same, backoff_append _ _ (enc_ne_nil c) (encode_startsClean s), byteTake_whole]
        have := ih t
        rw [this]
        simp [Model.commonPrefix]
      · have hd := enc_differ c d hcd
        rw [commonLen_append_lt _ _ _ _ hd.1 hd.2, backoff_inside c _ _ hd.1]
        simp [byteTake, Model.commonPrefix, hcd]

/-- what the fix is about: the plain byte count cuts `ß` / `ü` (same lead byte) in half -/
theorem byte_prefix_splits_character :
    byteTake (commonLen (encode ";Xß".toList) (encode ";Xü1".toList)) ";Xß".toList = (";X".toList, 1) ∧
    goCommonPrefix ";Xß".toList ";Xü1".toList = (";X".toList, 0) := by decide

end Carapace.Props.C02Prefix
