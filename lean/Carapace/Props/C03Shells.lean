/-
  C03 for the other self-quoting formatters: powershell, xonsh, nushell, tcsh (and the formats
  that hand the value to the shell as data).  Same method as `C03_bash`: per-character
  obligations decided by the kernel over all of ASCII against the character sets and replacer
  tables regenerated from /repo, lifted to every `Char`, and an induction over the string.
  Where the pinned code violates the property the excluded characters are explicit hypotheses;
  they are exactly the listed findings (`powershell_squote`, `powershell_cr`, `xonsh_squote`,
  `xonsh_cr`, `xonsh_trailing_backslash`, `nushell_tab`, `tcsh_brace`), and for each of them a
  decided counterexample shows that the hypothesis is needed.
-/
import Carapace.Model.Shells
import Carapace.Spec.Reader.Others
import Carapace.Spec.Reader.Posix
import Carapace.Lemmas.Sanitizer
import Carapace.Lemmas.Sort

namespace Carapace.Props.C03
open Carapace Carapace.Model Carapace.Spec

/-- characters each of which is read as itself without leaving mode `m` -/
theorem run_lits {M : Type} (r : Reader M) (m : M) (s : Str)
    (h : ∀ c ∈ s, r.step m c = some (m, [Out.lit c])) : r.run m s = some (m, s.map Out.lit) := by
  induction s with
  | nil => rfl
  | cons c s ih =>
    have hc := h c (List.mem_cons_self ..)
    have := ih (fun d hd => h d (List.mem_cons_of_mem _ hd))
    simp [Reader.run, hc, this]

/-- bare text: the first character is read in `start`, the rest in `mid` -/
theorem run_bare {M : Type} (r : Reader M) (start mid : M) (s : Str) (hne : s ≠ [])
    (h1 : ∀ c ∈ s, r.step start c = some (mid, [Out.lit c]))
    (h2 : ∀ c ∈ s, r.step mid c = some (mid, [Out.lit c])) : r.run start s = some (mid, s.map Out.lit) := by
  cases s with
  | nil => exact absurd rfl hne
  | cons c s =>
    have hc := h1 c (List.mem_cons_self ..)
    have := run_lits r mid s (fun d hd => h2 d (List.mem_cons_of_mem _ hd))
    simp [Reader.run, hc, this]

theorem containsAny_elem_false {s chars : Str} (h : Str.containsAny s chars = false) :
    ∀ c ∈ s, chars.elem c = false := by
  intro c hc
  simp only [Str.containsAny, List.any_eq_false] at h
  simpa using h c hc

/-! ## powershell -/

abbrev PS : Reader Powershell.Mode := Powershell.reader false

/-- outside the quoting set, and apart from `'` and CR (the two listed findings) and the two
    characters the sanitizer deletes, every character is literal in a bare word -/
def psBareOk (c : Char) : Bool :=
  Gen.powershell_ActionRawValues_containsAny.elem c || c == '\'' || c == '\r' || (Replacer.lookup Gen.powershell_sanitizer c).isSome ||
  (decide (Powershell.stepBare false true c = some (.mid, [Out.lit c])) &&
   decide (Powershell.stepBare false false c = some (.mid, [Out.lit c])))

theorem ps_bare_table_ascii : asciiAll psBareOk = true := by decide

theorem ps_sanitizer_shape : Replacer.isSanitizer Gen.powershell_sanitizer = true := by decide

theorem ps_bare_table (c : Char) (h1 : Gen.powershell_ActionRawValues_containsAny.elem c = false)
    (h2 : c ≠ '\'') (h3 : c ≠ '\r') (h4 : Replacer.lookup Gen.powershell_sanitizer c = none) (atStart : Bool) :
    Powershell.stepBare false atStart c = some (.mid, [Out.lit c]) := by
  by_cases h : c.toNat < 128
  · have := asciiAll_spec ps_bare_table_ascii c h
    have e2 : (c == '\'') = false := by simpa using h2
    have e3 : (c == '\r') = false := by simpa using h3
    simp only [psBareOk, h1, h4, e2, e3, Option.isSome_none, Bool.false_or, Bool.or_false,
      Bool.and_eq_true, decide_eq_true_eq] at this
    cases atStart
    · exact this.2
    · exact this.1
  · simp [Powershell.stepBare, inSet, h]

/-- inside single quotes every character but the quote is literal -/
theorem ps_sq_step (c : Char) (h : c ≠ '\'') : PS.step .sq c = some (.sq, [Out.lit c]) := by
  simp [Powershell.reader, Powershell.step, h]

/-- **C03 (powershell).** For a sanitised value without `'` and CR, the inserted text reads back
    as exactly that value: quoted when it contains a character of the quoting set, bare otherwise. -/
theorem C03_powershell (v : Str) (hq : '\'' ∉ san Gen.powershell_sanitizer v)
    (hcr : '\r' ∉ san Gen.powershell_sanitizer v) (hne : san Gen.powershell_sanitizer v ≠ []) :
    Powershell.readBack false (powershellQuote (san Gen.powershell_sanitizer v)) = some [san Gen.powershell_sanitizer v] := by
  have hsan : ∀ c ∈ san Gen.powershell_sanitizer v, Replacer.lookup Gen.powershell_sanitizer c = none :=
    fun c hc => (Replacer.mem_applyChars_sanitizer ps_sanitizer_shape hc).2
  generalize san Gen.powershell_sanitizer v = s at hq hcr hne hsan
  unfold powershellQuote
  by_cases hc : Str.containsAny s Gen.powershell_ActionRawValues_containsAny = true
  · simp only [hc, if_true]
    have h1 : PS.run .start ['\''] = some (.sq, [Out.mark]) := by decide
    have h2 : PS.run .sq s = some (.sq, s.map Out.lit) :=
      run_lits PS .sq s (fun c hcs => ps_sq_step c (fun e => hq (e ▸ hcs)))
    have h3 : PS.run .sq ['\''] = some (.sqq, []) := by decide
    have h4 := Reader.run_append_of PS h1 (Reader.run_append_of PS h2 h3)
    simp only [Powershell.readBack, readWords]
    rw [List.append_assoc, h4]
    simp only [Powershell.final, if_true, List.append_nil, List.singleton_append]
    have := collect_lits s []
    simpa [collect] using this
  · have hc' : Str.containsAny s Gen.powershell_ActionRawValues_containsAny = false := by simpa using hc
    simp only [hc', Bool.false_eq_true, if_false]
    have hall := containsAny_elem_false hc'
    have hstep : ∀ (b : Bool), ∀ c ∈ s, Powershell.stepBare false b c = some (.mid, [Out.lit c]) :=
      fun b c hcs => ps_bare_table c (hall c hcs) (fun e => hq (e ▸ hcs)) (fun e => hcr (e ▸ hcs)) (hsan c hcs) b
    have := run_bare PS .start .mid s hne (fun c hcs => by simpa [Powershell.reader, Powershell.step] using hstep true c hcs)
      (fun c hcs => by simpa [Powershell.reader, Powershell.step] using hstep false c hcs)
    simp only [Powershell.readBack, readWords]
    rw [this]
    simp only [Powershell.final, if_true]
    rw [collect_lits_none s hne]

/-- the hypotheses are needed: `it's` is emitted bare and `it's here` is quoted without doubling
    the quote; neither reads back (listed finding `powershell_squote`) -/
theorem C03_powershell_squote_counterexample :
    Powershell.readBack false (powershellQuote "it's".toList) = none ∧
    Powershell.readBack false (powershellQuote "it's here".toList) = none := by decide

theorem C03_powershell_cr_counterexample :
    Powershell.readBack false (powershellQuote "a\rb".toList) = none := by decide

/-- since fix b92cb75 the sanitizer drops CR (the regenerated table has the key), so the quoting step never
    sees one: the hypothesis about CR is discharged -/
theorem ps_cr_dropped : Replacer.lookup Gen.powershell_sanitizer '\r' = some [] := by decide

theorem C03_powershell_sanitised (v : Str) (hq : '\'' ∉ san Gen.powershell_sanitizer v)
    (hne : san Gen.powershell_sanitizer v ≠ []) :
    Powershell.readBack false (powershellQuote (san Gen.powershell_sanitizer v)) = some [san Gen.powershell_sanitizer v] := by
  apply C03_powershell v hq _ hne
  intro h
  have := (Replacer.mem_applyChars_sanitizer ps_sanitizer_shape h).2
  rw [ps_cr_dropped] at this
  cases this

example : san Gen.powershell_sanitizer "a b $x (y)".toList ≠ [] ∧ '\'' ∉ san Gen.powershell_sanitizer "a b $x (y)".toList := by decide

/-! ## xonsh -/

abbrev XO : Reader Xonsh.Mode := Xonsh.reader false

/-- a raw literal is closed by its quote only after an even run of backslashes -/
def rawClean : Str → Bool
  | [] => true
  | ['\\'] => false
  | '\\' :: _ :: r => rawClean r
  | _ :: r => rawClean r

/-- inside `r'...'`: every character is kept, a backslash together with the one after it -/
theorem xo_raw_run (s : Str) (hq : '\'' ∉ s) (hnl : '\n' ∉ s) (hc : rawClean s = true) :
    XO.run .raw s = some (.raw, s.map Out.lit) := by
  fun_induction rawClean s with
  | case1 => rfl
  | case2 => simp at hc
  | case3 d r ih =>
    have hd : '\'' ∉ r := fun e => hq (List.mem_cons_of_mem _ (List.mem_cons_of_mem _ e))
    have hn : '\n' ∉ r := fun e => hnl (List.mem_cons_of_mem _ (List.mem_cons_of_mem _ e))
    have this' : Reader.run ⟨Xonsh.step false⟩ Xonsh.Mode.raw r = some (.raw, r.map Out.lit) := ih hd hn hc
    simp [Reader.run, Xonsh.reader, Xonsh.step, this']
  | case4 c r h1 h2 ih =>
    have hcq : c ≠ '\'' := fun e => hq (e ▸ List.mem_cons_self ..)
    have hcn : c ≠ '\n' := fun e => hnl (e ▸ List.mem_cons_self ..)
    have hcb : c ≠ '\\' := by
      intro e
      cases r with
      | nil => exact h1 e rfl
      | cons d r' => exact h2 d r' e rfl
    have hd : '\'' ∉ r := fun e => hq (List.mem_cons_of_mem _ e)
    have hn : '\n' ∉ r := fun e => hnl (List.mem_cons_of_mem _ e)
    have this' : Reader.run ⟨Xonsh.step false⟩ Xonsh.Mode.raw r = some (.raw, r.map Out.lit) := ih hd hn hc
    simp [Reader.run, Xonsh.reader, Xonsh.step, hcq, hcn, hcb, this']

/-- inside `'...'` (non-raw): every character but quote, backslash and line feed is literal -/
theorem xo_sq_step (c : Char) (h1 : c ≠ '\'') (h2 : c ≠ '\\') (h3 : c ≠ '\n') : XO.step .sq c = some (.sq, [Out.lit c]) := by
  simp [Xonsh.reader, Xonsh.step, h1, h2, h3]

def xoBareOk (c : Char) : Bool :=
  Gen.xonsh_ActionRawValues_containsAny.elem c || c == '\'' || c == '\r' || c == '\n' || c == '\t' ||
  (decide (Xonsh.stepBare false false c = some (.mid, [Out.lit c])) &&
   (c == 'r' || decide (Xonsh.stepBare false true c = some (.mid, [Out.lit c]))))

theorem xo_bare_table_ascii : asciiAll xoBareOk = true := by decide

structure XoPlain (s : Str) : Prop where
  q : '\'' ∉ s
  cr : '\r' ∉ s
  nl : '\n' ∉ s
  tab : '\t' ∉ s

theorem xo_bare_table (c : Char) (h1 : Gen.xonsh_ActionRawValues_containsAny.elem c = false)
    (h2 : c ≠ '\'') (h3 : c ≠ '\r') (h4 : c ≠ '\n') (h5 : c ≠ '\t') :
    Xonsh.stepBare false false c = some (.mid, [Out.lit c]) ∧
    (c ≠ 'r' → Xonsh.stepBare false true c = some (.mid, [Out.lit c])) := by
  by_cases h : c.toNat < 128
  · have := asciiAll_spec xo_bare_table_ascii c h
    have e2 : (c == '\'') = false := by simpa using h2
    have e3 : (c == '\r') = false := by simpa using h3
    have e4 : (c == '\n') = false := by simpa using h4
    have e5 : (c == '\t') = false := by simpa using h5
    simp only [xoBareOk, h1, e2, e3, e4, e5, Bool.false_or, Bool.and_eq_true, decide_eq_true_eq, Bool.or_eq_true, beq_iff_eq] at this
    refine ⟨this.1, fun hr => ?_⟩
    rcases this.2 with e | e
    · exact absurd e hr
    · exact e
  · have hr : c ≠ 'r' := fun e => h (by rw [e]; decide)
    simp [Xonsh.stepBare, inSet, h, hr]

/-- **C03 (xonsh).** For a value without `'`, CR, LF and tab whose backslashes do not leave a raw
    literal open, the inserted text - bare, `'...'`, or `r'...'` - reads back as exactly that value. -/
theorem C03_xonsh (s : Str) (hp : XoPlain s) (hne : s ≠ []) (hraw : rawClean s = true) :
    Xonsh.readBack false (xonshQuote s) = some [s] := by
  unfold xonshQuote
  by_cases hc : Str.containsAny s Gen.xonsh_ActionRawValues_containsAny = true
  · simp only [hc, if_true]
    by_cases hb : s.elem '\\' = true
    · -- raw literal
      simp only [hb, if_true]
      have h1 : XO.run .start "r'".toList = some (.raw, [Out.mark]) := by decide
      have h2 := xo_raw_run s hp.q hp.nl hraw
      have h3 : XO.run .raw ['\''] = some (.afterq, []) := by decide
      have h4 := Reader.run_append_of XO h1 (Reader.run_append_of XO h2 h3)
      simp only [Xonsh.readBack]
      rw [List.append_assoc, h4]
      have := collect_lits s []
      simpa [collect, Xonsh.final] using this
    · -- ordinary literal: no backslash inside
      simp only [hb, Bool.false_eq_true, if_false]
      have hb' : '\\' ∉ s := by simpa using hb
      have h1 : XO.run .start ['\''] = some (.sq, [Out.mark]) := by decide
      have h2 : XO.run .sq s = some (.sq, s.map Out.lit) :=
        run_lits XO .sq s (fun c hcs => xo_sq_step c (fun e => hp.q (e ▸ hcs)) (fun e => hb' (e ▸ hcs)) (fun e => hp.nl (e ▸ hcs)))
      have h3 : XO.run .sq ['\''] = some (.afterq, []) := by decide
      have h4 := Reader.run_append_of XO h1 (Reader.run_append_of XO h2 h3)
      simp only [Xonsh.readBack]
      rw [List.append_assoc, h4]
      have := collect_lits s []
      simpa [collect, Xonsh.final] using this
  · -- bare
    have hc' : Str.containsAny s Gen.xonsh_ActionRawValues_containsAny = false := by simpa using hc
    simp only [hc', Bool.false_eq_true, if_false]
    have hall := containsAny_elem_false hc'
    have htab : ∀ c ∈ s, Xonsh.stepBare false false c = some (.mid, [Out.lit c]) ∧
        (c ≠ 'r' → Xonsh.stepBare false true c = some (.mid, [Out.lit c])) :=
      fun c hcs => xo_bare_table c (hall c hcs) (fun e => hp.q (e ▸ hcs)) (fun e => hp.cr (e ▸ hcs))
        (fun e => hp.nl (e ▸ hcs)) (fun e => hp.tab (e ▸ hcs))
    have hmid : ∀ t : Str, (∀ c ∈ t, c ∈ s) → XO.run .mid t = some (.mid, t.map Out.lit) :=
      fun t ht => run_lits XO .mid t (fun c hct => by simpa [Xonsh.reader, Xonsh.step] using (htab c (ht c hct)).1)
    cases s with
    | nil => exact absurd rfl hne
    | cons c t =>
      have hct := htab c (List.mem_cons_self ..)
      have htm := hmid t (fun d hd => List.mem_cons_of_mem _ hd)
      by_cases hr : c = 'r'
      · subst hr
        -- `r` may open a raw literal: the reader waits for the next character
        cases t with
        | nil => decide
        | cons d u =>
          have hd := htab d (List.mem_cons_of_mem _ (List.mem_cons_self ..))
          have hdq : d ≠ '\'' := fun e => hp.q (e ▸ List.mem_cons_of_mem _ (List.mem_cons_self ..))
          have hum := hmid u (fun x hx => List.mem_cons_of_mem _ (List.mem_cons_of_mem _ hx))
          have hum' : Reader.run ⟨Xonsh.step false⟩ Xonsh.Mode.mid u = some (.mid, u.map Out.lit) := hum
          have : XO.run .start ('r' :: d :: u) = some (.mid, Out.lit 'r' :: Out.lit d :: u.map Out.lit) := by
            have h0 : Xonsh.stepBare false true 'r' = some (.startR, []) := by decide
            simp [Reader.run, Xonsh.reader, Xonsh.step, h0, hdq, hd.1, hum']
          simp only [Xonsh.readBack, this]
          have hcl := collect_lits_none ('r' :: d :: u) (by simp)
          simpa [Xonsh.final] using hcl
      · have htm' : Reader.run ⟨Xonsh.step false⟩ Xonsh.Mode.mid t = some (.mid, t.map Out.lit) := htm
        have : XO.run .start (c :: t) = some (.mid, Out.lit c :: t.map Out.lit) := by
          simp [Reader.run, Xonsh.reader, Xonsh.step, hct.2 hr, htm']
        simp only [Xonsh.readBack, this]
        have hcl := collect_lits_none (c :: t) (by simp)
        simpa [Xonsh.final] using hcl

/-- the hypotheses are needed (listed findings `xonsh_squote`, `xonsh_trailing_backslash`) -/
theorem C03_xonsh_squote_counterexample :
    Xonsh.readBack false (xonshQuote (san Gen.xonsh_sanitizer "it's".toList)) = some ["it\\'s".toList] := by decide

theorem C03_xonsh_trailing_backslash_counterexample :
    Xonsh.readBack false (xonshQuote "dir\\".toList) = none := by decide

example : XoPlain "a b\\c".toList ∧ rawClean "a b\\c".toList = true := by
  refine ⟨⟨by decide, by decide, by decide, by decide⟩, by decide⟩

/-! ## nushell -/

abbrev NU : Reader Nushell.Mode := Nushell.reader false

def nuDqOk (c : Char) : Bool :=
  decide (NU.run .dq (Replacer.escChar Gen.nushell_escaper c) = some (.dq, [Out.lit c]))

theorem nu_dq_table_ascii : asciiAll nuDqOk = true := by decide
theorem nu_escaper_keys : Replacer.keysAscii Gen.nushell_escaper = true := by decide

theorem nu_dq_table (c : Char) : NU.run .dq (Replacer.escChar Gen.nushell_escaper c) = some (.dq, [Out.lit c]) := by
  by_cases h : c.toNat < 128
  · exact of_decide_eq_true (asciiAll_spec nu_dq_table_ascii c h)
  · rw [Replacer.escChar_nonascii _ nu_escaper_keys c h]
    have h1 : c ≠ '"' := fun e => h (by rw [e]; decide)
    have h2 : c ≠ '\\' := fun e => h (by rw [e]; decide)
    simp [Reader.run, Nushell.reader, Nushell.step, h1, h2]

/-- outside the quoting set and apart from tab (listed finding `nushell_tab`), LF and CR (deleted by
    the sanitizer) every character is literal in a bare word; `~` is literal too, through its own mode -/
def nuBareOk (c : Char) : Bool :=
  Gen.nushell_ActionRawValues_containsAny.elem c || c == '\t' || c == '\n' || c == '\r' ||
  (decide (Nushell.stepBare false false c = some (.mid, [Out.lit c])) &&
   (c == '~' || decide (Nushell.stepBare false true c = some (.mid, [Out.lit c]))))

theorem nu_bare_table_ascii : asciiAll nuBareOk = true := by decide

structure NuPlain (s : Str) : Prop where
  tab : '\t' ∉ s
  nl : '\n' ∉ s
  cr : '\r' ∉ s

theorem nu_bare_table (c : Char) (h1 : Gen.nushell_ActionRawValues_containsAny.elem c = false)
    (h2 : c ≠ '\t') (h3 : c ≠ '\n') (h4 : c ≠ '\r') :
    Nushell.stepBare false false c = some (.mid, [Out.lit c]) ∧
    (c ≠ '~' → Nushell.stepBare false true c = some (.mid, [Out.lit c])) := by
  by_cases h : c.toNat < 128
  · have := asciiAll_spec nu_bare_table_ascii c h
    have e2 : (c == '\t') = false := by simpa using h2
    have e3 : (c == '\n') = false := by simpa using h3
    have e4 : (c == '\r') = false := by simpa using h4
    simp only [nuBareOk, h1, e2, e3, e4, Bool.false_or, Bool.and_eq_true, decide_eq_true_eq, Bool.or_eq_true, beq_iff_eq] at this
    refine ⟨this.1, fun hr => ?_⟩
    rcases this.2 with e | e
    · exact absurd e hr
    · exact e
  · simp [Nushell.stepBare, inSet, h]

/-- **C03 (nushell).** For a value without tab, LF and CR the inserted text - bare, `"..."` with
    backslash escapes, or `~"..."` - reads back as exactly that value. -/
theorem C03_nushell (s : Str) (hp : NuPlain s) (hne : s ≠ []) :
    Nushell.readBack false (nushellQuote s) = some [s] := by
  unfold nushellQuote
  by_cases hc : Str.containsAny s Gen.nushell_ActionRawValues_containsAny = true
  · simp only [hc, if_true]
    by_cases ht : Str.hasPrefix s ['~'] = true
    · simp only [ht, if_true]
      cases s with
      | nil => exact absurd rfl hne
      | cons c t =>
        have hct : c = '~' := by
          simp [Str.hasPrefix] at ht
          exact ht
        subst hct
        have h1 : NU.run .start "~\"".toList = some (.dq, [Out.lit '~']) := by decide
        have h2 : NU.run .dq (Replacer.applyChars Gen.nushell_escaper t) = some (.dq, t.map Out.lit) :=
          Reader.run_flatMap NU .dq _ (fun _ => True) (fun c _ => nu_dq_table c) t (fun _ _ => trivial)
        have h3 : NU.run .dq ['"'] = some (.afterq, []) := by decide
        have h4 := Reader.run_append_of NU h1 (Reader.run_append_of NU h2 h3)
        simp only [Nushell.readBack, readWords, List.drop_succ_cons, List.drop_zero]
        rw [List.append_assoc, h4]
        have := collect_lits t ['~']
        simpa [collect, Nushell.final] using this
    · simp only [ht, Bool.false_eq_true, if_false]
      have h1 : NU.run .start ['"'] = some (.dq, [Out.mark]) := by decide
      have h2 : NU.run .dq (Replacer.applyChars Gen.nushell_escaper s) = some (.dq, s.map Out.lit) :=
        Reader.run_flatMap NU .dq _ (fun _ => True) (fun c _ => nu_dq_table c) s (fun _ _ => trivial)
      have h3 : NU.run .dq ['"'] = some (.afterq, []) := by decide
      have h4 := Reader.run_append_of NU h1 (Reader.run_append_of NU h2 h3)
      simp only [Nushell.readBack, readWords]
      rw [List.append_assoc, h4]
      have := collect_lits s []
      simpa [collect, Nushell.final] using this
  · have hc' : Str.containsAny s Gen.nushell_ActionRawValues_containsAny = false := by simpa using hc
    simp only [hc', Bool.false_eq_true, if_false]
    have hall := containsAny_elem_false hc'
    have htab : ∀ c ∈ s, Nushell.stepBare false false c = some (.mid, [Out.lit c]) ∧
        (c ≠ '~' → Nushell.stepBare false true c = some (.mid, [Out.lit c])) :=
      fun c hcs => nu_bare_table c (hall c hcs) (fun e => hp.tab (e ▸ hcs)) (fun e => hp.nl (e ▸ hcs)) (fun e => hp.cr (e ▸ hcs))
    have hmid : ∀ t : Str, (∀ c ∈ t, c ∈ s) → NU.run .mid t = some (.mid, t.map Out.lit) :=
      fun t ht => run_lits NU .mid t (fun c hct => by simpa [Nushell.reader, Nushell.step] using (htab c (ht c hct)).1)
    cases s with
    | nil => exact absurd rfl hne
    | cons c t =>
      have hct := htab c (List.mem_cons_self ..)
      have htm := hmid t (fun d hd => List.mem_cons_of_mem _ hd)
      by_cases hr : c = '~'
      · subst hr
        cases t with
        | nil => decide
        | cons d u =>
          have hd := htab d (List.mem_cons_of_mem _ (List.mem_cons_self ..))
          have hdq : d ≠ '"' := by
            intro e
            have := hall d (List.mem_cons_of_mem _ (List.mem_cons_self ..))
            rw [e] at this
            exact absurd this (by decide)
          have hum' : Reader.run ⟨Nushell.step false⟩ Nushell.Mode.mid u = some (.mid, u.map Out.lit) :=
            hmid u (fun x hx => List.mem_cons_of_mem _ (List.mem_cons_of_mem _ hx))
          have : NU.run .start ('~' :: d :: u) = some (.mid, Out.lit '~' :: Out.lit d :: u.map Out.lit) := by
            have h0 : Nushell.stepBare false true '~' = some (.tilde, [Out.lit '~']) := by decide
            simp [Reader.run, Nushell.reader, Nushell.step, h0, hdq, hd.1, hum']
          simp only [Nushell.readBack, readWords, this]
          have hcl := collect_lits_none ('~' :: d :: u) (by simp)
          simpa [Nushell.final] using hcl
      · have htm' : Reader.run ⟨Nushell.step false⟩ Nushell.Mode.mid t = some (.mid, t.map Out.lit) := htm
        have : NU.run .start (c :: t) = some (.mid, Out.lit c :: t.map Out.lit) := by
          simp [Reader.run, Nushell.reader, Nushell.step, hct.2 hr, htm']
        simp only [Nushell.readBack, readWords, this]
        have hcl := collect_lits_none (c :: t) (by simp)
        simpa [Nushell.final] using hcl

/-- since fix b7c1c92 the sanitizer drops tab as well as LF and CR: **every** value reads back as its
    sanitised text, no hypothesis on its characters is left -/
theorem nu_sanitizer_shape : Replacer.isSanitizer Gen.nushell_sanitizer = true := by decide
theorem nu_dropped : Replacer.lookup Gen.nushell_sanitizer '\t' = some [] ∧ Replacer.lookup Gen.nushell_sanitizer '\n' = some [] ∧
    Replacer.lookup Gen.nushell_sanitizer '\r' = some [] := by decide

theorem C03_nushell_sanitised (v : Str) (hne : san Gen.nushell_sanitizer v ≠ []) :
    Nushell.readBack false (nushellQuote (san Gen.nushell_sanitizer v)) = some [san Gen.nushell_sanitizer v] := by
  have hsan : ∀ c ∈ san Gen.nushell_sanitizer v, Replacer.lookup Gen.nushell_sanitizer c = none :=
    fun c hc => (Replacer.mem_applyChars_sanitizer nu_sanitizer_shape hc).2
  refine C03_nushell _ ⟨?_, ?_, ?_⟩ hne
  · intro h; have := hsan _ h; rw [nu_dropped.1] at this; cases this
  · intro h; have := hsan _ h; rw [nu_dropped.2.1] at this; cases this
  · intro h; have := hsan _ h; rw [nu_dropped.2.2] at this; cases this

/-- what the quoting step alone does with a tab (before the fix this reached the shell): neither removed nor quoted, the word is split -/
theorem C03_nushell_tab_counterexample :
    Nushell.readBack false (nushellQuote "a\tb".toList) = some ["a".toList, "b".toList] := by decide

example : NuPlain "it's a \"q\" ~ $x".toList := ⟨by decide, by decide, by decide⟩

/-! ## tcsh -/

abbrev TC : Reader Tcsh.Mode := Tcsh.reader

def tcOk (c : Char) : Bool :=
  (Replacer.lookup Gen.tcsh_sanitizer c).isSome || c == '{' || c == '}' ||
  (decide (TC.run .mid (Replacer.escChar Gen.tcsh_quoter c) = some (.mid, [Out.lit c])) &&
   decide (TC.run .start (Replacer.escChar Gen.tcsh_quoter c) = some (.mid, [Out.lit c])))

theorem tc_table_ascii : asciiAll tcOk = true := by decide
theorem tc_quoter_keys : Replacer.keysAscii Gen.tcsh_quoter = true := by decide
theorem tc_sanitizer_shape : Replacer.isSanitizer Gen.tcsh_sanitizer = true := by decide

theorem tc_table (c : Char) (h1 : Replacer.lookup Gen.tcsh_sanitizer c = none) (h2 : c ≠ '{') (h3 : c ≠ '}') :
    TC.run .mid (Replacer.escChar Gen.tcsh_quoter c) = some (.mid, [Out.lit c]) ∧
    TC.run .start (Replacer.escChar Gen.tcsh_quoter c) = some (.mid, [Out.lit c]) := by
  by_cases h : c.toNat < 128
  · have := asciiAll_spec tc_table_ascii c h
    have e2 : (c == '{') = false := by simpa using h2
    have e3 : (c == '}') = false := by simpa using h3
    simpa only [tcOk, h1, e2, e3, Option.isSome_none, Bool.false_or, Bool.and_eq_true, decide_eq_true_eq] using this
  · rw [Replacer.escChar_nonascii _ tc_quoter_keys c h]
    simp [Reader.run, Tcsh.reader, Tcsh.step, Tcsh.stepUnq, inSet, h]

/-- **C03 (tcsh).** For a value whose sanitised form has no brace, the backslash-quoted text reads
    back as exactly the sanitised value.  The quoter *deletes* braces (the source says escaping them
    does not work in tcsh): listed finding `tcsh_brace`. -/
theorem C03_tcsh (v : Str) (hb1 : '{' ∉ san Gen.tcsh_sanitizer v) (hb2 : '}' ∉ san Gen.tcsh_sanitizer v)
    (hne : san Gen.tcsh_sanitizer v ≠ []) :
    Tcsh.readBack (tcshQuote v) = some [san Gen.tcsh_sanitizer v] := by
  have hsan : ∀ c ∈ san Gen.tcsh_sanitizer v, Replacer.lookup Gen.tcsh_sanitizer c = none :=
    fun c hc => (Replacer.mem_applyChars_sanitizer tc_sanitizer_shape hc).2
  unfold tcshQuote
  generalize san Gen.tcsh_sanitizer v = s at hb1 hb2 hne hsan
  cases s with
  | nil => exact absurd rfl hne
  | cons c t =>
    have hc := tc_table c (hsan c (List.mem_cons_self ..)) (fun e => hb1 (e ▸ List.mem_cons_self ..)) (fun e => hb2 (e ▸ List.mem_cons_self ..))
    have ht : TC.run .mid (Replacer.applyChars Gen.tcsh_quoter t) = some (.mid, t.map Out.lit) :=
      Reader.run_flatMap TC .mid _ (fun d => d ∈ t)
        (fun d hd => (tc_table d (hsan d (List.mem_cons_of_mem _ hd)) (fun e => hb1 (e ▸ List.mem_cons_of_mem _ hd))
          (fun e => hb2 (e ▸ List.mem_cons_of_mem _ hd))).1) t (fun _ h => h)
    have h4 := Reader.run_append_of TC hc.2 ht
    have happ : Replacer.applyChars Gen.tcsh_quoter (c :: t) =
        Replacer.escChar Gen.tcsh_quoter c ++ Replacer.applyChars Gen.tcsh_quoter t := by
      simp [Replacer.applyChars, List.flatMap_cons]
    simp only [Tcsh.readBack, readWords, happ, h4]
    have hcl := collect_lits_none (c :: t) (by simp)
    simpa [Tcsh.final] using hcl

theorem C03_tcsh_brace_counterexample :
    Tcsh.readBack (tcshQuote "a{b}".toList) = some ["ab".toList] := by decide

example : '{' ∉ san Gen.tcsh_sanitizer "it's $x *?".toList ∧ san Gen.tcsh_sanitizer "it's $x *?".toList ≠ [] := by decide

/-! ## oil: nothing is quoted -/

/-- a character that a POSIX-style reader takes literally wherever it stands in a word -/
def oilPlain (c : Char) : Bool :=
  decide (Posix.stepUnq Posix.bash true c = some (.mid, [Out.lit c])) &&
  decide (Posix.stepUnq Posix.bash false c = some (.mid, [Out.lit c]))

/-- **C03 (oil), partial.** The formatter emits the sanitised value as it is (`oilFormat` for a
    single candidate), so it reads back as itself exactly when every character is plain for the
    shell; any blank, quote, `$`, glob or operator character breaks it (listed finding `oil_unquoted`). -/
theorem C03_oil_partial (s : Str) (hne : s ≠ []) (hp : ∀ c ∈ s, oilPlain c = true) :
    Posix.readBack Posix.bash s = some [s] := by
  have h1 : ∀ c ∈ s, (Posix.reader Posix.bash).step .start c = some (.mid, [Out.lit c]) := by
    intro c hc
    have := hp c hc
    simp only [oilPlain, Bool.and_eq_true, decide_eq_true_eq] at this
    simpa [Posix.reader, Posix.step] using this.1
  have h2 : ∀ c ∈ s, (Posix.reader Posix.bash).step .mid c = some (.mid, [Out.lit c]) := by
    intro c hc
    have := hp c hc
    simp only [oilPlain, Bool.and_eq_true, decide_eq_true_eq] at this
    simpa [Posix.reader, Posix.step] using this.2
  have := run_bare (Posix.reader Posix.bash) .start .mid s hne h1 h2
  simp only [Posix.readBack, readWords, this]
  have hcl := collect_lits_none s hne
  simpa [Posix.final] using hcl

theorem C03_oil_counterexample : Posix.readBack Posix.bash "my file".toList = some ["my".toList, "file".toList] := by decide

/-! ## formats that hand the value to the shell as data (the shell's own completion API quotes it) -/

/-- elvish, ion, export: the `Value` field is the sanitised value (plus, for ion, the blank that
    expresses "append a space"): there is no quoting step that could alter it -/
theorem C03_elvish (m : Meta) (vs : List RawValue) :
    (elvishRecs m vs).map (·.insert) = vs.map (fun v => san Gen.elvish_sanitizer v.value) := by
  simp [elvishRecs, Function.comp_def]

theorem C03_export (vs : List RawValue) :
    ((exportRecs vs).map (·.value)).Perm (vs.map (·.value)) := by
  unfold exportRecs
  exact (sortBy_perm _ vs).map _

end Carapace.Props.C03
