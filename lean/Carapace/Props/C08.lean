/-
  C08 — invoking an Action is repeatable and leaves no trace.
  In the pure model `invoke : Expr → Ctx → Invoked` an Action *is* a value, so repeatability is
  true by construction; what carries the property is the `history` correspondence, which keeps
  the same Go values alive, invokes them repeatedly and interleaved with the actions built from
  them, and requires every step to equal the pure `invoke` (see DESIGN.md, C08).  The theorems
  below state what "by construction" means and the locality of Context edits.
-/
import Carapace.Model.Actions

namespace Carapace.Props.C08
open Carapace Carapace.Model

/-- the model of a history: every step is the pure invocation -/
def runHistory (table : List Expr) (steps : List (Nat × Ctx)) : List Invoked :=
  steps.map (fun s => invoke (table.getD s.1 (.plain [])) s.2)

/-- a step's result depends on nothing but its own action and Context: not on the steps before
    it, after it, or on how often it is repeated -/
theorem C08_history (table : List Expr) (before after : List (Nat × Ctx)) (i : Nat) (c : Ctx) :
    (runHistory table (before ++ (i, c) :: after)).getD before.length ({}, []) =
      invoke (table.getD i (.plain [])) c := by
  simp [runHistory, List.getD_eq_getElem?_getD]

/-- repeating an invocation yields the same result every time -/
theorem C08_repeatable (table : List Expr) (i : Nat) (c : Ctx) (n : Nat) :
    ∀ r ∈ runHistory table (List.replicate n (i, c)), r = invoke (table.getD i (.plain [])) c := by
  intro r hr
  simp only [runHistory, List.map_replicate, List.mem_replicate] at hr
  exact hr.2

/-- edits a callback makes to its Context are seen by the action beneath it and by nothing else:
    a sibling in the same Batch receives the caller's Context unchanged -/
theorem C08_ctx_local_sibling (edits : List Edit) (a b : Expr) (c : Ctx) :
    invokeList [.withCtx edits a, b] c = [invoke a (edits.foldl Edit.apply c), invoke b c] := by
  simp [invokeList, invoke]

/-- ... and the caller's Context is what later actions get -/
theorem C08_ctx_local_later (edits : List Edit) (a b : Expr) (c : Ctx) :
    invoke (.batch [.withCtx edits a, b]) c = batchMerge [invoke a (edits.foldl Edit.apply c), invoke b c] := by
  simp [invoke, invokeList]

/-- `Setenv` appends and the lookup takes the last entry: the variable is set beneath -/
theorem C08_setenv_visible_beneath (k v : Str) (c : Ctx) :
    lookupEnv (Edit.apply c (.setenv k v)).env k = v := by
  simp only [Edit.apply, lookupEnv, List.reverse_append, List.reverse_cons, List.reverse_nil, List.nil_append,
    List.singleton_append, List.find?_cons]
  have hp : ∀ (a b : Str), Str.hasPrefix (a ++ b) a = true := by
    intro a b; induction a with
    | nil => simp [Str.hasPrefix]
    | cons x a ih => simp [Str.hasPrefix, ih]
  have : Str.hasPrefix (k ++ '=' :: v) (k ++ ['=']) = true := by
    have := hp (k ++ ['=']) v
    simpa [List.append_assoc] using this
  simp [this]

end Carapace.Props.C08
