/-
  C03 — inserted text reads back as exactly the candidate value.
  Property theorems only; helper lemmas live in Carapace/Lemmas.
  The per-character obligations are decided by kernel evaluation over all of ASCII against
  the replacer tables and character sets *regenerated from /repo* (Carapace/Gen), and
  lifted to every `Char` because table keys and reader specials are ASCII.
-/
import Carapace.Model.Shells
import Carapace.Spec.Reader.Posix
import Carapace.Spec.Reader.Others
import Carapace.Lemmas.Sanitizer

namespace Carapace.Props.C03
open Carapace Carapace.Model Carapace.Spec

/-! ## bash -/

abbrev B : Reader Posix.Mode := Posix.reader Posix.bash

/-- the characters the bash sanitizer deletes -/
def bashDeleted (c : Char) : Bool := (Replacer.lookup Gen.bash_sanitizer c).isSome

theorem bash_sanitizer_shape : Replacer.isSanitizer Gen.bash_sanitizer = true := by decide

/-- inside double quotes: the escape of any character reads back as that character -/
def dqOk (c : Char) : Bool :=
  decide (B.run .dq (Replacer.escChar Gen.bash_escapingQuotedReplacer c) = some (.dq, [Out.lit c]))

theorem bash_dq_table_ascii : asciiAll dqOk = true := by decide
theorem bash_dq_table_keys : Replacer.keysAscii Gen.bash_escapingQuotedReplacer = true := by decide

theorem bash_dq_table (c : Char) :
    B.run .dq (Replacer.escChar Gen.bash_escapingQuotedReplacer c) = some (.dq, [Out.lit c]) := by
  by_cases h : c.toNat < 128
  · exact of_decide_eq_true (asciiAll_spec bash_dq_table_ascii c h)
  · rw [Replacer.escChar_nonascii _ bash_dq_table_keys c h]
    simp [Reader.run, Posix.reader, Posix.step, Posix.cls, h]

/-- unquoted, backslash-escaped (the `~` branch): every character the sanitizer leaves -/
def unqOk (c : Char) : Bool :=
  bashDeleted c ||
  decide (B.run .mid (Replacer.escChar Gen.bash_escapingReplacer c) = some (.mid, [Out.lit c]))

theorem bash_unq_table_ascii : asciiAll unqOk = true := by decide
theorem bash_unq_table_keys : Replacer.keysAscii Gen.bash_escapingReplacer = true := by decide
theorem bash_sanitizer_keys : Replacer.keysAscii Gen.bash_sanitizer = true := by decide

theorem bash_unq_table (c : Char) (hc : Replacer.lookup Gen.bash_sanitizer c = none) :
    B.run .mid (Replacer.escChar Gen.bash_escapingReplacer c) = some (.mid, [Out.lit c]) := by
  by_cases h : c.toNat < 128
  · have := asciiAll_spec bash_unq_table_ascii c h
    simp only [unqOk, bashDeleted, hc, Option.isSome_none, Bool.false_or] at this
    exact of_decide_eq_true this
  · rw [Replacer.escChar_nonascii _ bash_unq_table_keys c h]
    simp [Reader.run, Posix.reader, Posix.step, Posix.stepUnq, Posix.cls, h]

/-- bare: a character outside the `requiresQuoting` set is literal, at the start of a word and inside -/
def bareOk (c : Char) : Bool :=
  Gen.bash_requiresQuoting_chars.elem c ||
  (decide (Posix.stepUnq Posix.bash true c = some (.mid, [Out.lit c])) &&
   decide (Posix.stepUnq Posix.bash false c = some (.mid, [Out.lit c])))

theorem bash_bare_table_ascii : asciiAll bareOk = true := by decide

theorem bash_bare_table (c : Char) (hc : Gen.bash_requiresQuoting_chars.elem c = false) (atStart : Bool) :
    Posix.stepUnq Posix.bash atStart c = some (.mid, [Out.lit c]) := by
  by_cases h : c.toNat < 128
  · have := asciiAll_spec bash_bare_table_ascii c h
    simp only [bareOk, hc, Bool.false_or, Bool.and_eq_true, decide_eq_true_eq] at this
    cases atStart
    · exact this.2
    · exact this.1
  · simp [Posix.stepUnq, Posix.cls, h]


theorem hasPrefix_singleton {s : Str} {c : Char} (h : Str.hasPrefix s [c] = true) : ∃ t, s = c :: t := by
  cases s with
  | nil => simp [Str.hasPrefix] at h
  | cons d t =>
    simp [Str.hasPrefix] at h
    exact ⟨t, by rw [h]⟩

/-- reading unquoted text none of whose characters needs quoting -/
theorem bash_run_bare (s : Str) (hs : ∀ c ∈ s, Gen.bash_requiresQuoting_chars.elem c = false) :
    B.run .mid s = some (.mid, s.map Out.lit) ∧
    (s ≠ [] → B.run .start s = some (.mid, s.map Out.lit)) := by
  induction s with
  | nil => exact ⟨rfl, fun h => absurd rfl h⟩
  | cons c s ih =>
    have hc := hs c (List.mem_cons_self ..)
    have ih' := (ih (fun d hd => hs d (List.mem_cons_of_mem _ hd))).1
    constructor
    · simp only [Reader.run, Posix.reader, Posix.step, bash_bare_table c hc false]
      have : Reader.run ⟨Posix.step Posix.bash⟩ Posix.Mode.mid s = some (.mid, s.map Out.lit) := ih'
      simp [this]
    · intro _
      simp only [Reader.run, Posix.reader, Posix.step, bash_bare_table c hc true]
      have : Reader.run ⟨Posix.step Posix.bash⟩ Posix.Mode.mid s = some (.mid, s.map Out.lit) := ih'
      simp [this]

theorem containsAny_false {s chars : Str} (h : Str.containsAny s chars = false) :
    ∀ c ∈ s, chars.elem c = false := by
  intro c hc
  simp only [Str.containsAny, List.any_eq_false] at h
  have := h c hc
  simpa using this

/-- **C03 (bash).** For every value whose sanitised form is not empty, the text bash inserts
    reads back, by bash's own word splitting and quoting rules, as exactly one word: the
    value with tab, CR and LF dropped.  No hypothesis on the characters of the value
    (a leading `~` stays a tilde, as the property allows). -/
theorem C03_bash (env : Env) (v : Str) (hne : san Gen.bash_sanitizer v ≠ []) :
    Posix.readBack Posix.bash (bashInsert env v) = some [san Gen.bash_sanitizer v] := by
  have hsan : ∀ c ∈ san Gen.bash_sanitizer v, Replacer.lookup Gen.bash_sanitizer c = none :=
    fun c hc => (Replacer.mem_applyChars_sanitizer bash_sanitizer_shape hc).2
  generalize hs : san Gen.bash_sanitizer v = s at hne hsan
  unfold bashInsert
  simp only [hs]
  by_cases ht : Str.hasPrefix s ['~'] = true
  · -- leading tilde: backslash escaping, the tilde itself stays
    simp only [ht, if_true]
    obtain ⟨t, rfl⟩ := hasPrefix_singleton ht
    have h1 : Replacer.applyChars Gen.bash_escapingReplacer ('~' :: t) = '~' :: Replacer.applyChars Gen.bash_escapingReplacer t := by
      have : Replacer.escChar Gen.bash_escapingReplacer '~' = ['~'] := by decide
      simp [Replacer.applyChars, List.flatMap_cons, this]
    have h2 : B.run .mid (Replacer.applyChars Gen.bash_escapingReplacer t) = some (.mid, t.map Out.lit) :=
      Reader.run_flatMap B .mid _ (fun c => Replacer.lookup Gen.bash_sanitizer c = none)
        (fun c hc => bash_unq_table c hc) t (fun c hc => hsan c (List.mem_cons_of_mem _ hc))
    have h3 : B.run .start ['~'] = some (.mid, [Out.lit '~']) := by decide
    have h4 := Reader.run_append_of B h3 h2
    rw [h1]
    simp only [Posix.readBack, readWords]
    have : B.run .start ('~' :: Replacer.applyChars Gen.bash_escapingReplacer t) = some (.mid, Out.lit '~' :: t.map Out.lit) := by
      simpa using h4
    rw [this]
    simp only [Posix.final, if_true]
    have := collect_lits_none ('~' :: t) (by simp)
    simpa using this
  · simp only [ht, Bool.false_eq_true, if_false]
    by_cases hq : bashRequiresQuoting env s = true
    · -- double quotes
      simp only [hq, if_true]
      have h1 : B.run .start ['"'] = some (.dq, [Out.mark]) := by decide
      have h2 : B.run .dq (Replacer.applyChars Gen.bash_escapingQuotedReplacer s) = some (.dq, s.map Out.lit) :=
        Reader.run_flatMap B .dq _ (fun _ => True) (fun c _ => bash_dq_table c) s (fun _ _ => trivial)
      have h3 : B.run .dq ['"'] = some (.mid, []) := by decide
      have h4 := Reader.run_append_of B h1 (Reader.run_append_of B h2 h3)
      simp only [Posix.readBack, readWords]
      rw [List.append_assoc, h4]
      simp only [Posix.final, if_true, List.append_nil, List.singleton_append]
      have := collect_lits s []
      simpa [collect] using this
    · -- bare
      simp only [hq, Bool.false_eq_true, if_false]
      have hq' : bashRequiresQuoting env s = false := by simpa using hq
      have hall : ∀ c ∈ s, Gen.bash_requiresQuoting_chars.elem c = false := by
        intro c hc
        have := containsAny_false hq' c hc
        simp only [List.elem_eq_contains, List.contains_append, Bool.or_eq_false_iff] at this
        simpa using this.1
      have := (bash_run_bare s hall).2 hne
      simp only [Posix.readBack, readWords]
      rw [this]
      simp only [Posix.final, if_true]
      rw [collect_lits_none s hne]

/-- non-vacuity: a value with blanks, quotes, `$`, a glob and a backtick meets the hypothesis -/
example : san Gen.bash_sanitizer "it's \"a\" $x *?`".toList ≠ [] := by decide

end Carapace.Props.C03
