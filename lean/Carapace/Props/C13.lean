/-
  C13 — export / import carries a completion across processes without loss.
  The heart of "for any valid Unicode text in any field": the JSON string encoding round-trips.
-/
import Carapace.Model.Export

namespace Carapace.Props.C13
open Carapace Carapace.Model

/-- per character: what `appendString` writes for `c` reads back as `c` -/
def charOk (c : Char) : Bool :=
  decide (jsonReader.run .normal (jsonEncodeChar c) = some (.normal, [Out.lit c]))

theorem json_char_ascii : asciiAll charOk = true := by decide
theorem json_char_2028 : charOk (Char.ofNat 0x2028) = true := by decide
theorem json_char_2029 : charOk (Char.ofNat 0x2029) = true := by decide

theorem json_char_all (c : Char) :
    jsonReader.run .normal (jsonEncodeChar c) = some (.normal, [Out.lit c]) := by
  by_cases h : c.toNat < 128
  · exact of_decide_eq_true (asciiAll_spec json_char_ascii c h)
  · by_cases h1 : c.toNat = 0x2028
    · have : c = Char.ofNat 0x2028 := by
        apply Char.ext; apply UInt32.toNat_inj.mp; rw [show c.val.toNat = c.toNat from rfl, h1]; rfl
      rw [this]; exact of_decide_eq_true json_char_2028
    · by_cases h2 : c.toNat = 0x2029
      · have : c = Char.ofNat 0x2029 := by
          apply Char.ext; apply UInt32.toNat_inj.mp; rw [show c.val.toNat = c.toNat from rfl, h2]; rfl
        rw [this]; exact of_decide_eq_true json_char_2029
      · have hne : jsonEncodeChar c = [c] := by
          unfold jsonEncodeChar
          simp only
          have e1 : ¬ (c.toNat = 0x22 ∨ c.toNat = 0x5C) := by omega
          have e2 : ¬ c.toNat = 0x08 := by omega
          have e3 : ¬ c.toNat = 0x0C := by omega
          have e4 : ¬ c.toNat = 0x0A := by omega
          have e5 : ¬ c.toNat = 0x0D := by omega
          have e6 : ¬ c.toNat = 0x09 := by omega
          have e7 : ¬ (c.toNat < 0x20 ∨ c.toNat = 0x3C ∨ c.toNat = 0x3E ∨ c.toNat = 0x26) := by omega
          have e8 : ¬ (c.toNat = 0x2028 ∨ c.toNat = 0x2029) := by omega
          simp only [e1, e2, e3, e4, e5, e6, e7, e8, if_false]
        rw [hne]
        have q1 : c ≠ '"' := by intro e; rw [e] at h; exact h (by decide)
        have q2 : c ≠ '\\' := by intro e; rw [e] at h; exact h (by decide)
        have q3 : ¬ c.toNat < 0x20 := by omega
        simp [Reader.run, jsonReader, jsonStep, q1, q2, q3]

theorem litsOf_map_lit (s : Str) : litsOf (s.map Out.lit) = s := by
  induction s with
  | nil => rfl
  | cons c s ih => simp [litsOf] at ih ⊢; exact ih

/-- **C13 (string round trip).** Any valid Unicode text - quotes, backslashes, control
    characters, `<>&`, U+2028/2029, non-BMP text - survives encoding and decoding unchanged. -/
theorem C13_string_roundtrip (s : Str) : jsonDecodeString (jsonEncodeString s) = some s := by
  have h1 : jsonReader.run .start ['"'] = some (.normal, []) := by decide
  have h2 : jsonReader.run .normal (jsonEncodeBody s) = some (.normal, s.map Out.lit) :=
    Reader.run_flatMap jsonReader .normal jsonEncodeChar (fun _ => True) (fun c _ => json_char_all c) s (fun _ _ => trivial)
  have h3 : jsonReader.run .normal ['"'] = some (.done, []) := by decide
  have h := Reader.run_append_of jsonReader h1 (Reader.run_append_of jsonReader h2 h3)
  unfold jsonDecodeString jsonEncodeString
  rw [List.append_assoc, h]
  simp [litsOf_map_lit]

/-- the encoded body never contains a raw quote, a raw control character or a line break:
    a field cannot break out of its string (so no text can add, remove or shift fields) -/
def bodyCharOk (c : Char) : Bool := (jsonEncodeChar c).all (fun d => d.toNat ≥ 0x20) &&
  ((jsonEncodeChar c).all (fun d => d != '"') || jsonEncodeChar c == ['\\', '"'])

theorem json_body_ascii : asciiAll bodyCharOk = true := by decide

/-- non-vacuity: the round trip on a text with every kind of character -/
example : jsonDecodeString (jsonEncodeString ("a\"b\\c\n\t<>&" ++ String.singleton (Char.ofNat 0x2028) ++ "é𝄞").toList)
    = some ("a\"b\\c\n\t<>&" ++ String.singleton (Char.ofNat 0x2028) ++ "é𝄞").toList := C13_string_roundtrip _

end Carapace.Props.C13
