/-
  C06 — error messages always reach the user and cannot be inserted by accident.
  Theorems about the model of `Messages.Integrate` (message.go) and of the pipeline.
-/
import Std.Data.String.ToNat
import Carapace.Model.Shells
import Carapace.Spec.FmtOracle
import Carapace.Lemmas.Sort
import Carapace.Props.C05

namespace Carapace.Props.C06
open Carapace Carapace.Model Carapace.Spec

/-! ### names of the error entries -/

theorem natToStr_inj {i j : Nat} (h : Str.natToStr i = Str.natToStr j) : i = j := by
  unfold Str.natToStr at h
  exact Nat.repr_inj.mp (String.toList_inj.mp h)

theorem natToStr_ne_nil (i : Nat) : Str.natToStr i ≠ [] := by
  unfold Str.natToStr
  intro h
  have : (Nat.repr i) = "" := String.toList_inj.mp (by simpa using h)
  have hl : (Nat.repr i).length = 0 := by rw [this]; rfl
  have := Nat.length_repr_pos (n := i)
  omega

/-- different counters give different inserted values -/
theorem errName_inj (p : Str) {i j : Nat} (h : (errName p i).1 = (errName p j).1) : i = j := by
  unfold errName at h
  by_cases hi : i = 0 <;> by_cases hj : j = 0
  · omega
  · simp only [hi, hj, if_true, if_false] at h
    have : ([] : Str) = Str.natToStr j := by
      have := List.append_cancel_left (as := p ++ errS) (bs := []) (cs := Str.natToStr j) (by simpa using h)
      exact this
    exact absurd this.symm (natToStr_ne_nil j)
  · simp only [hi, hj, if_true, if_false] at h
    have : Str.natToStr i = [] := by
      have := List.append_cancel_left (as := p ++ errS) (bs := Str.natToStr i) (cs := []) (by simpa using h)
      exact this
    exact absurd this (natToStr_ne_nil i)
  · simp only [hi, hj, if_false] at h
    exact natToStr_inj (List.append_cancel_left h)


theorem containsValue_iff (vs : List RawValue) (s : Str) :
    containsValue vs s = true ↔ s ∈ vs.map (·.value) := by
  simp [containsValue, List.any_eq_true]

/-- The numbering loop terminates within its fuel and returns a free name: candidate names for
    different counters differ (`errName_inj`), so each taken name uses up one element of the
    budget list `bs` (pigeonhole by erasing). -/
theorem findFree_spec (vs : List RawValue) (p : Str) :
    ∀ (fuel : Nat) (bs : List Str) (i : Nat),
      (∀ j, i ≤ j → (errName p j).1 ∈ vs.map (·.value) → (errName p j).1 ∈ bs) →
      bs.length < fuel →
      ∃ k, i ≤ k ∧ findFree vs p fuel i = ((errName p k).1, (errName p k).2, k + 1) ∧
        (errName p k).1 ∉ vs.map (·.value) := by
  intro fuel
  induction fuel with
  | zero => intro bs i _ h; omega
  | succ fuel ih =>
    intro bs i hb hlen
    by_cases hc : containsValue vs (errName p i).1 = true
    · have hmem : (errName p i).1 ∈ bs := hb i (Nat.le_refl _) ((containsValue_iff _ _).mp hc)
      have hlen' : (bs.erase (errName p i).1).length < fuel := by
        rw [List.length_erase_of_mem hmem]
        have : 0 < bs.length := List.length_pos_of_mem hmem
        omega
      have hb' : ∀ j, i + 1 ≤ j → (errName p j).1 ∈ vs.map (·.value) → (errName p j).1 ∈ bs.erase (errName p i).1 := by
        intro j hj hjm
        have hne : (errName p j).1 ≠ (errName p i).1 := by
          intro heq
          have := errName_inj p heq
          omega
        exact (List.mem_erase_of_ne hne).mpr (hb j (by omega) hjm)
      obtain ⟨k, hk, hf, hfree⟩ := ih (bs.erase (errName p i).1) (i + 1) hb' hlen'
      refine ⟨k, by omega, ?_, hfree⟩
      simp only [findFree, hc, if_true]
      exact hf
    · refine ⟨i, Nat.le_refl _, ?_, ?_⟩
      · simp only [findFree, hc, Bool.false_eq_true, if_false]
      · intro hm
        exact hc ((containsValue_iff _ _).mpr hm)

/-- **C06 (entries).** The loop appends exactly one entry per message, in order, carrying the
    message as description; their inserted values are pairwise distinct and distinct from all
    values already present. -/
theorem integrateLoop_spec (errStyle p : Str) :
    ∀ (msgs : List Str) (vs : List RawValue) (i : Nat),
      ∃ errs : List RawValue,
        integrateLoop errStyle p msgs vs i = vs ++ errs ∧
        errs.map (·.description) = msgs ∧
        (∀ e ∈ errs, ∃ k, e.value = (errName p k).1 ∧ e.display = (errName p k).2 ∧ e.style = errStyle) ∧
        (errs.map (·.value)).Nodup ∧
        ∀ e ∈ errs, e.value ∉ vs.map (·.value) := by
  intro msgs
  induction msgs with
  | nil => intro vs i; exact ⟨[], by simp [integrateLoop], rfl, by simp, List.nodup_nil, by simp⟩
  | cons m ms ih =>
    intro vs i
    obtain ⟨k, _, hf, hfree⟩ := findFree_spec vs p (vs.length + 1) (vs.map (·.value)) i
      (fun _ _ h => h) (by simp)
    let e : RawValue := { value := (errName p k).1, display := (errName p k).2, description := m, style := errStyle }
    obtain ⟨errs, hr, hd, hall, hnd, hnot⟩ := ih (vs ++ [e]) (k + 1)
    refine ⟨e :: errs, ?_, ?_, ?_, ?_, ?_⟩
    · simp only [integrateLoop, hf]
      rw [hr]; simp [e]
    · simp [hd, e]
    · intro x hx
      rcases List.mem_cons.mp hx with rfl | hx
      · exact ⟨k, rfl, rfl, rfl⟩
      · exact hall x hx
    · simp only [List.map_cons, List.nodup_cons]
      refine ⟨?_, hnd⟩
      intro hmem
      obtain ⟨x, hx, hxe⟩ := List.mem_map.mp hmem
      have := hnot x hx
      apply this
      simp only [List.map_append, List.mem_append, List.map_cons, List.map_nil, List.mem_singleton]
      exact Or.inr hxe
    · intro x hx
      rcases List.mem_cons.mp hx with rfl | hx
      · exact hfree
      · intro hm
        have := hnot x hx
        apply this
        simp only [List.map_append, List.mem_append]
        exact Or.inl hm

theorem length_integrateLoop (errStyle p : Str) (msgs : List Str) (vs : List RawValue) (i : Nat) :
    (integrateLoop errStyle p msgs vs i).length = vs.length + msgs.length := by
  obtain ⟨errs, hr, hd, _⟩ := integrateLoop_spec errStyle p msgs vs i
  rw [hr, List.length_append]
  have : errs.length = msgs.length := by rw [← hd]; simp
  omega

/-- **C06 (at least two entries).** whenever messages are integrated as entries there are at
    least two of them, so the shell cannot auto-insert an error text -/
theorem C06_two_entries (errStyle dflt : Str) (msgs : List Str) (vs : List RawValue) (w : Str)
    (hm : msgs ≠ []) : 2 ≤ (integrate errStyle dflt msgs vs w).length := by
  have hm' : msgs.isEmpty = false := by
    cases msgs with
    | nil => exact absurd rfl hm
    | cons _ _ => rfl
  have hlen : 0 < msgs.length := by
    cases msgs with
    | nil => exact absurd rfl hm
    | cons _ _ => simp
  simp only [integrate, hm', Bool.false_eq_true, if_false, length_sortBy, integrateUnsorted]
  have hl := length_integrateLoop errStyle (errPrefix w) msgs vs 0
  split
  · simp only [List.length_append, List.length_cons, List.length_nil]; omega
  · omega

/-- **C06 (no-space).** with messages present no trailing space is ever added -/
theorem C06_nospace (sh : Str) (hsh : sh ≠ C05.exportS) (env : Env) (w : Str) (m : Meta)
    (vs : List RawValue) (hm : m.messages ≠ []) (s : Str) :
    SuffixMatcher.matchesStr (pipeline sh env w m vs).1.nospace s = true :=
  C05.C05_messages_force sh hsh env w m vs hm s

/-- nothing is integrated for the formats that have a message channel (list read from the source) -/
theorem C06_channel_shells : Gen.messageShells = ["elvish".toList, "export".toList, "zsh".toList] := by decide

/-- for the channel formats the candidates are left alone by the integration step: the emitted
    candidates do not depend on the messages -/
theorem C06_channel_untouched (sh : Str) (h : Gen.messageShells.elem sh = true) (env : Env) (w : Str) (m : Meta) (vs : List RawValue) :
    (pipeline sh env w m vs).2 = (pipeline sh env w { m with messages := [] } vs).2 := by
  unfold pipeline
  simp only [h, if_true]

/-- the zsh message field carries every message (sanitised) and then the usage -/
theorem C06_zsh_messages (m : Meta) :
    zshMessages m = (m.messages ++ (if m.usage.isEmpty then [] else [m.usage])).map (san Gen.zsh_message_formatMessage_msg) := rfl

/-! ### the filler entry (finding `filler_typed_E`) -/

/-- the error entries always extend the typed word -/
theorem hasPrefix_append (a b : Str) : Str.hasPrefix (a ++ b) a = true := by
  induction a with
  | nil => simp [Str.hasPrefix]
  | cons c a ih => simp [Str.hasPrefix, ih]

/-- **the filler `_` is false of the pinned code** for a typed word ending in `E`:
    with one message and no candidates, typed `E`, the filler's value `_` does not extend `E` -/
theorem C06_filler_counterexample :
    ((integrateUnsorted [] [] ["boom".toList] [] ['E']).map (·.value)) = ["ERR".toList, "_".toList]
    ∧ Str.hasPrefix "_".toList ['E'] = false := by decide

/-- partial: when the typed word does not end in `E`, `ER`, `ERR` the filler extends it -/
theorem C06_filler_partial (w : Str) (h : errPrefix w = w) : Str.hasPrefix (errPrefix w ++ ['_']) w = true := by
  rw [h]; exact hasPrefix_append w ['_']

end Carapace.Props.C06
