/- C06 property theorems (under construction) -/
import Carapace.Model.Shells
import Carapace.Spec.FmtOracle

namespace Carapace.Props.C06

end Carapace.Props.C06
