/- C04 property theorems (under construction) -/
import Carapace.Model.Shells
import Carapace.Spec.FmtOracle

namespace Carapace.Props.C04

end Carapace.Props.C04
