/-
  C04 — wire format integrity: one intact record per candidate.
  `decode sh (format sh ...) = expected`, record by record, for the line formats whose
  framing carapace produces itself; no line break in any emitted insert / display text.
  The sets of characters each sanitizer strips are read from /repo on every run (Gen).
-/
import Carapace.Model.Shells
import Carapace.Spec.Decode
import Carapace.Lemmas.Framing
import Carapace.Lemmas.Sanitizer

namespace Carapace.Props.C04
open Carapace Carapace.Model Carapace.Spec

/-! ### what the sanitizers strip (decided on the generated tables) -/

theorem fish_sanitizer_shape : Replacer.isSanitizer Gen.fish_sanitizer = true := by decide
theorem fish_strips : Replacer.lookup Gen.fish_sanitizer '\n' = some [] ∧ Replacer.lookup Gen.fish_sanitizer '\t' = some []
    ∧ Replacer.lookup Gen.fish_sanitizer '\r' = some [] := by decide
theorem bash_sanitizer_shape : Replacer.isSanitizer Gen.bash_sanitizer = true := by decide
theorem bash_strips : Replacer.lookup Gen.bash_sanitizer '\n' = some [] ∧ Replacer.lookup Gen.bash_sanitizer '\r' = some [] := by decide
theorem elvish_sanitizer_shape : Replacer.isSanitizer Gen.elvish_sanitizer = true := by decide
theorem elvish_strips : Replacer.lookup Gen.elvish_sanitizer '\n' = some [] ∧ Replacer.lookup Gen.elvish_sanitizer '\r' = some [] := by decide
theorem nushell_sanitizer_shape : Replacer.isSanitizer Gen.nushell_sanitizer = true := by decide
theorem nushell_strips : Replacer.lookup Gen.nushell_sanitizer '\n' = some [] ∧ Replacer.lookup Gen.nushell_sanitizer '\r' = some [] := by decide
theorem cmdclink_sanitizer_shape : Replacer.isSanitizer Gen.cmd_clink_sanitizer = true := by decide
theorem cmdclink_strips : Replacer.lookup Gen.cmd_clink_sanitizer '\n' = some [] ∧ Replacer.lookup Gen.cmd_clink_sanitizer '\t' = some []
    ∧ Replacer.lookup Gen.cmd_clink_sanitizer '\r' = some [] := by decide
theorem zsh_sanitizer_shape : Replacer.isSanitizer Gen.zsh_sanitizer = true := by decide
theorem zsh_strips : Replacer.lookup Gen.zsh_sanitizer '\n' = some [] ∧ Replacer.lookup Gen.zsh_sanitizer '\r' = some [] := by decide
theorem ion_sanitizer_shape : Replacer.isSanitizer Gen.ion_sanitizer = true := by decide
theorem ion_strips : Replacer.lookup Gen.ion_sanitizer '\n' = some [] ∧ Replacer.lookup Gen.ion_sanitizer '\r' = some [] := by decide

/-- a sanitised text is free of every character the sanitizer strips -/
theorem san_free {t : Replacer} (ht : Replacer.isSanitizer t = true) {c : Char} (hc : Replacer.lookup t c = some [])
    (s : Str) : c ∉ san t s := by
  intro hm
  have := (Replacer.mem_applyChars_sanitizer ht hm).2
  rw [hc] at this
  exact absurd this (by simp)

/-! ### fish: `value<TAB>description` lines -/

def fishLine (v : RawValue) : Str := san Gen.fish_sanitizer v.value ++ ['\t'] ++ san Gen.fish_sanitizer v.trimmed

def fishExpected (v : RawValue) : Rec :=
  { insert := san Gen.fish_sanitizer v.value, display := san Gen.fish_sanitizer v.value,
    description := san Gen.fish_sanitizer v.trimmed }

theorem fishLine_no_nl (v : RawValue) : '\n' ∉ fishLine v := by
  simp only [fishLine, List.mem_append, List.mem_singleton, not_or]
  exact ⟨⟨san_free fish_sanitizer_shape fish_strips.1 _, by decide⟩, san_free fish_sanitizer_shape fish_strips.1 _⟩

/-- **C04 (fish).** For *any* text in value and description the consumer's parsing recovers one
    record per candidate, each with that candidate's own (sanitised) value and trimmed description. -/
theorem C04_fish (vs : List RawValue) :
    decodeFish (fishFormat vs) = some { recs := vs.map fishExpected } := by
  cases hvs : vs with
  | nil => simp [decodeFish, fishFormat, Str.join, lines]
  | cons v0 r =>
    rw [← hvs]
    have hne : vs.map fishLine ≠ [] := by simp [hvs]
    have hfmt : fishFormat vs = Str.joinChar '\n' (vs.map fishLine) := by
      simp only [fishFormat, nlS, Str.join_singleton]; rfl
    have hnonempty : fishFormat vs ≠ [] := by
      rw [hfmt]
      intro h
      rcases Str.joinChar_eq_nil _ _ h with h | h
      · exact hne h
      · rw [hvs] at h
        simp [fishLine] at h
    have hlines : lines (fishFormat vs) = vs.map fishLine := by
      unfold lines
      have : (fishFormat vs).isEmpty = false := by
        cases hf : fishFormat vs with
        | nil => exact absurd hf hnonempty
        | cons _ _ => rfl
      rw [this, hfmt]
      simp only [Bool.false_eq_true, if_false]
      exact Str.splitOnChar_joinChar '\n' _ hne (by
        intro x hx
        obtain ⟨v, _, rfl⟩ := List.mem_map.mp hx
        exact fishLine_no_nl v)
    simp only [decodeFish, hlines, List.map_map]
    congr 2
    apply List.map_congr_left
    intro v _
    have hcut : Str.cutChar '\t' (fishLine v) = (san Gen.fish_sanitizer v.value, some (san Gen.fish_sanitizer v.trimmed)) := by
      unfold fishLine
      rw [List.append_assoc]
      exact Str.cutChar_append '\t' _ _ (san_free fish_sanitizer_shape fish_strips.2.1 _)
    simp [Function.comp, hcut, fishExpected]

/-- number of records = number of candidates (corollary) -/
theorem C04_fish_count (vs : List RawValue) :
    (decodeFish (fishFormat vs)).map (·.recs.length) = some vs.length := by
  simp [C04_fish]

/-! ### bash: `flag \x01 text \n text ...` -/

/-- **C04 (bash framing).** whatever the texts are, as long as none contains a line feed and
    they are not the single empty text, the consumer recovers them one by one and the flag -/
theorem C04_bash_framing (flag : Bool) (texts : List Str) (hnl : ∀ t ∈ texts, '\n' ∉ t) (hne : texts ≠ [[]]) :
    decodeBash (boolStr flag ++ [Char.ofNat 1] ++ Str.join nlS texts) =
      some { recs := texts.map (fun l => { insert := l, display := l }), globalNospace := some flag } := by
  have hflag : Char.ofNat 1 ∉ boolStr flag := by cases flag <;> decide
  have hcut : Str.cutChar (Char.ofNat 1) (boolStr flag ++ [Char.ofNat 1] ++ Str.join nlS texts) = (boolStr flag, some (Str.join nlS texts)) := by
    rw [List.append_assoc]
    exact Str.cutChar_append _ _ _ hflag
  have hj : Str.join nlS texts = Str.joinChar '\n' texts := Str.join_singleton '\n' texts
  have hlines : lines (Str.join nlS texts) = texts := by
    unfold lines
    cases ht : texts with
    | nil => simp [Str.join]
    | cons t0 r =>
      rw [← ht, hj]
      have hne0 : texts ≠ [] := by simp [ht]
      by_cases he : (Str.joinChar '\n' texts).isEmpty = true
      · have : Str.joinChar '\n' texts = [] := by simpa using he
        rcases Str.joinChar_eq_nil _ _ this with h | h
        · exact absurd h hne0
        · exact absurd h hne
      · simp only [he, Bool.false_eq_true, if_false]
        exact Str.splitOnChar_joinChar '\n' texts hne0 hnl
  unfold decodeBash
  rw [hcut]
  simp only [hlines]
  cases flag <;> simp [boolStr]

/-- the texts bash emits in normal mode contain no line feed: the sanitizer strips it and the
    escape tables do not introduce one (decided on the generated tables) -/
theorem bash_tables_no_nl :
    (∀ p ∈ Gen.bash_escapingReplacer, '\n' ∉ p.2) ∧ (∀ p ∈ Gen.bash_escapingQuotedReplacer, '\n' ∉ p.2) := by decide

theorem C04_bash_no_linebreak (env : Env) (v : Str) : '\n' ∉ bashInsert env v := by
  have hs : '\n' ∉ san Gen.bash_sanitizer v := san_free bash_sanitizer_shape bash_strips.1 v
  unfold bashInsert
  simp only
  split
  · intro h
    rcases Replacer.mem_applyChars h with h | ⟨p, hp, hc⟩
    · exact hs h
    · exact bash_tables_no_nl.1 p hp hc
  · split
    · intro h
      simp only [List.mem_append, List.mem_singleton] at h
      rcases h with (h | h) | h
      · exact absurd h (by decide)
      · rcases Replacer.mem_applyChars h with h | ⟨p, hp, hc⟩
        · exact hs h
        · exact bash_tables_no_nl.2 p hp hc
      · exact absurd h (by decide)
    · exact hs

/-! ### JSON formats: no line break in insert / display (elvish, nushell, ion) -/

theorem C04_elvish_no_linebreak (m : Meta) (vs : List RawValue) :
    ∀ r ∈ elvishRecs m vs, '\n' ∉ r.insert ∧ '\n' ∉ r.display ∧ '\r' ∉ r.insert ∧ '\r' ∉ r.display := by
  intro r hr
  obtain ⟨v, _, rfl⟩ := List.mem_map.mp hr
  exact ⟨san_free elvish_sanitizer_shape elvish_strips.1 _, san_free elvish_sanitizer_shape elvish_strips.1 _,
         san_free elvish_sanitizer_shape elvish_strips.2 _, san_free elvish_sanitizer_shape elvish_strips.2 _⟩

theorem C04_nushell_display_no_linebreak (m : Meta) (vs : List RawValue) :
    ∀ r ∈ nushellRecs m vs, '\n' ∉ r.display ∧ '\r' ∉ r.display := by
  intro r hr
  obtain ⟨v, _, rfl⟩ := List.mem_map.mp hr
  exact ⟨san_free nushell_sanitizer_shape nushell_strips.1 _, san_free nushell_sanitizer_shape nushell_strips.2 _⟩

/-- one record per candidate for the JSON formats (by construction of the record list) -/
theorem C04_json_counts (m : Meta) (vs : List RawValue) :
    (elvishRecs m vs).length = vs.length ∧ (nushellRecs m vs).length = vs.length ∧
    (xonshRecs m vs).length = vs.length ∧ (ionRecs m vs).length = vs.length ∧
    (powershellRecs m vs).length = (vs.filter (fun v => !v.value.isEmpty)).length := by
  simp [elvishRecs, nushellRecs, xonshRecs, ionRecs, powershellRecs]

/-! ### zsh: three levels of framing -/

/-- outer level: `zstyle \x01 message \x01 data \x01`; the snippet's `IFS=$'\001' read` recovers the three
    fields whatever they contain, as long as none contains \x01 -/
theorem C04_zsh_outer_framing (z m d : Str) (hz : Char.ofNat 1 ∉ z) (hm : Char.ofNat 1 ∉ m) (hd : Char.ofNat 1 ∉ d) :
    Str.splitOnChar (Char.ofNat 1) (z ++ [Char.ofNat 1] ++ m ++ [Char.ofNat 1] ++ d ++ [Char.ofNat 1]) = [z, m, d, []] := by
  have e : z ++ [Char.ofNat 1] ++ m ++ [Char.ofNat 1] ++ d ++ [Char.ofNat 1] =
      z ++ Char.ofNat 1 :: (m ++ Char.ofNat 1 :: (d ++ Char.ofNat 1 :: [])) := by simp
  rw [e, Str.splitOnChar_append _ _ _ hz, Str.splitOnChar_append _ _ _ hm, Str.splitOnChar_append _ _ _ hd]
  rfl

/-- middle level: one block `tag \x03 displays \x03 values` per tag -/
theorem C04_zsh_block_framing (tag ds vs : Str) (h1 : Char.ofNat 3 ∉ tag) (h2 : Char.ofNat 3 ∉ ds) (h3 : Char.ofNat 3 ∉ vs) :
    Str.splitOnChar (Char.ofNat 3) (Str.join [Char.ofNat 3] [tag, ds, vs]) = [tag, ds, vs] := by
  have e : Str.join [Char.ofNat 3] [tag, ds, vs] = tag ++ Char.ofNat 3 :: (ds ++ Char.ofNat 3 :: vs) := by
    simp [Str.join]
  rw [e, Str.splitOnChar_append _ _ _ h1, Str.splitOnChar_append _ _ _ h2, Str.splitOnChar_no _ _ h3]

/-- inner level: as many display lines as value lines, one per candidate, because the sanitizer
    removes every line feed from both (`zsh_strips`) -/
theorem C04_zsh_lines (texts : List Str) (hne : texts ≠ []) (hnl : ∀ t ∈ texts, '\n' ∉ t) :
    Str.splitOnChar '\n' (Str.join nlS texts) = texts := by
  have hj : Str.join nlS texts = Str.joinChar '\n' texts := Str.join_singleton '\n' texts
  rw [hj]
  exact Str.splitOnChar_joinChar '\n' texts hne hnl

/-- the values of the model are free of line feeds: the hypothesis of `C04_zsh_lines` is met -/
theorem C04_zsh_values_no_linebreak (v : Str) : '\n' ∉ san Gen.zsh_sanitizer v :=
  san_free zsh_sanitizer_shape zsh_strips.1 v

/-- the framing characters themselves are *not* removed (listed finding `zsh_framing_control_chars`):
    a message containing \x01 yields five outer fields instead of four -/
theorem C04_zsh_framing_counterexample :
    (Str.splitOnChar (Char.ofNat 1) ("z".toList ++ [Char.ofNat 1] ++ san Gen.zsh_message_formatMessage_msg ['-', Char.ofNat 1] ++ [Char.ofNat 1] ++ "d".toList ++ [Char.ofNat 1])).length = 5 := by decide

/-! ### counterexamples on the pinned code (listed findings) -/

/-- bash-ble sanitises nothing: a tab in the value shifts the fields (finding `bashble_unsanitised`) -/
theorem C04_bashble_counterexample :
    (decodeBashBle (bashBleFormat {} [{ value := "a\tb".toList, display := "ab".toList }])).map (·.recs.map (·.insert))
      = some ["a".toList] := by decide

/-- cmd-clink's consumer drops empty fields: an empty description shifts the append character
    into the description slot (finding `cmdclink_empty_fields`) -/
theorem C04_cmdclink_counterexample :
    (decodeCmdClink (cmdClinkFormat {} [{ value := "a".toList, display := "a".toList }])).map (·.recs.map (·.description))
      = some [" ".toList] := by decide

end Carapace.Props.C04
