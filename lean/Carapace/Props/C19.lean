/-
  C19 — Timeout bounds the time to an answer without altering timely answers.
  Model time only: the scheduling margin and real races of the abandoned computation are runtime
  behaviour, searched by the check (wall clock, race detector), not proved.
-/
import Carapace.Model.Timeout
import Carapace.Gen.CharSets

namespace Carapace.Props.C19
open Carapace Carapace.Model

/-- **bound**: the caller returns at model time `≤ d`, however long the wrapped action runs -
    even if it never returns -/
theorem C19_bound {α} (d : Nat) (dur : Option Nat) (result alt : α) (tie : Bool) :
    (timeoutRun d dur result alt tie).2 ≤ d := by
  unfold timeoutRun
  cases dur with
  | none => simp
  | some t =>
    simp only
    split
    · simp; omega
    · split <;> simp

/-- **late**: if the wrapped action needs longer than `d` (or never returns) the answer is exactly
    the alternative -/
theorem C19_late {α} (d : Nat) (dur : Option Nat) (result alt : α) (tie : Bool)
    (h : dur = none ∨ ∃ t, dur = some t ∧ d < t) : (timeoutRun d dur result alt tie).1 = alt := by
  rcases h with rfl | ⟨t, rfl, ht⟩
  · rfl
  · have h1 : ¬ t < d := by omega
    simp [timeoutRun, h1, ht]

/-- **timely**: if it finishes before `d` the answer is exactly its result (metadata included: the
    result is returned as a whole) -/
theorem C19_timely {α} (d t : Nat) (result alt : α) (tie : Bool) (h : t < d) :
    timeoutRun d (some t) result alt tie = (result, t) := by
  simp [timeoutRun, h]

/-- **happens-before**: whenever the caller reads the result, the goroutine's write of it has
    happened before (write → send → receive → read) -/
theorem C19_hb (t : TTrace) (h : t.Valid) : t.gWrite < t.mRead := by
  obtain ⟨h1, h2, h3⟩ := h
  omega

/-- the channel is buffered with capacity 1 (read from the source on every run) ... -/
theorem channel_capacity : Gen.timeout_chan_capacities = [['1']] := by decide

/-- ... and the function has the shape go / send / select the model describes -/
theorem timeout_shape : Gen.timeout_shape = ["go".toList, "send".toList, "select".toList] := by decide

/-- ... so the abandoned goroutine's single send never blocks: it does not leak blocked forever -/
theorem C19_send_never_blocks : sendBlocks 1 0 = false := by decide

end Carapace.Props.C19
