/-
  Byte view of `Str` for the places where the Go code mixes byte and rune units.
-/
import Carapace.Basic.Str

namespace Carapace.Utf8

def encodeChar (c : Char) : List Nat :=
  let n := c.toNat
  if n < 0x80 then [n]
  else if n < 0x800 then [0xC0 + n / 64, 0x80 + n % 64]
  else if n < 0x10000 then [0xE0 + n / 4096, 0x80 + (n / 64) % 64, 0x80 + n % 64]
  else [0xF0 + n / 262144, 0x80 + (n / 4096) % 64, 0x80 + (n / 64) % 64, 0x80 + n % 64]

def encode (s : Str) : List Nat := s.flatMap encodeChar

def byteLen (s : Str) : Nat := (encode s).length

/-- length of the common prefix of two byte lists -/
def commonLen : List Nat → List Nat → Nat
  | a :: s, b :: t => if a = b then commonLen s t + 1 else 0
  | _, _ => 0

/-- take the first `n` bytes of `s`: the whole characters inside, and the number of bytes of
    a partial character left over (Go then holds invalid UTF-8) -/
def byteTake : Nat → Str → Str × Nat
  | 0, _ => ([], 0)
  | _, [] => ([], 0)
  | n, c :: s =>
    let k := (encodeChar c).length
    if k ≤ n then let (r, e) := byteTake (n - k) s; (c :: r, e) else ([], n)

/-- drop the first `n` bytes; a partial character yields replacement characters for its tail bytes -/
def byteDrop : Nat → Str → Str × Nat
  | 0, s => (s, 0)
  | _, [] => ([], 0)
  | n, c :: s =>
    let k := (encodeChar c).length
    if k ≤ n then byteDrop (n - k) s else (s, k - n)

def replacement : Char := Char.ofNat 0xFFFD

/-- what Go's `a[:n]` looks like after invalid bytes were replaced by U+FFFD (one per byte) -/
def takeBytesLossy (n : Nat) (s : Str) : Str :=
  let (r, e) := byteTake n s
  r ++ List.replicate e replacement

def dropBytesLossy (n : Nat) (s : Str) : Str :=
  let (r, e) := byteDrop n s
  List.replicate e replacement ++ r

/-- byte-wise common prefix as `bash.commonPrefix` / `tcsh.commonPrefix` compute it -/
def commonPrefix (a b : Str) : Str := takeBytesLossy (commonLen (encode a) (encode b)) a

/-- exact variant: `none` when the cut falls inside a character -/
def commonPrefix? (a b : Str) : Option Str :=
  let (r, e) := byteTake (commonLen (encode a) (encode b)) a
  if e = 0 then some r else none

end Carapace.Utf8
