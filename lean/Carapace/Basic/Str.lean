/-
  Basic string vocabulary of the models.  `Str := List Char` (valid Unicode text).
  Character-level versions of the Go `strings` functions the code uses with ASCII
  needles (they coincide with the byte-level functions on valid UTF-8; that coincidence
  is part of what the correspondence runs validate).
  Core only (no Mathlib): the driver links these definitions.
-/
namespace Carapace

abbrev Str := List Char

namespace Str

def ofString (s : String) : Str := s.toList
def toString (s : Str) : String := String.ofList s

/-- `strings.HasPrefix s p` -/
def hasPrefix : Str → Str → Bool
  | _, [] => true
  | [], _ :: _ => false
  | c :: s, d :: p => c == d && hasPrefix s p

/-- `strings.HasSuffix s p` -/
def hasSuffix (s p : Str) : Bool := hasPrefix s.reverse p.reverse

/-- `strings.TrimPrefix s p` -/
def trimPrefix (s p : Str) : Str := if hasPrefix s p then s.drop p.length else s

/-- `strings.TrimSuffix s p` -/
def trimSuffix (s p : Str) : Str := if hasSuffix s p then s.take (s.length - p.length) else s

/-- `strings.Contains s sub` (sub non-empty or empty) -/
def contains : Str → Str → Bool
  | [], sub => sub.isEmpty
  | c :: s, sub => hasPrefix (c :: s) sub || contains s sub

/-- `strings.ContainsAny s chars` -/
def containsAny (s chars : Str) : Bool := s.any (fun c => List.elem c chars)

/-- split at every occurrence of the character (`strings.Split s "c"`); never empty -/
def splitOnChar (d : Char) : Str → List Str
  | [] => [[]]
  | c :: s =>
    if c = d then [] :: splitOnChar d s
    else match splitOnChar d s with
      | [] => [[c]]          -- unreachable
      | w :: ws => (c :: w) :: ws

/-- `strings.Join xs "c"` -/
def joinChar (d : Char) : List Str → Str
  | [] => []
  | [x] => x
  | x :: y :: r => x ++ d :: joinChar d (y :: r)

/-- split at the first occurrence of the character: (before, some after) or (s, none) -/
def cutChar (d : Char) : Str → Str × Option Str
  | [] => ([], none)
  | c :: s =>
    if c = d then ([], some s)
    else let (a, b) := cutChar d s; (c :: a, b)

/-- index (in characters) of the first occurrence of `sub` in `s` -/
def indexOf (s sub : Str) : Option Nat :=
  go s 0
where
  go : Str → Nat → Option Nat
    | [], i => if sub.isEmpty then some i else none
    | c :: r, i => if hasPrefix (c :: r) sub then some i else go r (i + 1)

/-- `strings.SplitN s sep 2` for a non-empty separator -/
def cut (s sep : Str) : Str × Option Str :=
  match indexOf s sep with
  | none => (s, none)
  | some i => (s.take i, some (s.drop (i + sep.length)))

/-- `strings.Split s sep` for a non-empty separator (fuel = length) -/
def splitOn (s sep : Str) : List Str :=
  go s.length s
where
  go : Nat → Str → List Str
    | 0, s => [s]
    | n + 1, s =>
      match cut s sep with
      | (a, none) => [a]
      | (a, some b) => a :: go n b

/-- `strings.Join xs sep` -/
def join (sep : Str) : List Str → Str
  | [] => []
  | [x] => x
  | x :: y :: r => x ++ sep ++ join sep (y :: r)

/-- ASCII lower-casing (the models treat case-insensitive matching for ASCII only) -/
def lowerChar (c : Char) : Char :=
  if 'A'.toNat ≤ c.toNat ∧ c.toNat ≤ 'Z'.toNat then Char.ofNat (c.toNat + 32) else c

/-- `unicode.ToLower` (rune by rune, as `strings.ToLower` applies it) on the repertoire the generators use:
    ASCII, the Latin-1 capitals, and `İ` (U+0130), whose lower case `i` is shorter in UTF-8 -/
def lowerRune (c : Char) : Char :=
  if c.toNat = 0x130 then 'i'
  else if (0xC0 ≤ c.toNat ∧ c.toNat ≤ 0xDE) ∧ c.toNat ≠ 0xD7 then Char.ofNat (c.toNat + 32)
  else lowerChar c

def lower (s : Str) : Str := s.map lowerRune

/-- Unicode white space as `strings.TrimSpace` / `unicode.IsSpace` see it -/
def isSpace (c : Char) : Bool :=
  let n := c.toNat
  n == 0x20 || (0x09 ≤ n && n ≤ 0x0D) || n == 0x85 || n == 0xA0 || n == 0x1680 ||
  (0x2000 ≤ n && n ≤ 0x200A) || n == 0x2028 || n == 0x2029 || n == 0x202F || n == 0x205F || n == 0x3000

def trimLeft (s : Str) : Str := s.dropWhile isSpace
def trimSpace (s : Str) : Str := (trimLeft (trimLeft s).reverse).reverse

/-- lexicographic order by code point = Go's byte order on valid UTF-8 -/
def lt : Str → Str → Bool
  | [], [] => false
  | [], _ :: _ => true
  | _ :: _, [] => false
  | a :: s, b :: t => a.toNat < b.toNat || (a == b && lt s t)

def le (s t : Str) : Bool := !lt t s

def natToStr (n : Nat) : Str := (Nat.repr n).toList

end Str

/-- insertion into a list sorted by `lt`, stable (after equal elements) -/
def insertSorted {α} (lt : α → α → Bool) (x : α) : List α → List α
  | [] => [x]
  | y :: ys => if lt x y then x :: y :: ys else y :: insertSorted lt x ys

/-- a stable sort (the code's `sort.Sort` is not stable; models never rely on tie order) -/
def sortBy {α} (lt : α → α → Bool) (xs : List α) : List α :=
  xs.foldl (fun acc x => insertSorted lt x acc) []

end Carapace
