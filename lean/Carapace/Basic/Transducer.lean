/-
  Shell readers are character transducers: a finite mode, a step per character that may
  fail (`none` = something other than literal text / quoting was met) and emits `Out`
  tokens.  The framework lemma `run_flatMap` turns a per-character obligation
  ("the escape of `c`, read in mode `m`, yields the literal `c` and stays in `m`") into
  the statement for every string by induction.
-/
import Carapace.Basic.Str

namespace Carapace

inductive Out where
  | lit (c : Char)   -- a literal character of the current word
  | brk              -- the current word (if any) ends here
  | mark             -- a quote was seen: a word exists here even if it is empty
  deriving DecidableEq, Repr, Inhabited

structure Reader (M : Type) where
  step : M → Char → Option (M × List Out)

namespace Reader

variable {M : Type}

def run (r : Reader M) : M → Str → Option (M × List Out)
  | m, [] => some (m, [])
  | m, c :: s =>
    match r.step m c with
    | none => none
    | some (m', o) =>
      match run r m' s with
      | none => none
      | some (m'', o') => some (m'', o ++ o')

theorem run_nil (r : Reader M) (m : M) : r.run m [] = some (m, []) := rfl

theorem run_append (r : Reader M) (m : M) (a b : Str) :
    r.run m (a ++ b) =
      match r.run m a with
      | none => none
      | some (m', o) =>
        match r.run m' b with
        | none => none
        | some (m'', o') => some (m'', o ++ o') := by
  induction a generalizing m with
  | nil =>
    simp only [List.nil_append, run]
    cases r.run m b with
    | none => rfl
    | some p => simp
  | cons c a ih =>
    simp only [List.cons_append, run]
    cases hs : r.step m c with
    | none => rfl
    | some p =>
      obtain ⟨m1, o1⟩ := p
      simp only [ih]
      cases r.run m1 a with
      | none => rfl
      | some q =>
        obtain ⟨m2, o2⟩ := q
        simp only
        cases r.run m2 b with
        | none => rfl
        | some q3 => simp [List.append_assoc]

/-- if both halves run, so does the concatenation -/
theorem run_append_of (r : Reader M) {m m' m'' : M} {a b : Str} {o o' : List Out}
    (ha : r.run m a = some (m', o)) (hb : r.run m' b = some (m'', o')) :
    r.run m (a ++ b) = some (m'', o ++ o') := by
  rw [run_append, ha]; simp only; rw [hb]

/-- The framework lemma: a per-character escape that reads back as the character itself,
    staying in mode `m`, reads back as the whole string. -/
theorem run_flatMap (r : Reader M) (m : M) (esc : Char → Str) (P : Char → Prop)
    (h : ∀ c, P c → r.run m (esc c) = some (m, [Out.lit c])) :
    ∀ v : Str, (∀ c ∈ v, P c) → r.run m (v.flatMap esc) = some (m, v.map Out.lit) := by
  intro v
  induction v with
  | nil => intro _; rfl
  | cons c v ih =>
    intro hv
    have hc : P c := hv c (List.mem_cons_self ..)
    have hv' : ∀ d ∈ v, P d := fun d hd => hv d (List.mem_cons_of_mem _ hd)
    have := run_append_of r (h c hc) (ih hv')
    simpa [List.flatMap_cons] using this

end Reader

/-- words denoted by an output stream; `cur = none` means no word is in progress -/
def collect : List Out → Option Str → List Str
  | [], none => []
  | [], some w => [w]
  | Out.lit c :: r, cur => collect r (some (cur.getD [] ++ [c]))
  | Out.mark :: r, cur => collect r (some (cur.getD []))
  | Out.brk :: r, none => collect r none
  | Out.brk :: r, some w => w :: collect r none

theorem collect_lits (v : Str) (acc : Str) :
    collect (v.map Out.lit) (some acc) = [acc ++ v] := by
  induction v generalizing acc with
  | nil => simp [collect]
  | cons c v ih => simp [collect, ih, List.append_assoc]

theorem collect_lits_none (v : Str) (h : v ≠ []) :
    collect (v.map Out.lit) none = [v] := by
  cases v with
  | nil => exact absurd rfl h
  | cons c v => simp [collect, collect_lits]

/-- `readWords r start final text`: the words a shell obtains from `text`, or `none` -/
def readWords {M : Type} (r : Reader M) (start : M) (final : M → Bool) (text : Str) : Option (List Str) :=
  match r.run start text with
  | none => none
  | some (m, o) => if final m then some (collect o none) else none

/-! ### exhaustive decision over ASCII, lifted to every `Char` -/

def asciiAll (p : Char → Bool) : Bool := (List.range 128).all (fun n => p (Char.ofNat n))

theorem asciiAll_spec {p : Char → Bool} (h : asciiAll p = true) (c : Char) (hc : c.toNat < 128) :
    p c = true := by
  unfold asciiAll at h
  rw [List.all_eq_true] at h
  have := h c.toNat (List.mem_range.mpr hc)
  simpa [Char.ofNat_toNat] using this

end Carapace
