/-
  `strings.NewReplacer`: scan left to right; at each position apply the first pair (in
  argument order) whose `old` is a prefix of the remaining input, else copy one character.
  (Go's documented rule; empty `old` does not occur in the extracted tables.)
-/
import Carapace.Basic.Str

namespace Carapace

abbrev Replacer := List (Str × Str)

namespace Replacer

def firstMatch : Replacer → Str → Option (Str × Str)
  | [], _ => none
  | (old, new) :: r, s => if Str.hasPrefix s old && !old.isEmpty then some (old, new) else firstMatch r s

/-- generic application (fuel bounds the number of steps; `s.length + 1` always suffices) -/
def applyFuel (t : Replacer) : Nat → Str → Str
  | 0, s => s
  | _ + 1, [] => []
  | n + 1, c :: s =>
    match firstMatch t (c :: s) with
    | some (old, new) => new ++ applyFuel t n ((c :: s).drop old.length)
    | none => c :: applyFuel t n s

def apply (t : Replacer) (s : Str) : Str := applyFuel t (s.length + 1) s

/-- all `old` strings are single characters -/
def singleChar (t : Replacer) : Bool := t.all (fun p => p.1.length == 1)

/-- lookup in a table whose keys are single characters -/
def lookup : Replacer → Char → Option Str
  | [], _ => none
  | (old, new) :: r, c => if old == [c] then some new else lookup r c

/-- character-wise application; equals `apply` when `singleChar` (see `apply_eq_applyChars`) -/
def escChar (t : Replacer) (c : Char) : Str := (lookup t c).getD [c]
def applyChars (t : Replacer) (s : Str) : Str := s.flatMap (escChar t)

/-- keys of the table are ASCII -/
def keysAscii (t : Replacer) : Bool := t.all (fun p => p.1.all (fun c => c.toNat < 128))

theorem lookup_nonascii (t : Replacer) (h : keysAscii t = true) (c : Char) (hc : ¬ c.toNat < 128) :
    lookup t c = none := by
  induction t with
  | nil => rfl
  | cons p t ih =>
    obtain ⟨old, new⟩ := p
    simp only [keysAscii, List.all_cons, Bool.and_eq_true] at h
    simp only [lookup]
    have : (old == [c]) = false := by
      apply Bool.eq_false_iff.mpr
      intro heq
      have : old = [c] := by simpa using heq
      subst this
      simp at h
      exact hc h.1
    simp only [this]
    exact ih (by simpa [keysAscii] using h.2)

theorem escChar_nonascii (t : Replacer) (h : keysAscii t = true) (c : Char) (hc : ¬ c.toNat < 128) :
    escChar t c = [c] := by
  simp [escChar, lookup_nonascii t h c hc]

/-- the set of characters a sanitizer (a replacer whose `new` strings are empty) deletes -/
def deleted (t : Replacer) (c : Char) : Bool := lookup t c == some []

end Replacer
end Carapace
