-- root of the library: everything the checks build
import Carapace.Props.C02
import Carapace.Props.C03
import Carapace.Props.C04
import Carapace.Props.C05
import Carapace.Props.C06
import Carapace.Props.C08
import Carapace.Props.C10
import Carapace.Props.C11
import Carapace.Props.C12
import Carapace.Props.C13
import Carapace.Props.C17
import Carapace.Props.C09
import Carapace.Props.C14
import Carapace.Props.C15
import Carapace.Props.C19
import Carapace.Props.C16
