#!/usr/bin/env python3
# Development tool: witnesses for the remaining engines (split, ...). See mkknown_fmt.py.
import json, subprocess, sys
sys.path.insert(0, '/verif/runner')
import classes
W = {
    ("C17", "split_rune_byte_index"): {"op": "split", "in": {"text": "\"--flag\"  日本  \"tw", "pipelines": False, "values": ["x-y"], "nospace": "/"}},
    ("C17", "splitp_redirect_adjoining_last_word"): {"op": "split", "in": {"text": "cmd >x=y", "pipelines": True, "values": ["val"], "nospace": ""}},
}
inv = lambda site, kb, t=100: {"k": "invoke", "site": site, "kb": kb, "ka": kb, "timeout": t, "msg": False, "dt": 0, "kind": ""}
W[("C14", "cache_key_encoding")] = {"op": "cache", "in": {"ops": [inv(0, [["a", "b"]]), inv(0, [["a\nb"]])]}}
W[("C14", "cache_stat_error_nil_deref")] = {"op": "cache", "in": {"ops": [inv(0, [["a"]]), {"k": "corrupt", "site": 0, "kb": [["a"]], "ka": None, "timeout": 0, "msg": False, "dt": 0, "kind": "loop"}, inv(0, [["a"]])]}}
W[("C15", "raw_cache_partial_entry")] = {"op": "crashwrite", "in": {"flavour": "raw", "n": 3, "previous": "none", "same": False}}
W[("C16", "files_unclean_dir_part")] = {"op": "files", "in": {"tree": [{"path": "a", "kind": "dir", "target": ""}, {"path": "a/x", "kind": "file", "target": ""}], "ctxDir": "", "typed": "a//", "dirOnly": False, "suffixes": None, "chdir": None}}
def _flag(name, short="", kind="string"):
    return {"name": name, "short": short, "kind": kind, "persistent": False, "hidden": False, "deprecated": False, "shortDeprecated": False, "mutex": None}
def _cmd(name, parent, flags, inter=True, npos=1, posAny=True, ndash=1, dashAny=True):
    return {"name": name, "aliases": None, "parent": parent, "hidden": False, "deprecated": False, "interspersed": inter, "disableFlagParsing": False,
            "flags": flags, "npos": npos, "posAny": posAny, "ndash": ndash, "dashAny": dashAny}
T1 = {"cmds": [_cmd("root", -1, [_flag("loc", "l")]), _cmd("sub", 0, [_flag("subflag", "s")])]}
T2 = {"cmds": [_cmd("root", -1, [_flag("name", "n"), _flag("cnt", "c")], inter=False)]}
W[("C01", "descent_heuristics")] = {"op": "parse", "in": {"tree": T1, "words": ["pos", "sub", ""]}}
W[("C07", "descent_heuristics")] = {"op": "parse", "in": {"tree": T1, "words": ["pos", "sub", "-"]}}
W[("C01", "lone_dash_or_empty_word")] = {"op": "parse", "in": {"tree": T2, "words": ["-", "--name", ""]}}
W[("C07", "lone_dash_or_empty_word")] = {"op": "parse", "in": {"tree": T2, "words": ["-", "-"]}}
W[("C07", "subcommand_after_parent_flags")] = {"op": "parse", "in": {"tree": T1, "words": ["--loc", "v", ""]}}
W[("C01", "shorthand_series_after_dash")] = {"op": "parse", "in": {"tree": T2, "words": ["--", "-c"]}}
T3 = {"cmds": [_cmd("root", -1, [dict(_flag("level", "e"), delim=":", nargs=0)])]}
W[("C01", "posix_shorthand_custom_delimiter")] = {"op": "parse", "in": {"tree": T3, "words": ["-e:"]}}
T4 = {"cmds": [dict(_cmd("root", -1, [_flag("name", "n")]), whitelist=True), dict(_cmd("sub", 0, []), whitelist=True)]}
W[("C01", "unknown_flag_takes_next_word")] = {"op": "parse", "in": {"tree": T4, "words": ["-z", ""]}}
W[("C07", "unknown_flag_takes_next_word")] = {"op": "parse", "in": {"tree": T4, "words": ["-z", ""]}}
T5 = {"cmds": [_cmd("root", -1, [dict(_flag("delim", "delim"), mode=1), dict(_flag("list", "list", "stringSlice"), mode=1, nargs=-1)], inter=False, npos=2), _cmd("sub", 0, [])]}
W[("C01", "shorthand_only_flag_in_long_form")] = {"op": "parse", "in": {"tree": T5, "words": ["--delim", "v", "-list", "a", "-c"]}}
W[("C07", "shorthand_only_flag_in_long_form")] = {"op": "parse", "in": {"tree": T5, "words": ["--delim", "v", ""]}}
T6 = {"cmds": [_cmd("root", -1, [_flag("color", ""), dict(_flag("files", "f", "stringArray"), nargs=-1)])]}
W[("C01", "nargs_any_flag_before_pending_flag")] = {"op": "parse", "in": {"tree": T6, "words": ["--files", "--color", ""]}}
F7 = [dict(_flag("opt", "o"), mode=0), dict(_flag("delim", "delim"), mode=1)]
W[("C01", "nonposix_short_empty_attached_lookup")] = {"op": "lookuparg", "in": {"flags": F7, "arg": "-o="}}
W[("C01", "shorthand_only_flag_in_long_form_lookup")] = {"op": "lookuparg", "in": {"flags": F7, "arg": "--delim"}}
T7 = {"cmds": [_cmd("root", -1, F7, npos=2)]}
W[("C01", "nonposix_short_empty_attached")] = {"op": "parse", "in": {"tree": T7, "words": ["-o=", ""]}}
W[("C20", "complete_protocol_positional_from_dash_slot")] = {"op": "ccomplete", "in": {"tree": T2, "words": [""], "cobraSide": False}}
_E = lambda shell, word, desc: {"op": "entry", "in": {"tree": T1, "variant": 6, "ancestor": "fish", "args": [shell, "root", word], "env": {}, "desc": desc}}
W[("C18", "zsh_framing_control_chars")] = _E("zsh", "-\x01", "plain")
W[("C18", "bashble_unsanitised_entry")] = _E("bash-ble", "", "a\tb")
lines = [json.dumps({"op": w["op"], "id": "%s#%s" % k, "in": w["in"]}) for k, w in W.items()]
h = subprocess.run(['/verif/bin/harness', 'run'], input="\n".join(lines).encode(), stdout=subprocess.PIPE)
d = subprocess.run(['/verif/bin/driver'], input=h.stdout, stdout=subprocess.PIPE)
for l in d.stdout.decode().split("\n"):
    if l:
        r = json.loads(l)
        p, cid = r['id'].split('#')
        if any(f['prop'] == p for f in r['fails']):
            print("finding: property=%s class=%s witness=%s :: %s" % (p, cid, json.dumps(W[(p, cid)], ensure_ascii=False), classes.BY_ID[cid].what))
        else:
            print("# no failing witness for property=%s class=%s" % (p, cid), file=sys.stderr)
