#!/bin/bash
# Development tool (round 4): retrial4.sh <Cxx-n> [props...] - apply the stored seed to its round-4 worktree, run the quick
# check(s) against it (VERIF_REPO), revert
id=$1; shift; p=${id%-*}; wt=/tmp/wt4-$p; props=${@:-$p}
cd $(dirname $0)/..
git -C $wt apply $PWD/seeded/$id/patch.diff || { echo "$id: patch does not apply"; exit 1; }
for q in $props; do
  rm -rf replays/$q
  out=$(VERIF_REPO=$wt timeout 1200 ./check $q 2>&1); rc=$?
  echo "$id retrial $q rc=$rc: $(echo "$out" | tail -1)"
  echo "$out" | grep '^VIOLATION' | head -3
done
git -C $wt checkout -- . ; git -C $wt clean -fdq
