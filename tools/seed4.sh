#!/bin/bash
# Development tool (round 4): seed4.sh <Cxx> <k> - confirm /tmp/seed4-Cxx/k in its worktree /tmp/wt4-Cxx, store it as
# seeded/Cxx-(6+k), then run the property's quick check against that worktree with the patch applied (VERIF_REPO), revert.
p=$1; k=$2; src=/tmp/seed4-$p/$k; id=$p-$((6+k)); wt=/tmp/wt4-$p
cd $(dirname $0)/..
[ -f $src/patch.diff ] || { echo "$id: no patch"; exit 1; }
res=$(tools/verify_seed.sh $wt $src 2>&1); echo "$id verify: $(echo "$res" | head -2 | tr '\n' ' ')"
echo "$res" | grep -q CONFIRMED || { echo "$res" | tail -20; exit 1; }
mkdir -p seeded/$id; cp $src/patch.diff $src/demo_test.go seeded/$id/
python3 - $src/meta.json seeded/$id/meta.json $wt <<'PY'
import json,sys
m=json.load(open(sys.argv[1]))
m["author"]="independent sub-agent (round 4) given only the property text, the summaries of the earlier changes and a scratch worktree"
m["confirmed_by_me"]={"tool":"tools/verify_seed.sh (scratch worktree %s, removed afterwards)"%sys.argv[3],"demo_passes_without_patch":True,"demo_fails_with_patch":True,"existing_suite_passes_with_patch":True}
json.dump(m,open(sys.argv[2],"w"),indent=1,ensure_ascii=False)
PY
git -C $wt apply $PWD/seeded/$id/patch.diff || { echo "$id: patch does not apply"; exit 1; }
rm -rf replays/$p
out=$(VERIF_REPO=$wt timeout 1200 ./check $p 2>&1); rc=$?
git -C $wt checkout -- . ; git -C $wt clean -fdq
echo "$id trial rc=$rc: $(echo "$out" | tail -1)"
echo "$out" | grep '^VIOLATION' | head -3
