#!/bin/bash
# Development tool: confirm a seeded defect in its scratch worktree.
#   verify_seed.sh <worktree> <seed dir>     -> prints CONFIRMED / REJECTED with reasons
wt=$1; sd=$2
cd "$wt" || exit 2
git checkout -q -- . && git clean -fdq
hdr=$(head -20 "$sd/demo_test.go")
# where does the demo go?  use the package clause + meta hints: try the directory named in the header comment
dir=$(grep -oE '(copied|copy|Copy)[^\n]*' "$sd/demo_test.go" | grep -oE '(\./)?(internal|pkg)/[A-Za-z0-9_/]+' | head -1)
[ -z "$dir" ] && dir=.
pkg=$(grep -m1 '^package ' "$sd/demo_test.go" | awk '{print $2}')
if [ "$pkg" = "carapace" ]; then dir=.; else
  d=$(grep -rl --include=*.go "^package $pkg\$" . | grep -v _test.go | grep -v third_party | head -1 | xargs dirname); [ -n "$d" ] && dir=${d#./}
fi
[ -n "$DEMO_DIR" ] && dir=$DEMO_DIR
run="GOFLAGS= go test -vet=off -count=1 -run TestSeedDemo ./$dir/"
cp "$sd/demo_test.go" "$dir/zz_seed_demo_test.go"
base=$(eval $run 2>&1); rc_base=$?
git apply "$sd/patch.diff" || { echo "REJECTED: patch does not apply"; rm -f "$dir/zz_seed_demo_test.go"; exit 1; }
pat=$(eval $run 2>&1); rc_pat=$?
rm -f "$dir/zz_seed_demo_test.go"
[ -n "$SKIP_SUITE" ] && suite="skipped" && rc_suite=0 || suite=$( (GOFLAGS= go build ./... && GOFLAGS= go test -vet=off -count=1 ./... && cd example-nonposix && GOFLAGS= go test -vet=off -count=1 ./...) 2>&1); rc_suite=$?
git checkout -q -- . && git clean -fdq
echo "demo dir=$dir base_rc=$rc_base patched_rc=$rc_pat suite_rc=$rc_suite"
if [ $rc_base -eq 0 ] && [ $rc_pat -ne 0 ] && [ $rc_suite -eq 0 ]; then echo CONFIRMED; else echo REJECTED; echo "--- base"; echo "$base" | tail -5; echo "--- patched"; echo "$pat" | tail -8; echo "--- suite"; echo "$suite" | grep -v "no test files" | tail -8; fi
