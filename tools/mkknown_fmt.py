#!/usr/bin/env python3
# Development tool (never run by a check): proposes the fmt-engine entries of KNOWN_FINDINGS.txt.
# For every (property, class) it runs candidate witnesses on the real code through the driver and
# prints a `finding:` line only when the witness fails for that property.
import json, subprocess, sys
sys.path.insert(0, '/verif/runner')
import classes

def case(shell, values, word="", msgs=None, nospace="", env=None, usage=""):
    e = {"unfiltered": False, "nospace": "", "nocolor": False, "ci": False, "wordbreaks": None, "bashPrefix": "",
         "bashCompType": "", "zshRaw": "", "namedDirs": None}
    e.update(env or {})
    vs = []
    for v in values:
        if isinstance(v, str):
            v = (v, v, "")
        vs.append({"value": v[0], "display": v[1], "description": v[2], "style": "", "tag": "", "uid": ""})
    return {"op": "value", "in": {"shell": shell, "word": word, "env": e,
                                  "meta": {"messages": msgs or [], "nospace": nospace, "usage": usage}, "values": vs}}

W = {
    "err_name_collides_after_sanitising": [case("fish", ["x\rERR", "xa"], word="x", msgs=["m"]), case("xonsh", ["\nERR"], word="", msgs=["m"])],
    "filler_typed_E": [case("fish", [], word="FE", msgs=["boom"])],
    "bash_common_prefix_not_extending": [case("bash", ["Foo", "FOX"], word="fo", env={"ci": True}),
                                         case("bash", ["E"], word=":", msgs=["m1", "m2"], env={"unfiltered": True}),
                                         case("bash", ["Foo", "FOX"], word="fo", msgs=["m1"], env={"ci": True})],
    "bash_common_prefix_control": [case("bash", ["\ta", "\tb"])],
    "bash_qmark": [case("bash", ["what?"])],
    "tcsh_brace": [case("tcsh", [], word="a{", msgs=["m"]), case("tcsh", ["a{b}c"]), case("tcsh", ["{"], word="{")],
    "oil_unquoted": [case("oil", [], word="a\\b", msgs=["m"]), case("oil", ["a b"]), case("oil", ["a\\b"]), case("oil", ["a b/"], nospace="/")],
    "powershell_squote": [case("powershell", [], word="it's", msgs=["m"]), case("powershell", ["it's here"]), case("powershell", ["it's"]), case("powershell", ["a'b/"], nospace="/"), case("powershell", ["'b'"])],
    "xonsh_squote": [case("xonsh", [], word="it's", msgs=["m"]), case("xonsh", ["it's"])],
    "xonsh_trailing_backslash": [case("xonsh", [], word="a b\\", msgs=["m"]), case("xonsh", ["dir\\"])],
    "xonsh_display_unsanitised": [case("xonsh", [("ab", "a\nb", "")])],
    "xonsh_nospace_after_quoting": [case("xonsh", ["my dir/"], nospace="/")],
    "bashble_unsanitised": [case("bash-ble", ["a/\tb", "a/"], nospace="/"), case("bash-ble", [("a\tb", "a\tb", "line1\nline2")]), case("bash-ble", ["a/\tb"], nospace="b"),
                            case("bash-ble", [], msgs=["tab\there"]), case("bash-ble", [("\tERR", "RR", "c")], msgs=["m"], nospace="1")],
    "oil_unsanitised": [case("oil", ["a\nb", "c\rd"]), case("oil", ["a\nb", "c"], msgs=["m"])],
    "bash_listmode_unsanitised": [case("bash", [("cd", "x\nd", ""), ("ce", "ye", "")], env={"bashCompType": "63"})],
    "cmdclink_empty_fields": [case("cmd-clink", [("a/", "a/", "")], nospace="/"), case("cmd-clink", [("a", "a", "")]),
                              case("cmd-clink", [], msgs=["m"])],
}

lines, index = [], {}
for cid, ws in W.items():
    for k, w in enumerate(ws):
        i = "%s#%d" % (cid, k)
        index[i] = w
        lines.append(json.dumps({"op": w["op"], "id": i, "in": w["in"]}))
h = subprocess.run(['/verif/bin/harness', 'run'], input="\n".join(lines).encode(), stdout=subprocess.PIPE)
d = subprocess.run(['/verif/bin/driver'], input=h.stdout, stdout=subprocess.PIPE)
fails = {}
for l in d.stdout.decode().split("\n"):
    if l:
        r = json.loads(l)
        fails[r['id']] = sorted(set(f['prop'] for f in r['fails']))
done = set()
for cl in classes.CLASSES:
    if cl.id not in W:
        continue
    for p in cl.props:
        for k, w in enumerate(W[cl.id]):
            i = "%s#%d" % (cl.id, k)
            if p in fails.get(i, []) and (p, cl.id) not in done:
                done.add((p, cl.id))
                print("finding: property=%s class=%s witness=%s :: %s" % (p, cl.id, json.dumps(w, ensure_ascii=False), cl.what))
    for p in cl.props:
        if (p, cl.id) not in done:
            print("# no failing witness for property=%s class=%s" % (p, cl.id), file=sys.stderr)
