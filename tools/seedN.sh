#!/bin/bash
# Development tool: seedN.sh <round> <Cxx> <k>  - confirm /tmp/seed<round>-Cxx/k in its worktree /tmp/wt<round>-Cxx,
# store it as seeded/Cxx-(k+2*(round-1)), and trial it against its property's quick check
r=$1; p=$2; k=$3; src=/tmp/seed$r-$p/$k; id=$p-$((k+2*(r-1))); wt=/tmp/wt$r-$p
cd $(dirname $0)/..
[ -f $src/patch.diff ] || { echo "$id: no patch"; exit 1; }
res=$(tools/verify_seed.sh $wt $src 2>&1); echo "$id verify: $(echo "$res" | head -2 | tr '\n' ' ')"
echo "$res" | grep -q CONFIRMED || { echo "$res" | tail -20; exit 1; }
mkdir -p seeded/$id; cp $src/patch.diff $src/demo_test.go seeded/$id/
python3 - $src/meta.json seeded/$id/meta.json $wt $r <<'PY'
import json,sys
m=json.load(open(sys.argv[1]))
m["author"]="independent sub-agent (round %s) given only the property text, the summaries of the earlier changes and a scratch worktree" % sys.argv[4]
m["confirmed_by_me"]={"tool":"tools/verify_seed.sh (scratch worktree %s, removed afterwards)"%sys.argv[3],"demo_passes_without_patch":True,"demo_fails_with_patch":True,"existing_suite_passes_with_patch":True}
json.dump(m,open(sys.argv[2],"w"),indent=1,ensure_ascii=False)
PY
tools/matrix.sh "$id" "$p"
