#!/bin/bash
# Development tool: matrix.sh "<seeds>" "<props>"  - apply each seed, run each property's quick check, print which alarm
cd /verif
for s in $1; do
  git -C /repo apply $PWD/seeded/$s/patch.diff || { echo "$s: patch does not apply"; continue; }
  row="$s:"
  for p in $2; do
    out=$(timeout 900 ./check $p 2>&1 | tail -1)
    mis=$(echo "$out" | sed -n 's/.* \([0-9]*\) mismatches.*(\([0-9]*\) unexplained).*/\1m\/\2u/p')
    row="$row $p=$mis"
  done
  git -C /repo checkout -- .
  echo "$row"
done
