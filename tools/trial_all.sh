#!/bin/bash
# Development tool: apply every seeded change in turn, run the quick check of its property, revert,
# and write seeded/DETECTION.tsv (seed, property, exit, summary line, failure codes of the replays).
cd $(dirname $0)/..
REPO=${VERIF_REPO:-/repo}
out=seeded/DETECTION.tsv
: > $out
for d in seeded/C*/; do
  s=$(basename $d); p=${s%-*}
  git -C $REPO apply $PWD/$d/patch.diff || { echo -e "$s\t$p\tPATCH-DOES-NOT-APPLY" >> $out; continue; }
  rm -rf replays/$p
  res=$(timeout 900 ./check $p --tier quick 2>&1); rc=$?
  git -C $REPO checkout -- .
  line=$(echo "$res" | tail -1)
  codes=$(python3 - $p <<'PY'
import json,glob,sys,collections
c=collections.Counter()
for f in glob.glob('replays/%s/*.json' % sys.argv[1]):
    try:
        r=json.load(open(f))
    except Exception: continue
    for x in r.get('failures',[]): c[x.get('code','?').split(':')[0] if x.get('code','').startswith('panic') else x.get('code','?')]+=1
    if r.get('mismatch') or r.get('diff'): c['model/implementation disagreement']+=1
    if r.get('theorem') or r.get('broken'): c['proof obligation broken']+=1
print(", ".join("%s" % k for k,v in c.most_common(4)))
PY
)
  nofail=$(echo "$res" | grep -c "no-failing-input-found")
  echo -e "$s\t$p\trc=$rc\t$line\t$codes\tno-failing-input-found=$nofail" >> $out
done
git -C $REPO status --short
