#!/usr/bin/env python3
# Development tool: rewrites the seed table of DESIGN.md section 13.4 from seeded/DETECTION.tsv and the meta files.
import json, re, sys
tsv = sys.argv[1] if len(sys.argv) > 1 else '/verif/seeded/DETECTION.tsv'
rows = []
for l in open(tsv):
    f = l.rstrip('\n').split('\t')
    sid = f[0]
    m = json.load(open('/verif/seeded/%s/meta.json' % sid))
    line = f[3] if len(f) > 3 else ''
    mm = re.search(r'(\d+) cases, (\d+) mismatches, (\d+) failing \((\d+) unexplained\), proofs (\w+)', line)
    cases, mis, fail, unex, proofs = mm.groups() if mm else ('0',) * 4 + ('?',)
    how = []
    if int(mis) > 0:
        how.append('corr. (%s)' % mis)
    if int(unex) > 0:
        how.append('oracle (%s): %s' % (unex, f[4] if len(f) > 4 else ''))
    if proofs not in ('ok', '?'):
        how.append('proof')
    if not how:
        how.append('**not caught by this check**' if mm else 'no result')
    short = re.sub(r'\s+', ' ', m['summary'][:150].replace('|', '/'))
    rows.append('| %s | %s | %s… | %s |' % (sid, ', '.join(m['files']), short, '; '.join(how)))
tab = "| seed | file | change (beginning of the author's summary; full text in `seeded/<id>/meta.json`) | caught by (quick tier; counts of cases) |\n|------|------|------|------|\n" + '\n'.join(rows) + '\n'
p = '/verif/DESIGN.md'
s = open(p).read()
i = s.index("| seed | file | change")
j = s.index("\nStrengthening that the seeds forced")
s = s[:i] + tab + s[j:]
open(p, 'w').write(s)
print(len(rows), 'rows')
