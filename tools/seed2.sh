#!/bin/bash
# Development tool: seed2.sh <Cxx> <k>  - confirm /tmp/seed2-Cxx/k in its worktree, store as seeded/Cxx-(k+2), trial it
p=$1; k=$2; src=/tmp/seed2-$p/$k; id=$p-$((k+2)); wt=/tmp/wt2-$p
[ -f $src/patch.diff ] || { echo "$id: no patch"; exit 1; }
res=$(tools/verify_seed.sh $wt $src 2>&1); echo "$id verify: $(echo "$res" | head -2 | tr '\n' ' ')"
echo "$res" | grep -q CONFIRMED || { echo "$res" | tail -20; exit 1; }
mkdir -p seeded/$id; cp $src/patch.diff $src/demo_test.go seeded/$id/
python3 - $src/meta.json seeded/$id/meta.json $wt <<'PY'
import json,sys
m=json.load(open(sys.argv[1]))
m["author"]="independent sub-agent (round 2) given only the property text, the summaries of the round-1 changes and a scratch worktree"
m["confirmed_by_me"]={"tool":"tools/verify_seed.sh (scratch worktree %s, removed afterwards)"%sys.argv[3],"demo_passes_without_patch":True,"demo_fails_with_patch":True,"existing_suite_passes_with_patch":True}
json.dump(m,open(sys.argv[2],"w"),indent=1,ensure_ascii=False)
PY
tools/matrix.sh "$id" "$p"
