#!/usr/bin/env python3
# Development tool: merge the rows of a (possibly unfinished) trial_all run with older results: the committed
# seeded/DETECTION.tsv and the one-seed trials of the round-4 session (.scratch/*.log lines "Cxx-n trial|retrial ... rc=N: <summary>").
import sys, re, glob, os
new = sys.argv[1]
rows = {}
order = []
def put(sid, row):
    if sid not in rows:
        order.append(sid)
    rows[sid] = row
for l in open('/verif/seeded/DETECTION.tsv'):
    f = l.rstrip('\n').split('\t')
    if f and f[0]:
        put(f[0], f + ['(trial of an earlier commit)'])
for path in sorted(glob.glob('/verif/.scratch/*.log'), key=os.path.getmtime):
    for l in open(path, errors='replace'):
        m = re.match(r'^(C\d\d-\d+) (?:trial|retrial \w+) rc=(\d+): (C\d\d: .*)$', l.strip())
        if m:
            sid, rc, line = m.groups()
            put(sid, [sid, sid[:3], 'rc=' + rc, line, '', 'no-failing-input-found=?', '(one-seed trial in the working tree)'])
if os.path.exists(new):
    for l in open(new):
        f = l.rstrip('\n').split('\t')
        if f and f[0]:
            put(f[0], f)
def key(s):
    p, n = s.split('-'); return (p, int(n))
with open('/verif/seeded/DETECTION.tsv', 'w') as out:
    for sid in sorted(rows, key=key):
        if os.path.isdir('/verif/seeded/' + sid):
            out.write('\t'.join(rows[sid]) + '\n')
print(len(rows), 'rows')
