#!/bin/bash
# Development tool: rebuilds KNOWN_FINDINGS.txt from the header/fixed lines and the witness tools.
cd /verif
{ sed -n '1,/^# --- findings/p' KNOWN_FINDINGS.txt; python3 tools/mkknown_fmt.py 2>/tmp/nowit.txt; python3 tools/mkknown_alg.py 2>>/tmp/nowit.txt; for t in tools/mkknown_extra_*.py; do [ -f "$t" ] && python3 $t 2>>/tmp/nowit.txt; done; true; } > /tmp/kf.txt && mv /tmp/kf.txt KNOWN_FINDINGS.txt
grep -c '^finding' KNOWN_FINDINGS.txt; cat /tmp/nowit.txt | grep -v "C06 class=\(tcsh\|oil\|nushell\|powershell\|xonsh_t\|xonsh_cr\|bashble\|cmdclink\)" 
