#!/bin/bash
# Development tool: apply a seeded patch to /repo, run the given checks, undo the patch.
#   trial.sh <patch.diff> <prop>...
patch=$(realpath $1); shift
git -C /repo status --short | grep -v '^??' | grep -q . && { echo "/repo not clean"; exit 2; }
git -C /repo apply "$patch" || { echo "patch does not apply"; exit 2; }
for p in "$@"; do
  out=$(cd /verif && timeout 600 ./check $p --tier quick 2>&1)
  echo "$p: $(echo "$out" | grep -c '^VIOLATION') violation line(s); $(echo "$out" | grep '^VIOLATION' | head -2 | tr '\n' ' ')"
  echo "$out" | tail -n 1
done
git -C /repo checkout -- .
