#!/usr/bin/env python3
"""Development tool: explain.py <replay.json> [in|original_in]
runs the replay's input through bin/harness and bin/driver and prints the real output, the model diff and the oracle failures"""
import json, subprocess, sys
d = json.load(open(sys.argv[1]))
key = sys.argv[2] if len(sys.argv) > 2 else "in"
line = json.dumps({"op": d["op"], "id": "x", "in": d[key]}, ensure_ascii=False)
h = subprocess.run(["/verif/bin/harness", "run"], input=line + "\n", capture_output=True, text=True)
print("harness:", h.stdout[:3000])
r = subprocess.run(["/verif/lean/.lake/build/bin/driver"], input=h.stdout, capture_output=True, text=True)
o = json.loads(r.stdout.splitlines()[0])
print("same:", o["same"], "diff:", o.get("diff", "")[:800])
print("aspects:", o.get("aspects"))
print("fails:", json.dumps(o["fails"], ensure_ascii=False))
