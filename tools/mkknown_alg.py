#!/usr/bin/env python3
# Development tool: proposes the alg-engine entries of KNOWN_FINDINGS.txt (see mkknown_fmt.py).
import json, subprocess, sys
sys.path.insert(0, '/verif/runner')
import classes

ctx = {"value": "", "args": [], "parts": [], "env": [], "dir": "", "ci": False}
def c(**kw):
    o = dict(ctx); o.update(kw); return o

W = {
    "multiparts_drops_meta": [{"op": "invoke", "in": {"expr": {"k": "multiParts", "xs": ["/"], "e": {"k": "usage", "s": "u", "e": {"k": "message", "m": "boom"}}}, "ctx": c()}}],
    "multiparts_empty_divider_panic": [{"op": "invoke", "in": {"expr": {"k": "multiParts", "xs": [""], "e": {"k": "values", "vs": [["ab", "", ""]]}}, "ctx": c()}}],
    "stored_action_modified_in_place": [{"op": "history", "in": {"table": [{"k": "pfx", "s": "x", "e": {"k": "stored", "e": {"k": "values", "vs": [["a", "", ""]]}, "ctx": c()}}],
                                                                  "steps": [{"e": 0, "ctx": c()}, {"e": 0, "ctx": c()}], "ci": False}}],
}
lines, index = [], {}
for cid, ws in W.items():
    for k, w in enumerate(ws):
        i = "%s#%d" % (cid, k)
        lines.append(json.dumps({"op": w["op"], "id": i, "in": w["in"]}))
h = subprocess.run(['/verif/bin/harness', 'run'], input="\n".join(lines).encode(), stdout=subprocess.PIPE)
d = subprocess.run(['/verif/bin/driver'], input=h.stdout, stdout=subprocess.PIPE)
fails = {}
for l in d.stdout.decode().split("\n"):
    if l:
        r = json.loads(l)
        ps = set(f['prop'] for f in r['fails'])
        if not r['same']:
            ps.add("C08")   # a history step that differs from the pure invocation
        fails[r['id']] = ps
for cl in classes.ALG_CLASSES:
    for p in cl.props:
        ok = False
        for k, w in enumerate(W.get(cl.id, [])):
            if p in fails.get("%s#%d" % (cl.id, k), ()):
                print("finding: property=%s class=%s witness=%s :: %s" % (p, cl.id, json.dumps(w, ensure_ascii=False), cl.what))
                ok = True
                break
        if not ok:
            print("# no failing witness for property=%s class=%s" % (p, cl.id), file=sys.stderr)

# a finding about a data race: its witness only fails under the race detector (the check replays it with the -race harness)
_w = {"op": "batchrace", "in": {"table": [{"k": "batch", "opaque": True, "es": [{"k": "execute", "n": i} for i in range(8)]}],
                                "steps": [{"e": 0, "ctx": c()}, {"e": 0, "ctx": c()}, {"e": 0, "ctx": c()}], "ci": False}}
print("finding: property=C09 class=batch_members_execute_embedded_commands witness=%s :: %s" % (json.dumps(_w, ensure_ascii=False), classes.BY_ID["batch_members_execute_embedded_commands"].what))
