package main

// Inventory of the expressions that can panic (index, slice, explicit panic, Must*) in the files the
// entry-point totality property (C18) anchors, each with the conditions that guard it: enclosing
// if / for / switch conditions and preceding early exits of the enclosing blocks.  Keys carry no
// line numbers, so moving code does not change them.

import (
	"bytes"
	"fmt"
	"go/ast"
	"go/printer"
	"go/token"
	"hash/fnv"
	"os"
	"path/filepath"
	"regexp"
	"sort"
	"strings"
)

type site struct {
	Key  string
	Hash uint64
	Pos  string
}

func exprText(n ast.Node) string {
	var b bytes.Buffer
	printer.Fprint(&b, fset, n)
	return strings.Join(strings.Fields(b.String()), " ")
}

type siteWalker struct {
	file, fn string
	sites    *[]site
}

type rangeInfo struct{ key, x string }

func (w *siteWalker) add(n ast.Node, kind string, guards []string) {
	key := fmt.Sprintf("%s %s: %s %s", w.file, w.fn, kind, exprText(n))
	if len(guards) > 0 {
		key += " | " + strings.Join(guards, " ; ")
	}
	h := fnv.New64a()
	h.Write([]byte(key))
	*w.sites = append(*w.sites, site{Key: key, Hash: h.Sum64() >> 1, Pos: fset.Position(n.Pos()).String()})
}

func endsWithExit(b *ast.BlockStmt) bool {
	if b == nil || len(b.List) == 0 {
		return false
	}
	switch s := b.List[len(b.List)-1].(type) {
	case *ast.ReturnStmt:
		return true
	case *ast.BranchStmt:
		return s.Tok.String() == "continue" || s.Tok.String() == "break"
	case *ast.ExprStmt:
		if c, ok := s.X.(*ast.CallExpr); ok {
			if id, ok := c.Fun.(*ast.Ident); ok && id.Name == "panic" {
				return true
			}
		}
	}
	return false
}

func (w *siteWalker) exprs(n ast.Node, guards []string, ranges []rangeInfo) {
	if n == nil {
		return
	}
	ast.Inspect(n, func(x ast.Node) bool {
		switch e := x.(type) {
		case *ast.FuncLit:
			w.stmts(e.Body.List, guards, ranges)
			return false
		case *ast.IndexExpr:
			// `X[i]` with i the key of an enclosing `for i := range X` cannot be out of range
			it, xt := exprText(e.Index), exprText(e.X)
			for _, r := range ranges {
				if r.key == it && r.x == xt {
					return true
				}
			}
			w.add(e, "index", guards)
		case *ast.SliceExpr:
			w.add(e, "slice", guards)
		case *ast.CallExpr:
			switch f := e.Fun.(type) {
			case *ast.Ident:
				if f.Name == "panic" {
					w.add(e, "panic", guards)
				}
			case *ast.SelectorExpr:
				if strings.HasPrefix(f.Sel.Name, "Must") {
					w.add(e, "must", guards)
				}
			}
		case *ast.BinaryExpr:
			// short circuit: the right operand is guarded by the left one
			if e.Op.String() == "&&" {
				w.exprs(e.X, guards, ranges)
				w.exprs(e.Y, append(append([]string{}, guards...), exprText(e.X)), ranges)
				return false
			}
			if e.Op.String() == "||" {
				w.exprs(e.X, guards, ranges)
				w.exprs(e.Y, append(append([]string{}, guards...), "!("+exprText(e.X)+")"), ranges)
				return false
			}
		}
		return true
	})
}

func with(guards []string, g string) []string {
	return append(append([]string{}, guards...), g)
}

// assignedIn: the identifiers a statement assigns to (anywhere inside it, closures excluded)
func assignedIn(s ast.Node) map[string]bool {
	out := map[string]bool{}
	if s == nil {
		return out
	}
	ast.Inspect(s, func(n ast.Node) bool {
		switch n := n.(type) {
		case *ast.FuncLit:
			return false
		case *ast.AssignStmt:
			if n.Tok != token.DEFINE {
				for _, l := range n.Lhs {
					if id, ok := l.(*ast.Ident); ok {
						out[id.Name] = true
					}
				}
			}
		case *ast.IncDecStmt:
			if id, ok := n.X.(*ast.Ident); ok {
				out[id.Name] = true
			}
		}
		return true
	})
	return out
}

// staleGuards: a test on a variable says nothing about the variable once it has been assigned again
func staleGuards(guards []string, assigned map[string]bool) []string {
	if len(assigned) == 0 {
		return guards
	}
	names := make([]string, 0, len(assigned))
	for name := range assigned {
		names = append(names, name)
	}
	sort.Strings(names) // map order must not reach the inventory
	out := make([]string, len(guards))
	for i, g := range guards {
		out[i] = g
		for _, name := range names {
			if strings.Contains(g, "[stale: "+name+" ") {
				continue
			}
			if regexp.MustCompile(`(^|[^A-Za-z0-9_.])` + regexp.QuoteMeta(name) + `($|[^A-Za-z0-9_])`).MatchString(g) {
				out[i] += " [stale: " + name + " assigned after the test]"
			}
		}
	}
	return out
}

func (w *siteWalker) stmts(list []ast.Stmt, guards []string, ranges []rangeInfo) {
	for _, s := range list {
		w.stmt(s, guards, ranges)
		if ifs, ok := s.(*ast.IfStmt); ok && ifs.Else == nil && endsWithExit(ifs.Body) {
			guards = with(guards, "!("+exprText(ifs.Cond)+")")
		}
		guards = staleGuards(guards, assignedIn(s))
	}
}

func (w *siteWalker) stmt(s ast.Stmt, guards []string, ranges []rangeInfo) {
	switch s := s.(type) {
	case nil:
	case *ast.BlockStmt:
		w.stmts(s.List, guards, ranges)
	case *ast.IfStmt:
		if s.Init != nil {
			w.stmt(s.Init, guards, ranges)
		}
		w.exprs(s.Cond, guards, ranges)
		cond := exprText(s.Cond)
		if s.Init != nil {
			cond = exprText(s.Init) + "; " + cond
		}
		w.stmts(s.Body.List, with(guards, cond), ranges)
		if s.Else != nil {
			w.stmt(s.Else, with(guards, "!("+cond+")"), ranges)
		}
	case *ast.ForStmt:
		w.stmt(s.Init, guards, ranges)
		g := guards
		if s.Cond != nil {
			w.exprs(s.Cond, guards, ranges)
			g = with(guards, "for "+exprText(s.Cond))
		}
		inLoop := assignedIn(s.Body)
		for k := range assignedIn(s.Post) {
			inLoop[k] = true
		}
		// the loop's own condition is re-tested on every iteration; tests from outside are not
		g = append(staleGuards(g[:len(guards)], inLoop), g[len(guards):]...)
		w.stmt(s.Post, g, ranges)
		w.stmts(s.Body.List, g, ranges)
	case *ast.RangeStmt:
		w.exprs(s.X, guards, ranges)
		r := ranges
		if s.Key != nil {
			r = append(append([]rangeInfo{}, ranges...), rangeInfo{exprText(s.Key), exprText(s.X)})
		}
		w.stmts(s.Body.List, staleGuards(guards, assignedIn(s.Body)), r)
	case *ast.SwitchStmt:
		w.stmt(s.Init, guards, ranges)
		tag := ""
		if s.Tag != nil {
			w.exprs(s.Tag, guards, ranges)
			tag = exprText(s.Tag)
		}
		earlier := []string{}
		for _, c := range s.Body.List {
			cc := c.(*ast.CaseClause)
			cs := []string{}
			for _, e := range cc.List {
				w.exprs(e, guards, ranges)
				cs = append(cs, exprText(e))
			}
			g := "switch " + tag + " case " + strings.Join(cs, ", ")
			if cc.List == nil {
				g = "switch " + tag + " default after " + strings.Join(earlier, ", ")
			} else if tag == "" && len(earlier) > 0 {
				g += " after " + strings.Join(earlier, ", ")
			}
			w.stmts(cc.Body, with(guards, g), ranges)
			earlier = append(earlier, cs...)
		}
	case *ast.TypeSwitchStmt:
		w.stmt(s.Init, guards, ranges)
		w.stmt(s.Assign, guards, ranges)
		for _, c := range s.Body.List {
			w.stmts(c.(*ast.CaseClause).Body, guards, ranges)
		}
	case *ast.SelectStmt:
		for _, c := range s.Body.List {
			cc := c.(*ast.CommClause)
			w.stmt(cc.Comm, guards, ranges)
			w.stmts(cc.Body, guards, ranges)
		}
	case *ast.LabeledStmt:
		w.stmt(s.Stmt, guards, ranges)
	default:
		w.exprs(s, guards, ranges)
	}
}

var siteFiles = []string{
	"command.go", "complete.go", "traverse.go", "action.go", "defaultActions.go", "invokedAction.go", "context.go", "storage.go", "compat.go", "batch.go",
	"internal/shell/shell.go", "internal/shell/bash/patch.go", "internal/shell/bash/action.go", "internal/shell/cmd_clink/patch.go", "internal/shell/nushell/patch.go",
	"internal/shell/zsh/action.go", "internal/shell/zsh/namedDirectory.go", "internal/shell/tcsh/action.go", "internal/shell/oil/action.go", "internal/shell/fish/action.go",
	"internal/shell/elvish/action.go", "internal/shell/powershell/action.go", "internal/shell/xonsh/action.go", "internal/shell/ion/action.go", "internal/shell/nushell/action.go",
	"internal/shell/bash_ble/action.go", "internal/shell/cmd_clink/action.go", "internal/shell/export/action.go",
	"pkg/match/match.go", "internal/pflagfork/flagset.go", "internal/pflagfork/flag.go", "internal/common/value.go", "internal/common/message.go", "internal/common/suffix.go",
	"internal/common/meta.go", "internal/env/env.go", "pkg/ps/ps.go", "pkg/util/util.go",
}

func extractSites(repo string) []site {
	sites := []site{}
	for _, rel := range siteFiles {
		path := filepath.Join(repo, rel)
		if _, err := os.Stat(path); err != nil {
			// a file that disappeared is itself a change of the inventory
			h := fnv.New64a()
			h.Write([]byte(rel + " missing"))
			sites = append(sites, site{Key: rel + ": file missing", Hash: h.Sum64() >> 1})
			continue
		}
		f := parseFile(path)
		for _, d := range f.Decls {
			switch d := d.(type) {
			case *ast.FuncDecl:
				if d.Body == nil {
					continue
				}
				name := d.Name.Name
				if d.Recv != nil && len(d.Recv.List) > 0 {
					name = recvName(d.Recv.List[0].Type) + "." + name
				}
				w := &siteWalker{file: rel, fn: name, sites: &sites}
				w.stmts(d.Body.List, nil, nil)
			case *ast.GenDecl:
				w := &siteWalker{file: rel, fn: "(package level)", sites: &sites}
				w.exprs(d, nil, nil)
			}
		}
	}
	sort.SliceStable(sites, func(i, j int) bool { return sites[i].Key < sites[j].Key })
	return sites
}

func leanQuote(s string) string {
	var b strings.Builder
	b.WriteByte('"')
	for _, r := range s {
		switch {
		case r == '"':
			b.WriteString(`\"`)
		case r == '\\':
			b.WriteString(`\\`)
		case r < 0x20 || r == 0x7f:
			fmt.Fprintf(&b, `\x%02x`, r)
		default:
			b.WriteRune(r)
		}
	}
	b.WriteByte('"')
	return b.String()
}

func writeSites(sites []site, path, namespace, name, header string) {
	var b strings.Builder
	b.WriteString(header)
	fmt.Fprintf(&b, "namespace %s\n\ndef %s : List (String × Nat) := [\n", namespace, name)
	for i, s := range sites {
		sep := ","
		if i == len(sites)-1 {
			sep = ""
		}
		fmt.Fprintf(&b, "  (%s, %d)%s\n", leanQuote(s.Key), s.Hash, sep)
	}
	fmt.Fprintf(&b, "]\n\nend %s\n", namespace)
	if err := os.WriteFile(path, []byte(b.String()), 0o644); err != nil {
		panic(err)
	}
}
