// Inventory of `for ... range <map>` statements (C10): Go randomises the iteration order of maps, so every loop over a
// map is a place where the output can come to depend on that order.  go/ast only (no type checker): a ranged expression
// counts as a map when it is
//   - a local variable (or parameter / receiver / named result) whose declaration in the same function shows a map type:
//     `make(map[..]..)`, a map composite literal, a parameter of map type or of a named map type of the repository,
//   - a package-level variable of such a type,
//   - a selector `x.f` whose field name `f` is declared with such a type in some struct of the repository.
// Each entry is keyed by file, function and ranged expression and carries a digest of the whole loop (header and body):
// a new loop over a map, or a change of what an existing one does, changes the inventory.
package main

import (
	"go/ast"
	"hash/fnv"
	"os"
	"path/filepath"
	"sort"
	"strings"
)

var mapRangeSkip = map[string]bool{"third_party": true, "example": true, "example-nonposix": true, "docs": true, ".git": true}

func libraryFiles(repo string) []string {
	out := []string{}
	filepath.Walk(repo, func(p string, info os.FileInfo, err error) error {
		if err != nil {
			return nil
		}
		if info.IsDir() {
			if mapRangeSkip[info.Name()] {
				return filepath.SkipDir
			}
			return nil
		}
		if strings.HasSuffix(p, ".go") && !strings.HasSuffix(p, "_test.go") && !strings.HasSuffix(p, "verif_hooks.go") {
			rel, _ := filepath.Rel(repo, p)
			out = append(out, rel)
		}
		return nil
	})
	sort.Strings(out)
	return out
}

func isMapTypeExpr(e ast.Expr, named map[string]bool) bool {
	switch t := e.(type) {
	case *ast.MapType:
		return true
	case *ast.Ident:
		return named[t.Name]
	case *ast.SelectorExpr:
		return named[t.Sel.Name]
	case *ast.StarExpr:
		return isMapTypeExpr(t.X, named)
	case *ast.ParenExpr:
		return isMapTypeExpr(t.X, named)
	}
	return false
}

func isMapValueExpr(e ast.Expr, named map[string]bool) bool {
	switch v := e.(type) {
	case *ast.CallExpr:
		if id, ok := v.Fun.(*ast.Ident); ok && id.Name == "make" && len(v.Args) > 0 {
			return isMapTypeExpr(v.Args[0], named)
		}
		// a conversion to a named map type
		if len(v.Args) == 1 && isMapTypeExpr(v.Fun, named) {
			return true
		}
	case *ast.CompositeLit:
		return v.Type != nil && isMapTypeExpr(v.Type, named)
	case *ast.UnaryExpr:
		return isMapValueExpr(v.X, named)
	}
	return false
}

func extractMapRanges(repo string) []site {
	files := libraryFiles(repo)
	parsed := map[string]*ast.File{}
	named := map[string]bool{}     // named map types
	fields := map[string]bool{}    // struct fields of map type
	pkgVars := map[string]bool{}   // package-level variables of map type
	for _, rel := range files {
		parsed[rel] = parseFile(filepath.Join(repo, rel))
	}
	// named map types first (two rounds: a named type defined through another named map type)
	for round := 0; round < 2; round++ {
		for _, rel := range files {
			for _, d := range parsed[rel].Decls {
				gd, ok := d.(*ast.GenDecl)
				if !ok {
					continue
				}
				for _, sp := range gd.Specs {
					if ts, ok := sp.(*ast.TypeSpec); ok && isMapTypeExpr(ts.Type, named) {
						named[ts.Name.Name] = true
					}
				}
			}
		}
	}
	for _, rel := range files {
		ast.Inspect(parsed[rel], func(n ast.Node) bool {
			if st, ok := n.(*ast.StructType); ok {
				for _, f := range st.Fields.List {
					if isMapTypeExpr(f.Type, named) {
						for _, nm := range f.Names {
							fields[nm.Name] = true
						}
					}
				}
			}
			return true
		})
		for _, d := range parsed[rel].Decls {
			if gd, ok := d.(*ast.GenDecl); ok {
				for _, sp := range gd.Specs {
					if vs, ok := sp.(*ast.ValueSpec); ok {
						isMap := vs.Type != nil && isMapTypeExpr(vs.Type, named)
						for i, nm := range vs.Names {
							if isMap || (i < len(vs.Values) && isMapValueExpr(vs.Values[i], named)) {
								pkgVars[nm.Name] = true
							}
						}
					}
				}
			}
		}
	}
	out := []site{}
	for _, rel := range files {
		for _, d := range parsed[rel].Decls {
			fn, ok := d.(*ast.FuncDecl)
			if !ok || fn.Body == nil {
				continue
			}
			name := fn.Name.Name
			if fn.Recv != nil && len(fn.Recv.List) > 0 {
				name = recvName(fn.Recv.List[0].Type) + "." + name
			}
			local := map[string]bool{}
			mapOfMaps := map[string]bool{} // variables whose elements are maps themselves: the value variable of a range over them is a map
			noteType := func(name string, t ast.Expr) {
				if mt, ok := t.(*ast.MapType); ok && isMapTypeExpr(mt.Value, named) {
					mapOfMaps[name] = true
				}
			}
			addFields := func(fl *ast.FieldList) {
				if fl == nil {
					return
				}
				for _, f := range fl.List {
					if isMapTypeExpr(f.Type, named) {
						for _, nm := range f.Names {
							local[nm.Name] = true
						}
					}
				}
			}
			addFields(fn.Recv)
			addFields(fn.Type.Params)
			addFields(fn.Type.Results)
			// function literals inside count as part of the function; their parameters too
			ast.Inspect(fn.Body, func(n ast.Node) bool {
				switch s := n.(type) {
				case *ast.FuncLit:
					addFields(s.Type.Params)
				case *ast.AssignStmt:
					for i, l := range s.Lhs {
						if id, ok := l.(*ast.Ident); ok && i < len(s.Rhs) && isMapValueExpr(s.Rhs[i], named) {
							local[id.Name] = true
						}
					}
				case *ast.DeclStmt:
					if gd, ok := s.Decl.(*ast.GenDecl); ok {
						for _, sp := range gd.Specs {
							if vs, ok := sp.(*ast.ValueSpec); ok {
								isMap := vs.Type != nil && isMapTypeExpr(vs.Type, named)
								for i, nm := range vs.Names {
									if isMap || (i < len(vs.Values) && isMapValueExpr(vs.Values[i], named)) {
										local[nm.Name] = true
									}
									if vs.Type != nil {
										noteType(nm.Name, vs.Type)
									}
								}
							}
						}
					}
				}
				return true
			})
			ast.Inspect(fn.Body, func(n ast.Node) bool {
				rs, ok := n.(*ast.RangeStmt)
				if !ok {
					return true
				}
				isMap := false
				switch x := rs.X.(type) {
				case *ast.Ident:
					isMap = local[x.Name] || pkgVars[x.Name]
					if mapOfMaps[x.Name] {
						if v, ok := rs.Value.(*ast.Ident); ok {
							local[v.Name] = true
						}
					}
				case *ast.SelectorExpr:
					isMap = fields[x.Sel.Name] || pkgVars[x.Sel.Name]
				case *ast.StarExpr:
					if id, ok := x.X.(*ast.Ident); ok {
						isMap = local[id.Name] || pkgVars[id.Name]
					}
				case *ast.CallExpr, *ast.CompositeLit:
					isMap = isMapValueExpr(x, named)
				}
				if isMap {
					h := fnv.New64a()
					h.Write([]byte(exprText(rs)))
					out = append(out, site{Key: rel + " " + name + ": range " + exprText(rs.X), Hash: h.Sum64() >> 1})
				}
				return true
			})
		}
	}
	sort.SliceStable(out, func(i, j int) bool { return out[i].Key < out[j].Key })
	return out
}

// Inventory of the places where the library starts goroutines or creates channels (C09 / C19): every `go` statement and
// every `make(chan ...)`, keyed by file and function, with a digest of the whole enclosing function - a new goroutine, or
// a change of the code around an existing one (what it captures, what is locked, what is waited for), changes the inventory.
func extractGoStmts(repo string) []site {
	out := []site{}
	for _, rel := range libraryFiles(repo) {
		f := parseFile(filepath.Join(repo, rel))
		for _, d := range f.Decls {
			fn, ok := d.(*ast.FuncDecl)
			if !ok || fn.Body == nil {
				continue
			}
			name := fn.Name.Name
			if fn.Recv != nil && len(fn.Recv.List) > 0 {
				name = recvName(fn.Recv.List[0].Type) + "." + name
			}
			kinds := []string{}
			ast.Inspect(fn.Body, func(n ast.Node) bool {
				switch s := n.(type) {
				case *ast.GoStmt:
					kinds = append(kinds, "go")
				case *ast.CallExpr:
					if id, ok := s.Fun.(*ast.Ident); ok && id.Name == "make" && len(s.Args) > 0 {
						if _, ok := s.Args[0].(*ast.ChanType); ok {
							kinds = append(kinds, "chan")
						}
					}
				case *ast.SelectStmt:
					kinds = append(kinds, "select")
				}
				return true
			})
			if len(kinds) == 0 {
				continue
			}
			h := fnv.New64a()
			h.Write([]byte(exprText(fn.Body)))
			out = append(out, site{Key: rel + " " + name + ": " + strings.Join(kinds, " "), Hash: h.Sum64() >> 1})
		}
	}
	sort.SliceStable(out, func(i, j int) bool { return out[i].Key < out[j].Key })
	return out
}

// Inventory of process-wide effects (C08: invoking an Action leaves no trace): calls that change the process (os.Setenv,
// os.Unsetenv, os.Clearenv, os.Chdir) and assignments to package-level variables (also through an index or a field), keyed
// by file and function, with a digest of the statement.  go/ast only: a name counts as a package-level variable when the
// package declares one of that name and the function does not declare a local of the same name.
func extractGlobalEffects(repo string) []site {
	out := []site{}
	files := libraryFiles(repo)
	parsed := map[string]*ast.File{}
	pkgVarsByDir := map[string]map[string]bool{}
	for _, rel := range files {
		f := parseFile(filepath.Join(repo, rel))
		parsed[rel] = f
		dir := filepath.Dir(rel)
		if pkgVarsByDir[dir] == nil {
			pkgVarsByDir[dir] = map[string]bool{}
		}
		for _, d := range f.Decls {
			if gd, ok := d.(*ast.GenDecl); ok && gd.Tok.String() == "var" {
				for _, sp := range gd.Specs {
					if vs, ok := sp.(*ast.ValueSpec); ok {
						for _, nm := range vs.Names {
							if nm.Name != "_" {
								pkgVarsByDir[dir][nm.Name] = true
							}
						}
					}
				}
			}
		}
	}
	baseIdent := func(e ast.Expr) *ast.Ident {
		for {
			switch t := e.(type) {
			case *ast.Ident:
				return t
			case *ast.IndexExpr:
				e = t.X
			case *ast.SelectorExpr:
				e = t.X
			case *ast.StarExpr:
				e = t.X
			case *ast.ParenExpr:
				e = t.X
			default:
				return nil
			}
		}
	}
	for _, rel := range files {
		dir := filepath.Dir(rel)
		for _, d := range parsed[rel].Decls {
			fn, ok := d.(*ast.FuncDecl)
			if !ok || fn.Body == nil {
				continue
			}
			name := fn.Name.Name
			if fn.Recv != nil && len(fn.Recv.List) > 0 {
				name = recvName(fn.Recv.List[0].Type) + "." + name
			}
			locals := map[string]bool{}
			addFields := func(fl *ast.FieldList) {
				if fl == nil {
					return
				}
				for _, f := range fl.List {
					for _, nm := range f.Names {
						locals[nm.Name] = true
					}
				}
			}
			addFields(fn.Recv)
			addFields(fn.Type.Params)
			addFields(fn.Type.Results)
			ast.Inspect(fn.Body, func(n ast.Node) bool {
				switch s := n.(type) {
				case *ast.FuncLit:
					addFields(s.Type.Params)
				case *ast.AssignStmt:
					if s.Tok.String() == ":=" {
						for _, l := range s.Lhs {
							if id, ok := l.(*ast.Ident); ok {
								locals[id.Name] = true
							}
						}
					}
				case *ast.RangeStmt:
					if s.Tok.String() == ":=" {
						for _, e := range []ast.Expr{s.Key, s.Value} {
							if id, ok := e.(*ast.Ident); ok {
								locals[id.Name] = true
							}
						}
					}
				case *ast.DeclStmt:
					if gd, ok := s.Decl.(*ast.GenDecl); ok {
						for _, sp := range gd.Specs {
							if vs, ok := sp.(*ast.ValueSpec); ok {
								for _, nm := range vs.Names {
									locals[nm.Name] = true
								}
							}
						}
					}
				}
				return true
			})
			add := func(what string, n ast.Node) {
				h := fnv.New64a()
				h.Write([]byte(exprText(n)))
				out = append(out, site{Key: rel + " " + name + ": " + what, Hash: h.Sum64() >> 1})
			}
			ast.Inspect(fn.Body, func(n ast.Node) bool {
				switch s := n.(type) {
				case *ast.CallExpr:
					if sel, ok := s.Fun.(*ast.SelectorExpr); ok {
						if id, ok := sel.X.(*ast.Ident); ok && id.Name == "os" {
							switch sel.Sel.Name {
							case "Setenv", "Unsetenv", "Clearenv", "Chdir":
								add("os."+sel.Sel.Name, s)
							}
						}
					}
					// delete(pkgMap, k)
					if id, ok := s.Fun.(*ast.Ident); ok && id.Name == "delete" && len(s.Args) > 0 {
						if b := baseIdent(s.Args[0]); b != nil && pkgVarsByDir[dir][b.Name] && !locals[b.Name] {
							add("deletes from "+b.Name, s)
						}
					}
				case *ast.AssignStmt:
					if s.Tok.String() == ":=" {
						return true
					}
					for _, l := range s.Lhs {
						if b := baseIdent(l); b != nil && pkgVarsByDir[dir][b.Name] && !locals[b.Name] {
							add("writes "+exprText(l), s)
						}
					}
				case *ast.IncDecStmt:
					if b := baseIdent(s.X); b != nil && pkgVarsByDir[dir][b.Name] && !locals[b.Name] {
						add("writes "+exprText(s.X), s)
					}
				}
				return true
			})
		}
	}
	sort.SliceStable(out, func(i, j int) bool { return out[i].Key < out[j].Key })
	return out
}
