// Extractor ("translator" for data): re-reads /repo's sources on every run and rewrites
// the generated Lean facts under lean/Carapace/Gen/.  It extracts data (replacer tables,
// character sets, format strings, shell lists, constants), never control flow.
package main

import (
	"reflect"
	"encoding/json"
	"fmt"
	"go/ast"
	"go/parser"
	"go/token"
	"os"
	"path/filepath"
	"sort"
	"strconv"
	"strings"
)

type replacer struct {
	Name  string      `json:"name"`
	File  string      `json:"file"`
	Line  int         `json:"line"`
	Pairs [][2]string `json:"pairs"`
}

type charset struct {
	Name  string `json:"name"`
	File  string `json:"file"`
	Line  int    `json:"line"`
	Chars string `json:"chars"`
}

type facts struct {
	Replacers    []replacer          `json:"replacers"`
	CharSets     []charset           `json:"charsets"`
	Formats      []charset           `json:"formats"`
	ShellFuncs   []string            `json:"shellFuncs"`
	ShellSnips   []string            `json:"shellSnippets"`
	MsgShells    []string            `json:"messageShells"`
	Consts       map[string]string   `json:"consts"`
	Funcs        map[string]string   `json:"funcDigests"`
	StringLists  map[string][]string `json:"stringLists"`
}

var fset = token.NewFileSet()

// evalString constant-folds a string expression made of literals and `+`.
func evalString(e ast.Expr) (string, bool) {
	switch v := e.(type) {
	case *ast.BasicLit:
		if v.Kind == token.STRING {
			s, err := strconv.Unquote(v.Value)
			return s, err == nil
		}
		if v.Kind == token.CHAR {
			s, err := strconv.Unquote(v.Value)
			return s, err == nil
		}
	case *ast.BinaryExpr:
		if v.Op == token.ADD {
			a, ok1 := evalString(v.X)
			b, ok2 := evalString(v.Y)
			return a + b, ok1 && ok2
		}
	case *ast.ParenExpr:
		return evalString(v.X)
	}
	return "", false
}

func isSel(e ast.Expr, pkg, name string) bool {
	if s, ok := e.(*ast.SelectorExpr); ok {
		if id, ok := s.X.(*ast.Ident); ok {
			return id.Name == pkg && s.Sel.Name == name
		}
	}
	return false
}

func parseFile(path string) *ast.File {
	f, err := parser.ParseFile(fset, path, nil, parser.ParseComments)
	if err != nil {
		fmt.Fprintln(os.Stderr, "extract: parse error:", err)
		os.Exit(3)
	}
	return f
}

func sanitizeName(s string) string {
	s = strings.NewReplacer("-", "_", "/", "_", ".", "_").Replace(s)
	return s
}

func main() {
	repo := "/repo"
	out := "/verif/lean/Carapace/Gen"
	if len(os.Args) > 1 {
		repo = os.Args[1]
	}
	if len(os.Args) > 2 {
		out = os.Args[2]
	}
	fc := facts{Consts: map[string]string{}, Funcs: map[string]string{}, StringLists: map[string][]string{}}

	// ---- replacers, char sets and format strings of the shell formatters
	shellDirs, _ := filepath.Glob(filepath.Join(repo, "internal/shell/*"))
	sort.Strings(shellDirs)
	for _, dir := range shellDirs {
		st, err := os.Stat(dir)
		if err != nil || !st.IsDir() {
			continue
		}
		pkg := sanitizeName(filepath.Base(dir))
		files, _ := filepath.Glob(filepath.Join(dir, "*.go"))
		sort.Strings(files)
		for _, file := range files {
			if strings.HasSuffix(file, "_test.go") || strings.HasSuffix(file, "verif_hooks.go") {
				continue
			}
			base := strings.TrimSuffix(filepath.Base(file), ".go")
			if base == "snippet" {
				continue
			}
			f := parseFile(file)
			rel, _ := filepath.Rel(repo, file)
			extractFile(&fc, f, pkg, rel)
		}
	}
	// internal/common (sanitizers do not exist there today, but a move there must be seen)
	for _, file := range []string{"internal/common/value.go", "internal/common/message.go", "internal/common/suffix.go"} {
		f := parseFile(filepath.Join(repo, file))
		extractFile(&fc, f, "common", file)
	}

	// ---- shell.go: dispatch maps and the "supports messages" switch
	extractShellGo(&fc, parseFile(filepath.Join(repo, "internal/shell/shell.go")))

	// ---- constants
	extractConsts(&fc, repo)

	// ---- cache write / load protocol: the calls each function of internal/cache makes, in source order
	extractCalls(&fc, parseFile(filepath.Join(repo, "internal/cache/cache.go")), "cache", []string{"Write", "WriteE", "Load", "LoadE"})
	extractCalls(&fc, parseFile(filepath.Join(repo, "pkg/cache/cache.go")), "pkgcache", []string{"Cache"})

	// ---- export document: json tags of every struct that travels, and what MarshalJSON / ActionImport call
	extractTags(&fc, parseFile(filepath.Join(repo, "internal/common/value.go")), "common")
	extractTags(&fc, parseFile(filepath.Join(repo, "internal/common/meta.go")), "common")
	extractTags(&fc, parseFile(filepath.Join(repo, "internal/export/export.go")), "export")
	extractMethodCalls(&fc, parseFile(filepath.Join(repo, "internal/export/export.go")), "export", []string{"MarshalJSON"})
	extractCalls(&fc, parseFile(filepath.Join(repo, "defaultActions.go")), "carapace", []string{"ActionImport"})

	// ---- Timeout: capacity of the channel the abandoned goroutine sends on
	extractTimeout(&fc, parseFile(filepath.Join(repo, "action.go")))

	if err := os.MkdirAll(out, 0o755); err != nil {
		panic(err)
	}
	writeLean(&fc, out)
	// ---- C18: inventory of the expressions that can panic, with their guards
	sites := extractSites(repo)
	writeSites(sites, filepath.Join(out, "IndexSites.lean"), "Carapace.Gen", "indexSites", "-- GENERATED by /verif/extract from /repo on every run; do not edit.\n")
	if os.Getenv("VERIF_SNAPSHOT_SITES") != "" {
		// development: pin the inventory the C18 review was made for
		writeSites(sites, os.Getenv("VERIF_SNAPSHOT_SITES"), "Carapace.Props.C18", "expectedSites",
			"/- The inventory of index / slice / panic / Must* sites (DESIGN.md appendix D) that C18's review, models and\n   child-process runs were made for.  Snapshot written by `VERIF_SNAPSHOT_SITES=<this file> extract`; compared with the\n   inventory regenerated from /repo on every run by `C18_sites_covered`. -/\n")
	}
	// ---- C10: inventory of the loops over maps
	mr := extractMapRanges(repo)
	writeSites(mr, filepath.Join(out, "MapRanges.lean"), "Carapace.Gen", "mapRanges", "-- GENERATED by /verif/extract from /repo on every run; do not edit.\n")
	if os.Getenv("VERIF_SNAPSHOT_MAPRANGES") != "" {
		writeSites(mr, os.Getenv("VERIF_SNAPSHOT_MAPRANGES"), "Carapace.Props.C10", "expectedMapRanges",
			"/- The inventory of `for ... range <map>` statements of the library that the review in DESIGN.md 13.5 was made for (each entry:\n   file, function, ranged expression; digest of the whole loop).  Snapshot written by `VERIF_SNAPSHOT_MAPRANGES=<this file> extract`;\n   compared with the inventory regenerated from /repo on every run by `C10_map_ranges_covered`. -/\n")
	}
	// ---- C09 / C19: inventory of goroutine launches, channels and selects
	gs := extractGoStmts(repo)
	writeSites(gs, filepath.Join(out, "GoStmts.lean"), "Carapace.Gen", "goStmts", "-- GENERATED by /verif/extract from /repo on every run; do not edit.\n")
	if os.Getenv("VERIF_SNAPSHOT_GOSTMTS") != "" {
		writeSites(gs, os.Getenv("VERIF_SNAPSHOT_GOSTMTS"), "Carapace.Props.C09", "expectedGoStmts",
			"/- The functions of the library that start goroutines, create channels or select (file, function, what they contain; digest of\n   the function body) that the review in DESIGN.md 13.5 was made for.  Snapshot written by `VERIF_SNAPSHOT_GOSTMTS=<this file> extract`;\n   compared with the inventory regenerated from /repo on every run by `C09_goroutines_covered`. -/\n")
	}
	// ---- C08: inventory of process-wide effects
	ge := extractGlobalEffects(repo)
	writeSites(ge, filepath.Join(out, "GlobalEffects.lean"), "Carapace.Gen", "globalEffects", "-- GENERATED by /verif/extract from /repo on every run; do not edit.\n")
	if os.Getenv("VERIF_SNAPSHOT_EFFECTS") != "" {
		writeSites(ge, os.Getenv("VERIF_SNAPSHOT_EFFECTS"), "Carapace.Props.C08", "expectedGlobalEffects",
			"/- The statements of the library that change the process (os.Setenv / Unsetenv / Clearenv / Chdir) or write a package-level variable\n   (file, function, what; digest of the statement) that the review in DESIGN.md 13.5 was made for.  Snapshot written by\n   `VERIF_SNAPSHOT_EFFECTS=<this file> extract`; compared with the inventory regenerated from /repo on every run by `C08_global_effects_covered`. -/\n")
	}
	js, _ := json.MarshalIndent(fc, "", " ")
	os.MkdirAll("/verif/gen", 0o755)
	genDir := filepath.Join(filepath.Dir(filepath.Dir(filepath.Dir(out))), "gen")
	os.MkdirAll(genDir, 0o755)
	os.WriteFile(filepath.Join(genDir, "facts.json"), js, 0o644)
}

func extractFile(fc *facts, f *ast.File, pkg, rel string) {
	// package-level and function-level: every strings.NewReplacer call
	counter := map[string]int{}
	var funcStack []string
	var visit func(n ast.Node) bool
	currentVar := ""
	visit = func(n ast.Node) bool {
		switch v := n.(type) {
		case *ast.FuncDecl:
			name := v.Name.Name
			if v.Recv != nil && len(v.Recv.List) > 0 {
				name = recvName(v.Recv.List[0].Type) + "_" + name
			}
			funcStack = append(funcStack, name)
			if v.Body != nil {
				ast.Inspect(v.Body, visit)
			}
			funcStack = funcStack[:len(funcStack)-1]
			// special case: a function that accumulates a character set in a local `chars`
			if v.Name.Name == "requiresQuoting" {
				extractAccumulated(fc, v, pkg, rel)
			}
			return false
		case *ast.ValueSpec:
			if len(v.Names) == 1 && len(v.Values) == 1 {
				prev := currentVar
				currentVar = v.Names[0].Name
				ast.Inspect(v.Values[0], visit)
				currentVar = prev
				if len(funcStack) == 0 {
					if s, ok := evalString(v.Values[0]); ok {
						fc.Consts[pkg+"_"+v.Names[0].Name] = s
					}
				}
				return false
			}
		case *ast.AssignStmt:
			if len(v.Lhs) == 1 && len(v.Rhs) == 1 {
				if id, ok := v.Lhs[0].(*ast.Ident); ok {
					prev := currentVar
					currentVar = id.Name
					ast.Inspect(v.Rhs[0], visit)
					currentVar = prev
					return false
				}
			}
		case *ast.CallExpr:
			if isSel(v.Fun, "strings", "NewReplacer") {
				name := pkg
				if len(funcStack) > 0 {
					name += "_" + funcStack[len(funcStack)-1]
				}
				if currentVar != "" {
					name += "_" + currentVar
				}
				key := name
				counter[key]++
				if counter[key] > 1 {
					name += "_" + strconv.Itoa(counter[key])
				}
				r := replacer{Name: name, File: rel, Line: fset.Position(v.Pos()).Line}
				okAll := len(v.Args)%2 == 0
				var strs []string
				for _, a := range v.Args {
					s, ok := evalString(a)
					if !ok {
						okAll = false
					}
					strs = append(strs, s)
				}
				if !okAll {
					r.Name += "_UNEVALUATED"
				} else {
					for i := 0; i+1 < len(strs); i += 2 {
						r.Pairs = append(r.Pairs, [2]string{strs[i], strs[i+1]})
					}
				}
				fc.Replacers = append(fc.Replacers, r)
			}
			if isSel(v.Fun, "strings", "ContainsAny") && len(v.Args) == 2 {
				if s, ok := evalString(v.Args[1]); ok {
					name := pkg
					if len(funcStack) > 0 {
						name += "_" + funcStack[len(funcStack)-1]
					}
					name += "_containsAny"
					counter[name]++
					if counter[name] > 1 {
						name += "_" + strconv.Itoa(counter[name])
					}
					fc.CharSets = append(fc.CharSets, charset{Name: name, File: rel, Line: fset.Position(v.Pos()).Line, Chars: s})
				}
			}
			if isSel(v.Fun, "fmt", "Sprintf") && len(v.Args) >= 1 {
				if s, ok := evalString(v.Args[0]); ok {
					name := pkg
					if len(funcStack) > 0 {
						name += "_" + funcStack[len(funcStack)-1]
					}
					name += "_fmt"
					counter[name]++
					name += "_" + strconv.Itoa(counter[name])
					fc.Formats = append(fc.Formats, charset{Name: name, File: rel, Line: fset.Position(v.Pos()).Line, Chars: s})
				}
			}
			if isSel(v.Fun, "strings", "Join") && len(v.Args) == 2 {
				if s, ok := evalString(v.Args[1]); ok {
					name := pkg
					if len(funcStack) > 0 {
						name += "_" + funcStack[len(funcStack)-1]
					}
					name += "_join"
					counter[name]++
					name += "_" + strconv.Itoa(counter[name])
					fc.Formats = append(fc.Formats, charset{Name: name, File: rel, Line: fset.Position(v.Pos()).Line, Chars: s})
				}
			}
		}
		return true
	}
	for _, d := range f.Decls {
		ast.Inspect(d, visit)
	}
}

func recvName(e ast.Expr) string {
	switch v := e.(type) {
	case *ast.Ident:
		return v.Name
	case *ast.StarExpr:
		return recvName(v.X)
	}
	return "recv"
}

// extractAccumulated handles `chars := lit; chars += lit; chars += os.Getenv(..)`:
// the set is the concatenation of all literal parts, the env part is recorded by name.
func extractAccumulated(fc *facts, fn *ast.FuncDecl, pkg, rel string) {
	lits := ""
	envs := []string{}
	ast.Inspect(fn.Body, func(n ast.Node) bool {
		as, ok := n.(*ast.AssignStmt)
		if !ok || len(as.Lhs) != 1 || len(as.Rhs) != 1 {
			return true
		}
		id, ok := as.Lhs[0].(*ast.Ident)
		if !ok || id.Name != "chars" {
			return true
		}
		if s, ok := evalString(as.Rhs[0]); ok {
			lits += s
		} else if c, ok := as.Rhs[0].(*ast.CallExpr); ok && isSel(c.Fun, "os", "Getenv") && len(c.Args) == 1 {
			if s, ok := evalString(c.Args[0]); ok {
				envs = append(envs, s)
			}
		} else {
			envs = append(envs, "UNEVALUATED")
		}
		return true
	})
	fc.CharSets = append(fc.CharSets, charset{Name: pkg + "_" + fn.Name.Name + "_chars", File: rel, Line: fset.Position(fn.Pos()).Line, Chars: lits})
	fc.StringLists[pkg+"_"+fn.Name.Name+"_envs"] = envs
}

func extractShellGo(fc *facts, f *ast.File) {
	ast.Inspect(f, func(n ast.Node) bool {
		switch v := n.(type) {
		case *ast.AssignStmt:
			if len(v.Lhs) == 1 && len(v.Rhs) == 1 {
				id, ok := v.Lhs[0].(*ast.Ident)
				cl, ok2 := v.Rhs[0].(*ast.CompositeLit)
				if ok && ok2 {
					keys := []string{}
					for _, el := range cl.Elts {
						if kv, ok := el.(*ast.KeyValueExpr); ok {
							if s, ok := evalString(kv.Key); ok {
								keys = append(keys, s)
							}
						}
					}
					sort.Strings(keys)
					switch id.Name {
					case "shellFuncs":
						fc.ShellFuncs = keys
					case "shellSnippets":
						fc.ShellSnips = keys
					}
				}
			}
		case *ast.SwitchStmt:
			if id, ok := v.Tag.(*ast.Ident); ok && id.Name == "shell" {
				// the case clause with an empty body is the list of message-capable shells
				for _, st := range v.Body.List {
					cc := st.(*ast.CaseClause)
					if len(cc.List) > 0 && len(cc.Body) == 0 {
						for _, e := range cc.List {
							if s, ok := evalString(e); ok {
								fc.MsgShells = append(fc.MsgShells, s)
							}
						}
					}
				}
				sort.Strings(fc.MsgShells)
			}
		case *ast.IfStmt:
			// `if shell != "export"` guard of the no-space forcing
			if be, ok := v.Cond.(*ast.BinaryExpr); ok && be.Op == token.NEQ {
				if id, ok := be.X.(*ast.Ident); ok && id.Name == "shell" {
					if s, ok := evalString(be.Y); ok {
						fc.StringLists["nospaceForcingExcept"] = append(fc.StringLists["nospaceForcingExcept"], s)
					}
				}
			}
		}
		return true
	})
}

// extractCalls records, per named function, the package-qualified calls in its body (source order).
func extractCalls(fc *facts, f *ast.File, pkg string, funcs []string) {
	want := map[string]bool{}
	for _, n := range funcs {
		want[n] = true
	}
	for _, d := range f.Decls {
		fn, ok := d.(*ast.FuncDecl)
		if !ok || fn.Body == nil || !want[fn.Name.Name] || fn.Recv != nil {
			continue
		}
		calls := []string{}
		ast.Inspect(fn.Body, func(n ast.Node) bool {
			if c, ok := n.(*ast.CallExpr); ok {
				switch fun := c.Fun.(type) {
				case *ast.SelectorExpr:
					if id, ok := fun.X.(*ast.Ident); ok {
						calls = append(calls, id.Name+"."+fun.Sel.Name)
					} else {
						calls = append(calls, "_."+fun.Sel.Name)
					}
				case *ast.Ident:
					calls = append(calls, fun.Name)
				}
			}
			return true
		})
		fc.StringLists[pkg+"_"+fn.Name.Name+"_calls"] = calls
	}
}

// json tags: for every struct type (named, or anonymous inside a function) the fields in source order as
// "Name tag" ("Name" alone for an untagged / embedded field)
func extractTags(fc *facts, f *ast.File, pkg string) {
	anon := 0
	fieldsOf := func(st *ast.StructType) []string {
		out := []string{}
		for _, fld := range st.Fields.List {
			tag := ""
			if fld.Tag != nil {
				if v, err := strconv.Unquote(fld.Tag.Value); err == nil {
					tag = reflect.StructTag(v).Get("json")
				}
			}
			names := []string{}
			for _, n := range fld.Names {
				names = append(names, n.Name)
			}
			if len(names) == 0 {
				names = []string{"embedded:" + exprString(fld.Type)}
			}
			for _, n := range names {
				if tag != "" {
					out = append(out, n+" "+tag)
				} else {
					out = append(out, n)
				}
			}
		}
		return out
	}
	ast.Inspect(f, func(n ast.Node) bool {
		switch t := n.(type) {
		case *ast.TypeSpec:
			if st, ok := t.Type.(*ast.StructType); ok {
				fc.StringLists["json_tags_"+pkg+"_"+t.Name.Name] = fieldsOf(st)
				return false
			}
		case *ast.StructType:
			anon++
			fc.StringLists[fmt.Sprintf("json_tags_%s_anon%d", pkg, anon)] = fieldsOf(t)
		}
		return true
	})
}

func exprString(e ast.Expr) string {
	switch t := e.(type) {
	case *ast.Ident:
		return t.Name
	case *ast.SelectorExpr:
		return exprString(t.X) + "." + t.Sel.Name
	case *ast.StarExpr:
		return "*" + exprString(t.X)
	}
	return "?"
}

// like extractCalls, for methods
func extractMethodCalls(fc *facts, f *ast.File, pkg string, funcs []string) {
	want := map[string]bool{}
	for _, n := range funcs {
		want[n] = true
	}
	for _, d := range f.Decls {
		fn, ok := d.(*ast.FuncDecl)
		if !ok || fn.Body == nil || !want[fn.Name.Name] || fn.Recv == nil {
			continue
		}
		calls := []string{}
		ast.Inspect(fn.Body, func(n ast.Node) bool {
			if c, ok := n.(*ast.CallExpr); ok {
				switch fun := c.Fun.(type) {
				case *ast.SelectorExpr:
					if id, ok := fun.X.(*ast.Ident); ok {
						calls = append(calls, id.Name+"."+fun.Sel.Name)
					} else {
						calls = append(calls, "_."+fun.Sel.Name)
					}
				case *ast.Ident:
					calls = append(calls, fun.Name)
				}
			}
			return true
		})
		fc.StringLists[pkg+"_"+fn.Name.Name+"_calls"] = calls
	}
}

func extractTimeout(fc *facts, f *ast.File) {
	for _, d := range f.Decls {
		fn, ok := d.(*ast.FuncDecl)
		if !ok || fn.Name.Name != "Timeout" || fn.Body == nil {
			continue
		}
		caps := []string{}
		calls := []string{}
		ast.Inspect(fn.Body, func(n ast.Node) bool {
			if c, ok := n.(*ast.CallExpr); ok {
				if id, ok := c.Fun.(*ast.Ident); ok && id.Name == "make" && len(c.Args) >= 1 {
					if _, ok := c.Args[0].(*ast.ChanType); ok {
						if len(c.Args) == 2 {
							if bl, ok := c.Args[1].(*ast.BasicLit); ok {
								caps = append(caps, bl.Value)
							} else {
								caps = append(caps, "?")
							}
						} else {
							caps = append(caps, "0")
						}
					}
				}
			}
			switch n.(type) {
			case *ast.GoStmt:
				calls = append(calls, "go")
			case *ast.SelectStmt:
				calls = append(calls, "select")
			case *ast.SendStmt:
				calls = append(calls, "send")
			}
			return true
		})
		fc.StringLists["timeout_chan_capacities"] = caps
		fc.StringLists["timeout_shape"] = calls
	}
}

func extractConsts(fc *facts, repo string) {
	// maxLength in TrimmedDescription, 500 in zstyles
	f := parseFile(filepath.Join(repo, "internal/common/value.go"))
	ast.Inspect(f, func(n ast.Node) bool {
		if as, ok := n.(*ast.AssignStmt); ok && len(as.Lhs) == 1 && len(as.Rhs) == 1 {
			if id, ok := as.Lhs[0].(*ast.Ident); ok && id.Name == "maxLength" {
				if bl, ok := as.Rhs[0].(*ast.BasicLit); ok {
					fc.Consts["common_maxLength"] = bl.Value
				}
			}
		}
		return true
	})
}

// ---------------------------------------------------------------- Lean output

func leanChar(r rune) string {
	switch {
	case r == '\'':
		return `'\''`
	case r == '\\':
		return `'\\'`
	case r >= 0x20 && r < 0x7f:
		return "'" + string(r) + "'"
	default:
		return fmt.Sprintf("Char.ofNat 0x%X", r)
	}
}

func leanStr(s string) string {
	parts := []string{}
	for _, r := range s {
		parts = append(parts, leanChar(r))
	}
	return "[" + strings.Join(parts, ", ") + "]"
}

func leanStrList(xs []string) string {
	parts := []string{}
	for _, s := range xs {
		parts = append(parts, leanStr(s))
	}
	return "[" + strings.Join(parts, ", ") + "]"
}

func writeLean(fc *facts, out string) {
	var b strings.Builder
	b.WriteString("-- GENERATED by /verif/extract from /repo on every run; do not edit.\n")
	b.WriteString("import Carapace.Basic.Str\nnamespace Carapace.Gen\n\n")
	for _, r := range fc.Replacers {
		fmt.Fprintf(&b, "/-- `strings.NewReplacer` at %s:%d -/\n", r.File, r.Line)
		fmt.Fprintf(&b, "def %s : List (Str × Str) := [\n", r.Name)
		for i, p := range r.Pairs {
			sep := ","
			if i == len(r.Pairs)-1 {
				sep = ""
			}
			fmt.Fprintf(&b, "  (%s, %s)%s\n", leanStr(p[0]), leanStr(p[1]), sep)
		}
		b.WriteString("]\n\n")
	}
	b.WriteString("end Carapace.Gen\n")
	os.WriteFile(filepath.Join(out, "Replacers.lean"), []byte(b.String()), 0o644)

	b.Reset()
	b.WriteString("-- GENERATED by /verif/extract from /repo on every run; do not edit.\n")
	b.WriteString("import Carapace.Basic.Str\nnamespace Carapace.Gen\n\n")
	for _, c := range fc.CharSets {
		fmt.Fprintf(&b, "/-- character set at %s:%d -/\n", c.File, c.Line)
		fmt.Fprintf(&b, "def %s : Str := %s\n\n", c.Name, leanStr(c.Chars))
	}
	keys := []string{}
	for k := range fc.StringLists {
		keys = append(keys, k)
	}
	sort.Strings(keys)
	for _, k := range keys {
		fmt.Fprintf(&b, "def %s : List Str := %s\n\n", k, leanStrList(fc.StringLists[k]))
	}
	b.WriteString("end Carapace.Gen\n")
	os.WriteFile(filepath.Join(out, "CharSets.lean"), []byte(b.String()), 0o644)

	b.Reset()
	b.WriteString("-- GENERATED by /verif/extract from /repo on every run; do not edit.\n")
	b.WriteString("import Carapace.Basic.Str\nnamespace Carapace.Gen\n\n")
	for _, c := range fc.Formats {
		fmt.Fprintf(&b, "/-- format / join string at %s:%d -/\n", c.File, c.Line)
		fmt.Fprintf(&b, "def %s : Str := %s\n\n", c.Name, leanStr(c.Chars))
	}
	b.WriteString("end Carapace.Gen\n")
	os.WriteFile(filepath.Join(out, "Formats.lean"), []byte(b.String()), 0o644)

	b.Reset()
	b.WriteString("-- GENERATED by /verif/extract from /repo on every run; do not edit.\n")
	b.WriteString("import Carapace.Basic.Str\nnamespace Carapace.Gen\n\n")
	fmt.Fprintf(&b, "/-- keys of the `shellFuncs` dispatch map in internal/shell/shell.go -/\ndef shellFuncs : List Str := %s\n\n", leanStrList(fc.ShellFuncs))
	fmt.Fprintf(&b, "/-- keys of the `shellSnippets` dispatch map -/\ndef shellSnippets : List Str := %s\n\n", leanStrList(fc.ShellSnips))
	fmt.Fprintf(&b, "/-- shells with a message channel (the empty case of the switch in `Value`) -/\ndef messageShells : List Str := %s\n\n", leanStrList(fc.MsgShells))
	ckeys := []string{}
	for k := range fc.Consts {
		ckeys = append(ckeys, k)
	}
	sort.Strings(ckeys)
	for _, k := range ckeys {
		v := fc.Consts[k]
		if _, err := strconv.Atoi(v); err == nil {
			fmt.Fprintf(&b, "def %s : Nat := %s\n\n", k, v)
		} else {
			fmt.Fprintf(&b, "def %s : Str := %s\n\n", k, leanStr(v))
		}
	}
	b.WriteString("end Carapace.Gen\n")
	os.WriteFile(filepath.Join(out, "Shells.lean"), []byte(b.String()), 0o644)
}
