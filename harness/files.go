package main

import (
	"encoding/json"
	"os"
	"path/filepath"
	"sort"
	"strings"

	"github.com/carapace-sh/carapace"
)

// ---- op "files": ActionFiles / ActionDirectories over a generated tree (C16)

type treeEntry struct {
	Path   string `json:"path"`   // relative to the root
	Kind   string `json:"kind"`   // dir | file | link
	Target string `json:"target"` // link target (relative to the link's directory, or $ROOT/...)
}

type filesIn struct {
	Tree     []treeEntry `json:"tree"`
	CtxDir   string      `json:"ctxDir"` // relative to the root
	Typed    string      `json:"typed"`  // may contain $ROOT
	DirOnly  bool        `json:"dirOnly"`
	Suffixes []string    `json:"suffixes"`
	Chdir    *string     `json:"chdir"` // ActionFiles().Chdir(target); may contain $ROOT
	// zsh named directories (`hash -d name=dir`, handed over in CARAPACE_ZSH_HASH_DIRS): name -> directory (may contain $ROOT);
	// the typed path or the Chdir target may then have the form `~name/...`
	Named map[string]string `json:"named"`
}

type dirEntryOut struct {
	Name string `json:"name"`
	Kind string `json:"kind"` // dir | file | linkDir | linkFile | linkBroken
}

func listDir(dir string) ([]dirEntryOut, bool) {
	es, err := os.ReadDir(dir)
	if err != nil {
		return nil, false
	}
	out := []dirEntryOut{}
	for _, e := range es {
		p := filepath.Join(dir, e.Name())
		li, err := os.Lstat(p)
		if err != nil {
			continue
		}
		k := "file"
		switch {
		case li.IsDir():
			k = "dir"
		case li.Mode()&os.ModeSymlink != 0:
			if st, err := os.Stat(p); err != nil {
				k = "linkBroken"
			} else if st.IsDir() {
				k = "linkDir"
			} else {
				k = "linkFile"
			}
		}
		out = append(out, dirEntryOut{Name: e.Name(), Kind: k})
	}
	return out, true
}

func runFiles(raw json.RawMessage) interface{} {
	var in filesIn
	must(json.Unmarshal(raw, &in))
	// the generated tree sits eight levels below a private directory: no chain of `../` the generator can
	// type (one more than the depth of the tree, from a Chdir target at its top) reaches the shared temp
	// directory, whose content changes while the case runs
	base, err := os.MkdirTemp("", "verif-files")
	must(err)
	base, _ = filepath.EvalSymlinks(base)
	defer os.RemoveAll(base)
	root := filepath.Join(base, "u1", "u2", "u3", "u4", "u5", "u6", "up", "root")
	must(os.MkdirAll(root, 0o755))
	sub := func(s string) string { return strings.ReplaceAll(s, "$ROOT", root) }
	unsub := func(s string) string { return strings.ReplaceAll(s, root, "$ROOT") }
	home := filepath.Join(root, "home")
	os.MkdirAll(home, 0o755)
	oldHome := os.Getenv("HOME")
	os.Setenv("HOME", home)
	defer os.Setenv("HOME", oldHome)
	for _, e := range in.Tree {
		p := filepath.Join(root, e.Path)
		switch e.Kind {
		case "dir":
			os.MkdirAll(p, 0o755)
		case "file":
			os.MkdirAll(filepath.Dir(p), 0o755)
			os.WriteFile(p, []byte("x"), 0o644)
		case "link":
			os.MkdirAll(filepath.Dir(p), 0o755)
			os.Symlink(sub(e.Target), p)
		}
	}
	named := map[string]string{}
	for k, v := range in.Named {
		named[k] = sub(v)
	}
	carapace.VerifZshNamedDirectories(named)
	defer carapace.VerifZshNamedDirectories(map[string]string{})
	// `~name/rest` -> the named directory followed by rest (what zsh itself would expand)
	expandNamed := func(p string) (string, bool) {
		if strings.HasPrefix(p, "~") && !strings.HasPrefix(p, "~/") && strings.Contains(p, "/") {
			parts := strings.SplitN(p, "/", 2)
			if t, ok := named[parts[0][1:]]; ok {
				return strings.TrimSuffix(t, "/") + "/" + parts[1], true
			}
		}
		return p, false
	}
	ctxDir := filepath.Join(root, in.CtxDir)
	os.MkdirAll(ctxDir, 0o755)
	// the process works somewhere else
	os.Chdir(os.TempDir())
	typed := sub(in.Typed)

	// the directory the typed path denotes, seen from the Context directory (OS semantics)
	effDir := ctxDir
	chdirOK := true
	if in.Chdir != nil {
		t := sub(*in.Chdir)
		if e, ok := expandNamed(t); ok {
			t = e
		}
		if filepath.IsAbs(t) {
			effDir = t
		} else {
			effDir = filepath.Join(ctxDir, t)
		}
		if st, err := os.Stat(effDir); err != nil || !st.IsDir() {
			chdirOK = false
		}
	}
	dirPart := ""
	if i := strings.LastIndex(typed, "/"); i >= 0 {
		dirPart = typed[:i+1]
	}
	var denoted string
	expandedDir, isNamed := expandNamed(dirPart)
	switch {
	case isNamed:
		denoted = expandedDir
	case strings.HasPrefix(dirPart, "~/"):
		denoted = home + "/" + dirPart[2:]
	case strings.HasPrefix(dirPart, "/"):
		denoted = dirPart
	default:
		denoted = effDir + "/" + dirPart
	}
	entries, readable := listDir(denoted)
	sort.Slice(entries, func(i, j int) bool { return entries[i].Name < entries[j].Name })

	var a carapace.Action
	if in.DirOnly {
		a = carapace.ActionDirectories()
	} else {
		a = carapace.ActionFiles(in.Suffixes...)
	}
	if in.Chdir != nil {
		a = a.Chdir(sub(*in.Chdir))
	}
	res := invokeSafe(a, carapace.Context{Value: typed, Dir: ctxDir})
	vals := []string{}
	for _, v := range res.Values {
		vals = append(vals, unsub(v.Value))
	}
	msgs := []string{}
	for _, m := range res.Messages {
		msgs = append(msgs, unsub(m))
	}
	// Chdir must not leak: the same action without Chdir afterwards, same Context
	return map[string]interface{}{"values": vals, "nospace": res.Nospace, "messages": msgs, "panic": res.Panic,
		"entries": entries, "readable": readable, "chdirOK": chdirOK, "effDir": unsub(effDir), "typedSub": unsub(typed)}
}

// genFilesHidden: hidden entries are offered only when the typed last segment starts with a dot -
// whatever the names of the directories around it (a dot directory as Context.Dir or Chdir target,
// a dot directory typed as the directory part)
func genFilesHidden(r *rng) filesIn {
	dot := pick(r, []string{".cfg", ".config", "plain", ".d/.e", "vis/.in"})
	in := filesIn{}
	parts := strings.Split(dot, "/")
	for i := range parts {
		in.Tree = append(in.Tree, treeEntry{Path: strings.Join(parts[:i+1], "/"), Kind: "dir"})
	}
	for _, n := range []string{".secret", ".cache", "vis.txt", "sub"} {
		kind := "file"
		if n == ".cache" || n == "sub" {
			kind = "dir"
		}
		in.Tree = append(in.Tree, treeEntry{Path: dot + "/" + n, Kind: kind})
	}
	switch r.intn(3) {
	case 0:
		in.CtxDir = dot
		in.Typed = pick(r, []string{"", ".", ".s", "v", "sub/", "./"})
	case 1:
		in.CtxDir = ""
		in.Chdir = &dot
		in.Typed = pick(r, []string{"", ".", ".c", "s"})
	default:
		in.CtxDir = ""
		in.Typed = dot + "/" + pick(r, []string{"", ".", ".s", "v"})
	}
	in.DirOnly = r.chance(25)
	return in
}

func genFiles(r *rng, tier string) interface{} {
	if r.intn(12) == 0 {
		return genFilesHidden(r)
	}
	names := []string{"a", "b", "ab", "dir", "sub", "file.txt", "main.go", "x.md", ".hidden", ".cfg", "with space", "it's", "é", "日本", "a.b.c", "-dash", "UPPER", "go.mod", "a.tar.gz", "main_test.go", "Makefile", "100% done.txt", "50%off", "a%zz"}
	in := filesIn{}
	dirs := []string{""}
	ndirs := 1 + r.intn(5)
	for i := 0; i < ndirs; i++ {
		parent := pick(r, dirs)
		d := filepath.Join(parent, pick(r, names))
		in.Tree = append(in.Tree, treeEntry{Path: d, Kind: "dir"})
		dirs = append(dirs, d)
	}
	nfiles := r.intn(8)
	files := []string{}
	for i := 0; i < nfiles; i++ {
		f := filepath.Join(pick(r, dirs), pick(r, names))
		in.Tree = append(in.Tree, treeEntry{Path: f, Kind: "file"})
		files = append(files, f)
	}
	for i := 0; i < r.intn(4); i++ {
		l := filepath.Join(pick(r, dirs), "ln"+itoa(i))
		var target string
		switch r.intn(5) {
		case 0:
			target = "$ROOT/" + pick(r, dirs) // absolute, to a directory
		case 1:
			if len(files) > 0 {
				target = "$ROOT/" + pick(r, files)
			} else {
				target = "nowhere"
			}
		case 2:
			target = "nowhere"
		case 3:
			// relative target: resolved against the directory that holds the link
			if rel, err := filepath.Rel(filepath.Dir("/"+l), "/"+pick(r, dirs)); err == nil {
				target = rel
			} else {
				target = "."
			}
		default:
			target = pick(r, []string{".", ".."})
		}
		in.Tree = append(in.Tree, treeEntry{Path: l, Kind: "link", Target: target})
	}
	in.CtxDir = pick(r, dirs)
	// typed: a prefix of a path that exists relative to the Context directory, or arbitrary
	all := append(append([]string{}, dirs...), files...)
	cand := pick(r, all)
	rel, err := filepath.Rel("/"+in.CtxDir, "/"+cand)
	if err != nil || rel == "." {
		rel = ""
	}
	runes := []rune(rel)
	typed := string(runes[:r.intn(len(runes)+1)])
	switch r.intn(12) {
	case 0:
		typed = "./" + typed
	case 1:
		typed = "$ROOT/" + cand
		if r.chance(50) && len(cand) > 3 {
			typed = typed[:len(typed)-r.intn(3)]
		}
	case 2:
		typed = "~/" + pick(r, []string{"", "x"})
	case 3:
		typed = "../" + typed
	case 4:
		typed = rel + "/"
	case 5:
		typed = pick(r, []string{".", "..", ".h", "a/.", ""})
	case 6:
		// unclean directory parts
		typed = pick(r, []string{"a//", "./a/./", "a/../", "dir//s", "sub/./"}) + pick(r, []string{"", "a"})
	}
	in.Typed = typed
	in.DirOnly = r.chance(30)
	if !in.DirOnly && r.chance(30) {
		in.Suffixes = pick(r, [][]string{{".go"}, {".txt", ".md"}, {""}, {".c"}, {"go.mod", ".md"}, {".tar.gz"}, {"_test.go"}, {"Makefile", "file"}, {"b"}})
	}
	if r.chance(7) {
		// a zsh named directory: `~name/...` typed, or as the Chdir target
		d := pick(r, dirs)
		in.Named = map[string]string{pick(r, []string{"proj", "w", "a"}): "$ROOT/" + d}
		if r.chance(30) {
			in.Named["other"] = "$ROOT/" + pick(r, dirs) + "/"
		}
		var name string
		for k := range in.Named {
			if k != "other" {
				name = k
			}
		}
		// something below the named directory
		below := []string{}
		for _, c := range all {
			if d == "" || strings.HasPrefix(c, d+"/") {
				below = append(below, strings.TrimPrefix(strings.TrimPrefix(c, d), "/"))
			}
		}
		rest := ""
		if len(below) > 0 {
			rr := []rune(pick(r, below))
			rest = string(rr[:r.intn(len(rr)+1)])
		}
		if r.chance(25) {
			t := "~" + name + "/" + pick(r, []string{"", "sub", "dir", "a"})
			in.Chdir = &t
			in.Typed = pick(r, []string{"", "a", "s", "f"})
		} else {
			in.Typed = "~" + name + "/" + rest
		}
		return in
	}
	if r.chance(4) {
		// the file system root as the Chdir target (the process itself runs elsewhere)
		t := "/"
		in.Chdir = &t
		in.Typed = pick(r, []string{"", "t", "tm", "us", "etc/"})
		return in
	}
	if r.chance(15) {
		t := pick(r, []string{pick(r, dirs), "nonexistent", "$ROOT/" + pick(r, dirs), "."})
		if len(files) > 0 && r.chance(15) {
			t = pick(r, files)
		}
		if rel, err := filepath.Rel("/"+in.CtxDir, "/"+t); err == nil && !strings.HasPrefix(t, "$ROOT") && t != "nonexistent" {
			t = rel
		}
		in.Chdir = &t
	}
	return in
}

func init() {
	ops["files"] = &opDef{gen: genFiles, run: runFiles}
}
