package main

import (
	"bufio"
	"encoding/json"
	"fmt"
	"os"
)

// Case is one line of the protocol: the harness fills Out by running the real code.
type Case struct {
	Op  string          `json:"op"`
	ID  string          `json:"id"`
	In  json.RawMessage `json:"in"`
	Out json.RawMessage `json:"out,omitempty"`
}

type emitter struct{ w *bufio.Writer }

func newEmitter() *emitter { return &emitter{w: bufio.NewWriterSize(os.Stdout, 1<<20)} }

func (e *emitter) emit(op, id string, in interface{}, out interface{}) {
	c := map[string]interface{}{"op": op, "id": id, "in": in}
	if out != nil {
		c["out"] = out
	}
	b, err := json.Marshal(c)
	if err != nil {
		fmt.Fprintln(os.Stderr, "marshal:", err)
		os.Exit(3)
	}
	e.w.Write(b)
	e.w.WriteByte('\n')
}

func (e *emitter) flush() { e.w.Flush() }

func must(err error) {
	if err != nil {
		fmt.Fprintln(os.Stderr, "harness:", err)
		os.Exit(3)
	}
}
