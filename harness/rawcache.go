package main

// op "rawcache": scenarios around the byte cache (pkg/cache) and file-derived keys (pkg/cache/key)
// that the Action-cache histories of op "cache" do not reach (C14, C15).

import (
	"crypto/sha1"
	"encoding/json"
	"fmt"
	"os"
	"path/filepath"
	"time"

	"github.com/carapace-sh/carapace"
	pkgcache "github.com/carapace-sh/carapace/pkg/cache"
	"github.com/carapace-sh/carapace/pkg/cache/key"
)

type rawcacheIn struct {
	Kind string `json:"kind"` // big | reuse | filestats
	N    int    `json:"n"`    // big: entry size in bytes; filestats: sub-second offset in ms
}

func runRawcache(raw json.RawMessage) interface{} {
	var in rawcacheIn
	must(json.Unmarshal(raw, &in))
	dir, err := os.MkdirTemp("", "verif-rawcache")
	must(err)
	defer os.RemoveAll(dir)
	old := os.Getenv("XDG_CACHE_HOME")
	os.Setenv("XDG_CACHE_HOME", filepath.Join(dir, "cache"))
	defer os.Setenv("XDG_CACHE_HOME", old)
	out := map[string]interface{}{}
	sum := func(b []byte) string { return fmt.Sprintf("%x", sha1.Sum(b)) }
	switch in.Kind {
	case "big":
		// a complete entry of n bytes, read back within its lifetime
		content := make([]byte, in.N)
		for i := range content {
			content[i] = byte('a' + i%23)
		}
		calls := 0
		f := func() ([]byte, error) { calls++; return content, nil }
		w := pkgcache.Cache(100*time.Second, key.String("big"))
		call := func() ([]byte, error) { return w(f) } // one call site: the second call is a hit
		b1, e1 := call()
		b2, e2 := call()
		out["len1"], out["len2"], out["same1"], out["same2"], out["calls"] = len(b1), len(b2), sum(b1) == sum(content), sum(b2) == sum(content), calls
		out["err"] = fmt.Sprint(e1, e2)
	case "reuse":
		// one wrapper, applied to different functions at different source positions, same keys
		w := pkgcache.Cache(100*time.Second, key.String("shared"))
		users, _ := w(func() ([]byte, error) { return []byte("alice\nbob"), nil })
		groups, _ := w(func() ([]byte, error) { return []byte("wheel\nstaff"), nil })
		users2, _ := w(func() ([]byte, error) { return []byte("alice\nbob"), nil })
		out["users"], out["groups"], out["users2"] = string(users), string(groups), string(users2)
	case "filestats":
		// an entry keyed by a file's size and modification time; the file is rewritten with content of the same
		// length, its modification time moved by less than a second
		p := filepath.Join(dir, "data.txt")
		base := time.Now().Add(-time.Hour).Truncate(time.Second)
		write := func(s string, t time.Time) {
			must(os.WriteFile(p, []byte(s), 0o644))
			must(os.Chtimes(p, t, t))
		}
		mk := func(dirKey bool) carapace.Action {
			k := key.FileStats(p)
			if dirKey {
				k = key.FolderStats(dir)
			}
			return carapace.ActionCallback(func(c carapace.Context) carapace.Action {
				b, _ := os.ReadFile(p)
				return carapace.ActionValues(string(b))
			}).Cache(100*time.Second, k)
		}
		vals := func(a carapace.Action) []string {
			r := invokeSafe(a, carapace.Context{})
			v := []string{}
			for _, x := range r.Values {
				v = append(v, x.Value)
			}
			return v
		}
		write("alpha", base.Add(100*time.Millisecond))
		a := mk(false)
		out["first"] = vals(a)
		write("omega", base.Add(time.Duration(100+in.N)*time.Millisecond))
		out["second"] = vals(a)
		out["offsetMs"] = in.N
	}
	return out
}

func genRawcache(r *rng, tier string) interface{} {
	switch r.intn(6) {
	case 0, 1:
		return rawcacheIn{Kind: "big", N: pick(r, []int{0, 1, 100, 65536, 1<<20 - 1, 1 << 20, 1<<20 + 1, 3<<20 + 17, 1<<20 + r.intn(1000)})}
	case 2:
		return rawcacheIn{Kind: "reuse"}
	default:
		return rawcacheIn{Kind: "filestats", N: pick(r, []int{1, 10, 400, 500, 899, 1000, 2500})}
	}
}

func init() {
	ops["rawcache"] = &opDef{gen: genRawcache, run: runRawcache}
}
