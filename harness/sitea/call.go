// Package sitea: a call site of Action.Cache in a file with the same base name and on the same line as the one in the
// sibling package (C14: entries belong to the call site - full path and line -, not to the base name of its file).
package sitea

import (
	"runtime"
	"time"

	"github.com/carapace-sh/carapace"
	"github.com/carapace-sh/carapace/pkg/cache/key"
)

func Site(a carapace.Action, t time.Duration, keys ...key.Key) (carapace.Action, string, int) {
	_, f, l, _ := runtime.Caller(0); a = a.Cache(t, keys...) //nolint
	return a, f, l
}
