package main

// op "entry" (C18): the real entry point in a child process, under an ancestor process whose name
// selects the shell-specific branch (ps.DetermineShell), with arbitrary argv and environment.
// Observed: exit status, stdout, stderr, timeout.
//
// ops "compline", "trimdesc", "abs": the three functions with non-trivial slice arithmetic that the
// Lean side models with explicit panics, called in-process.

import (
	"bytes"
	"context"
	"encoding/json"
	"errors"
	"fmt"
	"os"
	"os/exec"
	"path/filepath"
	"strconv"
	"strings"
	"time"

	"github.com/carapace-sh/carapace"
	"github.com/spf13/cobra"
)

var cleanups []func()

type entryIn struct {
	Tree     treeSpec          `json:"tree"`
	Variant  int               `json:"variant"`  // which actions the positional slots get (see registerEntryActions)
	Ancestor string            `json:"ancestor"` // process name of the parent ("" = a name no shell is known by)
	Args     []string          `json:"args"`     // everything after `_carapace`; `\xNN` stands for the raw byte
	Env      map[string]string `json:"env"`      // same escaping
	Desc     string            `json:"desc"`     // the description of one of the registered values (same escaping)
	WB       string            `json:"wb,omitempty"` // word-break scenario: the word typed so far (the candidates are those of menu[14])
}

// unescapeBytes: `\xNN` -> byte
func unescapeBytes(s string) string {
	if !strings.Contains(s, `\x`) {
		return s
	}
	var b []byte
	for i := 0; i < len(s); i++ {
		if s[i] == '\\' && i+3 < len(s) && s[i+1] == 'x' {
			if v, err := strconv.ParseUint(s[i+2:i+4], 16, 8); err == nil {
				b = append(b, byte(v))
				i += 3
				continue
			}
		}
		b = append(b, s[i])
	}
	return string(b)
}

var entryFix string

func entryFixture() string {
	if entryFix == "" {
		d, err := os.MkdirTemp("", "verif-entry")
		must(err)
		cleanups = append(cleanups, func() { os.RemoveAll(d) })
		os.MkdirAll(filepath.Join(d, "home"), 0o755)
		w := filepath.Join(d, "work")
		os.MkdirAll(filepath.Join(w, "dir", "sub"), 0o755)
		os.WriteFile(filepath.Join(w, "a.txt"), []byte("x"), 0o644)
		os.WriteFile(filepath.Join(w, "sp ace.md"), []byte("x"), 0o644)
		os.WriteFile(filepath.Join(w, "dir", "in.go"), []byte("x"), 0o644)
		os.WriteFile(filepath.Join(w, "日本.txt"), []byte("x"), 0o644)
		// configuration directories: XDG_CONFIG_HOME=$FIX/cfg/<variant>
		for name, content := range map[string]string{
			"valid":     `{"carapace":{"Value":"red","Description":"blue"}}`,
			"trailing1": `{"carapace":{"Value":"red"}}}`,
			"trailing2": `{"carapace":{"Value":"red"}}{"x":{}}`,
			"trailing3": `{"carapace":{"Value":"red"}} trailing`,
			"truncated": `{"carapace":{"Value":`,
			"wrongtype": `{"carapace":5}`,
			"casekeys":  `{"carapace":{"Value":"red","value":"blue","VALUE":"green","Description":"yellow","description":"magenta"}}`,
		} {
			cd := filepath.Join(d, "cfg", name, "carapace")
			os.MkdirAll(cd, 0o755)
			os.WriteFile(filepath.Join(cd, "styles.json"), []byte(content), 0o644)
		}
		os.MkdirAll(filepath.Join(d, "named"), 0o755)
		os.WriteFile(filepath.Join(d, "named", "inside.txt"), []byte("x"), 0o644)
		entryFix = d
	}
	return entryFix
}

func shellLink(name string) string {
	exe, err := os.Executable()
	must(err)
	dir := filepath.Join(filepath.Dir(exe), "shells")
	os.MkdirAll(dir, 0o755)
	if name == "" {
		name = "plainparent"
	}
	p := filepath.Join(dir, name)
	if _, err := os.Lstat(p); err != nil {
		_ = os.Symlink("/bin/bash", p)
	}
	return p
}

func runEntry(raw json.RawMessage) interface{} {
	var in entryIn
	must(json.Unmarshal(raw, &in))
	fix := entryFixture()
	exe, err := os.Executable()
	must(err)
	// bash (every ancestor is one under another name) resets COMP_WORDBREAKS at start-up and does not export it; the snippet's
	// completion function exports it again - so does this script
	args := []string{"-c", `[ -n "${VERIF_COMP_WORDBREAKS+x}" ] && export COMP_WORDBREAKS="$VERIF_COMP_WORDBREAKS"; unset VERIF_COMP_WORDBREAKS; "$0" "$@"; echo "EXIT:$?" >&2`, exe, "entry-child"}
	for _, a := range in.Args {
		args = append(args, unescapeBytes(a))
	}
	ctx, cancel := context.WithTimeout(context.Background(), 20*time.Second)
	defer cancel()
	cmd := exec.CommandContext(ctx, shellLink(in.Ancestor), args...)
	spec, _ := json.Marshal(map[string]interface{}{"tree": in.Tree, "variant": in.Variant, "desc": in.Desc})
	env := []string{"PATH=/usr/bin:/bin", "HOME=" + filepath.Join(fix, "home"), "VERIF_TREE=" + string(spec), "VERIF_FIXTURE=" + fix, "GOTRACEBACK=single", "GOMEMLIMIT=1GiB"}
	for k, v := range in.Env {
		v = strings.ReplaceAll(unescapeBytes(v), "$FIX", fix)
		if !strings.ContainsRune(v, 0) && !strings.ContainsAny(k, "=\x00") && k != "" {
			env = append(env, k+"="+v)
			if k == "COMP_WORDBREAKS" {
				env = append(env, "VERIF_COMP_WORDBREAKS="+v)
			}
		}
	}
	cmd.Env = env
	cmd.Dir = filepath.Join(fix, "work")
	var so, se bytes.Buffer
	cmd.Stdout = &so
	cmd.Stderr = &se
	cmd.WaitDelay = time.Second
	rerr := cmd.Run()
	// a configuration whose keys collide: the same call again must give the same bytes
	stdout2 := ""
	if strings.Contains(in.Env["XDG_CONFIG_HOME"], "casekeys") {
		for k := 0; k < 6 && (stdout2 == "" || stdout2 == so.String()); k++ {
			c2 := exec.Command(shellLink(in.Ancestor), args...)
			c2.Env, c2.Dir = env, cmd.Dir
			b, _ := c2.Output()
			stdout2 = string(b)
		}
	}
	timedOut := errors.Is(ctx.Err(), context.DeadlineExceeded)
	exit := -1
	stderr := se.String()
	if i := strings.LastIndex(stderr, "EXIT:"); i >= 0 {
		if n, err := strconv.Atoi(strings.TrimSpace(stderr[i+5:])); err == nil {
			exit = n
		}
		stderr = stderr[:i]
	}
	if len(stderr) > 3000 {
		stderr = stderr[:3000]
	}
	stdout := so.String()
	truncated := false
	if len(stdout) > 1<<20 {
		stdout, truncated = stdout[:1<<20], true
	}
	runErr := ""
	if rerr != nil {
		runErr = rerr.Error()
	}
	return map[string]interface{}{"exit": exit, "stdout": strings.ReplaceAll(stdout, fix, "$FIX"), "stderr": strings.ReplaceAll(stderr, fix, "$FIX"), "timedOut": timedOut, "truncated": truncated, "runErr": runErr, "repeatDiffers": stdout2 != "" && stdout2 != so.String()}
}

// ---- the child

func registerEntryActions(spec treeSpec, cmds []*cobra.Command, variant int, desc string) {
	fix := os.Getenv("VERIF_FIXTURE")
	menu := []func(i int) carapace.Action{
		func(i int) carapace.Action { return carapace.ActionValues(marker(i, "posAny")) },
		func(i int) carapace.Action { return carapace.ActionFiles() },
		func(i int) carapace.Action { return carapace.ActionDirectories() },
		func(i int) carapace.Action {
			return carapace.ActionExecCommand("sh", "-c", "echo boom >&2; exit 3")(func(output []byte) carapace.Action {
				return carapace.ActionValues(strings.Fields(string(output))...)
			})
		},
		func(i int) carapace.Action {
			return carapace.ActionCallback(func(c carapace.Context) carapace.Action {
				return carapace.ActionMessage("callback failed for " + c.Value)
			})
		},
		func(i int) carapace.Action {
			return carapace.ActionMultiParts("/", func(c carapace.Context) carapace.Action {
				return carapace.ActionValues("a", "b", "c").Suffix("/")
			})
		},
		func(i int) carapace.Action {
			return carapace.ActionValuesDescribed("long", strings.Repeat("日本語の説明 ", 9), "multi", "first line\nsecond line", "given", unescapeBytes(desc), "plain", strings.Repeat("x", 100))
		},
		func(i int) carapace.Action {
			return carapace.ActionStyledValuesDescribed("s1", "styled", "red", "s2", "other", "bold blue").Tag("styled values").Usage("usage %v", "text")
		},
		func(i int) carapace.Action {
			return carapace.ActionMultiPartsN(":", 2, func(c carapace.Context) carapace.Action {
				if len(c.Parts) == 0 {
					return carapace.ActionValues("user", "group").Suffix(":")
				}
				return carapace.ActionFiles().Chdir(filepath.Join(fix, "work"))
			})
		},
		func(i int) carapace.Action {
			return carapace.Batch(carapace.ActionValues("b1", "b2"), carapace.ActionMessage("batch message"), carapace.ActionFiles(".txt")).ToA().Prefix("p:").UniqueList(",")
		},
		func(i int) carapace.Action { return carapace.ActionExecCommand("no-such-command-anywhere")(func(output []byte) carapace.Action { return carapace.ActionValues() }) },
		// external commands that fail without a word on stderr, or with line breaks only
		func(i int) carapace.Action {
			return carapace.ActionExecCommand("sh", "-c", "exit 3")(func(output []byte) carapace.Action { return carapace.ActionValues("unreachable") })
		},
		func(i int) carapace.Action {
			return carapace.ActionExecCommand("sh", "-c", "printf '\\n\\n' >&2; echo out; exit 1")(func(output []byte) carapace.Action { return carapace.ActionValues("unreachable") })
		},
		func(i int) carapace.Action { return carapace.ActionImport([]byte("{not json")) },
		// values with characters bash may or may not break words at (menu[14], used by the word-break scenario)
		func(i int) carapace.Action {
			return carapace.ActionValues("user@host", "user@home", "ns:pod", "ns:port", "key=v1", "key=v2", "plain")
		},
	}
	for i, cs := range spec.Cmds {
		g := carapace.Gen(cmds[i])
		am := carapace.ActionMap{}
		for k, f := range cs.Flags {
			if f.Kind != "bool" && f.Kind != "count" {
				am[f.Name] = menu[(variant+i+k+1)%len(menu)](i)
			}
		}
		if len(am) > 0 {
			g.FlagCompletion(am)
		}
		pos := []carapace.Action{}
		for k := 0; k < cs.NPos; k++ {
			pos = append(pos, menu[(variant+i+k)%len(menu)](i))
		}
		if len(pos) > 0 {
			g.PositionalCompletion(pos...)
		}
		if cs.PosAny {
			g.PositionalAnyCompletion(menu[(variant+i+3)%len(menu)](i))
		}
		if cs.NDash > 0 {
			g.DashCompletion(menu[(variant+i+5)%len(menu)](i))
		}
		if cs.DashAny {
			g.DashAnyCompletion(menu[(variant+i+7)%len(menu)](i))
		}
	}
}

func entryChild(args []string) {
	var spec struct {
		Tree    treeSpec `json:"tree"`
		Variant int      `json:"variant"`
		Desc    string   `json:"desc"`
	}
	must(json.Unmarshal([]byte(os.Getenv("VERIF_TREE")), &spec))
	os.Unsetenv("VERIF_TREE")
	// a case the shrinker broke (no root command, dangling parent) is not an input of the program
	for i, c := range spec.Tree.Cmds {
		if (i == 0) != (c.Parent < 0) || c.Parent >= i || c.Name == "" {
			spec.Tree.Cmds = nil
		}
	}
	if len(spec.Tree.Cmds) == 0 {
		fmt.Fprintln(os.Stderr, "INVALID-CASE")
		return
	}
	rec := runRecord{}
	cmds := buildTree(spec.Tree, &rec)
	registerEntryActions(spec.Tree, cmds, spec.Variant, spec.Desc)
	root := cmds[0]
	root.SetArgs(append([]string{"_carapace"}, args...))
	if err := root.Execute(); err != nil {
		fmt.Fprintln(os.Stderr, "execute:", err.Error())
		os.Exit(1)
	}
}

// ---- generators

var entryShells = []string{"bash", "bash-ble", "cmd-clink", "elvish", "export", "fish", "ion", "nushell", "oil", "powershell", "tcsh", "xonsh", "zsh"}
var entryAncestors = []string{"bash", "bash", "bash", "nu", "cmd", "zsh", "fish", "elvish", "pwsh", "xonsh", "tcsh", "osh", "ion", ""}

func genNastyWord(r *rng) string {
	switch r.intn(16) {
	case 0:
		return ""
	case 1:
		return "-"
	case 2:
		return "--"
	case 3:
		return pick(r, []string{`"open`, `'open`, `"a b`, `'`, `"`, "`tick", `a\`, `\`, `$(`, "${x", `"\`, "`", "``", "`a b`", "`a`b`", "'a", "\"\"", "''"})
	case 4:
		return pick(r, []string{`\xff`, `\xc3`, `a\xffb`, `\xe6\x97`, `--\xff`, `-\xfe`, `\xf0\x9f`, `\xed\xa0\x80`, `\xc0\xaf`})
	case 5:
		return strings.Repeat(pick(r, []string{"a", "日", "-", "/", "é", `\xff`, "a/", ","}), 200+r.intn(6000))
	case 6:
		return pick(r, []string{"~", "~/", "~named", "~named/", "~named/in", "~nobody", "~nobody/x", "~/x", "~~", "~named//"})
	case 7:
		return pick(r, []string{"dir/", "dir//", "./", "../", "/", "a.txt", "sp ", "dir/su", "日", "/nonexistent/x", "dir/../", "."})
	case 8:
		return pick(r, []string{"=", "-=", "--=", "--=x", "-x=", "--x=", "-\t", "- ", "--\n", "-\x01"})
	case 9:
		return pick(r, []string{"a:", ":", "user:", "user:a", "a/b/", "/", "a//", "p:b1,", "p:b1,p:", ",", "p:"})
	case 10:
		return pick(r, []string{"\t", "\n", "\r", "\x01", "\x02\x03", "\x1c", "\x1b[31m", "a\tb", "a\nb", " ", "  "})
	case 11:
		return pick(r, []string{">", ">>", "2>", "|", "&&", ";", "<", ">out", "a>b", "|x", "&", "2>&1"})
	case 12:
		return pick(r, []string{"_", "_c", "_carapace", "ERR", "_E", "ER", "E"})
	default:
		return ""
	}
}

// genEntryWordbreak: bash completes only the part of the word behind the last COMP_WORDBREAKS character - the list
// the user's bash really uses (from the environment), which may contain `@` or lack `:`
func genEntryWordbreak(r *rng) entryIn {
	t := treeSpec{Cmds: []cmdSpec{{Name: "root", Parent: -1, Interspersed: true, NPos: 1}}}
	in := entryIn{Tree: t, Variant: 14, Ancestor: "bash", Env: map[string]string{}, Desc: "plain text"}
	in.WB = pick(r, []string{"user@ho", "user@", "ns:po", "ns:", "key=v", "key=", "pl", "user", "ns"})
	line := "root " + in.WB
	in.Args = []string{"bash", "root", in.WB}
	in.Env["COMP_LINE"] = line
	in.Env["COMP_POINT"] = itoa(len(line))
	in.Env["COMP_TYPE"] = pick(r, []string{"9", "9", "33", "63"})
	if wb := pick(r, []string{"\"'@><=;|&(:", "\"'><=;|&(", " \t\n\"'><=;|&(:", "@", "=", "unset"}); wb != "unset" {
		in.Env["COMP_WORDBREAKS"] = wb
	}
	return in
}

func genEntry(r *rng, tier string) interface{} {
	if r.chance(4) {
		return genEntryWordbreak(r)
	}
	t := genTree(r)
	if r.chance(8) {
		// the trees of C01 with the fork's features: several words per flag, custom delimiters, non-POSIX flag sets,
		// tolerated unknown flags - with the words those generators build, through the real entry point
		var pi parseIn
		switch r.intn(3) {
		case 0:
			pi = genParseFork(r, t)
		case 1:
			pi = genParseNonPosix(r, t)
		default:
			pi = genParseUnknown(r, t)
		}
		in := entryIn{Tree: pi.Tree, Variant: r.intn(64), Env: map[string]string{}, Desc: "plain text"}
		in.Ancestor = pick(r, entryAncestors)
		in.Args = append([]string{pick(r, entryShells), pi.Tree.Cmds[0].Name}, pi.Words...)
		if r.chance(30) {
			in.Args[len(in.Args)-1] = pick(r, []string{"-", "--", "-\xff", "-delim:", "--files=", "-=", "-:", "--color:"})
		}
		return in
	}
	in := entryIn{Tree: t, Variant: r.intn(64), Env: map[string]string{}}
	in.Ancestor = pick(r, entryAncestors)
	in.Desc = pick(r, []string{"plain text", "plain text", "a\tb", "x\x1cy", "two\nlines", "日本語", "\x01\x02\x03", `\xff\xfe`, "", " ", "a: b", "'q' \"dq\" $v `t`", strings.Repeat("é", 90)})
	// the words: a plausible line for the tree, with nasty words mixed in
	words := []string{}
	cur := 0
	n := r.intn(5)
	for k := 0; k < n; k++ {
		fl := flagsOf(t, cur)
		switch c := r.intn(10); {
		case c < 2:
			if ch := childrenOf(t, cur); len(ch) > 0 {
				cur = pick(r, ch)
				words = append(words, t.Cmds[cur].Name)
			}
		case c < 4 && len(fl) > 0:
			f := pick(r, fl)
			words = append(words, "--"+f.Name)
			if f.Kind == "string" || f.Kind == "stringSlice" {
				if r.chance(70) {
					words = append(words, "v")
				}
			}
		case c < 5 && len(fl) > 0:
			f := pick(r, fl)
			if f.Short != "" {
				words = append(words, "-"+f.Short)
			}
		case c < 6:
			words = append(words, "arg"+itoa(k))
		case c < 7:
			words = append(words, "--")
		default:
			words = append(words, genNastyWord(r))
		}
	}
	// the current word
	switch c := r.intn(10); {
	case c < 2:
		words = append(words, "")
	case c < 3:
		words = append(words, pick(r, []string{"-", "--", "a", "M", "ar"}))
	case c < 4 && len(flagsOf(t, cur)) > 0:
		f := pick(r, flagsOf(t, cur))
		words = append(words, pick(r, []string{"--" + f.Name + "=", "--" + f.Name, "-" + f.Short, "-" + f.Short + "=", "--" + f.Name + "=" + genNastyWord(r)}))
	default:
		words = append(words, genNastyWord(r))
	}
	if in.Ancestor == "nu" && r.chance(40) {
		// what nushell hands over for words that open (or are nothing but) a quote: its patch strips quotes and backticks
		q := pick(r, []string{"`", "``", "`a b", "`a b`", "`a`b`", "\"", "\"\"", "\"open", "'", "''", "'open"})
		if r.chance(50) && len(words) > 1 {
			words[r.intn(len(words))] = q
		} else {
			words[len(words)-1] = q
		}
	}
	shell := pick(r, entryShells)
	switch c := r.intn(40); {
	case c == 0:
		in.Args = []string{} // snippet for the detected shell
	case c == 1:
		in.Args = []string{pick(r, append(entryShells, "nosuchshell", "", `\xff`))}
	case c == 2:
		in.Args = []string{shell, t.Cmds[0].Name} // no word at all
	case c == 3:
		in.Args = append([]string{pick(r, []string{"nosuchshell", "", "BASH", `\xff`, "bash ", "zsh\n"}), t.Cmds[0].Name}, words...)
	case c == 4:
		in.Args = append([]string{shell, genNastyWord(r)}, words...) // odd program name
	default:
		in.Args = append([]string{shell, t.Cmds[0].Name}, words...)
	}
	// the environment
	line := t.Cmds[0].Name + " " + strings.Join(words, " ")
	if r.chance(50) || in.Ancestor == "bash" {
		switch r.intn(8) {
		case 0:
			in.Env["COMP_LINE"] = line
			in.Env["COMP_POINT"] = itoa(len(unescapeBytes(line)))
		case 1:
			in.Env["COMP_LINE"] = line
			in.Env["COMP_POINT"] = pick(r, []string{"-1", "0", "1", "-0", "+3", "99999", "abc", "", "9223372036854775808", "-9223372036854775808", " 3", "3 ", "0x3", "1e2", itoa(r.intn(len(line) + 2))})
		case 2:
			in.Env["COMP_LINE"] = pick(r, []string{"", " ", "|", "a |", "a | ", "a >", "a > ", "a >x", "& >> ", "&", "a & ", "a | > x", "; >", "a && 2> ", ">", ">> ", "a ; > x ", `a "`, `a '`, `a \`, "a;", "a &&", `a "b c`, `\xff`, "a \xe6", "a 2>", "a $(", "a `", "a b c d e f"}) + pick(r, []string{"", " ", "x"})
			in.Env["COMP_POINT"] = itoa(r.intn(12))
		case 3:
			in.Env["COMP_LINE"] = line + pick(r, []string{" > ", " >", " | ", " 2> x", ` "`, ` '`, " \\"})
			in.Env["COMP_POINT"] = itoa(len(unescapeBytes(line)) + r.intn(4))
		case 4:
			in.Env["COMP_LINE"] = line
		case 5:
			in.Env["COMP_POINT"] = "3"
		default:
			in.Env["COMP_LINE"] = line
			in.Env["COMP_POINT"] = itoa(r.intn(len(line) + 1))
		}
		if r.chance(40) {
			in.Env["COMP_TYPE"] = pick(r, []string{"9", "33", "37", "63", "64", "", "x", "-1"})
		}
		if r.chance(40) {
			in.Env["COMP_WORDBREAKS"] = pick(r, []string{"\"'><=;|&(:", "", ":", " ", "=:", "\n", `\xff`, "日"})
		}
	}
	if r.chance(25) || in.Ancestor == "cmd" {
		in.Env["CARAPACE_COMPLINE"] = pick(r, []string{line, line + " ", "", " ", `a "`, "a |", "a | b ", `\xff`, line + ` "x`, "a > ",
			// lines whose current pipeline has no word of the command: only an operator, only a redirect
			"& >> ", "&", "a & ", "a | > x", "; >", "a && 2> ", ">", ">> ", "a ; > x ", "|", "a |", "a | "})
	}
	if r.chance(25) {
		in.Env["CARAPACE_MATCH"] = pick(r, []string{"0", "1", "CASE_INSENSITIVE", "", "2", "x", "-1"})
	}
	if r.chance(35) {
		in.Env["CARAPACE_ZSH_HASH_DIRS"] = pick(r, []string{"named=$FIX/named", "named=$FIX/named/", "named=", "=x", "named", "\n\n", "named=$FIX/named\nother=/nonexistent", "named==", `\xff=\xff`, "a=b=c"})
	}
	if r.chance(15) {
		in.Env["NO_COLOR"] = pick(r, []string{"1", "", "0"})
	}
	if r.chance(10) {
		in.Env["CARAPACE_HIDDEN"] = pick(r, []string{"1", "2", "", "x"})
	}
	if r.chance(10) {
		in.Env["CARAPACE_LENIENT"] = pick(r, []string{"1", "", "x"})
	}
	if r.chance(10) {
		in.Env["CARAPACE_UNFILTERED"] = pick(r, []string{"1", "", "x"})
	}
	if r.chance(8) {
		in.Env["CARAPACE_COVERDIR"] = pick(r, []string{"", "/nonexistent"})
	}
	if r.chance(8) {
		in.Env["CARAPACE_LOG"] = pick(r, []string{"1", "", "x"})
	}
	if r.chance(8) {
		in.Env["CARAPACE_TOOLTIP"] = pick(r, []string{"1", "", "x"})
	}
	if r.chance(8) {
		in.Env["CARAPACE_SANDBOX"] = pick(r, []string{"", "{", "{}", `{"files":{}}`, "x"})
	}
	if in.Ancestor == "bash" && r.chance(15) {
		in.Env["_ble_util_fd_null"] = "3"
	}
	if r.chance(5) {
		in.Env["HOME"] = pick(r, []string{"", "/nonexistent", "relative"})
	}
	if r.chance(5) {
		in.Env["XDG_CONFIG_HOME"] = pick(r, []string{"", "/nonexistent", "relative", "$FIX/work/a.txt"})
	}
	if r.chance(12) {
		in.Env["XDG_CONFIG_HOME"] = "$FIX/cfg/" + pick(r, []string{"valid", "trailing1", "trailing2", "trailing3", "truncated", "wrongtype", "casekeys", "casekeys"})
		delete(in.Env, "NO_COLOR")
	}
	return in
}

// ---- in-process ops for the modelled functions

type complineIn struct {
	Line    *string `json:"line"` // nil = unset; `\xNN` escapes
	Point   *string `json:"point"`
}

func hexOf(s string) string { return fmt.Sprintf("%x", s) }

func runCompline(raw json.RawMessage) interface{} {
	var in complineIn
	must(json.Unmarshal(raw, &in))
	os.Unsetenv("COMP_LINE")
	os.Unsetenv("COMP_POINT")
	if in.Line != nil {
		os.Setenv("COMP_LINE", unescapeBytes(*in.Line))
	}
	if in.Point != nil {
		os.Setenv("COMP_POINT", *in.Point)
	}
	defer os.Unsetenv("COMP_LINE")
	defer os.Unsetenv("COMP_POINT")
	out := map[string]interface{}{}
	func() {
		defer func() {
			if p := recover(); p != nil {
				out["panic"] = fmt.Sprint(p)
			}
		}()
		s, ok := carapace.VerifBashCompLine()
		out["hex"], out["ok"] = hexOf(s), ok
	}()
	if in.Line != nil {
		out["lineHex"] = hexOf(unescapeBytes(*in.Line))
	}
	return out
}

func genCompline(r *rng, tier string) interface{} {
	in := complineIn{}
	if !r.chance(5) {
		l := pick(r, []string{"", "a", "prog a b", "prog 日本 x", `prog \xff\xfe`, "prog é", strings.Repeat("ab ", r.intn(30))})
		in.Line = &l
	}
	if !r.chance(5) {
		n := 0
		if in.Line != nil {
			n = len(unescapeBytes(*in.Line))
		}
		p := pick(r, []string{"-1", "0", "-0", "+1", "1", itoa(n), itoa(n + 1), itoa(n - 1), itoa(r.intn(n + 3)), "-" + itoa(r.intn(5)), "", "x", "1x", " 1", "9223372036854775807", "9223372036854775808", "-9223372036854775808", "-9223372036854775809", "00" + itoa(r.intn(4)), "+", "-", "１", "1_0"})
		in.Point = &p
	}
	return in
}

type trimdescIn struct {
	Description string `json:"description"`
}

func runTrimdesc(raw json.RawMessage) interface{} {
	var in trimdescIn
	must(json.Unmarshal(raw, &in))
	out := map[string]interface{}{}
	func() {
		defer func() {
			if p := recover(); p != nil {
				out["panic"] = fmt.Sprint(p)
			}
		}()
		out["trimmed"] = carapace.VerifRawValue{Description: in.Description}.TrimmedDescription()
	}()
	return out
}

func genTrimdesc(r *rng, tier string) interface{} {
	unit := pick(r, []string{"a", "日", "é", "😀", " ", "ab c", "x\t"})
	n := r.intn(100)
	if r.chance(40) {
		n = 70 + r.intn(20) // around the limit
	}
	d := strings.Repeat(unit, n)
	if len([]rune(d)) > 130 {
		d = string([]rune(d)[:130])
	}
	switch r.intn(6) {
	case 0:
		d = " " + d + "  "
	case 1:
		d = d + "\nsecond line " + strings.Repeat("z", r.intn(90))
	case 2:
		d = "\n" + d
	case 3:
		d = d + pick(r, []string{" ", " ", "\t\r"})
	}
	return trimdescIn{Description: d}
}

type absIn struct {
	Named map[string]string `json:"named"`
	Dir   string            `json:"dir"`
	Path  string            `json:"path"`
	Home  string            `json:"home"`
}

func runAbs(raw json.RawMessage) interface{} {
	var in absIn
	must(json.Unmarshal(raw, &in))
	carapace.VerifZshNamedDirectories(in.Named)
	defer carapace.VerifZshNamedDirectories(map[string]string{})
	old, had := os.LookupEnv("HOME")
	os.Setenv("HOME", in.Home)
	defer func() {
		if had {
			os.Setenv("HOME", old)
		} else {
			os.Unsetenv("HOME")
		}
	}()
	out := map[string]interface{}{}
	func() {
		defer func() {
			if p := recover(); p != nil {
				out["panic"] = fmt.Sprint(p)
			}
		}()
		cwd, _ := os.Getwd()
		out["cwd"] = cwd
		named := [][2]string{}
		for k, v := range in.Named {
			named = append(named, [2]string{k, v})
		}
		out["named"] = named
		s, err := carapace.Context{Dir: in.Dir}.Abs(in.Path)
		out["abs"] = s
		if err != nil {
			out["err"] = err.Error()
		}
	}()
	return out
}

func genAbs(r *rng, tier string) interface{} {
	in := absIn{Named: map[string]string{}, Home: pick(r, []string{"/home/u", "/home/u", "/", "/h/"}), Dir: pick(r, []string{"", "/w", "/w/", "rel", "/w/../x"})}
	if r.chance(70) {
		in.Named["proj"] = pick(r, []string{"/srv/proj", "/srv/proj/", "/", "p"})
	}
	if r.chance(20) {
		in.Named[""] = "/empty"
	}
	if r.chance(20) {
		in.Named["a/b"] = "/slash"
	}
	in.Path = pick(r, []string{"~", "~/", "~/x", "~proj", "~proj/", "~proj/a/b", "~proj//", "~other", "~other/x", "~/~proj/", "~~", "~/../x", "x", "x/y/", "/abs/p/", "/abs/../p", "", ".", "./", "../", "~proj/..", "~/.", "~a/b/c", "~/", "~" + pick(r, []string{"", "p", "proj", "proj/"}) + pick(r, []string{"", "/", "x", "/x/"})})
	return in
}

func init() {
	ops["entry"] = &opDef{gen: genEntry, run: runEntry}
	ops["entrywb"] = &opDef{gen: func(r *rng, tier string) interface{} { return genEntryWordbreak(r) }, run: runEntry}
	ops["compline"] = &opDef{gen: genCompline, run: runCompline}
	ops["trimdesc"] = &opDef{gen: genTrimdesc, run: runTrimdesc}
	ops["abs"] = &opDef{gen: genAbs, run: runAbs}
	subcommands["entry-child"] = entryChild
}
