// Harness: links the real carapace packages from /repo (built with -tags verif).
//
//	harness gen <op> --seed S --n N [--tier quick|thorough]   writes input cases (no "out")
//	harness run                                                reads cases on stdin, runs the real code, writes cases with "out"
package main

import (
	"bufio"
	"encoding/json"
	"flag"
	"fmt"
	"os"
)

type opDef struct {
	gen func(r *rng, tier string) interface{}
	run func(in json.RawMessage) interface{}
}

var ops = map[string]*opDef{}

func main() {
	if len(os.Args) < 2 {
		fmt.Fprintln(os.Stderr, "usage: harness gen|run ...")
		os.Exit(2)
	}
	switch os.Args[1] {
	case "gen":
		fs := flag.NewFlagSet("gen", flag.ExitOnError)
		seed := fs.Uint64("seed", 1, "seed")
		n := fs.Int("n", 1000, "cases")
		tier := fs.String("tier", "quick", "tier")
		start := fs.Int("start", 0, "first index")
		if len(os.Args) < 3 {
			fmt.Fprintln(os.Stderr, "usage: harness gen <op> ...")
			os.Exit(2)
		}
		op := os.Args[2]
		fs.Parse(os.Args[3:])
		def, ok := ops[op]
		if !ok || def.gen == nil {
			fmt.Fprintln(os.Stderr, "unknown op", op)
			os.Exit(2)
		}
		e := newEmitter()
		for i := *start; i < *start+*n; i++ {
			r := newRng(*seed, op, uint64(i))
			e.emit(op, fmt.Sprintf("%d:%d", *seed, i), def.gen(r, *tier), nil)
		}
		e.flush()
	case "run":
		sc := bufio.NewScanner(os.Stdin)
		sc.Buffer(make([]byte, 1<<20), 1<<28)
		e := newEmitter()
		for sc.Scan() {
			line := sc.Bytes()
			if len(line) == 0 {
				continue
			}
			var c Case
			must(json.Unmarshal(line, &c))
			def, ok := ops[c.Op]
			if !ok || def.run == nil {
				fmt.Fprintln(os.Stderr, "unknown op", c.Op)
				os.Exit(2)
			}
			if os.Getenv("VERIF_MARK") != "" {
				fmt.Fprintf(os.Stderr, "\nCASE %s\n", c.ID)
			}
			out := safeRun(def, c.In)
			e.emit(c.Op, c.ID, c.In, out)
			e.flush()
		}
		for _, f := range cleanups {
			f()
		}
	default:
		if f, ok := subcommands[os.Args[1]]; ok {
			f(os.Args[2:])
			return
		}
		fmt.Fprintln(os.Stderr, "unknown command", os.Args[1])
		os.Exit(2)
	}
}

var subcommands = map[string]func(args []string){}

func safeRun(def *opDef, in json.RawMessage) (out interface{}) {
	defer func() {
		if p := recover(); p != nil {
			out = map[string]interface{}{"panic": fmt.Sprint(p)}
		}
	}()
	return def.run(in)
}
