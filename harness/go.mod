module verif/harness

go 1.23

require (
	github.com/carapace-sh/carapace v0.0.0
	github.com/carapace-sh/carapace-shlex v1.0.1
	github.com/spf13/cobra v1.9.1
	github.com/spf13/pflag v1.0.6
)

require gopkg.in/yaml.v3 v3.0.1 // indirect

replace github.com/carapace-sh/carapace => /repo

replace github.com/spf13/pflag => github.com/carapace-sh/carapace-pflag v1.0.0
