package main

import (
	"encoding/json"
	"os"
	"path/filepath"
	"strings"

	"github.com/carapace-sh/carapace"
	shlex "github.com/carapace-sh/carapace-shlex"
)

// ---- op "split": Action.Split / SplitP on an embedded command line (C17)

type splitIn struct {
	Text      string   `json:"text"`
	Pipelines bool     `json:"pipelines"`
	Values    []string `json:"values"`
	Nospace   string   `json:"nospace"` // "" = none, else NoSpace(runes...)
}

type lexInfo struct {
	Err           string   `json:"err,omitempty"`
	Words         []string `json:"words"`         // what the wrapped action must see (args + value)
	WordsCurIndex int      `json:"wordsCurIndex"` // Index of tokens.Words().CurrentToken()
	CurIndex      int      `json:"curIndex"`      // Index of tokens.CurrentToken()
	CurValue      string   `json:"curValue"`
	CurState      string   `json:"curState"`
	NTokens       int      `json:"ntokens"`
	PrevRedirect  bool     `json:"prevRedirect"`
}

func lexWords(text string, pipelines bool) ([]string, error) {
	tokens, err := shlex.Split(text)
	if err != nil {
		return nil, err
	}
	if pipelines {
		return tokens.CurrentPipeline().FilterRedirects().Words().Strings(), nil
	}
	return tokens.Words().Strings(), nil
}

var splitDir string

func splitScratch() string {
	if splitDir == "" {
		d, err := os.MkdirTemp("", "verif-split")
		must(err)
		os.WriteFile(filepath.Join(d, "file1.txt"), []byte("x"), 0o644)
		os.WriteFile(filepath.Join(d, "out.log"), []byte("x"), 0o644)
		os.Mkdir(filepath.Join(d, "sub"), 0o755)
		splitDir = d
	}
	return splitDir
}

func runSplit(raw json.RawMessage) interface{} {
	var in splitIn
	must(json.Unmarshal(raw, &in))
	carapace.VerifSetMatch(false)
	out := map[string]interface{}{}
	// what the lexer (a dependency) says: inputs of the model, and the oracle's notion of "words"
	li := lexInfo{Words: []string{}}
	tokens, err := shlex.Split(in.Text)
	if err != nil {
		li.Err = err.Error()
	} else {
		if in.Pipelines {
			tokens = tokens.CurrentPipeline()
			li.Words = tokens.FilterRedirects().Words().Strings()
		} else {
			li.Words = tokens.Words().Strings()
		}
		li.WordsCurIndex = tokens.Words().CurrentToken().Index
		li.CurIndex = tokens.CurrentToken().Index
		li.CurValue = tokens.CurrentToken().Value
		sb, _ := json.Marshal(tokens.CurrentToken().State)
		json.Unmarshal(sb, &li.CurState)
		li.NTokens = len(tokens)
		li.PrevRedirect = len(tokens) > 1 && tokens[len(tokens)-2].WordbreakType.IsRedirect()
	}
	out["lex"] = li

	var seenArgs []string
	seenValue := ""
	seen := false
	inner := carapace.ActionCallback(func(c carapace.Context) carapace.Action {
		seen = true
		seenArgs = append([]string{}, c.Args...)
		seenValue = c.Value
		return carapace.ActionValues(in.Values...)
	})
	if in.Nospace != "" {
		inner = inner.NoSpace([]rune(in.Nospace)...)
	}
	var a carapace.Action
	if in.Pipelines {
		a = inner.SplitP()
	} else {
		a = inner.Split()
	}
	res := invokeSafe(a, carapace.Context{Value: in.Text, Dir: splitScratch()})
	out["result"] = res
	out["seen"] = seen
	out["seenArgs"] = seenArgs
	out["seenValue"] = seenValue
	// re-read every candidate with the same lexer
	relex := []interface{}{}
	for _, v := range res.Values {
		w, err := lexWords(v.Value, in.Pipelines)
		if err != nil {
			relex = append(relex, map[string]interface{}{"err": err.Error()})
		} else {
			relex = append(relex, map[string]interface{}{"words": w})
		}
	}
	out["relex"] = relex
	return out
}

func genSplit(r *rng, tier string) interface{} {
	in := splitIn{Pipelines: r.chance(40)}
	nonASCII := r.chance(15)
	word := func() string {
		if nonASCII && r.chance(40) {
			return pick(r, []string{"é", "日本", "aé"})
		}
		return pick(r, []string{"cmd", "pos1", "--flag", "a", "b c", "val", "x=y", "k:v", "sub/dir", "-"})
	}
	n := r.intn(4)
	var b strings.Builder
	for i := 0; i < n; i++ {
		w := word()
		switch r.intn(6) {
		case 0:
			b.WriteString("\"" + w + "\"")
		case 1:
			b.WriteString("'" + w + "'")
		case 2:
			b.WriteString(strings.ReplaceAll(w, " ", "\\ "))
		default:
			b.WriteString(strings.ReplaceAll(w, " ", ""))
		}
		b.WriteString(pick(r, []string{" ", " ", " ", "  ", "\t"}))
		if in.Pipelines && r.chance(20) {
			b.WriteString(pick(r, []string{"| ", "; ", "&& ", "> ", "2> ", ">", "|", "< ", ">>"}))
		}
	}
	// the last (partial) word
	last := pick(r, []string{"", "", "v", "va", "val", "tw", "two w", "di", "x"})
	if nonASCII && r.chance(30) {
		last = "é"
	}
	switch r.intn(6) {
	case 0:
		b.WriteString("\"" + last)
	case 1:
		b.WriteString("'" + last)
	case 2:
		b.WriteString(strings.ReplaceAll(last, " ", "\\ "))
	default:
		b.WriteString(strings.ReplaceAll(last, " ", ""))
	}
	in.Text = b.String()
	if in.Pipelines && r.chance(12) {
		// a redirection target: the operator first in the segment, after a word, after a file descriptor
		in.Text = pick(r, []string{"", "cmd | ", "cmd ; ", "a b "}) + pick(r, []string{">", "> ", "pos1>", "pos1 > ", "2> ", "pos1 2>", ">>", "< "}) + pick(r, []string{"", "out.", "fi", "s", "zz"})
	}
	pool := []string{"val", "value", "two words", "dir/", "é x", "v", "tw", "a b c", "file.txt", "x-y", "50€", "v€", "va¬", "5 0€"}
	if r.chance(20) {
		// blanks in unusual places: runs of blanks, a leading or a trailing blank
		pool = append(pool, "two  words", "va  lue", " val", "val ", " v ", "a   b")
	}
	k := 1 + r.intn(4)
	for i := 0; i < k; i++ {
		in.Values = append(in.Values, pick(r, pool))
	}
	in.Nospace = pick(r, []string{"", "", "/", "s", "*", "/l", "€", "¬", "€/"})
	return in
}

func init() {
	ops["split"] = &opDef{gen: genSplit, run: runSplit}
}
